package c15_test

import (
	"testing"

	"github.com/gopher-fleece/gleece/v2/core/metadata"
	"github.com/gopher-fleece/gleece/v2/core/validators/paths"
)

func entry(name, method, path string) paths.RouteEntry {
	return paths.RouteEntry{Path: path, Method: method, Meta: paths.RouteEntryMeta{Receiver: &metadata.ReceiverMeta{SymNodeMeta: metadata.SymNodeMeta{Name: name}}}}
}

func named(cs []paths.Conflict) map[string]bool {
	out := map[string]bool{}
	for _, c := range cs {
		out[c.A.Meta.Receiver.Name] = true
		out[c.B.Meta.Receiver.Name] = true
	}
	return out
}

// Every entry that overlaps with another same-verb entry is named in at least one conflict.
func TestEveryOverlappingEntryIsNamed(t *testing.T) {
	es := []paths.RouteEntry{entry("First", "GET", "/a"), entry("Second", "GET", "/a"), entry("Third", "GET", "/a")}
	got := named(paths.FindConflicts(es))
	for _, e := range es {
		if !got[e.Meta.Receiver.Name] {
			t.Errorf("%s (GET /a, same as the two others) is named in no conflict: %v", e.Meta.Receiver.Name, got)
		}
	}
}

// ... also when the repeated template involves parameters
func TestEveryOverlappingEntryIsNamedParams(t *testing.T) {
	es := []paths.RouteEntry{entry("First", "GET", "/a/{x}"), entry("Second", "GET", "/a/b"), entry("Third", "GET", "/a/b")}
	got := named(paths.FindConflicts(es))
	for _, e := range es {
		if !got[e.Meta.Receiver.Name] {
			t.Errorf("%s is named in no conflict: %v", e.Meta.Receiver.Name, got)
		}
	}
}
