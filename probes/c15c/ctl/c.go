package ctl

import "github.com/gopher-fleece/runtime"

// @Tag(Users)
// @Route(/users)
type UsersController struct {
	runtime.GleeceController
}

// @Method(GET)
// @Route(/{id})
// @Path(id)
func (c *UsersController) GetUser(id string) (string, error) { return "", nil }

// @Tag(Orders)
// @Route(/orders)
type OrdersController struct {
	runtime.GleeceController
}

// @Method(GET)
// @Route(/{id})
// @Path(id)
func (c *OrdersController) GetOrder(id string) (string, error) { return "", nil }

// @Tag(A)
// @Route(/a)
type AController struct {
	runtime.GleeceController
}

// @Method(GET)
// @Route(/b/c)
func (c *AController) One() (string, error) { return "", nil }

// @Tag(AB)
// @Route(/a/b)
type ABController struct {
	runtime.GleeceController
}

// @Method(GET)
// @Route(/c)
func (c *ABController) Two() (string, error) { return "", nil }
