package c15c_test

import (
	"strings"
	"testing"

	"github.com/gopher-fleece/gleece/v2/cmd"
	"github.com/gopher-fleece/gleece/v2/core/pipeline"
	"github.com/gopher-fleece/gleece/v2/core/validators/diagnostics"
)

func conflictWarnings(ds []diagnostics.EntityDiagnostic, into map[string][]string, name string) {
	for _, d := range ds {
		n := d.EntityName
		for _, rd := range d.Diagnostics {
			if rd.Code == string(diagnostics.DiagRouteConflict) {
				into[n] = append(into[n], rd.Message)
			}
		}
		var kids []diagnostics.EntityDiagnostic
		for _, k := range d.Children {
			kids = append(kids, *k)
		}
		conflictWarnings(kids, into, n)
	}
}

func TestConflictsUseTheFullTemplate(t *testing.T) {
	cfg, err := cmd.LoadGleeceConfig("gleece.test.config.json")
	if err != nil {
		t.Fatal(err)
	}
	pipe, err := pipeline.NewGleecePipeline(cfg)
	if err != nil {
		t.Fatal(err)
	}
	if err := pipe.GenerateGraph(); err != nil {
		t.Fatal(err)
	}
	diags, err := pipe.Validate()
	if err != nil {
		t.Fatal(err)
	}
	got := map[string][]string{}
	conflictWarnings(diags, got, "")
	t.Logf("route-conflict warnings: %v", got)
	// GET /users/{id} and GET /orders/{id} can never match the same request
	for _, m := range []string{"GetUser", "GetOrder"} {
		if len(got[m]) > 0 {
			t.Errorf("%s is reported as conflicting although its full template shares no concrete path with any other route: %s", m, strings.Join(got[m], "; "))
		}
	}
	// GET /a + /b/c and GET /a/b + /c are the same template
	for _, m := range []string{"One", "Two"} {
		if len(got[m]) == 0 {
			t.Errorf("%s (GET /a/b/c, registered twice) received no route-conflict warning", m)
		}
	}
}
