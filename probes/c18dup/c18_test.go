package c18dup_test

import (
	"strings"
	"testing"

	"github.com/gopher-fleece/gleece/v2/test/utils"
)

// No diagnostic is reported twice in the command's error text.
func TestNoDuplicateLinesInErrorText(t *testing.T) {
	_, err := utils.GetMetadataByRelativeConfig("gleece.test.config.json")
	if err == nil {
		t.Fatal("expected the project to be rejected")
	}
	seen := map[string]int{}
	for _, line := range strings.Split(err.Error(), "\n") {
		l := strings.TrimSpace(line)
		if strings.Contains(l, " at ") && strings.Contains(l, ".go:") {
			seen[l]++
		}
	}
	if len(seen) == 0 {
		t.Fatalf("no diagnostic lines found in:\n%s", err.Error())
	}
	for l, n := range seen {
		if n > 1 {
			t.Errorf("diagnostic printed %d times: %s", n, l)
		}
	}
	t.Logf("\n%s", err.Error())
}
