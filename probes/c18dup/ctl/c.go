package ctl

import "github.com/gopher-fleece/runtime"

// @Tag(T)
// @Route(/t)
type TController struct {
	runtime.GleeceController
}

// Two independent errors on one method: {id} has no @Path, and @Query(missing) names no parameter.
// @Method(GET)
// @Route(/x/{id})
// @Query(missing)
func (c *TController) X() (string, error) { return "", nil }
