package bwd

import "github.com/gopher-fleece/runtime"

// @Tag(T)
// @Route(/b)
type BwdController struct {
	runtime.GleeceController
}

// @Method(GET)
// @Route(/two)
// @Path(id)
func (c *BwdController) Two(id string) error { return nil }
