package fwd

import "github.com/gopher-fleece/runtime"

// @Tag(T)
// @Route(/a/{tenant})
type TenantController struct {
	runtime.GleeceController
}

// @Method(GET)
// @Route(/one)
func (c *TenantController) One() error { return nil }
