package c10d_test

import (
	"testing"

	"github.com/gopher-fleece/gleece/v2/test/utils"
)

// A controller route with an unbound {tenant} must be rejected (one-to-one linking over the full template).
func TestControllerRouteParamNeedsPath(t *testing.T) {
	meta, err := utils.GetMetadataByRelativeConfig("fwd.config.json")
	if err == nil {
		t.Errorf("project accepted although {tenant} of the controller route has no @Path; routes: %v", len(meta.Flat))
	}
}

// @Path(id) on a route without {id} must be rejected.
func TestPathWithoutUrlParam(t *testing.T) {
	meta, err := utils.GetMetadataByRelativeConfig("bwd.config.json")
	if err == nil {
		t.Errorf("project accepted although @Path(id) names no {id} in the route; routes: %v", len(meta.Flat))
	}
}
