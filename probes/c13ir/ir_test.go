package c13ir_test

import (
	"testing"

	"github.com/gopher-fleece/gleece/v2/generator/swagen"
	"github.com/gopher-fleece/gleece/v2/test/utils"
)

// Generating the spec must not change the metadata the routes generator is going to read.
func TestSpecGenerationDoesNotMutateIR(t *testing.T) {
	cfg, meta := utils.GetConfigAndMetadataOrFail("gleece.test.config.json")
	before := meta.Flat[0].Routes[0].Responses[0].Name
	if _, err := swagen.GenerateSpec(&cfg.OpenAPIGeneratorConfig, meta.Flat, &meta.Models, meta.PlainErrorPresent); err != nil {
		t.Fatal(err)
	}
	after := meta.Flat[0].Routes[0].Responses[0].Name
	if before != after {
		t.Errorf("error return type name changed from %q to %q by spec generation: the routes template tests Responses' last type name against \"error\"", before, after)
	}
}
