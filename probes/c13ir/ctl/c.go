package ctl

import "github.com/gopher-fleece/runtime"

// @Tag(T)
// @Route(/t)
type TController struct {
	runtime.GleeceController
}

// @Method(GET)
// @Route(/one)
// @ErrorResponse(500) boom
func (c *TController) One() error { return nil }
