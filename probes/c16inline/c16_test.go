package c16inline_test

import (
	"testing"

	"github.com/gopher-fleece/gleece/v2/test/utils"
)

// Malformed JSON5 in an annotation is reported as an error, never silently dropped.
func TestMalformedJson5OnInlineStructField(t *testing.T) {
	meta, err := utils.GetMetadataByRelativeConfig("gleece.test.config.json")
	if err == nil {
		t.Errorf("project accepted although `// @Anything(x, {a:})` is malformed JSON5; models: %d", len(meta.Models.Structs))
	} else {
		t.Logf("rejected: %v", err)
	}
}
