package ctl

import "github.com/gopher-fleece/runtime"

type Outer struct {
	Inner struct {
		// @Anything(x, {a:})
		A string `json:"a"`
	} `json:"inner"`
}

// @Tag(T)
// @Route(/t)
type TController struct {
	runtime.GleeceController
}

// @Method(POST)
// @Route(/x)
// @Body(in)
func (c *TController) X(in Outer) (string, error) { return "", nil }
