package c05fiber_test

import (
	"io"
	"net/http/httptest"
	"strings"
	"testing"

	"github.com/gofiber/fiber/v2"
)

// The accessor the fiber template uses for @FormField values (fiberCtx.FormValue) versus the body-only one.
func TestFiberFormValueMergesQuery(t *testing.T) {
	app := fiber.New()
	app.Post("/x", func(c *fiber.Ctx) error {
		return c.SendString(c.FormValue("item") + "|" + string(c.Context().PostArgs().Peek("item")))
	})
	req := httptest.NewRequest("POST", "/x?item=fromQuery", strings.NewReader("item=fromBody"))
	req.Header.Set("Content-Type", "application/x-www-form-urlencoded")
	resp, err := app.Test(req)
	if err != nil {
		t.Fatal(err)
	}
	b, _ := io.ReadAll(resp.Body)
	parts := strings.Split(string(b), "|")
	t.Logf("FormValue=%q PostArgs=%q", parts[0], parts[1])
	if parts[0] != "fromBody" {
		t.Errorf("fiberCtx.FormValue returned %q for a form field whose body value is %q: the query string wins", parts[0], parts[1])
	}
}
