package ctl

import "github.com/gopher-fleece/runtime"

type Color string

const (
	Red  Color = "red"
	Blue Color = "blue"
)

// @Tag(T)
// @Route(/t)
type TController struct {
	runtime.GleeceController
}

// @Method(POST)
// @Route(/paint)
// @FormField(c2, {validate: "oneof=red blue"})
func (c *TController) Paint(c2 Color) error { return nil }
