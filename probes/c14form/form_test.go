package c14form_test

import (
	"testing"

	"github.com/gopher-fleece/gleece/v2/generator/swagen"
	"github.com/gopher-fleece/gleece/v2/test/utils"
)

// Generating a 3.1 spec for an enum-typed form field with a validator must not crash.
func TestFormFieldOfNamedTypeWithValidator(t *testing.T) {
	cfg, meta := utils.GetConfigAndMetadataOrFail("gleece.test.config.json")
	defer func() {
		if r := recover(); r != nil {
			t.Fatalf("spec generation panicked: %v", r)
		}
	}()
	if _, err := swagen.GenerateSpec(&cfg.OpenAPIGeneratorConfig, meta.Flat, &meta.Models, meta.PlainErrorPresent); err != nil {
		t.Logf("returned error (acceptable): %v", err)
	}
}
