package c05f_test

import (
	"os"
	"os/exec"
	"path/filepath"
	"testing"

	"github.com/gopher-fleece/gleece/v2/cmd"
	"github.com/gopher-fleece/gleece/v2/cmd/arguments"
	"github.com/gopher-fleece/gleece/v2/generator/routes"
)

// Either the project is rejected, or the routes file generated for it compiles.
func TestUnsupportedPrimitiveKinds(t *testing.T) {
	cfg, meta, err := cmd.GetConfigAndMetadata(arguments.CliArguments{ConfigPath: "gleece.test.config.json"})
	if err != nil {
		t.Logf("rejected (fine): %v", err)
		return
	}
	dir, _ := filepath.Abs("gen")
	os.RemoveAll(dir)
	defer os.RemoveAll(dir)
	cfg.RoutesConfig.OutputPath = filepath.Join(dir, "routes.go")
	if err := routes.GenerateRoutes(cfg, meta); err != nil {
		t.Logf("generation failed with an error (fine): %v", err)
		return
	}
	out, err := exec.Command("go", "vet", "./gen/").CombinedOutput()
	if err != nil {
		t.Errorf("project accepted and routes written, but the file does not compile:\n%s", out)
	}
}
