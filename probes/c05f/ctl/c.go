package ctl

import "github.com/gopher-fleece/runtime"

// @Tag(T)
// @Route(/t)
type TController struct {
	runtime.GleeceController
}

// @Method(GET)
// @Route(/one)
// @Query(b)
// @Query(r)
// @Header(c2)
func (c *TController) One(b byte, r rune, c2 complex128) error { return nil }
