package ctl

import "github.com/gopher-fleece/runtime"

// The colour enumeration
type Color string

const (
	Red  Color = "red"
	Blue Color = "blue"
)

// @Tag(T)
// @Route(/t)
type TController struct {
	runtime.GleeceController
}

// @Method(POST)
// @Route(/paint)
// @FormField(c2) usage-site text for this one form field
func (c *TController) Paint(c2 Color) error { return nil }

// @Method(GET)
// @Route(/paint)
// @Query(q)
func (c *TController) Get(q Color) error { return nil }
