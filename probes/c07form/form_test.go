package c07form_test

import (
	"encoding/json"
	"testing"

	"github.com/gopher-fleece/gleece/v2/generator/swagen"
	"github.com/gopher-fleece/gleece/v2/test/utils"
)

// The description written at one usage site (a form field) must not replace the component's own description.
func TestFormFieldDescriptionDoesNotRewriteComponent(t *testing.T) {
	cfg, meta := utils.GetConfigAndMetadataOrFail("gleece.test.config.json")
	b, err := swagen.GenerateSpec(&cfg.OpenAPIGeneratorConfig, meta.Flat, &meta.Models, meta.PlainErrorPresent)
	if err != nil {
		t.Fatal(err)
	}
	var doc map[string]any
	json.Unmarshal(b, &doc)
	desc, _ := doc["components"].(map[string]any)["schemas"].(map[string]any)["Color"].(map[string]any)["description"].(string)
	if desc != "The colour enumeration" {
		t.Errorf("components.schemas.Color.description = %q, want the type's own description", desc)
	}
}
