package c14a_test

import (
	"testing"

	"github.com/gopher-fleece/gleece/v2/cmd"
	"github.com/gopher-fleece/gleece/v2/cmd/arguments"
	"github.com/gopher-fleece/gleece/v2/generator/swagen"
)

func run(t *testing.T, cfgFile string) {
	defer func() {
		if r := recover(); r != nil {
			t.Fatalf("%s: gleece panicked instead of reporting an error: %v", cfgFile, r)
		}
	}()
	cfg, meta, err := cmd.GetConfigAndMetadata(arguments.CliArguments{ConfigPath: cfgFile})
	if err != nil {
		t.Logf("%s: rejected with error (fine): %v", cfgFile, err)
		return
	}
	for _, ver := range []string{"3.0.0", "3.1.0"} {
		cfg.OpenAPIGeneratorConfig.OpenAPI = ver
		if _, err := swagen.GenerateSpec(&cfg.OpenAPIGeneratorConfig, meta.Flat, &meta.Models, meta.PlainErrorPresent); err != nil {
			t.Logf("%s %s: error (fine): %v", cfgFile, ver, err)
		}
	}
}

func TestMalformedValidatorTag(t *testing.T) { run(t, "min.config.json") }
func TestNullScopes(t *testing.T)            { run(t, "scopes.config.json") }
func TestGenericWithStructArg(t *testing.T)  { run(t, "generic.config.json") }
