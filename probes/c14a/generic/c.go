package generic

import "github.com/gopher-fleece/runtime"

type Inner struct {
	V string `json:"v"`
}

type Wrap[T any] struct {
	Item T `json:"item"`
}

// @Tag(T)
// @Route(/t)
type GenController struct {
	runtime.GleeceController
}

// @Method(POST)
// @Route(/one)
// @Body(b)
func (c *GenController) One(b Wrap[Inner]) error { return nil }
