package scopes

import "github.com/gopher-fleece/runtime"

// @Tag(T)
// @Route(/t)
type ScopesController struct {
	runtime.GleeceController
}

// @Method(GET)
// @Route(/one)
// @Security(securitySchemaName, {scopes: null})
func (c *ScopesController) One() error { return nil }
