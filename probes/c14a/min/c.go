package min

import "github.com/gopher-fleece/runtime"

type Body struct {
	Name string `json:"name" validate:"min=abc"`
}

// @Tag(T)
// @Route(/t)
type MinController struct {
	runtime.GleeceController
}

// @Method(POST)
// @Route(/one)
// @Body(b)
func (c *MinController) One(b Body) error { return nil }
