package ctl

import "github.com/gopher-fleece/runtime"

type Color string

const (
	Red   Color = "red"
	Green Color = "green"
	Blue  Color = "blue"
)

type Paint struct {
	C Color `json:"c" validate:"oneof=red"`
}

// @Tag(T)
// @Route(/t)
type TController struct {
	runtime.GleeceController
}

// @Method(POST)
// @Route(/paint)
// @Body(p)
func (c *TController) Paint(p Paint) (Color, error) { return Red, nil }
