package c09a_test

import (
	"go/parser"
	"go/token"
	"os"
	"path/filepath"
	"testing"

	"github.com/gopher-fleece/gleece/v2/cmd"
	"github.com/gopher-fleece/gleece/v2/cmd/arguments"
	"github.com/gopher-fleece/gleece/v2/generator/routes"
)

// A rendering that is not valid Go (here: through a user template extension) must make
// generation fail; it must not be written to the output path with a nil error.
func TestUnformattableOutputIsAnError(t *testing.T) {
	cfg, meta, err := cmd.GetConfigAndMetadata(arguments.CliArguments{ConfigPath: "gleece.test.config.json"})
	if err != nil {
		t.Fatalf("project rejected: %v", err)
	}
	dir, _ := filepath.Abs("gen")
	os.RemoveAll(dir)
	defer os.RemoveAll(dir)
	cfg.RoutesConfig.OutputPath = filepath.Join(dir, "routes.go")
	err = routes.GenerateRoutes(cfg, meta)
	if err != nil {
		t.Logf("generation failed with an error (fine): %v", err)
		return
	}
	if _, perr := parser.ParseFile(token.NewFileSet(), cfg.RoutesConfig.OutputPath, nil, 0); perr != nil {
		t.Errorf("GenerateRoutes returned nil but wrote a file that is not Go: %v", perr)
	}
}
