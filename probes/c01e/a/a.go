package a

import "github.com/gopher-fleece/runtime"

// @Tag(A users)
// @Route(/a)
type UsersController struct {
	runtime.GleeceController
}

// @Method(GET)
// @Route(/one)
func (c *UsersController) AOne() error { return nil }
