package c01e_test

import (
	"testing"

	"github.com/gopher-fleece/gleece/v2/test/utils"
)

func TestNoLeak(t *testing.T) {
	meta, err := utils.GetMetadataByRelativeConfig("gleece.test.config.json")
	if err != nil {
		t.Fatal(err)
	}
	for _, c := range meta.Flat {
		t.Logf("controller %s (%s) routes:", c.Name, c.PkgPath)
		for _, r := range c.Routes {
			t.Logf("   %s %s%s", r.OperationId, c.RestMetadata.Path, r.RestMetadata.Path)
		}
		if len(c.Routes) != 1 {
			t.Errorf("controller %s in %s has %d routes, want 1", c.Name, c.PkgPath, len(c.Routes))
		}
	}
}
