package b

import "github.com/gopher-fleece/runtime"

// @Tag(B users)
// @Route(/b)
type UsersController struct {
	runtime.GleeceController
}

// @Method(GET)
// @Route(/three)
func (c *UsersController) BThree() error { return nil }
