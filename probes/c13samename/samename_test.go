package c13samename_test

import (
	"go/ast"
	"go/token"
	"testing"

	"github.com/gopher-fleece/gleece/v2/common"
	"github.com/gopher-fleece/gleece/v2/core/metadata"
	"github.com/gopher-fleece/gleece/v2/gast"
	"github.com/gopher-fleece/gleece/v2/graphs/symboldg"
)

// Two controllers with the same name in two files. A token.Pos is an offset into the
// session's FileSet: its value depends on the order in which packages.Load happened to add
// the files (concurrent), not on the project. The two graphs below describe the same project
// loaded in the two possible orders; FindByKind - the order in which controllers are reduced
// and import serials handed out - must not tell them apart.
func build(t *testing.T, baseA, baseB token.Pos) []string {
	t.Helper()
	g := symboldg.NewSymbolGraph()
	for _, c := range []struct {
		path string
		pos  token.Pos
	}{{"/proj/alpha/users.go", baseA + 40}, {"/proj/beta/users.go", baseB + 40}} {
		fv := &gast.FileVersion{Path: c.path, Hash: "h"}
		node := &ast.TypeSpec{Name: &ast.Ident{Name: "UsersController", NamePos: c.pos}}
		_, err := g.AddController(symboldg.CreateControllerNode{Data: metadata.ControllerMeta{
			Struct: metadata.StructMeta{SymNodeMeta: metadata.SymNodeMeta{Name: "UsersController", Node: node, PkgPath: c.path, FVersion: fv}},
		}})
		if err != nil {
			t.Fatal(err)
		}
	}
	var order []string
	for _, n := range g.FindByKind(common.SymKindController) {
		order = append(order, n.Id.FilePath)
	}
	return order
}

func TestSameNamedControllersAreOrderedIndependentlyOfLoadOrder(t *testing.T) {
	alphaFirst := build(t, 1000, 9000) // alpha/users.go was added to the FileSet first
	betaFirst := build(t, 9000, 1000)  // beta/users.go was added first
	if len(alphaFirst) != 2 || len(betaFirst) != 2 {
		t.Fatalf("expected two controllers, got %v / %v", alphaFirst, betaFirst)
	}
	for i := range alphaFirst {
		if alphaFirst[i] != betaFirst[i] {
			t.Errorf("the same project yields controller order %v when alpha is parsed first and %v when beta is: everything allocated in that order (import serials, hence the generated routes file) differs between runs", alphaFirst, betaFirst)
			break
		}
	}
}
