package c07a_test

import (
	"encoding/json"
	"testing"

	"github.com/gopher-fleece/gleece/v2/generator/swagen"
	"github.com/gopher-fleece/gleece/v2/test/utils"
)

// A validator at one usage site must not change the shared component.
func TestUsageSiteValidatorDoesNotRewriteComponent(t *testing.T) {
	cfg, meta := utils.GetConfigAndMetadataOrFail("gleece.test.config.json")
	for _, ver := range []string{"3.0.0", "3.1.0"} {
		cfg.OpenAPIGeneratorConfig.OpenAPI = ver
		b, err := swagen.GenerateSpec(&cfg.OpenAPIGeneratorConfig, meta.Flat, &meta.Models, meta.PlainErrorPresent)
		if err != nil {
			t.Fatal(err)
		}
		var doc map[string]any
		json.Unmarshal(b, &doc)
		enum := doc["components"].(map[string]any)["schemas"].(map[string]any)["Color"].(map[string]any)["enum"].([]any)
		if len(enum) != 3 {
			t.Errorf("%s: components.schemas.Color.enum = %v, want the three declared constants", ver, enum)
		}
	}
}
