package c13_test

import (
	"fmt"
	"strings"
	"testing"

	"github.com/gopher-fleece/gleece/v2/test/utils"
)

func fingerprint(t *testing.T) string {
	meta, err := utils.GetMetadataByRelativeConfig("gleece.test.config.json")
	if err != nil {
		t.Fatal(err)
	}
	var sb strings.Builder
	for _, c := range meta.Flat {
		sb.WriteString(c.Name + ":")
		for _, r := range c.Routes {
			sb.WriteString(fmt.Sprintf(" %s(p%d,r%d)", r.OperationId, r.FuncParams[0].UniqueImportSerial, r.Responses[0].UniqueImportSerial))
		}
		sb.WriteString("\n")
	}
	return sb.String()
}

func TestDeterministic(t *testing.T) {
	first := fingerprint(t)
	for i := 0; i < 12; i++ {
		if fp := fingerprint(t); fp != first {
			t.Fatalf("run %d differs:\n%s\nvs first:\n%s", i, fp, first)
		}
	}
	t.Log(first)
}
