package c14rootexit_test

import (
	"os"
	"os/exec"
	"path/filepath"
	"testing"
)

// `gleece` without arguments assumes `generate spec-and-routes -c ./gleece.config.json`. When that fails
// (here: no configuration file in the working directory) the process must end with a non-zero status,
// like the explicit sub-commands do.
func TestRootCommandFailureExitsNonZero(t *testing.T) {
	tmp := t.TempDir()
	bin := filepath.Join(tmp, "gleece")
	build := exec.Command("go", "build", "-o", bin, "github.com/gopher-fleece/gleece/v2")
	build.Env = os.Environ()
	if out, err := build.CombinedOutput(); err != nil {
		t.Fatalf("build: %v\n%s", err, out)
	}
	empty := filepath.Join(tmp, "empty")
	os.Mkdir(empty, 0o755)
	run := exec.Command(bin, "--no-banner")
	run.Dir = empty
	out, err := run.CombinedOutput()
	if err == nil {
		t.Fatalf("gleece (no arguments, no configuration file) exited 0 after logging a failure:\n%s", out)
	}
}
