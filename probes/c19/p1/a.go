package p1

import "github.com/gopher-fleece/runtime"

type Alpha struct{ V string `json:"v"` }

// @Tag(A)
// @Route(/a)
type AController struct {
	runtime.GleeceController
}

// @Method(POST)
// @Route(/one)
// @Body(b)
func (c *AController) AOne(b Alpha) (Alpha, error) { return b, nil }
