package p1

// @Method(POST)
// @Route(/two)
// @Body(b)
func (c *AController) ATwo(b Alpha) (Alpha, error) { return b, nil }
