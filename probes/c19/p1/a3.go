package p1

// @Method(POST)
// @Route(/three)
// @Body(b)
func (c *AController) AThree(b Alpha) (Alpha, error) { return b, nil }
