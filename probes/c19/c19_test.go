package c19_test

import (
	"encoding/json"
	"sort"
	"testing"

	"github.com/gopher-fleece/gleece/v2/cmd"
	"github.com/gopher-fleece/gleece/v2/core/pipeline"
)

func snapshot(t *testing.T, p *pipeline.GleecePipeline) (string, int) {
	meta, err := p.Run()
	if err != nil {
		t.Fatalf("run failed: %v", err)
	}
	// the alias lists are sets (order is irrelevant: the import block is sorted by the formatter)
	for k := range meta.Imports {
		sort.Strings(meta.Imports[k])
	}
	b, err := json.Marshal(struct {
		Flat    any
		Models  any
		Imports any
	}{meta.Flat, meta.Models, meta.Imports})
	if err != nil {
		t.Fatal(err)
	}
	return string(b), len(p.Graph().String())
}

// Re-running analysis on one pipeline gives what the first run and a brand-new pipeline give.
func TestRerunIsIdempotent(t *testing.T) {
	cfg, err := cmd.LoadGleeceConfig("gleece.test.config.json")
	if err != nil {
		t.Fatal(err)
	}
	fresh, err := pipeline.NewGleecePipeline(cfg)
	if err != nil {
		t.Fatal(err)
	}
	want, wantGraph := snapshot(t, &fresh)

	pipe, err := pipeline.NewGleecePipeline(cfg)
	if err != nil {
		t.Fatal(err)
	}
	for i := 0; i < 3; i++ {
		got, g := snapshot(t, &pipe)
		if got != want {
			k := 0
			for k < len(got) && k < len(want) && got[k] == want[k] {
				k++
			}
			lo, hiG, hiW := max(0, k-200), min(len(got), k+200), min(len(want), k+200)
			t.Errorf("run %d differs from a fresh session at byte %d:\n got ...%s...\nwant ...%s...", i, k, got[lo:hiG], want[lo:hiW])
		}
		if g != wantGraph {
			t.Errorf("run %d: graph dump has %d bytes, fresh session %d (graph grew or shrank)", i, g, wantGraph)
		}
	}
}
