package c19_test

import (
	"os"
	"path/filepath"
	"testing"

	"github.com/gopher-fleece/gleece/v2/cmd"
	"github.com/gopher-fleece/gleece/v2/core/pipeline"
)

// The same comparison over the repository's own fixtures.
func TestRerunIsIdempotentOnFixtures(t *testing.T) {
	wd, _ := os.Getwd()
	defer os.Chdir(wd)
	root := filepath.Join(wd, "..", "..")
	for _, fx := range []struct{ dir, cfg string }{
		{"e2e", "e2e.gin.gleece.config.json"},
		{"test/alias", "gleece.test.config.json"},
		{"test/generics", "gleece.test.config.json"},
		{"test/imports", "gleece.test.config.json"},
		{"test/sanity", "gleece.test.config.json"},
		{"test/security", "gleece.test.config.json"},
		{"test/specials", "gleece.test.config.json"},
		{"test/errors", "gleece.test.config.json"},
	} {
		if err := os.Chdir(filepath.Join(root, fx.dir)); err != nil {
			t.Fatal(err)
		}
		cfg, err := cmd.LoadGleeceConfig(fx.cfg)
		if err != nil {
			t.Errorf("%s: %v", fx.dir, err)
			continue
		}
		fresh, err := pipeline.NewGleecePipeline(cfg)
		if err != nil {
			t.Errorf("%s: %v", fx.dir, err)
			continue
		}
		meta, err := fresh.Run()
		if err != nil {
			t.Logf("%s: rejected (%v) - skipped", fx.dir, err)
			continue
		}
		_ = meta
		fresh2, _ := pipeline.NewGleecePipeline(cfg)
		want, wantGraph := snapshot(t, &fresh2)
		pipe, _ := pipeline.NewGleecePipeline(cfg)
		for i := 0; i < 3; i++ {
			got, g := snapshot(t, &pipe)
			if got != want {
				k := 0
				for k < len(got) && k < len(want) && got[k] == want[k] {
					k++
				}
				lo := max(0, k-150)
				t.Errorf("%s run %d differs from a fresh session at byte %d:\n got ...%s...\nwant ...%s...", fx.dir, i, k, got[lo:min(len(got), k+150)], want[lo:min(len(want), k+150)])
			}
			if g != wantGraph {
				t.Errorf("%s run %d: graph dump has %d bytes, fresh session %d", fx.dir, i, g, wantGraph)
			}
		}
	}
}
