package p2

import "github.com/gopher-fleece/runtime"

type Beta struct{ V string `json:"v"` }

// @Tag(B)
// @Route(/b)
type BController struct {
	runtime.GleeceController
}

// @Method(POST)
// @Route(/one)
// @Body(b)
func (c *BController) BOne(b Beta) (Beta, error) { return b, nil }
