package ctl

import "github.com/gopher-fleece/runtime"

// @Tag(T)
// @Route(/users/)
type UsersController struct {
	runtime.GleeceController
}

// @Method(GET)
// @Route(/list)
func (c *UsersController) List() error { return nil }
