package c02e_test

import (
	"encoding/json"
	"net/http"
	"net/http/httptest"
	"os"
	"regexp"
	"testing"

	"github.com/gopher-fleece/gleece/v2/generator/routes"
	"github.com/gopher-fleece/gleece/v2/generator/swagen"
	"github.com/gopher-fleece/gleece/v2/test/utils"
	"github.com/gorilla/mux"
)

// The path the mux router registers must be the path the spec documents.
func TestServedPathEqualsDocumentedPath(t *testing.T) {
	cfg, meta := utils.GetConfigAndMetadataOrFail("gleece.test.config.json")
	spec, err := swagen.GenerateSpec(&cfg.OpenAPIGeneratorConfig, meta.Flat, &meta.Models, meta.PlainErrorPresent)
	if err != nil {
		t.Fatal(err)
	}
	var doc map[string]any
	json.Unmarshal(spec, &doc)
	var documented string
	for p := range doc["paths"].(map[string]any) {
		documented = p
	}
	cfg.RoutesConfig.OutputPath = t.TempDir() + "/routes.go"
	if err := routes.GenerateRoutes(cfg, meta); err != nil {
		t.Fatal(err)
	}
	gen, _ := os.ReadFile(cfg.RoutesConfig.OutputPath)
	m := regexp.MustCompile(`toMuxUrl\("([^"]*)"\)`).FindSubmatch(gen)
	if m == nil {
		t.Fatal("registration not found in generated file")
	}
	identity := regexp.MustCompile(`func toMuxUrl\(url string\) string \{\s*return url\s*\}`).Match(gen)
	registered := string(m[1])
	t.Logf("documented %q, registration argument %q, toMuxUrl is identity: %v", documented, registered, identity)
	// serve it the way the generated router would
	r := mux.NewRouter()
	if identity {
		r.HandleFunc(registered, func(w http.ResponseWriter, _ *http.Request) { w.WriteHeader(200) }).Methods("GET")
	} else {
		t.Skip("toMuxUrl is no longer the identity; compare by other means")
	}
	rec := httptest.NewRecorder()
	r.ServeHTTP(rec, httptest.NewRequest("GET", documented, nil))
	if rec.Code != 200 {
		t.Errorf("GET %s (the documented path) answers %d: the router registered %q", documented, rec.Code, registered)
	}
}
