package c17_test

import (
	"testing"

	"github.com/gopher-fleece/gleece/v2/common"
	"github.com/gopher-fleece/gleece/v2/graphs/symboldg"
)

// An edge is listed among its source's outgoing edges iff it is listed among its target's incoming edges.
func TestRemoveOneKindKeepsTheOtherVisibleFromBothEnds(t *testing.T) {
	g := symboldg.NewSymbolGraph()
	a := g.AddPrimitive(common.PrimitiveTypeString)
	b := g.AddPrimitive(common.PrimitiveTypeInt)
	g.AddEdge(a.Id, b.Id, symboldg.EdgeKindReference, nil)
	g.AddEdge(a.Id, b.Id, symboldg.EdgeKindType, nil)

	kind := symboldg.EdgeKindReference
	g.RemoveEdge(a.Id, b.Id, &kind)

	out := g.GetEdges(a.Id, nil) // a has only outgoing edges
	in := g.GetEdges(b.Id, nil)  // b has only incoming edges
	if len(out) != 1 {
		t.Fatalf("expected the `ty` edge to remain among a's edges, got %d", len(out))
	}
	if len(in) != len(out) {
		t.Errorf("edge a-ty->b is listed among a's outgoing edges (%d) but not among b's incoming edges (%d)", len(out), len(in))
	}
	if ps := g.Parents(b, nil); len(ps) != 1 {
		t.Errorf("Parents(b) = %d nodes, want 1 (a still has a `ty` edge to b)", len(ps))
	}
}
