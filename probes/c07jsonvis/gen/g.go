package gen

import "github.com/gopher-fleece/runtime"

// A generic model with an invisible field declared before the generic one
type Box[T any] struct {
	hidden int
	// The boxed value
	Value T `json:"value"`
}

// @Tag(G)
// @Route(/g)
type GController struct {
	runtime.GleeceController
}

// @Method(GET)
// @Route(/boxes)
func (c *GController) Boxed() (Box[string], error) { return Box[string]{}, nil }
