package ctl

import "github.com/gopher-fleece/runtime"

type inner struct {
	// Promoted through an unexported embedded struct: still JSON-visible
	Promoted string `json:"promoted"`
}

// A body model with every kind of (in)visible field
type Item struct {
	inner
	// A regular, renamed field
	Title string `json:"title" validate:"required"`
	// Omitempty without a name: JSON name is the Go name
	Opt string `json:",omitempty"`
	// No tag at all
	Plain int
	// Never serialised
	Internal string `json:"-" validate:"required"`
	// Unexported: never serialised
	secret string
	// A field literally named "-"
	Dash string `json:"-,"`
}

// @Tag(T)
// @Route(/t)
type TController struct {
	runtime.GleeceController
}

// @Method(POST)
// @Route(/items)
// @Body(item)
func (c *TController) Create(item Item) error { return nil }
