package c07jsonvis_test

import (
	"encoding/json"
	"sort"
	"strings"
	"testing"

	"github.com/gopher-fleece/gleece/v2/generator/swagen"
	"github.com/gopher-fleece/gleece/v2/test/utils"
)

// A struct's properties are its JSON-visible fields under their JSON names: what encoding/json would
// write for the type (exported, not tagged `-`, Go name when the tag gives no name).
func TestPropertiesAreTheJsonVisibleFields(t *testing.T) {
	for _, ver := range []string{"3.0.0", "3.1.0"} {
		cfg, meta := utils.GetConfigAndMetadataOrFail("gleece.test.config.json")
		cfg.OpenAPIGeneratorConfig.OpenAPI = ver
		b, err := swagen.GenerateSpec(&cfg.OpenAPIGeneratorConfig, meta.Flat, &meta.Models, meta.PlainErrorPresent)
		if err != nil {
			t.Fatalf("%s: %v", ver, err)
		}
		var doc map[string]any
		if err := json.Unmarshal(b, &doc); err != nil {
			t.Fatal(err)
		}
		item := doc["components"].(map[string]any)["schemas"].(map[string]any)["Item"].(map[string]any)
		props := map[string]any{}
		var required []any
		collect := func(s map[string]any) {
			if p, ok := s["properties"].(map[string]any); ok {
				for k, v := range p {
					props[k] = v
				}
			}
			if r, ok := s["required"].([]any); ok {
				required = append(required, r...)
			}
		}
		collect(item)
		if all, ok := item["allOf"].([]any); ok {
			for _, m := range all {
				collect(m.(map[string]any))
			}
		}
		var got []string
		for k := range props {
			got = append(got, k)
		}
		sort.Strings(got)
		want := []string{"-", "Opt", "Plain", "title"}
		if strings.Join(got, "|") != strings.Join(want, "|") {
			t.Errorf("%s: properties of Item = %q, want %q (what encoding/json writes)", ver, got, want)
		}
		for _, r := range required {
			if r == "Internal" || r == "-" && false {
				t.Errorf("%s: `required` lists %v, a field that is never serialised", ver, r)
			}
		}
	}
}

// An instantiated generic model is typed field by field: the type argument lands on the generic field,
// whichever invisible fields are declared before it. (Checked on the model list: the spec emitters do not
// resolve references to instantiated generics on the unchanged tree either.)
func TestGenericInstantiationSkipsInvisibleFields(t *testing.T) {
	_, meta := utils.GetConfigAndMetadataOrFail("gleece.gen.config.json")
	for _, s := range meta.Models.Structs {
		if s.Name != "BoxString" {
			continue
		}
		if len(s.Fields) != 1 || s.Fields[0].Name != "Value" || s.Fields[0].Type != "string" {
			t.Errorf("BoxString fields = %+v, want exactly Value of type string", s.Fields)
		}
		return
	}
	t.Fatalf("no BoxString model")
}
