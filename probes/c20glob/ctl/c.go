package ctl

import (
	. "github.com/gopher-fleece/gleece/v2/probe/c20glob/models"
	"github.com/gopher-fleece/runtime"
)

// @Tag(T)
// @Route(/t)
type TController struct {
	runtime.GleeceController
}

// @Method(POST)
// @Route(/x)
// @Body(in)
func (c *TController) X(in Thing) (Thing, error) { return in, nil }
