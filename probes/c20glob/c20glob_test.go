package c20glob_test

import (
	"testing"

	"github.com/gopher-fleece/gleece/v2/cmd"
	"github.com/gopher-fleece/gleece/v2/core/pipeline"
)

func names(m pipeline.GleeceFlattenedMetadata) []string {
	var out []string
	for _, c := range m.Flat {
		out = append(out, c.Name)
	}
	return out
}

// Only files matched by controllerGlobs contribute controllers - on the first analysis and
// on every later analysis of the same session.
func TestOnlyGlobbedFilesContribute(t *testing.T) {
	cfg, err := cmd.LoadGleeceConfig("gleece.test.config.json")
	if err != nil {
		t.Fatal(err)
	}
	pipe, err := pipeline.NewGleecePipeline(cfg)
	if err != nil {
		t.Fatal(err)
	}
	for i := 0; i < 3; i++ {
		meta, err := pipe.Run()
		if err != nil {
			t.Fatalf("run %d: %v", i, err)
		}
		got := names(meta)
		t.Logf("run %d controllers: %v", i, got)
		if len(got) != 1 || got[0] != "TController" {
			t.Errorf("run %d: controllers %v, want only [TController] (models/m.go is not matched by controllerGlobs)", i, got)
		}
	}
}
