package models

import "github.com/gopher-fleece/runtime"

type Thing struct {
	A string `json:"a"`
}

// Not matched by controllerGlobs: must never contribute a controller.
// @Tag(Hidden)
// @Route(/outside)
type OutsideController struct {
	runtime.GleeceController
}

// @Method(GET)
// @Route(/y)
func (c *OutsideController) Y() (string, error) { return "", nil }
