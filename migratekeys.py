#!/usr/bin/env python3
"""Re-key the reviewed inventories after a change of the checker's key format.
usage: migratekeys.py <old-evidence-dir> <new-evidence-dir>
Obligations of the inventory rules are joined on their first site (file:line); the reason
recorded for the old key is carried over to the new key. Run on the unchanged tree only."""
import json, glob, sys
olddir, newdir = sys.argv[1], sys.argv[2]
RULES = {'skips': ('skips.json', 'skips'), 'early-exit': ('earlyexits.json', 'early_exits'), 'sorts': ('sorts.json', 'sorts')}
def load(d):
    m = {}
    for f in glob.glob(d + '/C*.json'):
        for o in json.load(open(f))['coverage']['samples']:
            if o['rule'] in RULES:
                m.setdefault((o['rule'], o['sites'][0] if o['sites'] else ''), set()).add(o['key'])
    return m
old, new = load(olddir), load(newdir)
for rule, (tfile, tkey) in RULES.items():
    path = '/verif/tables/' + tfile
    t = json.load(open(path)); tbl = t[tkey]; pref = rule + ':'
    mapping = {}
    for (r, site), oks in old.items():
        if r != rule: continue
        nks = new.get((r, site))
        if not nks: print('site vanished', rule, site); continue
        for ok, nk in zip(sorted(oks), sorted(nks)):
            mapping[ok[len(pref):]] = nk[len(pref):]
    nt = {}; changed = 0
    for k, v in tbl.items():
        nk = mapping.get(k, k)
        changed += nk != k
        if nk in nt: print('COLLISION', nk[:140])
        nt[nk] = v
    t[tkey] = nt
    json.dump(t, open(path, 'w'), indent=1, ensure_ascii=False)
    print(rule, len(tbl), '->', len(nt), 'changed', changed)
