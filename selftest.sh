#!/bin/sh
# Sensitivity self-test (not a registered check): applies each mutant patch to a scratch
# copy of /repo (outside /repo and /verif), runs the named property's check against the
# copy and asserts that a VIOLATION naming the expected obligation key is reported.
# usage: ./selftest.sh [pattern]
set -u
VERIF_DIR="$(cd "$(dirname "$0")" && pwd)"
export GOFLAGS=-mod=mod GOPROXY=off GOSUMDB=off GOTOOLCHAIN=local PATH=/opt/veriftools/go1.26.8/bin:$PATH CGO_ENABLED=0
unset GOWORK
( cd "$VERIF_DIR/checker" && go build -o "$VERIF_DIR/bin/gleecheck" . ) || exit 2
pat="${1:-}"
pass=0; fail=0
for m in "$VERIF_DIR"/selftest/mutants/*${pat}*.patch; do
	[ -f "$m" ] || continue
	prop=$(sed -n 's/^# prop: //p' "$m" | head -1)
	expect=$(sed -n 's/^# expect: //p' "$m" | head -1)
	scratch=$(mktemp -d /var/tmp/gleece-mut.XXXXXX)
	out=$(mktemp -d /var/tmp/gleece-mut-out.XXXXXX)
	cp -r /repo/. "$scratch"/ 2>/dev/null
	rm -rf "$scratch/.git"
	mkdir -p "$out/checker"; cp -r "$VERIF_DIR/checker/testdata" "$out/checker/" 2>/dev/null
	cp "$VERIF_DIR/known_findings.json" "$out/" 2>/dev/null
	cp -r "$VERIF_DIR/tables" "$out/" 2>/dev/null
	if ! ( cd "$scratch" && grep -v '^# ' "$m" | patch -p1 -s ) ; then
		echo "SELFTEST-ERROR $(basename $m): patch does not apply"; fail=$((fail+1)); rm -rf "$scratch" "$out"; continue
	fi
	if ! ( cd "$scratch" && go build ./... ) >/dev/null 2>&1; then
		echo "SELFTEST-ERROR $(basename $m): mutant does not compile"; fail=$((fail+1)); rm -rf "$scratch" "$out"; continue
	fi
	res=$("$VERIF_DIR/bin/gleecheck" -repo "$scratch" -verif "$out" -tier "${VERIF_TIER:-quick}" -prop "$prop" 2>&1)
	if echo "$res" | grep -q "^VIOLATION property=$prop" && echo "$res" | grep -F -q "$expect"; then
		echo "caught   $(basename $m) [$prop] $expect"; pass=$((pass+1))
	else
		echo "MISSED   $(basename $m) [$prop] expected: $expect"; echo "$res" | tail -5; fail=$((fail+1))
	fi
	rm -rf "$scratch" "$out"
done
echo "selftest: caught=$pass missed=$fail"
[ "$fail" -eq 0 ]
