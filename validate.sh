#!/bin/sh
# validates MANIFEST.json and every evidence file against the schemas
python3-vt - <<'PY'
import json,jsonschema,glob,sys
ok=True
try:
    jsonschema.validate(json.load(open('/verif/MANIFEST.json')), json.load(open('/root/.vp/MANIFEST.schema.json')))
    print('manifest valid')
except Exception as e:
    ok=False; print('MANIFEST INVALID', e)
es=json.load(open('/root/.vp/EVIDENCE.schema.json'))
for f in sorted(glob.glob('/verif/evidence/*.json')):
    try:
        jsonschema.validate(json.load(open(f)), es)
    except Exception as e:
        ok=False; print('EVIDENCE INVALID', f, str(e)[:300])
print('evidence files checked:', len(glob.glob('/verif/evidence/*.json')))
sys.exit(0 if ok else 1)
PY
