#!/bin/sh
# usage: ./runall.sh [quick|thorough]  -- runs every claimed check against /repo, prints one line each; exit 1 if any fails
cd "$(dirname "$0")"
tier="${1:-quick}"; rc=0
for p in $(python3 -c "import json;print(' '.join(sorted(json.load(open('claims.json'))['claimed'])))"); do
  out=$(./run.sh "$tier" "$p" 2>&1); r=$?
  echo "$out" | grep -E "^(SUMMARY|VIOLATION|KNOWN-FINDING)" | cut -c1-220
  [ $r -ne 0 ] && rc=1
done
exit $rc
