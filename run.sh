#!/bin/sh
# usage: ./run.sh quick|thorough <Cxx>      -- decide one property on /repo's working tree
#        ./run.sh replay <path>             -- re-run the obligation's property recorded in a replay file
#        ./run.sh setup                     -- build the checker
# Everything is static analysis of ${VERIF_REPO:-/repo}; nothing of gleece is executed.
set -u
VERIF_DIR="$(cd "$(dirname "$0")" && pwd)"
REPO="${VERIF_REPO:-/repo}"
export GOFLAGS=-mod=mod GOPROXY=off GOSUMDB=off GOTOOLCHAIN=local
export PATH=/opt/veriftools/go1.26.8/bin:$PATH
export CGO_ENABLED=0
unset GOWORK

build() {
	mkdir -p "$VERIF_DIR/bin"
	( cd "$VERIF_DIR/checker" && go build -o "$VERIF_DIR/bin/gleecheck" . ) || { echo "checker build failed"; return 1; }
}

mode="${1:-}"
case "$mode" in
setup)
	build || exit 1
	echo "gleecheck built"
	exit 0
	;;
quick|thorough)
	prop="${2:?property id}"
	build || { mkdir -p "$VERIF_DIR/replay"; echo "the checker under $VERIF_DIR/checker does not build" > "$VERIF_DIR/replay/build-failure.txt"; echo "VIOLATION property=$prop replay=$VERIF_DIR/replay/build-failure.txt"; exit 1; }
	exec "$VERIF_DIR/bin/gleecheck" -repo "$REPO" -verif "$VERIF_DIR" -tier "$mode" -prop "$prop"
	;;
replay)
	path="${2:?replay file}"
	prop=$(basename "$path" | cut -d- -f1)
	build || exit 1
	exec "$VERIF_DIR/bin/gleecheck" -repo "$REPO" -verif "$VERIF_DIR" -tier "${VERIF_TIER:-quick}" -prop "$prop"
	;;
*)
	echo "usage: $0 quick|thorough <Cxx> | replay <path> | setup" >&2
	exit 2
	;;
esac
