#!/bin/sh
# usage: mkmutant.sh <name> <prop> <expect> <file> <python-expr transforming s>
# creates selftest/mutants/<name>.patch
name="$1"; prop="$2"; expect="$3"; file="$4"; expr="$5"
tmp=$(mktemp -d /var/tmp/mk.XXXXXX)
mkdir -p "$tmp/a/$(dirname $file)" "$tmp/b/$(dirname $file)"
cp "/repo/$file" "$tmp/a/$file"
python3 - "$tmp/a/$file" "$tmp/b/$file" "$expr" <<'PY'
import sys
s=open(sys.argv[1]).read()
t=eval(sys.argv[3])
assert t!=s, "mutation did not change the file"
open(sys.argv[2],'w').write(t)
PY
[ $? -eq 0 ] || { rm -rf "$tmp"; exit 1; }
out="$(dirname $0)/mutants/$name.patch"
{ echo "# prop: $prop"; echo "# expect: $expect"; (cd "$tmp" && diff -u "a/$file" "b/$file"); } > "$out"
rm -rf "$tmp"; echo "wrote $out"
