#!/bin/sh
# usage: ./benignmatrix.sh [ids...] -- runs every property against each behaviour-preserving change under benign/;
# any VIOLATION here is a false alarm of the machinery. Writes benign/MATRIX.txt.
set -u
cd "$(dirname "$0")"
ids="$*"; [ -z "$ids" ] && ids=$(ls benign | grep '^C')
for id in $ids; do echo $id; done | xargs -P 4 -I{} sh -c "$(cat <<'EOS'
id={}
out=$(./evalpatch.sh "$PWD/benign/$id/patch.diff" all 2>&1)
printf '%s\n' "$out" > /var/tmp/benign-$id.log
v=$(printf '%s\n' "$out" | grep -c '^VIOLATION')
if printf '%s\n' "$out" | grep -q 'EVAL-ERROR'; then echo "$id ERROR"
elif [ "$v" -eq 0 ]; then echo "$id SILENT"
else echo "$id ALARM $(printf '%s\n' "$out" | grep '^VIOLATION' | sed 's/VIOLATION property=\([A-Z0-9]*\) .*/\1/' | sort | uniq -c | awk '{printf "%s(%s) ",$2,$1}')"; fi
EOS
)" | sort > benign/MATRIX.new
mv benign/MATRIX.new benign/MATRIX.txt; cat benign/MATRIX.txt
