#!/bin/sh
# usage: ./seedmatrix.sh [all]   -- runs every seeded change under /verif/seeded against its own property's
# check (or, with `all`, against all 20 checks) on a scratch copy of /repo and prints one line per seed.
# Never touches /repo. Output: seeded/MATRIX.txt
set -u
VERIF_DIR="$(cd "$(dirname "$0")" && pwd)"
mode="${1:-own}"
ALL="C01,C02,C03,C04,C05,C06,C07,C08,C09,C10,C11,C12,C13,C14,C15,C16,C17,C18,C19,C20"
out="$VERIF_DIR/seeded/MATRIX.txt"; : > "$out.tmp"
for d in "$VERIF_DIR"/seeded/C*/; do
  name=$(basename "$d"); prop=${name%%-*}
  props=$prop; [ "$mode" = all ] && props=$ALL
  res=$("$VERIF_DIR/evalpatch.sh" "$d/patch.diff" "$props" 2>&1)
  if echo "$res" | grep -q "EVAL-ERROR"; then echo "$name  PATCH-DOES-NOT-APPLY" >> "$out.tmp"; continue; fi
  caught=$(echo "$res" | grep "^VIOLATED" | sed -E 's/^VIOLATED (C[0-9]+) clause=([^ ]+) rule=([^ ]+) .*/\1:\2:\3/' | sort -u | tr '\n' ' ')
  own=$(echo "$res" | grep -c "^VIOLATED $prop ")
  if [ "$own" -gt 0 ]; then v=CAUGHT; elif [ -n "$caught" ]; then v=CAUGHT-BY-OTHER; else v=MISSED; fi
  echo "$name  $v  $caught" >> "$out.tmp"
done
mv "$out.tmp" "$out"; cat "$out"
