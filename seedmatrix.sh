#!/bin/sh
# usage: ./seedmatrix.sh [all]   -- runs every seeded change under /verif/seeded against its own property's
# check (or, with `all`, against all 20 checks) on a scratch copy of /repo and prints one line per seed.
# Never touches /repo. Output: seeded/MATRIX.txt
set -u
VERIF_DIR="$(cd "$(dirname "$0")" && pwd)"
mode="${1:-own}"
export VERIF_DIR mode
out="$VERIF_DIR/seeded/MATRIX.txt"
ls -d "$VERIF_DIR"/seeded/C*/ | xargs -P "${SEED_JOBS:-6}" -I{} sh -c '
  d={}; name=$(basename "$d"); prop=${name%%-*}
  props=$prop; [ "$mode" = all ] && props=all
  res=$("$VERIF_DIR/evalpatch.sh" "$d/patch.diff" "$props" 2>&1)
  if echo "$res" | grep -q "EVAL-ERROR"; then echo "$name  PATCH-DOES-NOT-APPLY"; exit 0; fi
  caught=$(echo "$res" | grep "^VIOLATED" | grep -v "^VIOLATED DBG" | sed -E "s/^VIOLATED (C[0-9]+) clause=([^ ]+) rule=([^ ]+) .*/\1:\2:\3/" | sort -u | tr "\n" " ")
  own=$(echo "$res" | grep -c "^VIOLATED $prop ")
  if [ "$own" -gt 0 ]; then v=CAUGHT; elif [ -n "$caught" ]; then v=CAUGHT-BY-OTHER; else v=MISSED; fi
  echo "$name  $v  $caught"
' | sort > "$out.tmp"
mv "$out.tmp" "$out"; cat "$out"
