#!/bin/sh
# usage: ./evalpatch.sh <patch.diff> <Cxx>[,Cyy...] -- runs the checks against a scratch copy of /repo with the patch applied
set -u
VERIF_DIR="$(cd "$(dirname "$0")" && pwd)"
export GOFLAGS=-mod=mod GOPROXY=off GOSUMDB=off GOTOOLCHAIN=local PATH=/opt/veriftools/go1.26.8/bin:$PATH CGO_ENABLED=0
unset GOWORK
patchf="$1"; props="$2"
( cd "$VERIF_DIR/checker" && go build -o "$VERIF_DIR/bin/gleecheck" . ) || exit 2
scratch=$(mktemp -d /var/tmp/gleece-eval.XXXXXX); out=$(mktemp -d /var/tmp/gleece-eval-out.XXXXXX)
cp -r /repo/. "$scratch"/; rm -rf "$scratch/.git"
mkdir -p "$out/checker"; cp -r "$VERIF_DIR/checker/testdata" "$out/checker/" 2>/dev/null
cp "$VERIF_DIR/known_findings.json" "$out/"; cp -r "$VERIF_DIR/tables" "$out/" 2>/dev/null
( cd "$scratch" && patch -p1 -s --no-backup-if-mismatch < "$patchf" ) || { echo "EVAL-ERROR patch does not apply"; rm -rf "$scratch" "$out"; exit 3; }
"$VERIF_DIR/bin/gleecheck" -repo "$scratch" -verif "$out" -tier "${VERIF_TIER:-quick}" -prop "$props" 2>&1 | grep -E "^(VIOLATED|UNDECIDED|VIOLATION|SUMMARY|    [a-z(])" | grep -v "^    sites" | sed "s#$scratch/##g"
rm -rf "$scratch" "$out"
