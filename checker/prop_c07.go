package main

import (
	"fmt"
	"go/ast"
	"go/token"
	"go/types"
	"strings"

	"golang.org/x/tools/go/ssa"
)

func init() {
	register("C07", "Static structural obligations for 'component schemas mirror Go declarations, independent of how a type is used': an alias-write rule (no write through a SchemaRef that may share its value with components.schemas unless Ref == \"\" is known), per-iteration rules that every enum/struct/alias model and every constant of an enum's type is emitted, field-flow rules for the shape of struct/enum/alias schemas in both emitters, and guard rules for the RFC-7807 model. Decides non-interference and shape; the reachability closure of the type graph and JSON visibility are decided by visitors over runtime ASTs and are not decided here.", checkC07)
}

func checkC07(c *Ctx, r *Report) {
	// an embedded struct is composed into its parent (allOf) because it is embedded - nothing else
	// (its tag, its name) takes part in that decision, in either emitter or in the shared helper
	defer checkEmbeddingDecision(c, r, "C07.c")
	// a type's description / deprecation are its own: not those of the `type ( ... )` block it is written in
	defer checkOwnDocWins(c, r, "C07.e")
	// the models the spec is built from are the reduced declarations, not what another generator left in them
	defer checkNoInPlaceWritesToInputs(c, r, "C07.e", "core/metadata", "generator/swagen", "generator/routes")
	// ... and none is taken out again: the lists of values, fields and models that were built element
	// by element are not compacted or filtered afterwards (the spec post-processing only re-orders)
	defer ruleNoCompaction(c, r, "C07.c", "generator/swagen", "core/metadata", "core/visitors")
	// an enum lists exactly the declared constants: each constant's value is read with the
	// accessor of its own kind (an unsigned constant above MaxInt64 is not "inexact")
	defer ruleHelperShape(c, r, "C07.c", helperShape{Fn: "gast.ExtractConstValue",
		AllowedCalls: []string{"go/constant.StringVal", "go/constant.Int64Val", "go/constant.Uint64Val", "go/constant.Float64Val", "go/constant.BoolVal", "(*go/types.Const).Val", "math.IsInf", "math.IsNaN", "(*go/types.Basic).Info"},
		MustCalls:    []string{"go/constant.StringVal", "go/constant.Int64Val", "go/constant.Uint64Val", "go/constant.Float64Val", "go/constant.BoolVal"},
		Why:          "every declared constant of an enum's type yields a value: string, signed, unsigned, float and bool constants are each read with their own go/constant accessor"})
	defer checkGraphMutationSites(c, r, "C07.a")
	defer checkProcessWideState(c, r, "C07.e")
	w := c.W
	r.NotDecided = append(r.NotDecided, "reachability closure of the type graph ('and no others')", "JSON visibility of fields as computed by the struct visitor", "the type-string to schema mapping")
	r.Assume = append(r.Assume, "a *openapi3.SchemaRef obtained from InterfaceToSchemaRef (or received as a parameter) may share its Value with components.schemas; one built from a literal / ToOpenApiSchemaRef does not")

	checkAliasWrites(c, r)

	for _, e := range emitters {
		gm := e.Pkg + ".GenerateModelsSpec"
		enumFn, structFn := "generateEnumSpec", "generateStructSpec"
		if e.Ver == "3.1" {
			enumFn, structFn = "generateEnumsSpec", "generateStructsSpec"
		}
		for _, l := range []struct{ field, callee string }{{"definitions.Models.Enums", enumFn}, {"definitions.Models.Structs", structFn}, {"definitions.Models.Aliases", "generateAliasSpec"}} {
			l := l
			ruleEach(c, r, "C07.b", gm,
				func(fi *FuncInfo) func(ast.Expr) bool { return w.rangeOverField(fi, l.field) }, l.field,
				func(fi *FuncInfo) func(ast.Node) bool { return w.callPred(fi, e.Pkg+"."+l.callee) }, l.callee, nil, false,
				e.Ver+": every model of "+l.field+" is emitted")
		}
		// component key = model name
		for _, fnm := range []string{enumFn, structFn, "generateAliasSpec"} {
			checkComponentKey(c, r, e.Ver, e.Pkg+"."+fnm)
		}
		checkStructShape(c, r, e.Ver, e.Pkg+"."+structFn)
		checkEnumAliasShape(c, r, e.Ver, e.Pkg, enumFn)
	}

	// producers of the model lists
	const gmod = "(*core/pipeline.GleecePipeline).getModels"
	// the type-name table of the spec: names that are mapped to an inline primitive instead of a
	// reference to a component. Every label must be a predeclared Go type (or one of the reviewed
	// library spellings): a label that a user-declared type can also be called ("Duration",
	// "ID", ...) turns every such type into an inline primitive and drops its component reference.
	if fi := need(c, r, "C07.c", "generator/swagen/swagtool.ToOpenApiType"); fi != nil {
		reviewed := map[string]bool{"[]byte": true, "bytes": true, "Time": true, "time.Time": true}
		isParam := func(e ast.Expr) bool {
			id, ok := ast.Unparen(e).(*ast.Ident)
			if !ok {
				return false
			}
			_, isVar := fi.Pkg.TypesInfo.ObjectOf(id).(*types.Var)
			return isVar && fi.Pkg.TypesInfo.TypeOf(id) != nil && fi.Pkg.TypesInfo.TypeOf(id).String() == "string"
		}
		labels, ps := w.dispatchLabels(fi, isParam)
		viol := ""
		var sites []string
		for _, p := range ps {
			sites = append(sites, w.pos(p))
		}
		for _, l := range labels {
			if reviewed[l] {
				continue
			}
			if tn, ok := types.Universe.Lookup(l).(*types.TypeName); ok && tn != nil {
				continue
			}
			viol = fmt.Sprintf("ToOpenApiType maps the type name %q to a primitive: that is not a predeclared Go type, so a struct, enum or alias a project happens to call %q is emitted inline as that primitive instead of as a reference to its component", l, l)
		}
		if len(labels) < 10 {
			viol = fmt.Sprintf("only %d type-name labels recognised in ToOpenApiType (floor 10)", len(labels))
		}
		r.add("C07.c", "typed-enum", fi.Key+":labels-are-predeclared-types", "the names mapped to inline primitives are the predeclared Go types plus the reviewed time/bytes spellings", []string{fi.Key}, sites, viol)
	}
	// a field whose metadata cannot be built fails the struct: it is never silently left out of the component
	ruleErrPropagates(c, r, "C07.b", "(*core/visitors.StructVisitor).VisitStructType", "(*core/visitors.StructVisitor).getFieldMeta", -1, "a failing getFieldMeta fails VisitStructType (no property silently missing from the component)")
	ruleEach(c, r, "C07.b", gmod,
		func(fi *FuncInfo) func(ast.Expr) bool {
			return func(e ast.Expr) bool {
				cl, ok := e.(*ast.CallExpr)
				return ok && strings.HasSuffix(calleeOfCall(fi.Pkg.TypesInfo, cl), ".Enums")
			}
		}, "symGraph.Enums()",
		func(fi *FuncInfo) func(ast.Node) bool { return w.appendTo(fi, w.resultSlice(fi)) }, "append(reducedEnums)", nil, true,
		"every enum of the graph is reduced and kept")
	modelsT := w.lookupType("definitions", "Models")
	ruleFieldFlow(c, r, ffSpec{Clause: "C07.b", Fn: gmod, Owner: modelsT, Field: "Structs", MustCalls: []string{"graphs/symboldg.ComposeStructs"}, AllowedFields: []string{"*"}, AllowedCalls: []string{"*"}, Desc: "Models.Structs = ComposeStructs(graph)"})
	ruleFieldFlow(c, r, ffSpec{Clause: "C07.b", Fn: gmod, Owner: modelsT, Field: "Aliases", MustCalls: []string{"graphs/symboldg.ComposeAliases"}, AllowedFields: []string{"*"}, AllowedCalls: []string{"*"}, Desc: "Models.Aliases = ComposeAliases(graph)"})
	ruleFieldFlow(c, r, ffSpec{Clause: "C07.b", Fn: gmod, Owner: modelsT, Field: "Enums", MustCalls: []string{"(core/metadata.EnumMeta).Reduce"}, AllowedFields: []string{"*"}, AllowedCalls: []string{"*"}, Desc: "Models.Enums = reduced graph enums"})
	const rsl = "graphs/symboldg.reduceStructLists"
	ruleEach(c, r, "C07.b", rsl,
		func(fi *FuncInfo) func(ast.Expr) bool {
			return w.rangeOverField(fi, "graphs/symboldg.RawStructModelsList.Structs")
		}, "structList.Structs",
		func(fi *FuncInfo) func(ast.Node) bool { return w.appendTo(fi, w.resultSlice(fi)) }, "append(reducedList)", nil, true,
		"every plain struct is reduced and kept")
	ruleEach(c, r, "C07.b", rsl,
		func(fi *FuncInfo) func(ast.Expr) bool {
			return w.rangeOverField(fi, "graphs/symboldg.RawStructModelsList.GenericStructs")
		}, "structList.GenericStructs",
		func(fi *FuncInfo) func(ast.Node) bool { return w.appendTo(fi, w.resultSlice(fi)) }, "append(reducedList)", nil, true,
		"every generic struct contributes its instantiations")
	const csl = "graphs/symboldg.collectStructModelList"
	ruleEach(c, r, "C07.b", csl,
		func(fi *FuncInfo) func(ast.Expr) bool {
			return func(e ast.Expr) bool {
				cl, ok := e.(*ast.CallExpr)
				return ok && strings.HasSuffix(calleeOfCall(fi.Pkg.TypesInfo, cl), ".FindByKind")
			}
		}, "graph.FindByKind(struct)",
		func(fi *FuncInfo) func(ast.Node) bool {
			return w.appendTo(fi, func(e ast.Expr) bool {
				s := exprString(e)
				return s == "modelList.Structs" || s == "modelList.GenericStructs"
			})
		}, "append(modelList.Structs | GenericStructs)", nil, true,
		"every struct node of the graph lands in exactly one of the two model lists")

	// enum constants: every constant of the enum's type is kept
	const gev = "(*core/visitors.EnumVisitor).getEnumValueDefinitions"
	ruleEach(c, r, "C07.e", gev,
		func(fi *FuncInfo) func(ast.Expr) bool {
			return func(e ast.Expr) bool {
				cl, ok := e.(*ast.CallExpr)
				return ok && calleeOfCall(fi.Pkg.TypesInfo, cl) == "(*go/types.Scope).Names"
			}
		}, "scope.Names()",
		func(fi *FuncInfo) func(ast.Node) bool { return w.appendTo(fi, w.resultSlice(fi)) }, "append(out)",
		func(fi *FuncInfo) []skipSpec {
			return []skipSpec{
				{Cond: w.commaOkOf(fi, "assert", "*go/types.Const"), Pol: false, Desc: "object is not a constant"},
				{Cond: func(e ast.Expr) bool {
					return containsNode(e, w.callPred(fi, "go/types.Identical"))
				}, Pol: false, Desc: "constant is of another type (not Identical)"},
				{Cond: func(e ast.Expr) bool {
					// the enum's name compared with the aliased object's name
					x, y, ok := eqOperands(e)
					if !ok {
						return false
					}
					a := w.exprAtoms(fi, x)
					b := w.exprAtoms(fi, y)
					isAliasName := func(t *Atoms) bool { return t.Calls["(*go/types.Alias).Obj"] }
					isEnumName := func(t *Atoms) bool { return t.Calls["(*go/types.object).Name"] && !t.Calls["(*go/types.Alias).Obj"] }
					return (isAliasName(a) && isEnumName(b)) || (isAliasName(b) && isEnumName(a))
				}, Pol: false, Desc: "alias of another name"},
				{Cond: func(e ast.Expr) bool {
					x, y, ok := eqOperands(e)
					if !ok {
						return false
					}
					if isNilIdent(fi.Pkg.TypesInfo, x) {
						x, y = y, x
					}
					return isNilIdent(fi.Pkg.TypesInfo, y) && w.exprAtoms(fi, x).Calls["gast.ExtractConstValue"]
				}, Pol: true, Desc: "value cannot be represented"},
			}
		}, true,
		"every package-level constant whose type is identical to the enum's type becomes an enum value (exported or not)")

	// C07.d RFC-7807 model only when a plain error is present
	ruleGuarded(c, r, "C07.d", "generator/swagen/swagtool.AppendErrorSchema", "append guarded by hasAnyErrorTypes",
		func(ins ssa.Instruction) bool {
			st, ok := ins.(*ssa.Store)
			if !ok {
				return false
			}
			_, isParam := st.Addr.(*ssa.Parameter)
			return isParam
		},
		func(a *sliceAtoms, cnd ssa.Value) bool {
			for p := range a.Params {
				if paramTyped(p, "bool") {
					return true
				}
			}
			return false
		}, true, 1, "the RFC-7807 model is appended only when hasAnyErrorTypes")
	pipeT := w.lookupType("core/pipeline", "GleeceFlattenedMetadata")
	ruleFieldFlow(c, r, ffSpec{Clause: "C07.d", Fn: "(*core/pipeline.GleecePipeline).GenerateIntermediate", Owner: pipeT, Field: "PlainErrorPresent", MustCalls: []string{"(graphs/symboldg.SymbolGraphBuilder).IsSpecialPresent"}, AllowedFields: []string{"*"}, Desc: "PlainErrorPresent = graph.IsSpecialPresent(error)"})
	for _, fn := range []string{"cmd.GenerateSpec", "cmd.GenerateSpecAndRoutes"} {
		if fi := need(c, r, "C07.d", fn); fi != nil {
			viol := ""
			var sites []string
			for _, cl := range callsIn(fi.SSA, false, nameIs("generator/swagen.GenerateAndOutputSpec")) {
				sites = append(sites, w.pos(cl.Pos()))
				if a := sliceOf(cl.Common().Args[3]); !a.hasFieldNamed("PlainErrorPresent") {
					viol = fmt.Sprintf("%s: hasAnyErrorTypes is not meta.PlainErrorPresent", w.pos(cl.Pos()))
				}
			}
			if len(sites) != 1 {
				viol = "expected one GenerateAndOutputSpec call"
			}
			r.add("C07.d", "fieldflow", fn+":PlainErrorPresent", "the spec writer is told whether a plain error is returned anywhere", []string{fn}, sites, viol)
		}
	}

	// ---- C07.f the IR mirrors the declaration: every declared field is reduced, the metadata
	// node of a field is the parsed declaration itself, embedding is decided by Go's own rule
	ruleEach(c, r, "C07.f", "(core/metadata.StructMeta).Reduce",
		func(fi *FuncInfo) func(ast.Expr) bool { return w.rangeOverField(fi, "core/metadata.StructMeta.Fields") }, "s.Fields",
		func(fi *FuncInfo) func(ast.Node) bool { return w.callPred(fi, "(core/metadata.FieldMeta).Reduce") }, "field.Reduce",
		func(fi *FuncInfo) []skipSpec {
			return []skipSpec{{Cond: func(e ast.Expr) bool { return len(jsonVisibilityGaps(w.exprAtomsDeep(fi, e))) == 0 }, Pol: false, Desc: "the field is not JSON-visible"}}
		}, true,
		"every JSON-visible field of a struct declaration is reduced into the model (the only skip: unexported non-embedded fields and fields tagged json:\"-\")")
	// ... and that skip exists and is exactly Go's rule: a property for a field encoding/json never
	// writes (or under a name it does not use) describes a document the server does not produce
	if fi := need(c, r, "C07.f", "(core/metadata.StructMeta).Reduce"); fi != nil {
		viol := "no skip of JSON-invisible fields in the loop over the declared fields"
		var sites []string
		for _, sk := range w.skipSites("core/metadata") {
			if sk.Fn != fi.Key || !strings.Contains(sk.Over, "FieldMeta") {
				continue
			}
			sites = append(sites, w.pos(sk.Pos))
			if gaps := jsonVisibilityGaps(sk.Atoms); len(gaps) == 0 {
				viol = ""
			} else if viol != "" {
				viol = fmt.Sprintf("%s: the skip of invisible fields does not consult %v: properties = the fields encoding/json writes (exported or embedded, not tagged json:\"-\")", w.pos(sk.Pos), gaps)
			}
		}
		if len(sites) == 0 {
			sites = []string{w.pos(fi.Decl.Pos())}
		}
		o := r.add("C07.c", "guardedby", fi.Key+":json-visible-fields-only", "a struct's properties are its JSON-visible fields: unexported (non-embedded) fields and fields tagged json:\"-\" are left out", []string{fi.Key}, sites, viol)
		o.NonTrivial = true
	}
	// the JSON name: the tag's name part, the Go name when the tag has none (`json:",omitempty"`)
	if fi := need(c, r, "C07.c", "generator/swagen/swagtool.GetJsonNameFromTag"); fi != nil {
		viol := "GetJsonNameFromTag never falls back to the Go name when the tag's name part is empty (`json:\",omitempty\"` would yield a property named \"\")"
		var sites []string
		for _, ex := range exitsOf(fi.SSA) {
			if ex.Ret == nil || len(ex.Ret.Results) != 1 {
				continue
			}
			isDefault := false
			for _, ov := range w.originValues(unspill(ex.Ret.Results[0], ex.Block)) {
				if p, ok := ov.(*ssa.Parameter); ok && len(fi.SSA.Params) == 2 && p == fi.SSA.Params[1] {
					isDefault = true
				}
			}
			if !isDefault {
				continue
			}
			for _, f := range dominatingFacts(ex.Block) {
				cnd, pol := unwrapNot(f.Cond, f.Pol)
				bo, ok := cnd.(*ssa.BinOp)
				if !ok {
					continue
				}
				a := sliceOf(cnd)
				emptyTest := (bo.Op == token.EQL && pol || bo.Op == token.NEQ && !pol) && (hasConst(a, `""`) || (a.Calls["builtin.len"] && hasConst(a, "0")))
				// the name part: what precedes the first comma, however it is cut off
				if emptyTest && (a.Calls["strings.Split"] || a.Calls["strings.SplitN"] || a.Calls["strings.Cut"] || a.Calls["strings.Index"] || a.Calls["strings.IndexByte"]) && hasConst(a, `","`) {
					viol = ""
					sites = append(sites, w.pos(retPos(ex)))
				}
			}
		}
		if len(sites) == 0 {
			sites = []string{w.pos(fi.Decl.Pos())}
		}
		r.add("C07.c", "guardedby", fi.Key+":empty-name-falls-back", "a property is named by the json tag's name part, or by the Go field name when that part is empty", []string{fi.Key}, sites, viol)
	}
	{
		viol := ""
		var sites []string
		for _, p := range w.Pkgs {
			for _, f := range p.Syntax {
				ast.Inspect(f, func(n ast.Node) bool {
					cl, ok := n.(*ast.CompositeLit)
					if !ok {
						return true
					}
					t := p.TypesInfo.TypeOf(cl)
					if nt, ok := derefNamed(t); ok && nt.Obj().Pkg() != nil && nt.Obj().Pkg().Path() == "go/ast" {
						if _, isStruct := nt.Underlying().(*types.Struct); isStruct {
							sites = append(sites, w.pos(cl.Pos()))
							viol = fmt.Sprintf("%s: an ast.%s is fabricated instead of using the parsed node: metadata that is later read off the node (struct tags, doc comments, positions for ranges and symbol keys) is silently lost or detached from the source", w.pos(cl.Pos()), nt.Obj().Name())
						}
					}
					return true
				})
			}
		}
		if len(sites) == 0 {
			sites = append(sites, "gleece:0")
		}
		r.add("C07.f", "whowrites", "no-fabricated-ast-nodes", "metadata nodes are parsed declarations; gleece never constructs go/ast nodes of its own", []string{"gleece"}, sites, viol)
	}
	if fi := need(c, r, "C07.f", "gast.IsEmbeddedOrAnonymousField"); fi != nil {
		viol := ""
		reads := map[string]bool{}
		allInstrs(fi.SSA, true, func(_ *ssa.Function, _ *ssa.BasicBlock, _ int, ins ssa.Instruction) {
			switch x := ins.(type) {
			case *ssa.FieldAddr:
				if v := structFieldVar(x.X.Type(), x.Field); v != nil {
					reads[v.Name()] = true
				}
			case *ssa.TypeAssert:
				viol = fmt.Sprintf("%s: IsEmbeddedOrAnonymousField inspects the kind of the field's type: in Go a field is embedded iff it has no names, whatever its type expression (T, *T, pkg.T, *pkg.T, G[X])", w.pos(x.Pos()))
			case ssa.CallInstruction:
				if nm := calleeName(x); nm != "builtin.len" {
					viol = fmt.Sprintf("%s: IsEmbeddedOrAnonymousField calls %s", w.pos(x.Pos()), nm)
				}
			}
		})
		if viol == "" && (len(reads) != 1 || !reads["Names"]) {
			viol = fmt.Sprintf("IsEmbeddedOrAnonymousField decides on %v instead of on the absence of names alone", keys(reads))
		}
		r.add("C07.f", "fieldflow", fi.Key+":no-names", "a field is embedded iff its declaration has no names", []string{fi.Key}, []string{w.pos(fi.Decl.Pos())}, viol)
	}

	ruleHelperShape(c, r, "C07.d", helperShape{Fn: "generator/swagen/swagtool.IsFieldRequired", AllowedCalls: []string{"strings.Split"}, MustConsts: []string{",", "required"}, OnlyConsts: []string{",", "required"},
		Why: "a property is listed under `required` iff `required` is one of the comma-separated rules of its validate tag"})

	ruleIRWriters(c, r, "C07.b", "definitions.StructMetadata", "definitions.FieldMetadata", "definitions.EnumMetadata", "definitions.AliasMetadata", "definitions.NakedAliasMetadata", "definitions.Models")
	// every element filter in these packages is a reviewed one
	ruleSkipInventory(c, r, "C07.e", loadSkipTable(c.VerifDir), 6, "generator/swagen", "core/metadata", "core/visitors")
}

// checkAliasWrites implements C07.a.
func checkAliasWrites(c *Ctx, r *Report) { checkAliasWritesAs(c, r, "C07.a") }

func checkAliasWritesAs(c *Ctx, r *Report, aliasClause string) {
	w := c.W
	sref := w.extType(pkgKin, "SchemaRef")
	schema := w.extType(pkgKin, "Schema")
	if sref == nil || schema == nil {
		r.undecided(aliasClause, "alias-write", "swagen30", "", "kin-openapi types not found")
		return
	}
	// reviewed exceptions: writes whose SchemaRef is loaded from memory but is provably this
	// function's own object (one line of reason each)
	exceptions := map[string]string{
		"generator/swagen/swagen30.createRequestFormParam:Required":   "formSchema is the urlencoded body's own object schema, created a few lines above with ToOpenApiSchemaRef(\"object\") and looked up under the urlencoded content key",
		"generator/swagen/swagen30.createRequestFormParam:Properties": "same object (map update of its Properties)",
	}
	var sites []string
	nWrites := 0
	type bad struct{ fn, field, pos string }
	var bads []bad
	for _, fn := range w.SSAFuncs {
		if fn.Pkg == nil || short(fn.Pkg.Pkg.Path()) != "generator/swagen/swagen30" {
			continue
		}
		for _, b := range fn.Blocks {
			for _, ins := range b.Instrs {
				var addr ssa.Value
				switch x := ins.(type) {
				case *ssa.Store:
					addr = x.Addr
				case *ssa.MapUpdate:
					// schema.Properties[k] = v : the map is loaded from &schema.Properties
					if l, ok := x.Map.(*ssa.UnOp); ok && l.Op == token.MUL {
						addr = l.X
					}
				}
				if addr == nil {
					continue
				}
				fa, ok := addr.(*ssa.FieldAddr)
				if !ok {
					continue
				}
				if nt, ok := derefNamed(fa.X.Type()); !ok || nt.Obj() != schema.Obj() {
					continue
				}
				ld, ok := fa.X.(*ssa.UnOp)
				if !ok || ld.Op != token.MUL {
					continue
				}
				vfa, ok := ld.X.(*ssa.FieldAddr)
				if !ok {
					continue
				}
				if nt, ok := derefNamed(vfa.X.Type()); !ok || nt.Obj() != sref.Obj() {
					continue
				}
				if f := structFieldVar(vfa.X.Type(), vfa.Field); f == nil || f.Name() != "Value" {
					continue
				}
				R := vfa.X
				nWrites++
				p := w.pos(ins.Pos())
				sites = append(sites, p)
				if !mayAliasComponent(R, map[ssa.Value]bool{}) {
					continue
				}
				guarded := false
				for _, f := range dominatingFacts(b) {
					cnd, pol := unwrapNot(f.Cond, f.Pol)
					bo, ok := cnd.(*ssa.BinOp)
					if !ok {
						continue
					}
					isRefEmpty := (bo.Op == token.EQL && pol) || (bo.Op == token.NEQ && !pol)
					if !isRefEmpty {
						continue
					}
					for _, side := range []ssa.Value{bo.X, bo.Y} {
						if l, ok := side.(*ssa.UnOp); ok && l.Op == token.MUL {
							if rfa, ok := l.X.(*ssa.FieldAddr); ok && rfa.X == R {
								if f := structFieldVar(rfa.X.Type(), rfa.Field); f != nil && f.Name() == "Ref" {
									guarded = true
								}
							}
						}
					}
				}
				if !guarded {
					fld := structFieldVar(fa.X.Type(), fa.Field)
					bads = append(bads, bad{fnShort(fn), fld.Name(), p})
				}
			}
		}
	}
	if nWrites < 20 {
		r.undecided(aliasClause, "alias-write", "swagen30:coverage", "", fmt.Sprintf("only %d writes through SchemaRef.Value found in swagen30 (floor 20): the rule lost coverage", nWrites))
	}
	o := r.add(aliasClause, "alias-write", "swagen30:writes-through-SchemaRef.Value", "3.0: every write through SchemaRef.Value was inspected; those through a possibly shared reference are listed as separate obligations", []string{"generator/swagen/swagen30"}, sites, "")
	o.NonTrivial = true
	seenBad := map[string]bool{}
	for _, bd := range bads {
		k := bd.fn + ":" + bd.field
		if seenBad[k] {
			continue
		}
		seenBad[k] = true
		viol := fmt.Sprintf("%s: %s writes Schema.%s through a SchemaRef that may share its Value with components.schemas (origin: InterfaceToSchemaRef result / parameter / loaded pointer) without knowing Ref == \"\": the write changes the shared component for every user of the type", bd.pos, bd.fn, bd.field)
		desc := "write of Schema." + bd.field + " in " + bd.fn + " does not go through a shared component"
		if reason, ok := exceptions[k]; ok {
			viol = ""
			desc += " (reviewed: " + reason + ")"
		}
		r.add(aliasClause, "alias-write", "swagen30:"+k, desc, []string{bd.fn}, []string{bd.pos}, viol)
	}
	r.count("schema_writes_checked", nWrites)
}

// mayAliasComponent: the SchemaRef pointer may be one whose Value is a component's value.
func mayAliasComponent(v ssa.Value, seen map[ssa.Value]bool) bool {
	if seen[v] {
		return false
	}
	seen[v] = true
	switch x := v.(type) {
	case *ssa.Alloc:
		return false // fresh literal in this function
	case *ssa.Parameter:
		return true
	case *ssa.Call:
		switch calleeName(x) {
		case "generator/swagen/swagen30.ToOpenApiSchemaRef":
			return false
		}
		return true
	case *ssa.Phi:
		for _, e := range x.Edges {
			if mayAliasComponent(e, seen) {
				return true
			}
		}
		return false
	case *ssa.UnOp:
		// loaded from memory (struct field, slice element, map): unknown origin
		return true
	case *ssa.MakeInterface:
		return mayAliasComponent(x.X, seen)
	}
	return true
}

// checkComponentKey: the schema is stored under the model's own name.
func checkComponentKey(c *Ctx, r *Report, ver, fn string) {
	fi := need(c, r, "C07.c", fn)
	if fi == nil {
		return
	}
	w := c.W
	info := fi.Pkg.TypesInfo
	viol := ""
	var sites []string
	n := 0
	w.inspectRegion(fi, func(nd ast.Node) bool {
		switch x := nd.(type) {
		case *ast.AssignStmt:
			if len(x.Lhs) == 1 {
				if ix, ok := x.Lhs[0].(*ast.IndexExpr); ok && strings.HasSuffix(exprString(ix.X), "Components.Schemas") {
					n++
					sites = append(sites, w.pos(x.Pos()))
					a := w.exprAtoms(fi, ix.Index)
					ok2 := len(a.Fields) == 1 && len(a.Calls) == 0
					for f := range a.Fields {
						if !strings.HasSuffix(f, "Metadata.Name") {
							ok2 = false
						}
					}
					if !ok2 {
						viol = fmt.Sprintf("%s: component key is not the model's Name (%s)", w.pos(x.Pos()), a)
					}
				}
			}
		case *ast.CallExpr:
			cn := calleeOfCall(info, x)
			if strings.Contains(cn, "OrderedMap[") && strings.HasSuffix(cn, ").Set") {
				if se, ok := x.Fun.(*ast.SelectorExpr); ok && strings.HasSuffix(exprString(se.X), "Components.Schemas") {
					n++
					sites = append(sites, w.pos(x.Pos()))
					a := w.exprAtoms(fi, x.Args[0])
					ok2 := len(a.Fields) == 1 && len(a.Calls) == 0
					for f := range a.Fields {
						if !strings.HasSuffix(f, "Metadata.Name") {
							ok2 = false
						}
					}
					if !ok2 {
						viol = fmt.Sprintf("%s: component key is not the model's Name (%s)", w.pos(x.Pos()), a)
					}
				}
			}
		}
		return true
	})
	if n != 1 {
		viol = fmt.Sprintf("expected exactly one insertion into components.schemas in %s, found %d", fn, n)
	}
	r.add("C07.c", "fieldflow", fn+":components.schemas[model.Name]", ver+": one schema per model, keyed by the model's name", []string{fn}, sites, viol)
}

func checkStructShape(c *Ctx, r *Report, ver, fn string) {
	fi := need(c, r, "C07.c", fn)
	if fi == nil {
		return
	}
	w := c.W
	info := fi.Pkg.TypesInfo
	fm := "definitions.FieldMetadata"
	// property key: GetJsonNameFromTag(field.Tag, field.Name)
	viol := ""
	var sites []string
	nKey := 0
	checkKey := func(pos token.Pos, key ast.Expr) {
		nKey++
		sites = append(sites, w.pos(pos))
		a := w.exprAtoms(fi, key)
		if !a.hasCall("generator/swagen/swagtool.GetJsonNameFromTag") || !a.Fields[fm+".Tag"] || !a.Fields[fm+".Name"] {
			viol = fmt.Sprintf("%s: property key is not GetJsonNameFromTag(field.Tag, field.Name) (%s)", w.pos(pos), a)
		}
	}
	w.inspectRegion(fi, func(nd ast.Node) bool {
		switch x := nd.(type) {
		case *ast.AssignStmt:
			if len(x.Lhs) == 1 {
				if ix, ok := x.Lhs[0].(*ast.IndexExpr); ok && strings.HasSuffix(exprString(ix.X), ".Properties") {
					checkKey(x.Pos(), ix.Index)
				}
			}
		case *ast.CallExpr:
			cn := calleeOfCall(info, x)
			if strings.Contains(cn, "OrderedMap[") && strings.HasSuffix(cn, ").Set") {
				if se, ok := x.Fun.(*ast.SelectorExpr); ok && strings.HasSuffix(exprString(se.X), ".Properties") {
					checkKey(x.Pos(), x.Args[0])
				}
			}
		}
		return true
	})
	if nKey != 1 {
		viol = fmt.Sprintf("expected one property insertion in %s, found %d", fn, nKey)
	}
	r.add("C07.c", "fieldflow", fn+":property-key", ver+": a property is named by the field's json tag (or its Go name)", []string{fn}, sites, viol)

	// required list: appended iff IsFieldRequired(validate tag), with the same json name
	viol = ""
	sites = nil
	nReq := 0
	w.inspectRegion(fi, func(nd ast.Node) bool {
		as, ok := nd.(*ast.AssignStmt)
		if !ok || len(as.Lhs) != 1 || exprString(as.Lhs[0]) != "requiredFields" || as.Tok != token.ASSIGN {
			return true
		}
		cl, ok := as.Rhs[0].(*ast.CallExpr)
		if !ok || calleeOfCall(info, cl) != "builtin.append" {
			return true
		}
		nReq++
		sites = append(sites, w.pos(as.Pos()))
		a := w.exprAtoms(fi, cl.Args[1])
		if !a.hasCall("generator/swagen/swagtool.GetJsonNameFromTag") {
			viol = fmt.Sprintf("%s: the name put into `required` is not the property's json name", w.pos(as.Pos()))
		}
		return true
	})
	if nReq != 1 {
		viol = fmt.Sprintf("expected one append to requiredFields in %s, found %d", fn, nReq)
	}
	// guard via SSA: the append block is dominated by IsFieldRequired(GetTagValue(tag,"validate")) true
	gOK := false
	allInstrs(fi.SSA, false, func(_ *ssa.Function, b *ssa.BasicBlock, _ int, ins ssa.Instruction) {
		cl, ok := ins.(*ssa.Call)
		if !ok || calleeName(cl) != "builtin.append" {
			return
		}
		for _, f := range dominatingFacts(b) {
			cnd, pol := unwrapNot(f.Cond, f.Pol)
			a := sliceOf(cnd)
			if pol && a.Calls["generator/swagen/swagtool.IsFieldRequired"] && a.Calls["generator/swagen/swagtool.GetTagValue"] && hasConst(a, `"validate"`) && a.hasFieldNamed("Tag") {
				gOK = true
			}
		}
	})
	if !gOK {
		viol = "no append in " + fn + " is guarded by IsFieldRequired(GetTagValue(field.Tag, \"validate\"))"
	}
	r.add("C07.c", "guardedby", fn+":required-iff-validated", ver+": `required` lists exactly the fields whose validate tag contains required", []string{fn}, sites, viol)

	// embedded fields -> allOf; embedded `error` skipped
	viol = ""
	sites = nil
	allOfOK, errSkipOK := false, false
	w.inspectRegion(fi, func(nd ast.Node) bool {
		switch x := nd.(type) {
		case *ast.AssignStmt:
			if len(x.Lhs) == 1 && strings.HasSuffix(exprString(x.Lhs[0]), ".AllOf") {
				sites = append(sites, w.pos(x.Pos()))
				if cl, ok := x.Rhs[0].(*ast.CallExpr); ok && calleeOfCall(info, cl) == "builtin.append" && len(cl.Args) == 2 {
					a := w.exprAtoms(fi, cl.Args[1])
					if a.Fields[fm+".Type"] {
						allOfOK = true
					}
				}
			}
		}
		return true
	})
	// an embedded field whose type is `error` contributes nothing: there is a test of
	// FieldMetadata.Type against "error", and on its is-error side the iteration ends without
	// appending anything (however the test is written: skip-and-continue in a filtering loop,
	// or the append inside the is-not-error branch)
	if tv := fieldOf(w.lookupType("definitions", "FieldMetadata"), "Type"); tv != nil {
		nTests, bad := 0, ""
		allInstrs(fi.SSA, true, func(_ *ssa.Function, b *ssa.BasicBlock, _ int, ins ssa.Instruction) {
			ifi, ok := ins.(*ssa.If)
			if !ok {
				return
			}
			cnd, pol := unwrapNot(ifi.Cond, true)
			bo, isB := cnd.(*ssa.BinOp)
			if !isB || (bo.Op != token.EQL && bo.Op != token.NEQ) {
				return
			}
			if sa := sliceOf(cnd); !sa.hasField(tv) || !hasConst(sa, `"error"`) {
				return
			}
			nTests++
			sites = append(sites, w.pos(instrPos(b)))
			isErr := b.Succs[0]
			if (bo.Op == token.NEQ) == pol {
				isErr = b.Succs[1]
			}
			seen := map[*ssa.BasicBlock]bool{}
			work := []*ssa.BasicBlock{isErr}
			for len(work) > 0 {
				cur := work[len(work)-1]
				work = work[:len(work)-1]
				if seen[cur] || cur.Dominates(b) {
					continue // back at the loop head (or before the test): the iteration is over
				}
				seen[cur] = true
				for _, in := range cur.Instrs {
					if call, ok := in.(*ssa.Call); ok && calleeName(call) == "builtin.append" {
						bad = w.pos(call.Pos())
					}
				}
				work = append(work, cur.Succs...)
			}
		})
		errSkipOK = nTests > 0 && bad == ""
		if bad != "" {
			sites = append(sites, bad)
		}
	}
	if ver == "3.1" {
		// 3.1 uses swagtool.HasEmbeddedField for the error filter in addition to the inline test
		if at := callsIn(fi.SSA, false, nameIs("generator/swagen/swagtool.HasEmbeddedField")); len(at) > 0 {
			sites = append(sites, w.pos(at[0].Pos()))
		}
	}
	if !allOfOK {
		viol = "embedded fields are not appended to allOf with the schema of their type"
	}
	if !errSkipOK {
		viol = "embedded `error` fields are not skipped"
	}
	r.add("C07.c", "fieldflow", fn+":embedding->allOf", ver+": embedded structs appear via allOf, embedded error is skipped", []string{fn}, sites, viol)
}

func checkEnumAliasShape(c *Ctx, r *Report, ver, pkg, enumFn string) {
	w := c.W
	var schemaT *types.Named
	if ver == "3.0" {
		schemaT = w.extType(pkgKin, "Schema")
	} else {
		schemaT = w.extType(pkgHBase, "Schema")
	}
	ruleFieldFlow(c, r, ffSpec{Clause: "C07.c", Fn: pkg + "." + enumFn, Owner: schemaT, Field: "Type", Must: []string{"definitions.EnumMetadata.Type"}, MustCalls: []string{"generator/swagen/swagtool.ToOpenApiType"}, Desc: ver + ": enum schema type = mapped underlying type"})
	ruleFieldFlow(c, r, ffSpec{Clause: "C07.c", Fn: pkg + "." + enumFn, Owner: schemaT, Field: "Enum", Must: []string{"definitions.EnumMetadata.Values"}, AllowedCalls: []string{"*"}, Desc: ver + ": enum values = the declared constants"})
	ruleEach(c, r, "C07.c", pkg+"."+enumFn,
		func(fi *FuncInfo) func(ast.Expr) bool { return w.rangeOverField(fi, "definitions.EnumMetadata.Values") }, "model.Values",
		func(fi *FuncInfo) func(ast.Node) bool { return w.appendTo(fi, w.resultSlice(fi)) }, "append(enumValues)", nil, false,
		ver+": every declared constant is listed")
	ruleFieldFlow(c, r, ffSpec{Clause: "C07.c", Fn: pkg + ".generateAliasSpec", Owner: schemaT, Field: "Type", Must: []string{"definitions.NakedAliasMetadata.Type"}, MustCalls: []string{"generator/swagen/swagtool.ToOpenApiType"}, Desc: ver + ": alias schema type = mapped underlying primitive"})
}

// jsonVisibilityGaps: what a "this field is not serialised" decision must consult and does not.
func jsonVisibilityGaps(a *Atoms) []string {
	var gaps []string
	if !a.hasCall("go/ast.IsExported") && !a.hasCall("go/token.IsExported") && !a.hasCall("(*go/ast.Ident).IsExported") && !a.hasCall("(*go/types.Var).Exported") {
		gaps = append(gaps, "whether the field is exported")
	}
	if !a.Fields["core/metadata.FieldMeta.IsEmbedded"] {
		gaps = append(gaps, "FieldMeta.IsEmbedded (the fields of an embedded struct are promoted whatever its type is called)")
	}
	if !a.Lits[`"-"`] || !a.Lits[`"json"`] {
		gaps = append(gaps, "the json tag being \"-\"")
	}
	return gaps
}

func checkEmbeddingDecision(c *Ctx, r *Report, clause string) {
	ruleBranchConsultsOnly(c, r, clause, "definitions.FieldMetadata.IsEmbedded", []string{"definitions.FieldMetadata.Type", "definitions.StructMetadata.Fields"}, 3,
		"an embedded field is an allOf member of its parent's schema exactly when the Go declaration embeds it (the embedded `error` aside); both emitters and HasEmbeddedField decide alike",
		"generator/swagen")
}
