package main

import (
	"fmt"
	"go/ast"
	"go/parser"
	"go/scanner"
	"go/token"
	"strings"

	hast "github.com/aymerick/raymond/ast"
	"golang.org/x/tools/go/cfg"
)

// ---------------------------------------------------------------------------
// Go tokens inside template content

type gtok struct {
	Tok token.Token
	Lit string
}

func (g gtok) String() string {
	if g.Lit != "" {
		return g.Lit
	}
	return g.Tok.String()
}

// goToks tokenises a fragment of Go text (comments and automatic semicolons dropped).
func goToks(src string) []gtok {
	var s scanner.Scanner
	fset := token.NewFileSet()
	f := fset.AddFile("", fset.Base(), len(src))
	s.Init(f, []byte(src), func(token.Position, string) {}, 0)
	var out []gtok
	for {
		_, tok, lit := s.Scan()
		if tok == token.EOF {
			break
		}
		if tok == token.SEMICOLON && lit == "\n" {
			continue
		}
		if tok == token.COMMENT {
			continue
		}
		out = append(out, gtok{tok, lit})
	}
	return out
}

func tokStrings(ts []gtok) []string {
	out := make([]string, len(ts))
	for i, t := range ts {
		out[i] = t.String()
	}
	return out
}

// hasTokSeq: ts contains the token spelling sequence pat contiguously; returns index or -1.
func tokSeqIndex(ts []gtok, pat ...string) int {
	ss := tokStrings(ts)
outer:
	for i := 0; i+len(pat) <= len(ss); i++ {
		for j, p := range pat {
			if ss[i+j] != p {
				continue outer
			}
		}
		return i
	}
	return -1
}

func endsWithToks(ts []gtok, pat ...string) bool {
	ss := tokStrings(ts)
	if len(ss) < len(pat) {
		return false
	}
	for j, p := range pat {
		if ss[len(ss)-len(pat)+j] != p {
			return false
		}
	}
	return true
}

func startsWithToks(ts []gtok, pat ...string) bool {
	ss := tokStrings(ts)
	if len(ss) < len(pat) {
		return false
	}
	for j, p := range pat {
		if ss[j] != p {
			return false
		}
	}
	return true
}

// ---------------------------------------------------------------------------
// Document-order item stream of a program (RK-T2)

type tplItem struct {
	Kind    string // "tok", "mustache", "partial", "open", "else", "close"
	Tok     gtok
	Node    hast.Node
	Name    string // partial name / block helper name / mustache canonical
	HbDepth int
	Tpl     *Tpl
	Line    int
}

// streamOf linearises a program in document order. Partials are expanded (through the
// engine's partial table) when expand is true; extension partials are never expanded
// (they are user hook points) but appear as "partial" items.
func (tw *TplWorld) streamOf(eng *TplEngine, t *Tpl, p *hast.Program, expand bool) []tplItem {
	var out []tplItem
	var walk func(t *Tpl, p *hast.Program, depth int, stack []string)
	walk = func(t *Tpl, p *hast.Program, depth int, stack []string) {
		if p == nil {
			return
		}
		for _, st := range p.Body {
			switch n := st.(type) {
			case *hast.ContentStatement:
				for _, g := range goToks(n.Value) {
					out = append(out, tplItem{Kind: "tok", Tok: g, HbDepth: depth, Tpl: t, Line: n.Line, Node: n})
				}
			case *hast.MustacheStatement:
				out = append(out, tplItem{Kind: "mustache", Node: n, Name: n.Expression.Canonical(), HbDepth: depth, Tpl: t, Line: n.Line})
			case *hast.PartialStatement:
				name := partialName(n)
				out = append(out, tplItem{Kind: "partial", Node: n, Name: name, HbDepth: depth, Tpl: t, Line: n.Line})
				if expand {
					if target := eng.Partials[name]; target != nil {
						rec := false
						for _, s := range stack {
							if s == name {
								rec = true
							}
						}
						if !rec {
							walk(target, target.Prog, depth, append(stack, name))
							out = append(out, tplItem{Kind: "endpartial", Name: name, HbDepth: depth, Tpl: t, Line: n.Line})
						}
					}
				}
			case *hast.BlockStatement:
				out = append(out, tplItem{Kind: "open", Node: n, Name: n.Expression.Canonical(), HbDepth: depth, Tpl: t, Line: n.Line})
				walk(t, n.Program, depth+1, stack)
				if n.Inverse != nil {
					out = append(out, tplItem{Kind: "else", Node: n, HbDepth: depth, Tpl: t, Line: n.Line})
					walk(t, n.Inverse, depth+1, stack)
				}
				out = append(out, tplItem{Kind: "close", Node: n, HbDepth: depth, Tpl: t, Line: n.Line})
			}
		}
	}
	walk(t, p, 0, nil)
	return out
}

// ---------------------------------------------------------------------------
// Pure-Go partials (TplGo)

type goPartial struct {
	File *ast.File
	Fset *token.FileSet
	Tpl  *Tpl
	Src  string
}

// parseGoPartial parses a partial that is pure Go apart from `{{> X}}` statements.
func parseGoPartial(t *Tpl) (*goPartial, error) {
	var sb strings.Builder
	sb.WriteString("package p\n")
	for _, st := range t.Prog.Body {
		switch n := st.(type) {
		case *hast.ContentStatement:
			sb.WriteString(n.Original)
		case *hast.PartialStatement:
			sb.WriteString("\n// partial " + partialName(n) + "\n")
		case *hast.CommentStatement:
		default:
			return nil, fmt.Errorf("%s is not a pure-Go partial (contains %T at line %d)", t.File, st, st.Location().Line)
		}
	}
	fset := token.NewFileSet()
	f, err := parser.ParseFile(fset, t.File, sb.String(), parser.ParseComments)
	if err != nil {
		return nil, fmt.Errorf("%s: Go text does not parse: %v", t.File, err)
	}
	return &goPartial{File: f, Fset: fset, Tpl: t, Src: sb.String()}, nil
}

func (g *goPartial) fn(name string) *ast.FuncDecl {
	for _, d := range g.File.Decls {
		if fd, ok := d.(*ast.FuncDecl); ok && fd.Name.Name == name && fd.Recv == nil {
			return fd
		}
	}
	return nil
}

// site: line in the partial file (the synthetic "package p" line shifts by one).
func (g *goPartial) site(p token.Pos) string {
	pos := g.Fset.Position(p)
	return fmt.Sprintf("%s:%d", g.Tpl.File, pos.Line-1)
}

func exprString(e ast.Expr) string {
	switch x := e.(type) {
	case *ast.Ident:
		return x.Name
	case *ast.SelectorExpr:
		return exprString(x.X) + "." + x.Sel.Name
	case *ast.CallExpr:
		return exprString(x.Fun) + "()"
	case *ast.StarExpr:
		return "*" + exprString(x.X)
	case *ast.UnaryExpr:
		return x.Op.String() + exprString(x.X)
	case *ast.ParenExpr:
		return exprString(x.X)
	case *ast.BasicLit:
		return x.Value
	case *ast.IndexExpr:
		return exprString(x.X) + "[]"
	}
	return fmt.Sprintf("%T", e)
}

// ---------------------------------------------------------------------------
// authorize(): path exploration with constant propagation of local bool flags

type authResult struct {
	Sites     []string
	Violation string
	Paths     int
}

// checkAuthorize decides the approval rule on the untyped AST of `authorize`:
//   - `return nil` (approval) is reachable from the start of an outer-loop iteration only
//     along paths on which no authorization call failed and the inner loop over the
//     list's checks ran to exhaustion;
//   - every other return yields a variable that is assigned the callback's error on the
//     failing edge.
func checkAuthorize(g *goPartial) authResult {
	res := authResult{}
	fd := g.fn("authorize")
	if fd == nil {
		res.Violation = "func authorize not found in " + g.Tpl.File
		return res
	}
	res.Sites = append(res.Sites, g.site(fd.Pos()))
	if fd.Type.Results == nil || len(fd.Type.Results.List) != 1 || exprString(fd.Type.Results.List[0].Type) != "*runtime.SecurityError" {
		res.Violation = g.site(fd.Pos()) + ": authorize does not return *runtime.SecurityError"
		return res
	}
	if len(fd.Type.Params.List) < 2 {
		res.Violation = g.site(fd.Pos()) + ": authorize has no check-list parameter"
		return res
	}
	listsParam := fd.Type.Params.List[len(fd.Type.Params.List)-1].Names[0].Name

	// a recover() turns a panic of the callback into an ordinary return; with an unnamed
	// result that return yields nil (= approved), whatever the deferred closure assigns
	hasRecover := false
	ast.Inspect(fd, func(n ast.Node) bool {
		if c, ok := n.(*ast.CallExpr); ok {
			if id, ok := c.Fun.(*ast.Ident); ok && id.Name == "recover" {
				hasRecover = true
				res.Sites = append(res.Sites, g.site(c.Pos()))
			}
		}
		return true
	})
	if hasRecover && len(fd.Type.Results.List[0].Names) == 0 {
		res.Violation = g.site(fd.Pos()) + ": authorize recovers from panics but its result is unnamed: after a panic in the authorization callback the function returns the zero value nil (approved) and the controller method runs"
		return res
	}

	// locate loops and the auth call
	var outer, inner *ast.RangeStmt
	var authAssign *ast.AssignStmt
	ast.Inspect(fd, func(n ast.Node) bool {
		switch x := n.(type) {
		case *ast.RangeStmt:
			if id, ok := x.X.(*ast.Ident); ok && id.Name == listsParam && outer == nil {
				outer = x
			} else if outer != nil && inner == nil && x.Pos() > outer.Pos() && x.End() <= outer.End() {
				if se, ok := x.X.(*ast.SelectorExpr); ok && se.Sel.Name == "Checks" {
					if id, ok := se.X.(*ast.Ident); ok && outer.Value != nil && id.Name == exprString(outer.Value) {
						inner = x
					}
				}
			}
		case *ast.AssignStmt:
			if len(x.Rhs) == 1 {
				if c, ok := x.Rhs[0].(*ast.CallExpr); ok && exprString(c.Fun) == "RequestAuth.GleeceRequestAuthorization" {
					authAssign = x
				}
			}
		}
		return true
	})
	if outer == nil {
		res.Violation = g.site(fd.Pos()) + ": no loop over the security check lists parameter"
		return res
	}
	if inner == nil {
		res.Violation = g.site(outer.Pos()) + ": no inner loop over <list>.Checks"
		return res
	}
	if authAssign == nil || len(authAssign.Lhs) != 2 {
		res.Violation = g.site(fd.Pos()) + ": call `_, err := RequestAuth.GleeceRequestAuthorization(...)` not found"
		return res
	}
	if !(authAssign.Pos() > inner.Pos() && authAssign.End() <= inner.End()) {
		res.Violation = g.site(authAssign.Pos()) + ": the authorization callback is not invoked inside the loop over the list's checks"
		return res
	}
	// the callback must be given the current check
	call := authAssign.Rhs[0].(*ast.CallExpr)
	if inner.Value == nil || len(call.Args) == 0 || exprString(call.Args[len(call.Args)-1]) != exprString(inner.Value) {
		res.Violation = g.site(authAssign.Pos()) + ": the authorization callback is not given the current check of the list"
		return res
	}
	errVar := exprString(authAssign.Lhs[1])
	res.Sites = append(res.Sites, g.site(outer.Pos()), g.site(inner.Pos()), g.site(authAssign.Pos()))

	graph := cfg.New(fd.Body, func(c *ast.CallExpr) bool { return exprString(c.Fun) != "panic" })
	var outerBody, outerLoop, innerLoop, innerDone *cfg.Block
	for _, b := range graph.Blocks {
		switch {
		case b.Stmt == ast.Stmt(outer) && b.Kind == cfg.KindRangeBody:
			outerBody = b
		case b.Stmt == ast.Stmt(outer) && b.Kind == cfg.KindRangeLoop:
			outerLoop = b
		case b.Stmt == ast.Stmt(inner) && b.Kind == cfg.KindRangeLoop:
			innerLoop = b
		case b.Stmt == ast.Stmt(inner) && b.Kind == cfg.KindRangeDone:
			innerDone = b
		}
	}
	if outerBody == nil || outerLoop == nil || innerLoop == nil || innerDone == nil {
		res.Violation = g.site(outer.Pos()) + ": cannot locate loop blocks in the control-flow graph"
		return res
	}

	type state struct {
		flags     string // canonical "name=0|1;" of known bool locals
		sawErr    bool   // an auth error edge was traversed in this outer iteration
		exhausted bool   // inner loop was left through exhaustion (RangeLoop -> RangeDone)
		brokeOut  bool   // inner loop was left otherwise
		assigned  string // variables holding the callback's error, comma separated
		pending   bool   // the callback was invoked and its error not yet compared with nil
	}
	type key struct {
		b *cfg.Block
		s state
	}
	seen := map[key]bool{}
	setFlag := func(fl, name string, val bool) string {
		m := parseFlags(fl)
		m[name] = val
		return fmtFlags(m)
	}
	var viol string
	var approvals, refusals int
	var dfs func(b *cfg.Block, s state, inInner bool)
	dfs = func(b *cfg.Block, s state, inInner bool) {
		if viol != "" {
			return
		}
		k := key{b, s}
		if seen[k] {
			return
		}
		seen[k] = true
		if b == outerLoop && b != outerBody {
			// next outer iteration: explored separately from a fresh state below
			return
		}
		if b == innerLoop && s.pending {
			viol = g.site(authAssign.Pos()) + ": the loop over the list's checks can move on (or finish) on a path on which the error returned by the authorization callback was never compared with nil: a refusal on that path counts as an approval"
			return
		}
		// interpret nodes
		for _, n := range b.Nodes {
			switch x := n.(type) {
			case *ast.AssignStmt:
				if x == authAssign {
					s.pending = true
				}
				if len(x.Lhs) == 1 && len(x.Rhs) == 1 {
					if l, ok := x.Lhs[0].(*ast.Ident); ok {
						if rv, ok := x.Rhs[0].(*ast.Ident); ok {
							switch rv.Name {
							case "true":
								s.flags = setFlag(s.flags, l.Name, true)
							case "false":
								s.flags = setFlag(s.flags, l.Name, false)
							default:
								if rv.Name == errVar {
									s.assigned = addName(s.assigned, l.Name)
								}
							}
						} else {
							m := parseFlags(s.flags)
							delete(m, l.Name)
							s.flags = fmtFlags(m)
						}
					}
				}
			case *ast.ReturnStmt:
				res.Sites = append(res.Sites, g.site(x.Pos()))
				if len(x.Results) == 1 {
					if id, ok := x.Results[0].(*ast.Ident); ok && id.Name == "nil" {
						approvals++
						if s.sawErr {
							viol = g.site(x.Pos()) + ": authorize can approve (return nil) on a path where the authorization callback refused a check of the current list"
						} else if !s.exhausted || s.brokeOut {
							viol = g.site(x.Pos()) + ": authorize can approve (return nil) before every check of the current list was evaluated"
						}
						return
					}
					refusals++
					if !hasName(s.assigned, exprString(x.Results[0])) && s.sawErr {
						viol = g.site(x.Pos()) + ": refusal path returns a value that does not carry the callback's error"
					}
					// a variable that was not given the callback's error on this path may still hold
					// nil - and nil is the approval
					if id, isVar := x.Results[0].(*ast.Ident); isVar && !hasName(s.assigned, id.Name) && viol == "" {
						viol = g.site(x.Pos()) + ": authorize returns the variable `" + id.Name + "` from inside the loop over security lists on a path on which no refusal was stored in it: when nothing was refused yet it is nil, i.e. the request is approved without its checks having been evaluated"
					}
					return
				}
			}
		}
		cond := blockCond(b)
		for i, succ := range b.Succs {
			ns := s
			if b == innerLoop {
				if succ == innerDone {
					ns.exhausted = true
				}
			} else if succ == innerDone {
				ns.brokeOut = true // break out of the inner loop
			}
			if cond != nil {
				pol := i == 0
				// constant-fold known flags
				if v, known := evalFlagCond(cond, parseFlags(s.flags)); known {
					if v != pol {
						continue
					}
				}
				ast.Inspect(cond, func(n ast.Node) bool {
					if be, ok := n.(*ast.BinaryExpr); ok && (be.Op == token.NEQ || be.Op == token.EQL) && exprString(be.X) == errVar && exprString(be.Y) == "nil" {
						ns.pending = false
					}
					return true
				})
				// auth error edge?
				if be, ok := stripParens(cond).(*ast.BinaryExpr); ok {
					if exprString(be.X) == errVar && exprString(be.Y) == "nil" {
						if (be.Op == token.NEQ && pol) || (be.Op == token.EQL && !pol) {
							ns.sawErr = true
						}
					}
				}
			}
			dfs(succ, ns, inInner)
		}
	}
	dfs(outerBody, state{}, false)
	res.Paths = len(seen)
	if viol == "" && approvals == 0 {
		viol = g.site(fd.Pos()) + ": authorize has no approving return inside the loop over lists (first fully-approved list must win)"
	}
	// the function's final return (after all lists refused) yields the recorded error
	if viol == "" {
		last, ok := fd.Body.List[len(fd.Body.List)-1].(*ast.ReturnStmt)
		if !ok || len(last.Results) != 1 {
			viol = g.site(fd.End()) + ": authorize does not end with a return of the last error"
		} else {
			res.Sites = append(res.Sites, g.site(last.Pos()))
			lv := exprString(last.Results[0])
			okAssign := false
			ast.Inspect(inner, func(n ast.Node) bool {
				if as, ok := n.(*ast.AssignStmt); ok && len(as.Lhs) == 1 && len(as.Rhs) == 1 && exprString(as.Lhs[0]) == lv && exprString(as.Rhs[0]) == errVar {
					okAssign = true
				}
				return true
			})
			if lv == "nil" {
				viol = g.site(last.Pos()) + ": authorize approves (returns nil) after every list was refused"
			} else if !okAssign {
				viol = g.site(last.Pos()) + ": the value returned after all lists were refused is never assigned the callback's error"
			}
		}
	}
	res.Violation = viol
	return res
}

func stripParens(e ast.Expr) ast.Expr {
	for {
		p, ok := e.(*ast.ParenExpr)
		if !ok {
			return e
		}
		e = p.X
	}
}

func parseFlags(s string) map[string]bool {
	m := map[string]bool{}
	for _, kv := range strings.Split(s, ";") {
		if kv == "" {
			continue
		}
		p := strings.SplitN(kv, "=", 2)
		m[p[0]] = p[1] == "1"
	}
	return m
}

func fmtFlags(m map[string]bool) string {
	ks := make([]string, 0, len(m))
	for k := range m {
		ks = append(ks, k)
	}
	sortStrings(ks)
	var sb strings.Builder
	for _, k := range ks {
		v := "0"
		if m[k] {
			v = "1"
		}
		sb.WriteString(k + "=" + v + ";")
	}
	return sb.String()
}

func sortStrings(s []string) {
	for i := 1; i < len(s); i++ {
		for j := i; j > 0 && s[j] < s[j-1]; j-- {
			s[j], s[j-1] = s[j-1], s[j]
		}
	}
}

func addName(list, n string) string {
	if hasName(list, n) {
		return list
	}
	return list + n + ","
}

func hasName(list, n string) bool {
	for _, x := range strings.Split(list, ",") {
		if x == n && x != "" {
			return true
		}
	}
	return false
}

func evalFlagCond(e ast.Expr, flags map[string]bool) (bool, bool) {
	e = stripParens(e)
	switch x := e.(type) {
	case *ast.Ident:
		v, ok := flags[x.Name]
		return v, ok
	case *ast.UnaryExpr:
		if x.Op == token.NOT {
			v, ok := evalFlagCond(x.X, flags)
			return !v, ok
		}
	case *ast.BinaryExpr:
		if x.Op == token.EQL || x.Op == token.NEQ {
			l, lok := evalFlagCond(x.X, flags)
			var r bool
			rok := false
			if id, ok := stripParens(x.Y).(*ast.Ident); ok && (id.Name == "true" || id.Name == "false") {
				r, rok = id.Name == "true", true
			}
			if lok && rok {
				if x.Op == token.EQL {
					return l == r, true
				}
				return l != r, true
			}
		}
	}
	return false, false
}

// normalisedFuncs returns, per top-level function of a pure-Go partial, its token
// spelling sequence with engine-specific context names/types replaced by placeholders.
func normalisedFuncs(gp *goPartial) map[string][]string {
	ctxNames := map[string]bool{"ginCtx": true, "echoCtx": true, "fiberCtx": true, "req": true}
	out := map[string][]string{}
	for _, d := range gp.File.Decls {
		fd, ok := d.(*ast.FuncDecl)
		if !ok || fd.Body == nil {
			continue
		}
		start := gp.Fset.Position(fd.Pos()).Offset
		end := gp.Fset.Position(fd.End()).Offset
		src := gp.Src[start:end]
		var toks []string
		ts := goToks(src)
		for i := 0; i < len(ts); i++ {
			s := ts[i].String()
			if ctxNames[s] {
				s = "CTX"
			}
			toks = append(toks, s)
		}
		// normalise the context parameter's type spelling
		joined := strings.Join(toks, " ")
		for _, t := range []string{"* gin . Context", "echo . Context", "* fiber . Ctx", "* http . Request"} {
			joined = strings.ReplaceAll(joined, t, "CTXT")
		}
		out[fd.Name.Name] = strings.Split(joined, " ")
	}
	return out
}
