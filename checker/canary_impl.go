package main

func runCanariesImpl(dir string) string { return "" }
