package main

import (
	"fmt"
	"go/ast"
	"go/token"
	"os"
	"strings"

	"golang.org/x/tools/go/ssa"
)

const canaryPkg = "canarymod/canary"

// runCanariesImpl analyses checker/testdata/canary with the same engines the properties
// use and compares every verdict with the expected one. "" means all engines armed.
func runCanariesImpl(dir string) string {
	w, err := loadWorldMin(dir, 1)
	if err != nil {
		return "canary module does not load: " + err.Error()
	}
	// in the canary module the functions named inl* play the part of new functions
	w.base.loaded, w.base.fns = true, map[string]bool{}
	for k, fi := range w.Funcs {
		if !strings.HasPrefix(fi.Decl.Name.Name, "inl") {
			w.base.fns[k] = true
		}
	}
	if os.Getenv("DBG_CANARY") != "" {
		for _, f := range w.SSAFuncs {
			fmt.Println("SSAFUNC", f.String())
		}
	}
	var fails []string
	expect := func(name string, wantViolation bool, got string) {
		if wantViolation && got == "" {
			fails = append(fails, name+": rule stayed silent on its bad example")
		}
		if !wantViolation && got != "" {
			fails = append(fails, name+": rule fired on its good example: "+got)
		}
	}
	fn := func(name string) *FuncInfo {
		for _, k := range []string{canaryPkg + "." + name, "(*" + canaryPkg + "." + name, "(" + canaryPkg + "." + name} {
			if fi := w.fn(k); fi != nil {
				return fi
			}
		}
		for k, fi := range w.Funcs {
			if strings.HasSuffix(k, "."+name) || strings.HasSuffix(k, ")."+name) {
				return fi
			}
		}
		return nil
	}
	need := func(name string) *FuncInfo {
		fi := fn(name)
		if fi == nil || fi.SSA == nil {
			fails = append(fails, "canary function "+name+" not found")
			return nil
		}
		return fi
	}
	isValidate := nameIs(canaryPkg + ".validate")

	// must-pass-through
	for _, t := range []struct {
		name string
		bad  bool
	}{{"MustGood", false}, {"MustBad", true}, {"MustBadSkipped", true}} {
		if fi := need(t.name); fi != nil {
			_, v := w.mustPassOK(fi.SSA, isValidate, -1, "validate")
			expect("mustcall/"+t.name, t.bad, v)
		}
	}
	// error propagation (with wrapper summaries, defer-spilled results, shared return blocks)
	for _, t := range []struct {
		name string
		bad  bool
	}{{"ErrGoodWrappedSpilled", false}, {"ErrGoodSharedReturn", false}, {"ErrBadSwallowed", true}} {
		if fi := need(t.name); fi != nil {
			cs := callsIn(fi.SSA, false, isValidate)
			if len(cs) != 1 {
				fails = append(fails, "errprop/"+t.name+": validate call not found")
				continue
			}
			_, v := w.errPropagatesAt(fi.SSA, cs[0], -1, "validate")
			expect("errprop/"+t.name, t.bad, v)
		}
	}
	{
		_, viols, _, _ := w.errChain(canaryPkg+".validate", 6)
		wantIn := []string{"chainMidBad", "ErrBadDiscarded", "ErrBadSwallowed", "MustBad"}
		for _, wnt := range wantIn {
			found := false
			for _, v := range viols {
				if strings.Contains(v, wnt) {
					found = true
				}
			}
			if !found {
				fails = append(fails, "errchain: the dropped error in "+wnt+" was not reported")
			}
		}
		for _, v := range viols {
			for _, good := range []string{"chainMid ", "ChainTop ", "MustGood", "ErrGoodWrappedSpilled", "ErrGoodSharedReturn"} {
				if strings.Contains(v, canaryPkg+"."+strings.TrimSpace(good)+" ") || strings.HasSuffix(v, "."+strings.TrimSpace(good)) {
					fails = append(fails, "errchain: false report on "+good+": "+v)
				}
			}
		}
	}
	// each-iteration
	for _, t := range []struct {
		name string
		bad  bool
	}{{"EachGood", false}, {"EachBad", true}} {
		if fi := need(t.name); fi != nil {
			loops := w.rangeLoops(fi, identNamed("items"))
			if len(loops) != 1 {
				fails = append(fails, "each/"+t.name+": loop not found")
				continue
			}
			skips := []skipSpec{{Cond: func(e ast.Expr) bool {
				se, ok := e.(*ast.SelectorExpr)
				return ok && se.Sel.Name == "Hidden"
			}, Pol: true, Desc: "hidden"}}
			_, v := w.eachIteration(fi, w.cfgOf(fi), loops[0], w.appendTo(fi, identNamed("out")), skips, false)
			expect("each-iteration/"+t.name, t.bad, v)
		}
	}
	// new functions are looked through: path rule summaries, moved loops, field-sensitive slices
	for _, t := range []struct {
		name string
		bad  bool
	}{{"MustViaNewGood", false}, {"MustViaNewBad", true}} {
		if fi := need(t.name); fi != nil {
			_, v := w.mustPassOK(fi.SSA, isValidate, -1, "validate")
			expect("inline-mustcall/"+t.name, t.bad, v)
		}
	}
	for _, t := range []struct {
		name string
		bad  bool
	}{{"EachViaNewGood", false}, {"EachViaNewBad", true}, {"EachNegatedGood", false}} {
		if fi := need(t.name); fi != nil {
			loops := w.rangeLoops(fi, w.rangeOverType(fi, "[]"+canaryPkg+".item"))
			if len(loops) != 1 {
				fails = append(fails, fmt.Sprintf("inline-each/%s: expected the loop to be found through the new function, found %d", t.name, len(loops)))
				continue
			}
			owner := w.ownerOf(fi, loops[0])
			skips := []skipSpec{{Cond: func(e ast.Expr) bool {
				se, ok := e.(*ast.SelectorExpr)
				return ok && se.Sel.Name == "Hidden"
			}, Pol: true, Desc: "hidden"}}
			_, v := w.eachIteration(owner, w.cfgOf(owner), loops[0], w.appendTo(owner, w.resultSlice(owner)), skips, false)
			expect("inline-each/"+t.name, t.bad, v)
		}
	}
	if fi := need("SliceViaNew"); fi != nil {
		for _, ex := range exitsOf(fi.SSA) {
			if ex.Ret == nil {
				continue
			}
			a := sliceOf(ex.Ret.Results[0])
			if len(a.Params) == 0 {
				fails = append(fails, "inline-slice: the slice did not reach SliceViaNew's parameters through the new function")
			}
			if a.Calls[canaryPkg+".inlMakePair"] {
				fails = append(fails, "inline-slice: the new function was recorded as an opaque call")
			}
		}
		at := w.exprAtoms(fi, fi.Decl.Body.List[0].(*ast.ReturnStmt).Results[0])
		if len(at.Calls) != 0 {
			fails = append(fails, fmt.Sprintf("inline-atoms: expected no call atoms through the new function, got %v", keys(at.Calls)))
		}
	}
	// context: a new helper used twice is analysed per use
	if fi := need("CtxTwoUses"); fi != nil {
		for _, ex := range exitsOf(fi.SSA) {
			if ex.Ret == nil || len(ex.Ret.Results) != 2 {
				continue
			}
			a, b := sliceOf(ex.Ret.Results[0]), sliceOf(ex.Ret.Results[1])
			if !a.hasFieldNamed("A") || a.hasFieldNamed("B") || !b.hasFieldNamed("B") || b.hasFieldNamed("A") {
				fails = append(fails, fmt.Sprintf("context: the two uses of inlUpper are not kept apart (first: %v, second: %v)", a.fieldNames(), b.fieldNames()))
			}
		}
	}
	// a skip written as `if !c { act }; continue`
	if fi := need("EachElseSkip"); fi != nil {
		found := false
		ast.Inspect(fi.Decl, func(n ast.Node) bool {
			if rs, ok := n.(*ast.RangeStmt); ok {
				if sk := contSkipOf(fi.Pkg.TypesInfo, rs.Body, nil); sk != nil && len(sk.Added) == 1 {
					if ue, ok := sk.Deciding.(*ast.UnaryExpr); ok && ue.Op == token.NOT {
						found = true
					}
				}
			}
			return true
		})
		if !found {
			fails = append(fails, "skip-shape: `if !c { act }; continue` is not read as a skip under c")
		}
	}
	// length facts
	for _, t := range []struct {
		name string
		safe bool
	}{{"LenSwitchGood", true}, {"LenSwitchBad", false}} {
		if fi := need(t.name); fi != nil {
			n := 0
			allInstrsLocal(fi.SSA, false, func(_ *ssa.Function, b *ssa.BasicBlock, _ int, ins ssa.Instruction) {
				ia, ok := ins.(*ssa.IndexAddr)
				if !ok {
					return
				}
				k, isK := ia.Index.(*ssa.Const)
				if !isK || k.Int64() != 1 {
					return
				}
				n++
				if got := indexBounded(ia.X, 1, b); got != t.safe {
					fails = append(fails, fmt.Sprintf("len-facts/%s: index [1] judged safe=%v, want %v", t.name, got, t.safe))
				}
			})
			if n != 1 {
				fails = append(fails, fmt.Sprintf("len-facts/%s: expected one [1] index, found %d", t.name, n))
			}
		}
	}
	if fi := need("inlCollect"); fi != nil {
		if h := w.hostName(fi.SSA); !strings.HasSuffix(h, ".EachViaNewGood") {
			fails = append(fails, "inline-host: a site in inlCollect is attributed to "+h+", not to EachViaNewGood")
		}
	}
	// dispatch labels: switch, if-chain and lookup table read alike
	for _, name := range []string{"DispatchSwitch", "DispatchIf", "DispatchMap"} {
		if fi := need(name); fi != nil {
			labs, _ := w.dispatchLabels(fi, func(e ast.Expr) bool {
				id, ok := ast.Unparen(e).(*ast.Ident)
				return ok && id.Name == "k"
			})
			if strings.Join(labs, ",") != "a,b" {
				fails = append(fails, fmt.Sprintf("dispatch-labels/%s: expected [a b], got %v", name, labs))
			}
		}
	}
	// string shapes: Sprintf, concatenation and builder read alike
	for _, name := range []string{"ShapeSprintf", "ShapeConcat", "ShapeBuilder"} {
		if fi := need(name); fi != nil {
			found := false
			for _, sh := range w.stringShapes(fi) {
				if sh.Tmpl == "P%d%s" && len(sh.Args) == 2 {
					found = true
				}
			}
			if !found {
				fails = append(fails, "string-shape/"+name+": shape P%d%s not recognised")
			}
		}
	}
	// an index loop is judged like a range loop
	if fi := need("EachIndexGood"); fi != nil {
		loops := w.rangeLoops(fi, w.rangeOverType(fi, "[]"+canaryPkg+".item"))
		if len(loops) != 1 {
			fails = append(fails, fmt.Sprintf("index-loop: expected the index loop to be found, found %d", len(loops)))
		} else {
			skips := []skipSpec{{Cond: func(e ast.Expr) bool {
				se, ok := e.(*ast.SelectorExpr)
				return ok && se.Sel.Name == "Hidden"
			}, Pol: true, Desc: "hidden"}}
			_, v := w.eachIteration(fi, w.cfgOf(fi), loops[0], w.appendTo(fi, w.resultSlice(fi)), skips, false)
			expect("index-loop/EachIndexGood", false, v)
		}
	}
	// dominating guards
	for _, t := range []struct {
		name string
		bad  bool
	}{{"IdGood", false}, {"IdBad", true}} {
		if fi := need(t.name); fi != nil {
			v := ""
			n := 0
			allInstrs(fi.SSA, false, func(_ *ssa.Function, _ *ssa.BasicBlock, _ int, ins ssa.Instruction) {
				if _, ok := ins.(*ssa.MapUpdate); !ok {
					return
				}
				n++
				ok := false
				for _, f := range guardsOf(ins) {
					cnd, p := unwrapNot(f.Cond, f.Pol)
					if !p && isCommaOk(cnd) && sliceOf(cnd).hasFieldNamed("byKey") {
						ok = true
					}
				}
				if !ok {
					v = "insert not guarded by a miss test"
				}
			})
			if n != 1 {
				fails = append(fails, "guardedby/"+t.name+": map update not found")
			}
			expect("guardedby/"+t.name, t.bad, v)
		}
	}
	// who-writes with inner maps, helper parameters and re-assignment
	{
		reg := w.extType(modPath+"/"+canaryPkg, "registry")
		ws := w.structStateWrites(reg, "byKey")
		got := map[string]string{}
		for _, x := range ws {
			got[x.Fn[strings.LastIndex(x.Fn, ".")+1:]] += x.Kind + ","
		}
		for fnName, kind := range map[string]string{"IdGood": "insert", "IdBad": "insert", "Reset": "assign", "newRegistry": "assign", "insertInto": "insert"} {
			if !strings.Contains(got[fnName], kind) {
				fails = append(fails, fmt.Sprintf("whowrites: %s of registry.byKey in %s not recognised (got %v)", kind, fnName, got))
			}
		}
	}
	// value receivers leaking field addresses
	{
		esc := strings.Join(w.valueRecvFieldAddrEscapes(), "\n")
		if !strings.Contains(esc, "LeakBad") {
			fails = append(fails, "recv-addr: holder.LeakBad (value receiver returning &h.c) not reported")
		}
		if strings.Contains(esc, "LeakGood") || strings.Contains(esc, "TagGood") {
			fails = append(fails, "recv-addr: false report: "+esc)
		}
	}
	// slash collapsing
	for _, t := range []struct {
		name string
		bad  bool
	}{{"CollapseGood", false}, {"CollapseBad", true}} {
		if fi := need(t.name); fi != nil {
			v := w.typedSlashCollapse(fi)
			msg := ""
			if !v.Collapses {
				msg = "does not collapse runs of any length"
			}
			expect("slash-collapse/"+t.name, t.bad, msg)
		}
	}
	// value normalisation terminates on loop phis
	if fi := need("LoopPhi"); fi != nil {
		allInstrs(fi.SSA, false, func(_ *ssa.Function, _ *ssa.BasicBlock, _ int, ins ssa.Instruction) {
			if v, ok := ins.(ssa.Value); ok {
				_ = stripTrivial(v)
			}
		})
	}
	// a call through an interface is attributed to the concrete gleece implementation
	{
		found := false
		for _, cl := range w.callersOf(nameIs("(*" + canaryPkg + ".memSink).Put")) {
			if strings.HasSuffix(fnShort(cl.Parent()), ".ViaInterface") {
				found = true
			}
		}
		if !found {
			fails = append(fails, "whocalls: the interface call in ViaInterface was not attributed to (*memSink).Put")
		}
	}
	// `go` statements are visible to the sequentiality rule
	{
		found := false
		if fi := need("Spawns"); fi != nil {
			allInstrs(fi.SSA, false, func(_ *ssa.Function, _ *ssa.BasicBlock, _ int, ins ssa.Instruction) {
				if _, ok := ins.(*ssa.Go); ok {
					found = true
				}
			})
		}
		if !found {
			fails = append(fails, "sequential: the go statement in Spawns is not seen")
		}
	}
	// pure helpers
	if octalOnly(`^(0?[0-7]{3})?$`) != "" {
		fails = append(fails, "regex-lang: the shipped permission pattern is rejected")
	}
	for _, bad := range []string{`^[0-9]{3}$`, `^0?[0-7]{3,6}$`, `[0-7]{3}`, `^(0?[0-7]+)?$`} {
		if octalOnly(bad) == "" {
			fails = append(fails, "regex-lang: pattern "+bad+" wrongly accepted as octal<=07777")
		}
	}
	if len(fails) > 0 {
		return strings.Join(fails, "; ")
	}
	return ""
}
