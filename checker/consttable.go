package main

import (
	"go/ast"
	"go/token"
	"go/types"

	"golang.org/x/tools/go/ssa"
)

// A constant table is a package-level map/slice/array that is initialised by a literal of
// constants and is only ever read (indexed, ranged over, measured). Deciding by a lookup in
// such a table is deciding on its contents - the same thing a switch over the same labels
// does - so the table is read as its keys and values, not as a new input named after it.

type constTable struct {
	Info *types.Info
	Lit  *ast.CompositeLit
}

func (w *World) constTables() map[*types.Var]*constTable {
	if w.constTbl != nil {
		return w.constTbl
	}
	w.constTbl = map[*types.Var]*constTable{}
	isConstExpr := func(info *types.Info, e ast.Expr) bool {
		tv, ok := info.Types[e]
		return ok && tv.Value != nil
	}
	for _, p := range w.Pkgs {
		for _, f := range p.Syntax {
			for _, d := range f.Decls {
				gd, ok := d.(*ast.GenDecl)
				if !ok || gd.Tok != token.VAR {
					continue
				}
				for _, sp := range gd.Specs {
					vs := sp.(*ast.ValueSpec)
					if len(vs.Names) != 1 || len(vs.Values) != 1 {
						continue
					}
					cl, ok := ast.Unparen(vs.Values[0]).(*ast.CompositeLit)
					if !ok {
						continue
					}
					switch p.TypesInfo.TypeOf(cl).Underlying().(type) {
					case *types.Map, *types.Slice, *types.Array:
					default:
						continue
					}
					all := len(cl.Elts) > 0
					for _, e := range cl.Elts {
						if kv, ok := e.(*ast.KeyValueExpr); ok {
							if !isConstExpr(p.TypesInfo, kv.Key) || !isConstExpr(p.TypesInfo, kv.Value) {
								all = false
							}
						} else if !isConstExpr(p.TypesInfo, e) {
							all = false
						}
					}
					if !all {
						continue
					}
					if v, ok := p.TypesInfo.Defs[vs.Names[0]].(*types.Var); ok {
						w.constTbl[v] = &constTable{Info: p.TypesInfo, Lit: cl}
					}
				}
			}
		}
	}
	if len(w.constTbl) == 0 {
		return w.constTbl
	}
	// every use must be a read: t[k] as a value, range t, len(t)
	for _, p := range w.Pkgs {
		for _, f := range p.Syntax {
			var stack []ast.Node
			ast.Inspect(f, func(n ast.Node) bool {
				if n == nil {
					stack = stack[:len(stack)-1]
					return true
				}
				stack = append(stack, n)
				id, ok := n.(*ast.Ident)
				if !ok {
					return true
				}
				v, ok := p.TypesInfo.Uses[id].(*types.Var)
				if !ok || w.constTbl[v] == nil {
					return true
				}
				if !readOnlyUse(p.TypesInfo, stack) {
					delete(w.constTbl, v)
				}
				return true
			})
		}
	}
	return w.constTbl
}

// readOnlyUse: stack ends in the identifier of a table (possibly pkg.Name)
func readOnlyUse(info *types.Info, stack []ast.Node) bool {
	i := len(stack) - 1
	var self ast.Expr = stack[i].(*ast.Ident)
	up := func() ast.Node {
		i--
		if i < 0 {
			return nil
		}
		return stack[i]
	}
	par := up()
	if se, ok := par.(*ast.SelectorExpr); ok && se.Sel == self {
		self = se
		par = up()
	}
	for {
		pe, ok := par.(*ast.ParenExpr)
		if !ok {
			break
		}
		self = pe
		par = up()
	}
	switch x := par.(type) {
	case *ast.RangeStmt:
		return x.X == self
	case *ast.CallExpr:
		if fid, ok := ast.Unparen(x.Fun).(*ast.Ident); ok {
			if b, ok := info.Uses[fid].(*types.Builtin); ok && (b.Name() == "len" || b.Name() == "cap") {
				return true
			}
		}
		return false
	case *ast.IndexExpr:
		if x.X != self {
			return true // used as an index of something else: a read
		}
		var ix ast.Expr = x
		gp := up()
		for {
			pe, ok := gp.(*ast.ParenExpr)
			if !ok {
				break
			}
			ix = pe
			gp = up()
		}
		switch g := gp.(type) {
		case *ast.AssignStmt:
			for _, l := range g.Lhs {
				if l == ix {
					return false
				}
			}
		case *ast.IncDecStmt:
			return false
		case *ast.UnaryExpr:
			if g.Op == token.AND {
				return false
			}
		case *ast.SliceExpr, *ast.SelectorExpr:
			// t[k][:] / t[k].f: element types are constants, cannot alias the table
		}
		return true
	}
	return false
}

// constTableOf: the table an identifier (or pkg.Name) denotes
func (w *World) constTableOf(o types.Object) *constTable {
	v, ok := o.(*types.Var)
	if !ok {
		return nil
	}
	return w.constTables()[v]
}

// tableAtoms adds the contents of the table: its keys and values
func (w *World) tableAtoms(t *constTable, a *Atoms, keysOnly bool) {
	add := func(e ast.Expr) {
		ast.Inspect(e, func(n ast.Node) bool {
			switch x := n.(type) {
			case *ast.Ident:
				if c, ok := t.Info.Uses[x].(*types.Const); ok {
					a.Idents["const:"+short(objPkgPath(c))+"."+c.Name()] = true
					if c.Val() != nil {
						a.Lits[c.Val().ExactString()] = true
					}
				}
			case *ast.BasicLit:
				if tv, ok := t.Info.Types[x]; ok && tv.Value != nil {
					a.Lits[tv.Value.ExactString()] = true
				}
			}
			return true
		})
	}
	for _, e := range t.Lit.Elts {
		if kv, ok := e.(*ast.KeyValueExpr); ok {
			add(kv.Key)
			if !keysOnly {
				add(kv.Value)
			}
		} else if !keysOnly {
			add(e)
		}
	}
}

// isConstTableRead: v is an element read out of a constant table
func (w *World) isConstTableRead(v ssa.Value) bool {
	var base ssa.Value
	switch x := v.(type) {
	case *ssa.Lookup:
		base = x.X
	case *ssa.Extract:
		if lk, ok := x.Tuple.(*ssa.Lookup); ok && x.Index == 0 {
			base = lk.X
		}
	case *ssa.UnOp:
		if ia, ok := x.X.(*ssa.IndexAddr); ok && x.Op == token.MUL {
			base = ia.X
		}
	case *ssa.Index:
		base = x.X
	}
	if base == nil {
		return false
	}
	if u, ok := base.(*ssa.UnOp); ok && u.Op == token.MUL {
		base = u.X
	}
	g, ok := base.(*ssa.Global)
	if !ok || g.Object() == nil {
		return false
	}
	return w.constTableOf(g.Object()) != nil
}

// constTableExpr: e names a constant table
func (w *World) constTableExpr(info *types.Info, e ast.Expr) *constTable {
	switch x := ast.Unparen(e).(type) {
	case *ast.Ident:
		if o := info.Uses[x]; o != nil {
			return w.constTableOf(o)
		}
	case *ast.SelectorExpr:
		if info.Selections[x] == nil {
			if o := info.Uses[x.Sel]; o != nil {
				return w.constTableOf(o)
			}
		}
	}
	return nil
}
