package main

import (
	"fmt"
	"go/ast"
	"go/token"
	"sort"
	"strings"

	hast "github.com/aymerick/raymond/ast"
	"golang.org/x/tools/go/ssa"
)

func init() {
	register("C05", "Static structural obligations for 'handlers bind each parameter from its declared source and enforce requiredness': for each of the five engines, the location arms of request.args.parsing equal the declared locations; inside each arm the wire name is NameInSchema, the declared Go type comes from TypeMeta, the conversion and validator partials are invoked, and only accessors of that location are used (a deny-list of foreign/merged accessors per arm); the argument list is signature order with context and pointer-ness from the IR; every validation failure arm answers 422 and returns; the implicit-required rule; and the conversion arms cover the primitive kinds validation lets through. Decides structure of the emitted handler, not value round-tripping through five HTTP frameworks.", checkC05)
}

// flatten renders a Handlebars program as Go-like text: mustaches become identifier
// placeholders, partial invocations `PARTIAL_<name>()`, blocks contribute both arms.
func flattenProgram(p *hast.Program, partials *[]string) string {
	if p == nil {
		return ""
	}
	var sb strings.Builder
	for _, st := range p.Body {
		switch n := st.(type) {
		case *hast.ContentStatement:
			sb.WriteString(n.Value)
		case *hast.MustacheStatement:
			sb.WriteString(mustachePlaceholder(n))
		case *hast.PartialStatement:
			name := partialName(n)
			if partials != nil {
				*partials = append(*partials, name)
			}
			sb.WriteString("\nPARTIAL_" + name + "()\n")
		case *hast.BlockStatement:
			sb.WriteString(flattenProgram(n.Program, partials))
			sb.WriteString(flattenProgram(n.Inverse, partials))
		}
	}
	return sb.String()
}

// equalArms returns literal -> program for top-level {{#equal <path> "lit"}} blocks.
func equalArms(p *hast.Program, path string) map[string]*hast.BlockStatement {
	out := map[string]*hast.BlockStatement{}
	if p == nil {
		return out
	}
	for _, st := range p.Body {
		b, ok := st.(*hast.BlockStatement)
		if !ok || b.Expression.HelperName() != "equal" || len(b.Expression.Params) != 2 {
			continue
		}
		pe, ok1 := b.Expression.Params[0].(*hast.PathExpression)
		sl, ok2 := b.Expression.Params[1].(*hast.StringLiteral)
		if ok1 && ok2 && pe.Original == path {
			out[sl.Value] = b
		}
	}
	return out
}

// accessor vocabularies (identifier spellings) per declared location
var locAccessors = map[string][]string{
	"Path":   {"Params", "Param", "Vars", "URLParam"},
	"Query":  {"GetQuery", "GetQueryArray", "QueryParam", "QueryParams", "Query", "QueryArgs", "Queries"},
	"Header": {"GetHeader", "Header", "CanonicalMIMEHeaderKey", "GetReqHeaders"},
	"Form":   {"GetPostForm", "PostForm", "PostFormValue", "PostArgs", "ParseForm", "GetPostFormArray"},
}

// accessors that merge several locations: never allowed in any arm
var mergedAccessors = []string{"Form", "FormValue", "DefaultQuery", "Bind", "ShouldBind", "BodyParser", "AllParams"}

func checkC05(c *Ctx, r *Report) {
	// the validator rules that reach the generated router are the ones written in the annotation,
	// byte for byte (plus `required` where the parameter kind demands it): rule values may contain
	// blanks (`oneof=red green blue`), so nothing normalises the text on the way
	defer func() {
		ruleHelperShape(c, r, "C05.e", helperShape{Fn: "core/metadata.GetParamValidator",
			AllowedCalls: []string{"(core/annotations.AnnotationHolder).FindFirstByValue", "(*core/annotations.AnnotationHolder).FindFirstByValue", "core/annotations.GetCastProperty", "core/annotations.GetCastProperty[string]", "fmt.Errorf", "core/metadata.appendParamRequiredValidation"},
			Why:          "the validator string of a parameter is the annotation's `validate` property as written (appendParamRequiredValidation only adds `required`)"})
		ruleHelperShape(c, r, "C05.e", helperShape{Fn: "core/metadata.appendParamRequiredValidation",
			AllowedCalls: []string{"strings.Split"}, MustConsts: []string{",", "required"},
			Why: "`required` is appended to the written rules, which are otherwise left as they are"})
	}()
	defer func() { ruleRegexInventory(c, r, "C05.a", "core/metadata", "core/annotations") }()
	r.NotDecided = append(r.NotDecided, "value round-tripping through five HTTP frameworks (header canonicalisation, percent-decoding, integer widths beyond the strconv bit size spelled in the template)", "the conversion switch beyond arm coverage and bit sizes")
	r.Assume = append(r.Assume, "accessor vocabularies per location are enumerated from the five engines' current templates (tables in the checker); identifiers are matched by spelling in template Go text")

	checkEngineParsing(c, r, map[string]string{"a": "C05.a", "b": "C05.b", "c": "C05.c", "d": "C05.d"})

	// C05.e requiredness (shared with C06.f)
	checkRequiredness(c, r, "C05.e")
	checkWireNameKeys(c, r, "C05.a")
	checkEngineOnlyRegisters(c, r, "C05.g")
	ruleSkipInventory(c, r, "C05.h", loadSkipTable(c.VerifDir), 1, "core/visitors")

	// C05.f conversion arms cover the primitives validation lets through
	checkConversionArms(c, r, "C05.f")

	// C05.g a path parameter can only be bound if its route matches: {name} translation (shared with C02.f)
	checkUrlParamRegex(c, r, "C05.g")
	// context parameters are recognised exactly (shared with C06)
	checkIsContextExact(c, r, "C05.g")

	// order producer (shared with C06.a)
	ruleNoReorder(c, r, "C05.c", "(core/metadata.ReceiverMeta).Reduce", "ReceiverMeta.Reduce")
	ruleNoReorder(c, r, "C05.c", "(*core/arbitrators.AstArbitrator).GetFuncParametersMeta", "GetFuncParametersMeta")

	// C05.h the binding code passes on exactly what the accessor returned, for every element
	checkBindingDiscipline(c, r, "C05.h")
}

// checkConversionArms: literals tested by request.switch.param.type are the same in the
// five engines and cover the universe types that validateNonBodyParam accepts.
func checkConversionArms(c *Ctx, r *Report, clause string) {
	w := c.W
	perEngine := map[string][]string{}
	bitSizes := map[string]map[string]string{}
	bases := map[string]map[string]string{}
	for _, en := range c.T.Order {
		eng := c.T.Engines[en]
		t := eng.Partials["RequestSwitchParamType"]
		if t == nil {
			continue
		}
		set := map[string]bool{}
		bitSizes[en] = map[string]string{}
		bases[en] = map[string]string{}
		var walk func(p *hast.Program)
		walk = func(p *hast.Program) {
			if p == nil {
				return
			}
			for _, st := range p.Body {
				b, ok := st.(*hast.BlockStatement)
				if !ok {
					continue
				}
				if b.Expression.HelperName() == "if" && len(b.Expression.Params) == 1 {
					if sub, ok := b.Expression.Params[0].(*hast.SubExpression); ok && sub.Expression.HelperName() == "OrEqual" && len(sub.Expression.Params) == 4 {
						if sl, ok := sub.Expression.Params[1].(*hast.StringLiteral); ok {
							set[sl.Value] = true
							// bit size spelled in the strconv call of this arm
							toks := goToks(flattenProgram(b.Program, nil))
							for i, tk := range toks {
								if tk.Lit == "strconv" && i+2 < len(toks) {
									call := toks[i+2].Lit
									size := ""
									for j := i; j < len(toks) && j < i+14; j++ {
										if toks[j].Tok == token.RPAREN {
											if toks[j-1].Tok == token.INT {
												size = toks[j-1].Lit
											}
											break
										}
									}
									bitSizes[en][sl.Value] = call + "/" + size
									// the base of an integer parse: the first operand after the text
									if call == "ParseInt" || call == "ParseUint" {
										depth, commas := 0, 0
										for j := i + 3; j < len(toks) && j < i+20; j++ {
											switch toks[j].Tok {
											case token.LPAREN:
												depth++
											case token.RPAREN:
												depth--
											case token.COMMA:
												if depth == 1 {
													commas++
													if commas == 1 && j+1 < len(toks) {
														bases[en][sl.Value] = toks[j+1].Lit
														if j+2 < len(toks) && toks[j+2].Tok != token.COMMA {
															bases[en][sl.Value] += "…"
														}
													}
												}
											}
											if depth == 0 && j > i+3 {
												break
											}
										}
									}
									break
								}
							}
						}
					}
				}
				walk(b.Program)
				walk(b.Inverse)
			}
		}
		walk(t.Prog)
		for k := range set {
			perEngine[en] = append(perEngine[en], k)
		}
		sort.Strings(perEngine[en])
	}
	// same arms everywhere
	ref := perEngine[c.T.Order[0]]
	for _, en := range c.T.Order[1:] {
		ruleSetEqual(c, r, clause, "conversion-arms:"+c.T.Order[0]+"=="+en, "the same primitive kinds are converted by every engine", c.T.Order[0]+" arms", ref, en+" arms", perEngine[en], []string{c.T.Engines[en].Partials["RequestSwitchParamType"].File + ":1"})
	}
	// the same parse call and width for every arm in every engine (also the unsized int/uint arms)
	for _, en := range c.T.Order[1:] {
		viol := ""
		refEn := c.T.Order[0]
		for k, v := range bitSizes[refEn] {
			if got := bitSizes[en][k]; got != v {
				viol = fmt.Sprintf("%s parses the %s arm with strconv.%s but %s with strconv.%s: the same request value is accepted by one router and answered 422 by the other", en, k, got, refEn, v)
			}
		}
		for k := range bitSizes[en] {
			if _, ok := bitSizes[refEn][k]; !ok {
				viol = fmt.Sprintf("%s has a strconv call in arm %s that %s has not", en, k, refEn)
			}
		}
		r.add(clause, "sibling", "conversion-calls:"+refEn+"=="+en, "every conversion arm uses the same strconv call and bit size in all engines", []string{c.T.Engines[en].Partials["RequestSwitchParamType"].File}, []string{c.T.Engines[en].Partials["RequestSwitchParamType"].File + ":1"}, viol)
	}
	// bit sizes: the parse width of each sized kind equals the declared width
	for _, en := range c.T.Order {
		viol := ""
		t := c.T.Engines[en].Partials["RequestSwitchParamType"]
		want := map[string]string{"int8": "ParseInt/8", "int16": "ParseInt/16", "int32": "ParseInt/32", "int64": "ParseInt/64", "uint8": "ParseUint/8", "uint16": "ParseUint/16", "uint32": "ParseUint/32", "uint64": "ParseUint/64", "float32": "ParseFloat/32", "float64": "ParseFloat/64"}
		for k, v := range want {
			if got := bitSizes[en][k]; got != v {
				viol = fmt.Sprintf("%s: the %s arm parses with strconv.%s (want %s): values outside the declared width are truncated by the following conversion instead of being answered 422", en, k, got, v)
			}
		}
		vb := ""
		nb := 0
		for k, b := range bases[en] {
			nb++
			if b != "10" {
				vb = fmt.Sprintf("%s: the %s arm parses its text with base %s: a value is no longer read as the decimal number that was sent (base 0 reads \"010\" as 8, accepts \"0x10\" and \"1_000\", rejects \"08\")", en, k, b)
			}
		}
		if nb < 8 {
			vb = fmt.Sprintf("%s: only %d integer parse calls with a base recognised (floor 8)", en, nb)
		}
		r.add(clause, "setagree", en+":conversion-base-10", en+": every integer arm parses decimal text", []string{t.File}, []string{t.File + ":1"}, vb)
		o := r.add(clause, "setagree", en+":conversion-bit-sizes", en+": each sized numeric kind is parsed with its own bit size, so out-of-range input fails conversion", []string{t.File}, []string{t.File + ":1"}, viol)
		o.NonTrivial = true
	}
	// coverage of what validation accepts: validateNonBodyParam lets a universe type through
	// only if isBindablePrimitive says so; that table must be covered by the arms
	accepted, pos := w.globalMapKeys("core/validators", "bindablePrimitiveTypes")
	if len(accepted) == 0 {
		// no restriction in the validator: every universe primitive is accepted
		prim := w.lookupType("common", "PrimitiveType")
		accepted = values(w.constsOfType(prim))
	}
	if fi := need(c, r, clause, "(core/validators.ReceiverValidator).validateNonBodyParam"); fi != nil {
		viol := ""
		var ss []string
		calls := callsIn(fi.SSA, false, nameIs("core/validators.isBindablePrimitive"))
		for _, cl := range calls {
			ss = append(ss, w.pos(cl.Pos()))
		}
		ss = append(ss, w.pos(pos))
		if len(calls) == 0 {
			viol = "validateNonBodyParam accepts universe types without consulting the table of primitives the routers can convert"
		} else {
			// cut-set: `return nil` (accept) must be unreachable once the edges "isBindablePrimitive
			// answered true" and "not a universe type" (enum / primitive alias) are removed
			avoid := map[edge]bool{}
			for _, b := range fi.SSA.Blocks {
				if len(b.Instrs) == 0 {
					continue
				}
				ifi, ok := b.Instrs[len(b.Instrs)-1].(*ssa.If)
				if !ok || len(b.Succs) != 2 {
					continue
				}
				for i, s := range b.Succs {
					cnd, pol := unwrapNot(ifi.Cond, i == 0)
					a := sliceOf(cnd)
					if (a.Calls["core/validators.isBindablePrimitive"] && pol) || (a.Calls["(core/metadata.TypeUsageMeta).IsUniverseType"] && !pol && len(a.Calls) == 1) {
						avoid[edge{b, s}] = true
					}
				}
			}
			reach, used := reachAvoiding(fi.SSA, nil, avoid)
			for _, ex := range exitsOf(fi.SSA) {
				if ex.Ret == nil {
					continue
				}
				v := ex.Ret.Results[0]
				accept := isNilConst(v)
				isReach := reach[ex.Block]
				if phi, ok := v.(*ssa.Phi); ok && ex.Pred != nil {
					for i, e := range phi.Edges {
						if ex.Block.Preds[i] == ex.Pred {
							accept = isNilConst(e)
						}
					}
					isReach = reach[ex.Pred] && used[edge{ex.Pred, ex.Block}]
				}
				if accept && isReach {
					viol = fmt.Sprintf("%s: a parameter can be accepted on a path where it is a universe type that was not found bindable", w.pos(retPos(ex)))
				}
			}
		}
		o := r.add(clause, "guardedby", fi.Key+":accept-only-bindable", "a universe-typed header/path/query/form parameter is accepted only if it is in the table of convertible primitives", []string{fi.Key}, ss, viol)
		o.NonTrivial = true
	}
	if fi := need(c, r, clause, "core/validators.isBindablePrimitive"); fi != nil {
		a := newAtoms()
		for _, ex := range exitsOf(fi.SSA) {
			if ex.Ret != nil {
				backSlice(ex.Ret.Results[0], a, map[ssa.Value]bool{}, 0)
			}
		}
		viol := ""
		if !a.Globals["core/validators.bindablePrimitiveTypes"] {
			viol = "isBindablePrimitive does not consult bindablePrimitiveTypes"
		}
		r.add(clause, "fieldflow", fi.Key+":table", "isBindablePrimitive is a lookup in bindablePrimitiveTypes", []string{fi.Key}, []string{w.pos(fi.Decl.Pos())}, viol)
	}
	ruleSubset(c, r, clause, "accepted-universe-primitives⊆conversion-arms", "every primitive kind that validateNonBodyParam lets through has a conversion arm in the handlers; otherwise <name>Raw is left unused and the generated file does not compile / the parameter stays unbound", "primitives accepted for header/path/query/form (validators.bindablePrimitiveTypes)", accepted, "request.switch.param.type arms", ref, []string{c.T.Engines[c.T.Order[0]].Partials["RequestSwitchParamType"].File + ":1"})
}

// checkEngineParsing: per-engine rules on the argument-parsing templates; clause names are
// supplied by the caller (C05 claims them for binding, C12 for engine interchangeability).
func checkEngineParsing(c *Ctx, r *Report, cl map[string]string) {
	w := c.W
	want := values(w.constsOfType(w.lookupType("definitions", "ParamPassedIn")))
	for _, en := range c.T.Order {
		eng := c.T.Engines[en]
		t := eng.Partials["RequestArgsParsing"]
		if t == nil {
			r.undecided(cl["a"], "tpl", en+":RequestArgsParsing", "", "partial missing")
			continue
		}
		arms := equalArms(t.Prog, "PassedIn")
		var lits []string
		for l := range arms {
			lits = append(lits, l)
		}
		sort.Strings(lits)
		ruleSetEqual(c, r, cl["a"], en+":location-arms==PassedIn*", en+": request.args.parsing has exactly one arm per declared parameter location", "definitions.PassedIn* constants", want, en+" {{#equal PassedIn ..}} arms", lits, []string{t.File + ":1"})

		for _, loc := range lits {
			b := arms[loc]
			var parts []string
			src := flattenProgram(b.Program, &parts)
			toks := goToks(src)
			key := en + ":arm:" + loc
			var sites []string
			sites = append(sites, tplSite(t, eng, b.Line))
			viol := ""
			// wire name: every string literal that carries a mustache carries NameInSchema (never Name)
			nWire := 0
			for _, tk := range toks {
				if tk.Tok != token.STRING {
					continue
				}
				if strings.Contains(tk.Lit, "M_NameInSchema") {
					nWire++
				}
				if tk.Lit == `"M_Name"` {
					viol = fmt.Sprintf("%s %s arm: an accessor is given the Go parameter name instead of the wire name (NameInSchema)", en, loc)
				}
			}
			if loc != "Body" && nWire == 0 {
				viol = fmt.Sprintf("%s %s arm: no accessor is keyed by NameInSchema", en, loc)
			}
			// declared variable type from TypeMeta.Name (+ import alias iff PkgPath)
			if tokSeqIndex(toks, "var", "M_ToLowerCamel_Name") < 0 && !strings.Contains(src, "var M_ToLowerCamel_NameRawPtr") {
				viol = fmt.Sprintf("%s %s arm: the typed destination variable <name>RawPtr is not declared", en, loc)
			}
			if !strings.Contains(src, "M_TypeMeta_Name") && !strings.Contains(src, "M_StripArrayPrefixes_TypeMeta_Name") {
				viol = fmt.Sprintf("%s %s arm: the destination's Go type does not come from TypeMeta.Name", en, loc)
			}
			if !strings.Contains(src, "ParamM_UniqueImportSerialM_Name.") {
				viol = fmt.Sprintf("%s %s arm: the import alias Param<serial><name>. is not spelled for non-builtin types", en, loc)
			}
			has := func(p string) bool {
				for _, x := range parts {
					if x == p {
						return true
					}
				}
				return false
			}
			if loc == "Body" {
				if tokSeqIndex(toks, "bindAndValidateBody", "(") < 0 || !strings.Contains(src, `"M_Validator"`) {
					viol = fmt.Sprintf("%s Body arm: bindAndValidateBody(..., \"{{Validator}}\", ...) is not called", en)
				}
				if !has("JsonBodyValidationErrorResponse") {
					viol = fmt.Sprintf("%s Body arm: a binding failure does not go to JsonBodyValidationErrorResponse", en)
				}
			} else {
				if !has("RequestSwitchParamType") {
					viol = fmt.Sprintf("%s %s arm: the conversion partial RequestSwitchParamType is not invoked", en, loc)
				}
				if !has("RunValidator") {
					viol = fmt.Sprintf("%s %s arm: the validator partial RunValidator is not invoked", en, loc)
				}
				// presence flag is<Name>Exists is computed
				if !strings.Contains(src, "isM_NameExists") {
					viol = fmt.Sprintf("%s %s arm: presence flag is<Name>Exists is not computed", en, loc)
				}
				// ... by asking the request whether the parameter was sent, not by looking at the
				// value that was extracted: an empty value is still a value (a header or query
				// parameter sent empty is present; `required` and pointer-nilness depend on it)
				// (statement ends are kept here: the right-hand side ends at the end of its line)
				toks := goToksStmts(src)
				for i, tk := range toks {
					if tk.Tok != token.IDENT || tk.Lit != "isM_NameExists" || i+1 >= len(toks) || (toks[i+1].Tok != token.DEFINE && toks[i+1].Tok != token.ASSIGN) {
						continue
					}
					for j := i + 2; j < len(toks) && j < i+16; j++ {
						// (newlines are not tokens here: the right-hand side ends where the next statement begins)
						if toks[j].Tok.IsKeyword() || toks[j].Tok == token.LBRACE || toks[j].Tok == token.SEMICOLON {
							break
						}
						if toks[j].Tok == token.IDENT && j+1 < len(toks) && (toks[j+1].Tok == token.DEFINE || toks[j+1].Tok == token.ASSIGN) {
							break
						}
						if toks[j].Tok == token.IDENT && strings.HasPrefix(toks[j].Lit, "M_ToLowerCamel_NameRaw") {
							viol = fmt.Sprintf("%s %s arm: the presence flag is<Name>Exists is computed from the extracted value (%s): a parameter sent with an empty value counts as omitted - a pointer parameter becomes nil, a required one is rejected", en, loc, toks[j].Lit)
						}
					}
				}
				// only accessors of this location
				own := map[string]bool{}
				for _, a := range locAccessors[loc] {
					own[a] = true
				}
				usedOwn := false
				for i, tk := range toks {
					if tk.Tok != token.IDENT || i == 0 || toks[i-1].Tok != token.PERIOD {
						continue
					}
					if own[tk.Lit] {
						usedOwn = true
					}
					for _, m := range mergedAccessors {
						if tk.Lit == m {
							viol = fmt.Sprintf("%s %s arm: accessor .%s merges several request locations (e.g. query string and body): the value/presence may come from another location than the declared one", en, loc, tk.Lit)
						}
					}
					for other, accs := range locAccessors {
						if other == loc {
							continue
						}
						for _, a := range accs {
							if tk.Lit == a && !own[a] {
								// Header is also a field name on http.Request used legitimately only in the Header arm
								viol = fmt.Sprintf("%s %s arm: uses .%s, an accessor of the %s location", en, loc, tk.Lit, other)
							}
						}
					}
				}
				if !usedOwn {
					viol = fmt.Sprintf("%s %s arm: no accessor of the %s location is used (vocabulary %v)", en, loc, loc, locAccessors[loc])
				}
			}
			o := r.add(cl["b"], "tpl-types", key, en+": the "+loc+" arm binds from the "+loc+" location only, under NameInSchema, into a variable typed from TypeMeta, and runs conversion + validator", []string{t.File}, sites, viol)
			o.NonTrivial = true
		}

		// reads of the arms resolve to the parameter scope
		{
			viol := ""
			var sites []string
			wantReads := map[string]string{
				"NameInSchema": "definitions.FuncParam.NameInSchema", "PassedIn": "definitions.FuncParam.PassedIn", "Validator": "definitions.FuncParam.Validator",
				"TypeMeta.Name": "definitions.ParamMeta.TypeMeta>definitions.TypeMetadata.Name", "TypeMeta.PkgPath": "definitions.ParamMeta.TypeMeta>definitions.TypeMetadata.PkgPath",
				"UniqueImportSerial": "definitions.FuncParam.UniqueImportSerial", "Name": "definitions.ParamMeta.Name",
			}
			got := map[string]string{}
			for _, rd := range eng.Reads {
				if rd.Tpl == "RequestArgsParsing" || rd.Tpl == "RunValidator" {
					if _, ok := wantReads[rd.Path]; ok {
						got[rd.Path] = strings.Join(rd.Fields, ">")
						sites = append(sites, tplSite(eng.Partials[rd.Tpl], eng, rd.Line))
					}
				}
			}
			for p, f := range wantReads {
				if got[p] != f {
					viol = fmt.Sprintf("%s: {{%s}} in the parsing partials resolves to %q, expected %s", en, p, got[p], f)
				}
			}
			o := r.add(cl["b"], "tpl-types", en+":parsing-reads", en+": wire name, location, validator, type and import serial are read from the current FuncParam", []string{t.File}, sites, viol)
			o.NonTrivial = true
		}

		// C05.c argument list
		if mp := eng.Partials["MethodParameterList"]; mp != nil {
			viol := ""
			sites := []string{mp.File + ":1"}
			each := findEach(mp.Prog, "FuncParams")
			if each == nil {
				viol = en + ": MethodParameterList does not iterate FuncParams"
			} else {
				var ifCtx *hast.BlockStatement
				for _, st := range each.Program.Body {
					if b, ok := st.(*hast.BlockStatement); ok && b.Expression.HelperName() == "if" && len(b.Expression.Params) == 1 {
						if pe, ok := b.Expression.Params[0].(*hast.PathExpression); ok && pe.Original == "IsContext" {
							ifCtx = b
						}
					}
				}
				if ifCtx == nil {
					viol = en + ": MethodParameterList has no {{#if IsContext}} arm"
				} else {
					ctxSrc := flattenProgram(ifCtx.Program, nil)
					if tokSeqIndex(goToks(ctxSrc), "getRequestContext", "(") < 0 {
						viol = en + ": a context parameter is not given getRequestContext(...)"
					}
					// else arm: {{#if TypeMeta.IsByAddress}} (nothing) {{else}} * {{/if}} <name>RawPtr
					var ifAddr *hast.BlockStatement
					if ifCtx.Inverse != nil {
						for _, st := range ifCtx.Inverse.Body {
							if b, ok := st.(*hast.BlockStatement); ok && b.Expression.HelperName() == "if" && len(b.Expression.Params) == 1 {
								if pe, ok := b.Expression.Params[0].(*hast.PathExpression); ok && pe.Original == "TypeMeta.IsByAddress" {
									ifAddr = b
								}
							}
						}
					}
					if ifAddr == nil {
						viol = en + ": MethodParameterList does not distinguish by-address parameters"
					} else {
						byAddr := strings.TrimSpace(flattenProgram(ifAddr.Program, nil))
						byVal := strings.TrimSpace(flattenProgram(ifAddr.Inverse, nil))
						if byAddr != "" || byVal != "*" {
							viol = fmt.Sprintf("%s: by-address parameters must be passed as the pointer and by-value ones dereferenced (found %q / %q)", en, byAddr, byVal)
						}
						rest := flattenProgram(ifCtx.Inverse, nil)
						if !strings.Contains(rest, "M_ToLowerCamel_NameRawPtr") {
							viol = en + ": the argument is not the parameter's own <name>RawPtr"
						}
					}
				}
				// separator only between elements
				if !strings.Contains(flattenProgram(each.Program, nil), ",") {
					viol = en + ": arguments are not comma separated"
				}
			}
			o := r.add(cl["c"], "tpl-types", en+":MethodParameterList", en+": arguments are passed in FuncParams (signature) order: context params get the request context, by-address params the pointer, others the dereferenced value", []string{mp.File}, sites, viol)
			o.NonTrivial = true
		}

		// the text that is converted is the text the request carried: between the accessor and the
		// conversion nothing rewrites `<name>Raw` / `<name>RawArray` (no splitting, trimming, unescaping:
		// `?tags=a%2Cb` is one element `a,b`)
		if pt := eng.Partials["RequestSwitchParamType"]; pt != nil {
			viol := ""
			sites := []string{pt.File + ":1"}
			ts := goToks(flattenProgram(pt.Prog, nil))
			for i := 0; i+1 < len(ts); i++ {
				if ts[i].Tok == token.IDENT && strings.HasPrefix(ts[i].Lit, "M_ToLowerCamel_NameRaw") && !strings.HasPrefix(ts[i].Lit, "M_ToLowerCamel_NameRawPtr") && ts[i+1].Tok == token.ASSIGN {
					viol = fmt.Sprintf("%s: the conversion partial re-assigns %s before converting it: the value the method receives is no longer the text the request carried in that location", pt.File, strings.Replace(ts[i].Lit, "M_ToLowerCamel_Name", "<name>", 1))
				}
			}
			r.add(cl["b"], "tplgo", en+":RequestSwitchParamType:raw-text-unmodified", en+": the raw request text is converted as it is", []string{pt.File}, sites, viol)
		}

		// the body is decoded as the route declares it: bindAndValidateBody dispatches on the
		// content type it is given, not on what the request's header says (a client that adds
		// `; charset=utf-8`, or sends another type, must not change whether a valid body is bound)
		if fd := eng.Partials["FunctionDeclarations"]; fd != nil {
			viol := ""
			var sites []string
			gp, err := parseGoPartial(fd)
			if err != nil {
				r.undecided(cl["b"], "tplgo", en+":bindAndValidateBody", "", err.Error())
			} else if fn := gp.fn("bindAndValidateBody"); fn == nil {
				r.add(cl["b"], "tplgo", en+":bindAndValidateBody:declared-content-type", "", nil, []string{fd.File + ":1"}, "func bindAndValidateBody not found in function.declarations")
			} else {
				// the string parameter that carries the declared content type
				strParams := map[string]bool{}
				for _, p := range fn.Type.Params.List {
					if exprString(p.Type) == "string" {
						for _, nm := range p.Names {
							strParams[nm.Name] = true
						}
					}
				}
				reassigned := map[string]bool{}
				ast.Inspect(fn.Body, func(n ast.Node) bool {
					if as, ok := n.(*ast.AssignStmt); ok {
						for _, l := range as.Lhs {
							if id, ok := l.(*ast.Ident); ok && strParams[id.Name] && as.Tok != token.DEFINE {
								reassigned[id.Name] = true
							}
						}
					}
					return true
				})
				found := false
				ast.Inspect(fn.Body, func(n ast.Node) bool {
					sw, ok := n.(*ast.SwitchStmt)
					if !ok || sw.Tag == nil {
						return true
					}
					isCT := false
					ast.Inspect(sw.Body, func(m ast.Node) bool {
						if bl, ok := m.(*ast.BasicLit); ok && bl.Value == `"application/json"` {
							isCT = true
						}
						return true
					})
					if !isCT {
						return true
					}
					found = true
					sites = append(sites, gp.site(sw.Pos()))
					id, ok := stripParens(sw.Tag).(*ast.Ident)
					if !ok || !strParams[id.Name] || reassigned[id.Name] {
						viol = fmt.Sprintf("%s: bindAndValidateBody chooses the decoder by %s, not by the content type the route declares (its string parameter, unmodified): what the client writes in its Content-Type header decides whether a valid body is bound or refused with 422", gp.site(sw.Pos()), exprString(sw.Tag))
					}
					return true
				})
				// the whole body must be one JSON value of the declared type: json.Unmarshal over the
				// bytes read rejects anything after the value, a streaming Decoder stops after the first
				// value and accepts `{"a":1} garbage`
				usesUnmarshal := false
				ast.Inspect(fn.Body, func(n ast.Node) bool {
					if c, ok := n.(*ast.CallExpr); ok {
						switch exprString(c.Fun) {
						case "json.Unmarshal":
							usesUnmarshal = true
						case "json.NewDecoder":
							viol = fmt.Sprintf("%s: bindAndValidateBody decodes the body with a streaming json.Decoder: it stops after the first JSON value, so a body with anything after a valid document is bound and the method invoked instead of answering 422", gp.site(c.Pos()))
							sites = append(sites, gp.site(c.Pos()))
						}
					}
					return true
				})
				if !usesUnmarshal && viol == "" {
					viol = gp.site(fn.Pos()) + ": bindAndValidateBody does not decode with json.Unmarshal over the complete body"
				}
				if !found {
					viol = "no content-type switch with an \"application/json\" case in bindAndValidateBody"
					sites = []string{gp.site(fn.Pos())}
				}
				r.add(cl["b"], "tplgo", en+":bindAndValidateBody:declared-content-type", en+": the body is decoded according to the route's declared content type", []string{fd.File}, sites, viol)
			}
		}

		// C05.d failure answers 422 and stops
		for _, pn := range []string{"RunValidator", "ParamsValidationErrorResponse", "JsonBodyValidationErrorResponse"} {
			pt := eng.Partials[pn]
			if pt == nil {
				r.undecided(cl["d"], "tpl", en+":"+pn, "", "partial missing")
				continue
			}
			src := flattenProgram(pt.Prog, nil)
			toks := goToks(src)
			viol := ""
			n422 := 0
			for i, tk := range toks {
				if tk.Lit == "http" && i+2 < len(toks) && toks[i+1].Tok == token.PERIOD && strings.HasPrefix(toks[i+2].Lit, "Status") && toks[i+2].Lit != "StatusText" {
					if toks[i+2].Lit == "StatusUnprocessableEntity" {
						n422++
					} else {
						viol = fmt.Sprintf("%s %s: answers with http.%s instead of 422", en, pn, toks[i+2].Lit)
					}
				}
				if tk.Tok == token.INT && (tk.Lit == "400" || tk.Lit == "500" || tk.Lit == "200") {
					viol = fmt.Sprintf("%s %s: literal status %s", en, pn, tk.Lit)
				}
			}
			if n422 == 0 {
				viol = fmt.Sprintf("%s %s: does not answer http.StatusUnprocessableEntity", en, pn)
			}
			// the failure block ends in return: the last `return` is followed only by closing braces / the value it returns
			lastRet := -1
			for i, tk := range toks {
				if tk.Tok == token.RETURN {
					lastRet = i
				}
			}
			if lastRet < 0 {
				viol = fmt.Sprintf("%s %s: the failure arm does not return: the handler would go on to call the controller", en, pn)
			} else {
				// after the last return, no statement other than the returned call expression and braces
				depth := 0
				for _, tk := range toks[lastRet+1:] {
					switch tk.Tok {
					case token.LPAREN, token.LBRACE, token.LBRACK:
						depth++
					case token.RPAREN, token.RBRACK:
						depth--
					case token.RBRACE:
						depth--
					case token.SEMICOLON, token.DEFINE, token.ASSIGN, token.IF, token.FOR:
						if depth <= 0 {
							viol = fmt.Sprintf("%s %s: statements follow the last return of the failure arm", en, pn)
						}
					}
				}
				// the response write precedes the return
				wrote := false
				for _, tk := range toks[:lastRet+8] {
					if tk.Lit == "JSON" || tk.Lit == "WriteHeader" || tk.Lit == "Status" || tk.Lit == "SendStatus" {
						wrote = true
					}
				}
				if !wrote {
					viol = fmt.Sprintf("%s %s: no response is written before returning", en, pn)
				}
			}
			o := r.add(cl["d"], "tpl-order", en+":"+pn+":422+return", en+": "+pn+" answers 422 and leaves the handler", []string{pt.File}, []string{pt.File + ":1"}, viol)
			o.NonTrivial = true
		}
	}

}

// checkIsContextExact: a parameter is treated as the request context (never bound, never
// documented) only if it is exactly context.Context.
func checkIsContextExact(c *Ctx, r *Report, clause string) {
	w := c.W
	const fn = "(core/metadata.TypeUsageMeta).IsContext"
	fi := need(c, r, clause, fn)
	if fi == nil {
		return
	}
	viol := ""
	var sites []string
	sites = append(sites, w.pos(fi.Decl.Pos()))
	consts := map[string]bool{}
	fields := map[string]bool{}
	allInstrs(fi.SSA, true, func(_ *ssa.Function, _ *ssa.BasicBlock, _ int, ins ssa.Instruction) {
		switch x := ins.(type) {
		case ssa.CallInstruction:
			viol = fmt.Sprintf("%s: IsContext calls %s: anything looser than `Name == \"Context\" && PkgPath == \"context\"` makes user types named Context (in any package whose path merely resembles it) vanish from parameter binding and from the documented parameters/body", w.pos(x.Pos()), calleeName(x))
		case *ssa.BinOp:
			if x.Op != token.EQL && x.Op != token.NEQ {
				viol = fmt.Sprintf("%s: IsContext uses a comparison other than ==/!=", w.pos(x.Pos()))
			}
			for _, o := range []ssa.Value{x.X, x.Y} {
				if k, ok := o.(*ssa.Const); ok {
					consts[constString(k.Value)] = true
				}
			}
		case *ssa.FieldAddr:
			if v := structFieldVar(x.X.Type(), x.Field); v != nil {
				fields[v.Name()] = true
			}
		case *ssa.Field:
			if v := structFieldVar(x.X.Type(), x.Field); v != nil {
				fields[v.Name()] = true
			}
		}
	})
	if viol == "" && (!consts["Context"] || !consts["context"] || !fields["Name"] || !fields["PkgPath"] || len(consts) != 2) {
		viol = fmt.Sprintf("IsContext is not the exact test Name == \"Context\" && PkgPath == \"context\" (constants %v, fields %v)", keys(consts), keys(fields))
	}
	r.add(clause, "fieldflow", fn+":exact", "only context.Context itself is treated as the request context", []string{fn}, sites, viol)
}

// checkBindingDiscipline: in the two binding partials of every engine (a) no element is
// skipped (no continue/break/goto), (b) a raw value is defined once, from the accessor,
// and never re-assigned, (c) the package-level functions applied are the reviewed ones
// (tables/engines.json binding_calls).
func checkBindingDiscipline(c *Ctx, r *Report, clause string) {
	tbl, _ := loadEngineTable(c.VerifDir)
	allowed := map[string]map[string]bool{}
	for en, list := range tbl["binding_calls"] {
		allowed[en] = map[string]bool{}
		for _, m := range strings.Fields(list) {
			allowed[en][m] = true
		}
	}
	for _, en := range c.T.Order {
		eng := c.T.Engines[en]
		viol := ""
		var sites []string
		nCalls := 0
		for _, pn := range []string{"RequestArgsParsing", "RequestSwitchParamType"} {
			t := eng.Partials[pn]
			if t == nil {
				viol = en + ": " + pn + " missing"
				continue
			}
			sites = append(sites, t.File+":1")
			toks := goToks(flattenProgram(t.Prog, nil))
			for i, tk := range toks {
				switch tk.Tok {
				case token.CONTINUE, token.GOTO:
					viol = fmt.Sprintf("%s %s: `%s` in the binding code: elements of a repeated parameter (or whole parameters) can be skipped, so the method receives fewer values than were sent - and an empty or malformed element is no longer answered 422", en, pn, tk.Tok)
				case token.ASSIGN:
					// `xRaw = xRawArr[0]` (first of the accessor's values) is the accessor's own result
					fromAccessorSlice := i+2 < len(toks) && toks[i+1].Tok == token.IDENT && strings.HasPrefix(toks[i+1].Lit, toks[i-1].Lit) && toks[i+2].Tok == token.LBRACK
					if i > 0 && toks[i-1].Tok == token.IDENT && strings.HasSuffix(toks[i-1].Lit, "Raw") && strings.Contains(toks[i-1].Lit, "M_") && !fromAccessorSlice {
						viol = fmt.Sprintf("%s %s: the raw value %s is re-assigned after it was read from the request: what reaches conversion is no longer what the accessor returned (extra decoding/normalisation in one engine makes the engines disagree on the same bytes)", en, pn, strings.ReplaceAll(toks[i-1].Lit, "M_", "«"))
					}
				case token.IDENT:
					// pkg.Func( with a lower-case package identifier
					if i+3 < len(toks) && toks[i+1].Tok == token.PERIOD && toks[i+2].Tok == token.IDENT && toks[i+3].Tok == token.LPAREN && (i == 0 || toks[i-1].Tok != token.PERIOD) {
						pkg := tk.Lit
						if strings.Contains(pkg, "M_") || strings.HasSuffix(pkg, "Ctx") || pkg == "req" || pkg == "w" || pkg == "controller" || pkg == "engine" {
							continue
						}
						if pkg != strings.ToLower(pkg) {
							continue
						}
						nCalls++
						call := pkg + "." + toks[i+2].Lit
						if !allowed[en][call] {
							viol = fmt.Sprintf("%s %s: the binding code applies %s, which is not in the reviewed set for this engine (tables/engines.json binding_calls: %v)", en, pn, call, keys(allowed[en]))
						}
					}
				}
			}
		}
		if nCalls < 5 {
			viol = fmt.Sprintf("%s: only %d package-level calls recognised in the binding partials (floor 5)", en, nCalls)
		}
		o := r.add(clause, "vocabulary", en+":binding-discipline", en+": every element is converted, raw values are passed on as read, only reviewed functions are applied", []string{"generator/templates/" + en}, sites, viol)
		o.NonTrivial = true
	}
}

// checkWireNameKeys: the key a parameter is looked up under in the request is its wire name and
// nothing else: every string literal of the parsing partial that carries the wire name IS the
// wire name (no `name[]`, no prefix, no case change) - a second spelling binds the parameter from
// a source nobody declared.
func checkWireNameKeys(c *Ctx, r *Report, clause string) {
	for _, en := range c.T.Order {
		eng := c.T.Engines[en]
		t := eng.Partials["RequestArgsParsing"]
		if t == nil {
			continue
		}
		viol := ""
		n := 0
		var scan func(p *hast.Program, depth int)
		scan = func(p *hast.Program, depth int) {
			if p == nil || depth > 5 {
				return
			}
			var partials []string
			for _, tk := range goToks(flattenProgram(p, &partials)) {
				if tk.Tok != token.STRING || !strings.Contains(tk.Lit, "NameInSchema") {
					continue
				}
				n++
				inner := strings.Trim(tk.Lit, "\"`")
				if !strings.HasPrefix(inner, "M_") || strings.ContainsAny(inner, "[]./ -+") || strings.Count(inner, "M_") != 1 {
					viol = fmt.Sprintf("%s: a request value is looked up under %s - the parameter's wire name with something added: the parameter is then (also) bound from a key its declaration does not name", en, strings.ReplaceAll(tk.Lit, "M_", "«"))
				}
			}
			for _, pn := range partials {
				if pt := eng.Partials[pn]; pt != nil {
					scan(pt.Prog, depth+1)
				}
			}
		}
		scan(t.Prog, 0)
		if n < 4 {
			viol = fmt.Sprintf("%s: only %d wire-name string literals recognised in the parsing partial (floor 4)", en, n)
		}
		r.add(clause, "tpl-types", en+":wire-name-keys", en+": every lookup key of the parsing partial is the parameter's wire name as it is", []string{t.File}, []string{t.File + ":1"}, viol)
	}
}

// checkEngineOnlyRegisters: how a request's path, query and headers are decoded before the
// handler reads them is the framework's default behaviour, which the accessor vocabularies of
// this property were reviewed against. The generated RegisterRoutes therefore only registers
// handlers on the engine it is given: any other method called on it (UseEncodedPath, SkipClean,
// StrictSlash, a binder or decoder option, a group with middleware) changes what the accessors
// return.
func checkEngineOnlyRegisters(c *Ctx, r *Report, clause string) {
	for _, en := range c.T.Order {
		eng := c.T.Engines[en]
		var methods []string
		var sites []string
		scan := func(t *Tpl) {
			var walk func(p *hast.Program)
			walk = func(p *hast.Program) {
				if p == nil {
					return
				}
				for _, st := range p.Body {
					switch n := st.(type) {
					case *hast.ContentStatement:
						ts := goToks(n.Value)
						for i := 0; i+1 < len(ts); i++ {
							if ts[i].Lit == "engine" && ts[i+1].Tok == token.PERIOD && (i == 0 || ts[i-1].Tok != token.PERIOD) {
								m := "<verb from the route>" // the method name is a mustache (`engine.{{HttpVerb}}(`)
								if i+2 < len(ts) && ts[i+2].Tok == token.IDENT {
									m = ts[i+2].Lit
								}
								methods = append(methods, m)
								sites = append(sites, tplSite(t, eng, n.Line))
							}
						}
					case *hast.BlockStatement:
						walk(n.Program)
						walk(n.Inverse)
					}
				}
			}
			walk(t.Prog)
		}
		scan(eng.Routes)
		names := make([]string, 0, len(eng.Partials))
		for nm := range eng.Partials {
			names = append(names, nm)
		}
		sort.Strings(names)
		for _, nm := range names {
			scan(eng.Partials[nm])
		}
		viol := ""
		if len(methods) != 1 {
			viol = fmt.Sprintf("%s: the generated RegisterRoutes calls %v on the engine; expected the route registration only: an option set on the router changes how paths, queries or headers reach the accessors this property's rules were reviewed against", en, methods)
		}
		r.add(clause, "tpl-types", en+":engine-only-registers", en+": nothing but the route registration is called on the engine", []string{eng.Routes.File}, sites, viol)
	}
}
