package main

import (
	"fmt"
	"sort"
	"strconv"
	"strings"

	"golang.org/x/tools/go/ssa"
)

// helperShape states what a small helper predicate, on whose meaning other rules rest
// (they only check that it is consulted), is made of: the callees it may use, the
// constants and fields its answer must depend on. It is deliberately about semantic
// atoms (not syntax): restructuring the body keeps the shape, consulting something else
// (a prefix/suffix test, a case fold, another field) changes it.
type helperShape struct {
	Fn           string
	AllowedCalls []string // exact names; "builtin.len" etc. included when used
	MustConsts   []string // constant values (as printed by constString) that must occur
	MustFields   []string // field names that must be read
	NoTypeAssert bool
	OnlyConsts   []string // when set: no string constant outside this list (numbers/bools/nil ignored)
	MustCommaOk  bool     // the answer rests on a comma-ok map lookup (presence, not value)
	MustCalls    []string // callees that must be consulted
	Why          string   // what dependent rules assume
}

func ruleHelperShape(c *Ctx, r *Report, clause string, hs helperShape) {
	w := c.W
	fi := need(c, r, clause, hs.Fn)
	if fi == nil {
		return
	}
	allowed := map[string]bool{}
	for _, a := range hs.AllowedCalls {
		allowed[a] = true
	}
	viol := ""
	consts := map[string]bool{}
	fields := map[string]bool{}
	called := map[string]bool{}
	allInstrs(fi.SSA, true, func(_ *ssa.Function, _ *ssa.BasicBlock, _ int, ins ssa.Instruction) {
		switch x := ins.(type) {
		case ssa.CallInstruction:
			called[calleeName(x)] = true
			if cf := x.Common().StaticCallee(); cf != nil && w.isNewFn(cf) {
				break // a helper split off the reviewed body: its instructions are walked as part of it
			}
			if nm := calleeName(x); !allowed[nm] && nm != "builtin.len" && !strings.HasPrefix(nm, "infrastructure/logger.") && !exactSearchCall(nm) {
				viol = fmt.Sprintf("%s: %s now consults %s; the rules that rely on it assume: %s", w.pos(x.Pos()), hs.Fn, nm, hs.Why)
			}
		case *ssa.TypeAssert:
			if hs.NoTypeAssert {
				viol = fmt.Sprintf("%s: %s now dispatches on a dynamic type; the rules that rely on it assume: %s", w.pos(x.Pos()), hs.Fn, hs.Why)
			}
		case *ssa.FieldAddr:
			if v := structFieldVar(x.X.Type(), x.Field); v != nil {
				fields[v.Name()] = true
			}
		case *ssa.Field:
			if v := structFieldVar(x.X.Type(), x.Field); v != nil {
				fields[v.Name()] = true
			}
		}
		var buf [8]*ssa.Value
		for _, op := range ins.Operands(buf[:0]) {
			if k, ok := (*op).(*ssa.Const); ok && k.Value != nil {
				consts[constString(k.Value)] = true
			}
		}
	})
	if len(hs.OnlyConsts) > 0 && viol == "" {
		okc := map[string]bool{}
		for _, k := range hs.OnlyConsts {
			okc[k] = true
		}
		for k := range consts {
			if okc[k] || k == "nil" || k == "true" || k == "false" {
				continue
			}
			if _, err := strconv.ParseFloat(k, 64); err == nil {
				continue
			}
			viol = fmt.Sprintf("%s now also depends on the constant %q; the rules that rely on it assume: %s", hs.Fn, k, hs.Why)
		}
	}
	if hs.MustCommaOk && viol == "" {
		found := false
		allInstrs(fi.SSA, true, func(_ *ssa.Function, _ *ssa.BasicBlock, _ int, ins ssa.Instruction) {
			if lk, ok := ins.(*ssa.Lookup); ok && lk.CommaOk {
				found = true
			}
		})
		if !found {
			viol = fmt.Sprintf("%s no longer decides by a comma-ok lookup (key present) but by the looked-up value; the rules that rely on it assume: %s", hs.Fn, hs.Why)
		}
	}
	var missing []string
	for _, k := range hs.MustConsts {
		if !consts[k] {
			missing = append(missing, "constant "+k)
		}
	}
	for _, f := range hs.MustFields {
		if !fields[f] {
			missing = append(missing, "field "+f)
		}
	}
	for _, cl := range hs.MustCalls {
		if !called[cl] {
			missing = append(missing, "call "+cl)
		}
	}
	sort.Strings(missing)
	if viol == "" && len(missing) > 0 {
		viol = fmt.Sprintf("%s no longer depends on %v; the rules that rely on it assume: %s", hs.Fn, missing, hs.Why)
	}
	r.add(clause, "helper-shape", hs.Fn, hs.Why, []string{hs.Fn}, []string{w.pos(fi.Decl.Pos())}, viol)
}

// exactSearchCall: library spellings of "some element equals / satisfies" - the loop with `==`
// (or with the predicate, whose body is analysed as part of the function) written as a call.
func exactSearchCall(nm string) bool {
	switch nm {
	case "slices.Contains", "slices.Index", "slices.ContainsFunc", "slices.IndexFunc":
		return true
	}
	return false
}
