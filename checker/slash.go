package main

import (
	"fmt"
	"go/ast"
	"go/constant"
	"go/token"
	"go/types"
	"regexp/syntax"
	"strconv"
)

// slashCollapseVerdict decides, from the shape of a function body, whether it collapses
// runs of '/' of ANY length into one. Accepted idioms (enumerated from the repository):
//
//	(a) <regexp>.ReplaceAllString(x, "/") where the receiver is a package-level variable
//	    initialised with regexp.MustCompile(<constant>) and the constant's syntax tree is
//	    `/+`, `/{2,}`, `//+` ... (only '/' literals, unbounded repetition, minimum <= 2);
//	(b) a loop `for strings.Contains(p, "//") { p = strings.ReplaceAll(p, "//", "/") }`.
//
// A single strings.ReplaceAll(x, "//", "/") outside such a loop is recognised as the
// NON-collapsing form ("///" -> "//"). Anything else is reported as not recognised.
type slashVerdict struct {
	Collapses  bool
	SinglePass bool // recognised single-pass replace (does not collapse runs >= 3)
	None       bool // no slash handling at all
	Why        string
	Pos        token.Pos
}

// info may be nil (untyped template Go): then callee names are matched by spelling and
// regex variables cannot be resolved (idiom (a) needs resolveRegex).
func slashCollapse(body *ast.BlockStmt, calleeName func(*ast.CallExpr) string, resolveRegex func(recv ast.Expr) (string, bool)) slashVerdict {
	v := slashVerdict{None: true}
	loopOK := map[*ast.CallExpr]bool{}
	// idiom (b): mark ReplaceAll calls inside a for-loop conditioned on Contains(.., "//")
	ast.Inspect(body, func(n ast.Node) bool {
		fs, ok := n.(*ast.ForStmt)
		if !ok || fs.Cond == nil {
			return true
		}
		cc, ok := fs.Cond.(*ast.CallExpr)
		if !ok || calleeName(cc) != "strings.Contains" || len(cc.Args) != 2 || litString(cc.Args[1]) != "//" {
			return true
		}
		ast.Inspect(fs.Body, func(m ast.Node) bool {
			if c, ok := m.(*ast.CallExpr); ok && calleeName(c) == "strings.ReplaceAll" && len(c.Args) == 3 && litString(c.Args[1]) == "//" && litString(c.Args[2]) == "/" {
				if exprString(c.Args[0]) == exprString(cc.Args[0]) {
					loopOK[c] = true
				}
			}
			return true
		})
		return true
	})
	ast.Inspect(body, func(n ast.Node) bool {
		c, ok := n.(*ast.CallExpr)
		if !ok {
			return true
		}
		switch calleeName(c) {
		case "strings.ReplaceAll":
			if len(c.Args) == 3 && litString(c.Args[1]) == "//" && litString(c.Args[2]) == "/" {
				v.None = false
				v.Pos = c.Pos()
				if loopOK[c] {
					v.Collapses = true
					v.Why = "ReplaceAll(\"//\",\"/\") iterated while Contains(\"//\")"
				} else if !v.Collapses {
					v.SinglePass = true
					v.Why = "single strings.ReplaceAll(x, \"//\", \"/\") pass: a run of three or more slashes is only halved"
				}
			}
		case "(*regexp.Regexp).ReplaceAllString", "regexp.ReplaceAllString":
			if len(c.Args) == 2 && litString(c.Args[1]) == "/" {
				se, ok := c.Fun.(*ast.SelectorExpr)
				if !ok || resolveRegex == nil {
					return true
				}
				pat, ok := resolveRegex(se.X)
				if !ok {
					return true
				}
				v.None = false
				v.Pos = c.Pos()
				if regexCollapsesSlashes(pat) {
					v.Collapses = true
					v.Why = "regexp " + strconv.Quote(pat) + " replaced by \"/\""
				} else if !v.Collapses {
					v.Why = "regexp " + strconv.Quote(pat) + " does not match slash runs of every length >= 2"
				}
			}
		}
		return true
	})
	return v
}

func litString(e ast.Expr) string {
	if bl, ok := e.(*ast.BasicLit); ok && bl.Kind == token.STRING {
		if s, err := strconv.Unquote(bl.Value); err == nil {
			return s
		}
	}
	// a named constant (or a constant expression) spelled instead of the literal
	if curWorld != nil && len(curWorld.Pkgs) > 0 && curWorld.Pkgs[0].TypesInfo != nil {
		if tv, ok := curWorld.Pkgs[0].TypesInfo.Types[e]; ok && tv.Value != nil && tv.Value.Kind() == constant.String {
			return constant.StringVal(tv.Value)
		}
	}
	return "\x00"
}

// regexCollapsesSlashes: the pattern consists only of '/' literals with an unbounded
// repetition and a minimum length <= 2 (so every run of >= 2 slashes is one match).
func regexCollapsesSlashes(pat string) bool {
	re, err := syntax.Parse(pat, syntax.Perl)
	if err != nil {
		return false
	}
	min, unbounded, onlySlash := slashShape(re)
	return onlySlash && unbounded && min >= 1 && min <= 2
}

func slashShape(re *syntax.Regexp) (min int, unbounded bool, onlySlash bool) {
	switch re.Op {
	case syntax.OpLiteral:
		for _, r := range re.Rune {
			if r != '/' {
				return 0, false, false
			}
		}
		return len(re.Rune), false, true
	case syntax.OpPlus:
		m, _, ok := slashShape(re.Sub[0])
		return m, true, ok && m == 1
	case syntax.OpStar:
		m, _, ok := slashShape(re.Sub[0])
		return 0, true, ok && m == 1
	case syntax.OpRepeat:
		m, _, ok := slashShape(re.Sub[0])
		return re.Min * m, re.Max == -1, ok && m == 1
	case syntax.OpConcat:
		total, unb, ok := 0, false, true
		for _, s := range re.Sub {
			m, u, o := slashShape(s)
			total += m
			unb = unb || u
			ok = ok && o
		}
		return total, unb, ok
	case syntax.OpCapture:
		return slashShape(re.Sub[0])
	}
	return 0, false, false
}

// typedSlashCollapse runs the verdict on a gleece function with type information.
func (w *World) typedSlashCollapse(fi *FuncInfo) slashVerdict {
	info := fi.Pkg.TypesInfo
	callee := func(c *ast.CallExpr) string { return calleeOfCall(info, c) }
	resolve := func(recv ast.Expr) (string, bool) {
		// receiver must be a package-level var initialised with regexp.MustCompile(const)
		var obj types.Object
		switch x := recv.(type) {
		case *ast.Ident:
			obj = info.Uses[x]
		case *ast.SelectorExpr:
			obj = info.Uses[x.Sel]
		}
		v, ok := obj.(*types.Var)
		if !ok || v.Pkg() == nil || v.Parent() != v.Pkg().Scope() {
			return "", false
		}
		p := w.ByPath[v.Pkg().Path()]
		if p == nil {
			return "", false
		}
		for _, f := range p.Syntax {
			for _, d := range f.Decls {
				gd, ok := d.(*ast.GenDecl)
				if !ok {
					continue
				}
				for _, s := range gd.Specs {
					vs, ok := s.(*ast.ValueSpec)
					if !ok {
						continue
					}
					for i, nm := range vs.Names {
						if p.TypesInfo.Defs[nm] != obj || i >= len(vs.Values) {
							continue
						}
						var pat string
						found := false
						ast.Inspect(vs.Values[i], func(n ast.Node) bool {
							if c, ok := n.(*ast.CallExpr); ok && calleeOfCall(p.TypesInfo, c) == "regexp.MustCompile" && len(c.Args) == 1 {
								if tv := p.TypesInfo.Types[c.Args[0]]; tv.Value != nil {
									pat, found = constString(tv.Value), true
								}
							}
							return true
						})
						return pat, found
					}
				}
			}
		}
		return "", false
	}
	v := slashCollapse(fi.Decl.Body, callee, resolve)
	if v.Collapses || !v.None {
		return v
	}
	// delegation: the function hands its input to another gleece function that collapses
	var deleg slashVerdict
	found := false
	ast.Inspect(fi.Decl.Body, func(n ast.Node) bool {
		c, ok := n.(*ast.CallExpr)
		if !ok || found {
			return true
		}
		if other := w.fn(callee(c)); other != nil && other != fi && other.Decl.Body != nil {
			if ov := w.typedSlashCollapseDepth(other, 1); ov.Collapses {
				deleg, found = ov, true
				deleg.Pos = c.Pos()
			}
		}
		return true
	})
	if found {
		return deleg
	}
	return v
}

func (w *World) typedSlashCollapseDepth(fi *FuncInfo, depth int) slashVerdict {
	if depth > 2 {
		return slashVerdict{None: true}
	}
	return w.typedSlashCollapse(fi)
}

// ruleSlashCollapse registers the obligation for one typed gleece function.
func ruleSlashCollapse(c *Ctx, r *Report, clause, fnKey, desc string) {
	fi := need(c, r, clause, fnKey)
	if fi == nil {
		return
	}
	v := c.W.typedSlashCollapse(fi)
	viol := ""
	pos := v.Pos
	if !pos.IsValid() {
		pos = fi.Decl.Pos()
	}
	switch {
	case v.Collapses:
	case v.SinglePass:
		viol = fmt.Sprintf("%s: %s", c.W.pos(pos), v.Why)
	case v.None:
		viol = fmt.Sprintf("%s: %s does not collapse duplicate slashes by a recognised idiom (regexp `/+`→\"/\" or ReplaceAll in a Contains loop)", c.W.pos(pos), fnKey)
	default:
		viol = fmt.Sprintf("%s: %s", c.W.pos(pos), v.Why)
	}
	r.add(clause, "slash-collapse", fnKey, desc, []string{fnKey}, []string{c.W.pos(pos), c.W.pos(fi.Decl.Pos())}, viol)
}

// globalRegexPattern returns the constant pattern a package-level *regexp.Regexp variable
// is compiled from.
func (w *World) globalRegexPattern(v *types.Var) (string, bool) {
	p := w.ByPath[v.Pkg().Path()]
	if p == nil {
		return "", false
	}
	for _, f := range p.Syntax {
		for _, d := range f.Decls {
			gd, ok := d.(*ast.GenDecl)
			if !ok {
				continue
			}
			for _, s := range gd.Specs {
				vs, ok := s.(*ast.ValueSpec)
				if !ok {
					continue
				}
				for i, nm := range vs.Names {
					if p.TypesInfo.Defs[nm] != types.Object(v) || i >= len(vs.Values) {
						continue
					}
					var pat string
					found := false
					ast.Inspect(vs.Values[i], func(n ast.Node) bool {
						if c, ok := n.(*ast.CallExpr); ok && calleeOfCall(p.TypesInfo, c) == "regexp.MustCompile" && len(c.Args) == 1 {
							if tv := p.TypesInfo.Types[c.Args[0]]; tv.Value != nil {
								pat, found = constString(tv.Value), true
							}
						}
						return true
					})
					return pat, found
				}
			}
		}
	}
	return "", false
}

// braceNameClass extracts, from a pattern of the shape `\{(<class>+)\}`, a predicate for
// the characters allowed in the name.
func braceNameClass(pat string) (func(rune) bool, bool) {
	re, err := syntax.Parse(pat, syntax.Perl)
	if err != nil {
		return nil, false
	}
	var class *syntax.Regexp
	var find func(r *syntax.Regexp)
	find = func(r *syntax.Regexp) {
		switch r.Op {
		case syntax.OpPlus, syntax.OpStar, syntax.OpRepeat:
			if len(r.Sub) == 1 && (r.Sub[0].Op == syntax.OpCharClass || r.Sub[0].Op == syntax.OpLiteral) && class == nil {
				class = r.Sub[0]
			}
		}
		for _, s := range r.Sub {
			find(s)
		}
	}
	find(re)
	if class == nil {
		return nil, false
	}
	return func(ch rune) bool {
		if class.Op == syntax.OpLiteral {
			for _, r := range class.Rune {
				if r == ch {
					return true
				}
			}
			return false
		}
		for i := 0; i+1 < len(class.Rune); i += 2 {
			if ch >= class.Rune[i] && ch <= class.Rune[i+1] {
				return true
			}
		}
		return false
	}, true
}
