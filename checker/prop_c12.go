package main

import (
	"encoding/json"
	"fmt"
	"go/ast"
	"go/token"
	"os"
	"path/filepath"
	"sort"
	"strings"

	hast "github.com/aymerick/raymond/ast"
)

func init() {
	register("C12", "Static sibling cross-check of the five engines' template sets (five implementations of one interface): per template, equal resolved read-sets, helper-call sets and partial-invocation sets (differences must be in tables/engines.json); equal partial/extension key sets; the engine-independent Go helpers of function.declarations are token-identical after renaming the request-context identifiers, and the engine-specific ones (authorize, handleAuthorizationError, bindAndValidateBody, URL helper) each satisfy the same semantic rule; the handler phases appear in the same order; status sources of replies are the same; parameter binding uses the same location discipline, conversion arms and bit sizes. Decides that the five templates emit structurally equivalent handlers; that five HTTP frameworks parse the same bytes into the same values is outside static reach.", checkC12)
}

func loadEngineTable(verifDir string) (map[string]map[string]string, error) {
	b, err := os.ReadFile(filepath.Join(verifDir, "tables", "engines.json"))
	if err != nil {
		return nil, err
	}
	raw := map[string]json.RawMessage{}
	if err := json.Unmarshal(b, &raw); err != nil {
		return nil, err
	}
	out := map[string]map[string]string{}
	for k, v := range raw {
		if strings.HasPrefix(k, "_") {
			continue
		}
		m := map[string]string{}
		if err := json.Unmarshal(v, &m); err != nil {
			return nil, err
		}
		out[k] = m
	}
	return out, nil
}

func checkC12(c *Ctx, r *Report) {
	r.NotDecided = append(r.NotDecided, "that gin, echo, mux, chi and fiber parse the same request bytes into the same values and serialise the same bodies (runtime equivalence of five frameworks)", "response headers such as Content-Type", "user template overrides")
	// first-match routers (mux, fiber) and tree routers (gin, echo, chi) agree only while routes are registered
	// in the order they were declared: the routes generator neither sorts nor rewrites what it is given
	defer func() {
		ruleFieldFlow(c, r, ffSpec{Clause: "C12.e", Fn: "generator/routes.GetTemplateContext", Owner: c.W.lookupType("generator/routes", "RoutesContext"), Field: "Controllers",
			Must: []string{"core/pipeline.GleeceFlattenedMetadata.Flat"}, Desc: "the controllers (and their routes) reach the templates in the order the pipeline produced them - a copy, a sort or a regrouping changes which of two overlapping routes a first-match router serves"})
	}()
	defer ruleSortInventory(c, r, "C12.e", "core/metadata", "core/pipeline", "generator/routes")
	defer checkNoInPlaceWritesToInputs(c, r, "C12.e", "core/metadata", "generator/swagen", "generator/routes")
	r.Assume = append(r.Assume, "templates are compared structurally: resolved context reads, helper calls, partial invocations, Go tokens after renaming the request-context identifiers")
	tbl, err := loadEngineTable(c.VerifDir)
	if err != nil {
		r.undecided("C12.a", "table", "engines.json", "", err.Error())
		return
	}
	engines := c.T.Order

	// ---- C12.a per-template profiles
	prof := map[string]map[string]map[string]int{} // tpl -> element -> engine -> line
	add := func(tpl, el, en string, line int) {
		if prof[tpl] == nil {
			prof[tpl] = map[string]map[string]int{}
		}
		if prof[tpl][el] == nil {
			prof[tpl][el] = map[string]int{}
		}
		prof[tpl][el][en] = line
	}
	for _, en := range engines {
		eng := c.T.Engines[en]
		for _, rd := range eng.Reads {
			add(rd.Tpl, "read:"+rd.Path+"=>"+strings.Join(rd.Fields, ">"), en, rd.Line)
		}
		for _, h := range eng.Helpers {
			add(h.Tpl, "helper:"+h.Helper+"["+strings.Join(h.Args, " ")+"]", en, h.Line)
		}
		for _, iv := range eng.Invokes {
			add(iv.Tpl, "invoke:"+iv.Partial+"{"+iv.Hash+"}@"+iv.Scope, en, iv.Line)
		}
		// output positions with their escape mode: {{x}} is HTML-escaped by raymond, {{{x}}} is raw
		for _, em := range eng.Emits {
			mode := "escaped"
			if em.Unescaped {
				mode = "raw"
			}
			add(em.Tpl, "emit:"+em.Expr+"("+mode+")", en, em.Line)
		}
	}
	var tpls []string
	for t := range prof {
		tpls = append(tpls, t)
	}
	sort.Strings(tpls)
	for _, tpl := range tpls {
		viol := ""
		var sites []string
		n := 0
		for el, per := range prof[tpl] {
			n++
			for _, en := range engines {
				if line, ok := per[en]; ok {
					if t := tplOf(c.T.Engines[en], tpl); t != nil {
						sites = append(sites, tplSite(t, c.T.Engines[en], line))
					}
				}
			}
			if len(per) == len(engines) {
				continue
			}
			if _, tabled := tbl[tpl][el]; tabled {
				continue
			}
			var have, miss []string
			for _, en := range engines {
				if _, ok := per[en]; ok {
					have = append(have, en)
				} else {
					miss = append(miss, en)
				}
			}
			viol = fmt.Sprintf("template %s: %s appears in %v but not in %v (and is not a tabled engine difference): the engines' handlers would consult different metadata / take different paths", tpl, el, have, miss)
		}
		o := r.add("C12.a", "tpl-siblings", "template:"+tpl, fmt.Sprintf("the five engines' %s resolve the same context reads, call the same helpers with the same arguments and invoke the same partials (%d elements)", tpl, n), engines, sites, viol)
		o.NonTrivial = true
	}

	// the engine-independent part of the generated file - everything routes.hbs writes before
	// `func RegisterRoutes` (the validator instance and its options, the custom-validator hook,
	// shared declarations) - is the same Go text in all five engines
	{
		prelude := func(en string) ([]string, string) {
			eng := c.T.Engines[en]
			var src strings.Builder
			for _, st := range eng.Routes.Prog.Body {
				switch n := st.(type) {
				case *hast.ContentStatement:
					src.WriteString(n.Value)
				case *hast.MustacheStatement:
					src.WriteString(" " + mustachePlaceholder(n) + " ")
				case *hast.PartialStatement:
					src.WriteString("\n/*partial*/ P_" + partialName(n) + "\n")
				default:
					src.WriteString("\n")
				}
			}
			ts := goToks(src.String())
			i := tokSeqIndex(ts, "func", "RegisterRoutes")
			if i < 0 {
				return nil, eng.Routes.File + ":1"
			}
			return tokStrings(ts[:i]), eng.Routes.File + ":1"
		}
		refToks, refSite := prelude(engines[0])
		viol := ""
		sites := []string{refSite}
		if refToks == nil {
			viol = engines[0] + ": `func RegisterRoutes` not found in routes.hbs"
		}
		for _, en := range engines[1:] {
			ts, site := prelude(en)
			sites = append(sites, site)
			if ts == nil {
				viol = en + ": `func RegisterRoutes` not found in routes.hbs"
				continue
			}
			for i := 0; i < len(ts) || i < len(refToks); i++ {
				a, b := "<end>", "<end>"
				if i < len(refToks) {
					a = refToks[i]
				}
				if i < len(ts) {
					b = ts[i]
				}
				if a != b {
					lo := max(0, i-4)
					viol = fmt.Sprintf("%s: the shared declarations of routes.hbs differ between %s and %s at `... %s` : %q vs %q - one engine's generated file validates, registers or declares something the others do not", site, engines[0], en, strings.Join(ts[lo:min(i, len(ts))], " "), a, b)
					break
				}
			}
		}
		o := r.add("C12.a", "tpl-siblings", "routes.hbs:shared-declarations", "what routes.hbs declares before RegisterRoutes (validator instance and options, custom validator registration) is token-for-token the same in the five engines", engines, sites, viol)
		o.NonTrivial = true
	}

	// ---- C12.b key sets
	ref := c.T.Engines[engines[0]]
	for _, en := range engines[1:] {
		eng := c.T.Engines[en]
		ruleSetEqual(c, r, "C12.b", "partials:"+engines[0]+"=="+en, "same partial names in every engine", engines[0]+" Partials", mapKeys(ref.Partials), en+" Partials", mapKeys(eng.Partials), []string{ref.Pos, eng.Pos})
		ruleSetEqual(c, r, "C12.b", "extensions:"+engines[0]+"=="+en, "same extension hook names in every engine", engines[0]+" TemplateExtensions", mapKeys(ref.Extensions), en+" TemplateExtensions", mapKeys(eng.Extensions), []string{ref.Pos, eng.Pos})
	}
	for _, en := range engines {
		eng := c.T.Engines[en]
		viol := ""
		if len(eng.UnusedVars) > 0 {
			viol = fmt.Sprintf("%s: embedded template variables %v are not wired into the Partials map", en, eng.UnusedVars)
		}
		if len(eng.Problems) > 0 {
			viol = fmt.Sprintf("%s: %d unresolved template constructs, first: %s", en, len(eng.Problems), eng.Problems[0])
		}
		r.add("C12.b", "tpl-closed", en+":closed", en+": every embedded template is registered, every {{> X}} and every path/helper resolves", []string{eng.PkgRel}, []string{eng.Pos}, viol)
	}

	// ---- C12.c Go helpers
	identical := []string{"registerEnumValidation", "extractValidationErrorMessage", "getStatusCode", "validateDataRecursive", "authorize", "wrapValidatorError"}
	funcs := map[string]map[string][]string{}
	parts := map[string]*goPartial{}
	for _, en := range engines {
		fd := c.T.Engines[en].Partials["FunctionDeclarations"]
		if fd == nil {
			r.undecided("C12.c", "tplgo", en+":FunctionDeclarations", "", "missing")
			continue
		}
		gp, err := parseGoPartial(fd)
		if err != nil {
			r.undecided("C12.c", "tplgo", en+":FunctionDeclarations", "", err.Error())
			continue
		}
		parts[en] = gp
		funcs[en] = normalisedFuncs(gp)
	}
	for _, fn := range identical {
		viol := ""
		var sites []string
		refToks := funcs[engines[0]][fn]
		if refToks == nil {
			viol = fmt.Sprintf("func %s not found in %s function.declarations", fn, engines[0])
		}
		for _, en := range engines {
			gp := parts[en]
			if gp == nil {
				continue
			}
			if f := gp.fn(fn); f != nil {
				sites = append(sites, gp.site(f.Pos()))
			}
			toks := funcs[en][fn]
			if toks == nil {
				viol = fmt.Sprintf("func %s is missing from the %s templates", fn, en)
				continue
			}
			if strings.Join(toks, " ") != strings.Join(refToks, " ") {
				i := 0
				for i < len(toks) && i < len(refToks) && toks[i] == refToks[i] {
					i++
				}
				lo := max(0, i-4)
				viol = fmt.Sprintf("%s: func %s differs from the %s version at token %d: `%s` vs `%s`", gp.Tpl.File, fn, engines[0], i, strings.Join(toks[lo:min(len(toks), i+6)], " "), strings.Join(refToks[lo:min(len(refToks), i+6)], " "))
			}
		}
		o := r.add("C12.c", "sibling", "func:"+fn, "func "+fn+" is the same in all five engines (after renaming the request-context identifier and type)", engines, sites, viol)
		o.NonTrivial = true
	}
	for _, en := range engines {
		gp := parts[en]
		if gp == nil {
			continue
		}
		// the engine-specific ones obey the same rules
		ar := checkAuthorize(gp)
		o := r.add("C12.c", "tplgo-paths", en+":authorize", en+": authorize() follows the 'first fully approved list wins, otherwise last error' rule", []string{gp.Tpl.File}, ar.Sites, ar.Violation)
		o.NonTrivial = true
		rr := newReport("C12")
		checkHandleAuthError(rr, en, gp)
		for _, ob := range rr.Obls {
			ob.Clause = "C12.c"
			r.Obls = append(r.Obls, ob)
		}
		// bindAndValidateBody: common tail and the required/empty-body rule
		viol := ""
		var sites []string
		if f := gp.fn("bindAndValidateBody"); f == nil {
			viol = "func bindAndValidateBody missing"
		} else {
			sites = append(sites, gp.site(f.Pos()))
			toks := funcs[en]["bindAndValidateBody"]
			refT := funcs[engines[0]]["bindAndValidateBody"]
			tail := func(ts []string) string {
				j := strings.Index(strings.Join(ts, " "), "var deserializedOutput TOutput")
				if j < 0 {
					return ""
				}
				return strings.Join(ts, " ")[j:]
			}
			if tail(toks) == "" || tail(toks) != tail(refT) {
				viol = fmt.Sprintf("%s: bindAndValidateBody's decoding/validation part differs from %s's", gp.Tpl.File, engines[0])
			}
			joined := strings.Join(toks, " ")
			if !strings.Contains(joined, "len ( bodyBytes ) == 0") || !strings.Contains(joined, `strings . Contains ( validation , "required" )`) {
				viol = fmt.Sprintf("%s: bindAndValidateBody does not apply the 'empty body is an error only if required' rule", gp.Tpl.File)
			}
		}
		r.add("C12.c", "sibling", en+":bindAndValidateBody", en+": body binding = read body; empty body is an error iff required; JSON decode; recursive validation", []string{gp.Tpl.File}, sites, viol)
	}

	// ---- C12.d phase order in the handler
	seqs := map[string][]string{}
	for _, en := range engines {
		_, routes := routesProgram(c.T.Engines[en])
		if routes == nil {
			continue
		}
		var seq []string
		var walk func(p *hast.Program)
		walk = func(p *hast.Program) {
			if p == nil {
				return
			}
			for _, st := range p.Body {
				switch n := st.(type) {
				case *hast.PartialStatement:
					seq = append(seq, partialName(n))
				case *hast.BlockStatement:
					seq = append(seq, "#"+n.Expression.HelperName())
					walk(n.Program)
					walk(n.Inverse)
					seq = append(seq, "/"+n.Expression.HelperName())
				case *hast.ContentStatement:
					toks := goToks(n.Value)
					if tokSeqIndex(toks, "controller", ".", "InitController") >= 0 {
						seq = append(seq, "go:InitController")
					}
					if endsWithToks(toks, "controller", ".") {
						seq = append(seq, "go:controller-call")
					}
				}
			}
		}
		walk(routes.Program)
		seqs[en] = seq
	}
	{
		viol := ""
		var sites []string
		refSeq := seqs[engines[0]]
		for _, en := range engines {
			_, routes := routesProgram(c.T.Engines[en])
			if routes != nil {
				sites = append(sites, tplSite(c.T.Engines[en].Routes, c.T.Engines[en], routes.Line))
			}
			if strings.Join(seqs[en], " ") != strings.Join(refSeq, " ") {
				viol = fmt.Sprintf("%s handler phases %v differ from %s's %v", en, seqs[en], engines[0], refSeq)
			}
		}
		want := []string{"AuthorizationCall", "go:InitController", "RequestArgsParsing", "Middleware", "go:controller-call", "MethodParameterList", "ResponseHeaders", "ReplyResponse"}
		pos := -1
		for _, wv := range want {
			found := -1
			for i, s := range refSeq {
				if s == wv && i > pos {
					found = i
					break
				}
			}
			if found < 0 {
				viol = fmt.Sprintf("handler phase %s is missing or out of order in %s (sequence %v)", wv, engines[0], refSeq)
				break
			}
			pos = found
		}
		o := r.add("C12.d", "tpl-order", "handler-phase-order", "all engines run auth -> init -> parse/validate -> before-middleware -> call -> headers -> reply, in this order", engines, sites, viol)
		o.NonTrivial = true
	}

	// ---- C12.e the response API used by each engine's reply code is the reviewed one
	{
		want := map[string]map[string]bool{}
		if raw, ok := tbl["response_api"]; ok {
			for en, list := range raw {
				want[en] = map[string]bool{}
				for _, m := range strings.Fields(list) {
					want[en][m] = true
				}
			}
		}
		replyPartials := []string{"JsonResponse", "JsonErrorResponse", "ReplyResponse", "ParamsValidationErrorResponse", "JsonBodyValidationErrorResponse"}
		ctxOf := map[string][]string{"gin": {"ginCtx"}, "echo": {"echoCtx"}, "fiber": {"fiberCtx"}, "mux": {"w"}, "chi": {"w"}}
		for _, en := range engines {
			eng := c.T.Engines[en]
			viol := ""
			var sites []string
			got := map[string]bool{}
			for _, pn := range replyPartials {
				t := eng.Partials[pn]
				if t == nil {
					continue
				}
				sites = append(sites, t.File+":1")
				toks := goToks(flattenProgram(t.Prog, nil))
				for i := 0; i+2 < len(toks); i++ {
					isCtx := false
					for _, cn := range ctxOf[en] {
						if toks[i].Tok == token.IDENT && toks[i].Lit == cn {
							isCtx = true
						}
					}
					// ctx.Method( ...  and chained  ).Method(
					if (isCtx || toks[i].Tok == token.RPAREN) && toks[i+1].Tok == token.PERIOD && toks[i+2].Tok == token.IDENT && i+3 < len(toks) && toks[i+3].Tok == token.LPAREN {
						if isCtx || chainedFromCtx(toks, i, ctxOf[en]) {
							got[toks[i+2].Lit] = true
						}
					}
				}
			}
			var unrev []string
			for m := range got {
				if !want[en][m] {
					unrev = append(unrev, m)
				}
			}
			sort.Strings(unrev)
			for _, m := range unrev[:min(1, len(unrev))] {
				m = strings.Join(unrev, ", ")
				{
					viol = fmt.Sprintf("%s: the reply code calls %s.%s(), which is not in the reviewed response API of this engine (tables/engines.json response_api: %v): framework calls differ in what they write (fiber's SendStatus also writes the status text as the body, gin's AbortWithStatus stops the chain, ...), so an unreviewed call can make this engine answer differently from the other four", en, ctxOf[en][0], m, keys(want[en]))
				}
			}
			if len(got) < 2 {
				viol = fmt.Sprintf("%s: only %d response API calls recognised in the reply partials (floor 2)", en, len(got))
			}
			o := r.add("C12.e", "vocabulary", en+":response-api", en+": replies are written with the reviewed framework calls only", []string{"generator/templates/" + en}, sites, viol)
			o.NonTrivial = true
		}
	}

	// ---- C12.e status sources of replies
	for _, en := range engines {
		eng := c.T.Engines[en]
		viol := ""
		var sites []string
		if rp := eng.Partials["ReplyResponse"]; rp != nil {
			sites = append(sites, rp.File+":1")
			toks := goToks(flattenProgram(rp.Prog, nil))
			if tokSeqIndex(toks, "statusCode", ":=", "getStatusCode", "(", "&", "controller", ",", "M_HasReturnValue", ",", "opError", ")") < 0 {
				viol = en + ": the reply status is not getStatusCode(&controller, HasReturnValue, opError)"
			}
			// the error arm returns before the success reply
			nRet := 0
			for _, tk := range toks {
				if tk.Tok == token.RETURN {
					nRet++
				}
			}
			if nRet == 0 {
				// echo/fiber return the write call itself from inside JsonErrorResponse: both of its arms must return
				nArmRet := 0
				if je := eng.Partials["JsonErrorResponse"]; je != nil {
					for _, tk := range goToks(flattenProgram(je.Prog, nil)) {
						if tk.Tok == token.RETURN {
							nArmRet++
						}
					}
				}
				if nArmRet < 2 {
					viol = en + ": the operation-error arm neither returns in ReplyResponse nor in both arms of JsonErrorResponse: an error reply would be followed by the success reply"
				}
			}
		} else {
			viol = en + ": ReplyResponse missing"
		}
		if jr := eng.Partials["JsonResponse"]; jr != nil {
			sites = append(sites, jr.File+":1")
			src := flattenProgram(jr.Prog, nil)
			toks := goToks(src)
			if tokSeqIndex(toks, "outputValidationStatusCode", ":=", "http", ".", "StatusInternalServerError") < 0 {
				viol = en + ": a response that fails output validation is not answered 500"
			}
			usesStatus, usesValue := false, false
			for _, tk := range toks {
				if tk.Lit == "statusCode" {
					usesStatus = true
				}
				if tk.Lit == "value" {
					usesValue = true
				}
			}
			if !usesStatus || !usesValue {
				viol = en + ": the success reply does not send (statusCode, value)"
			}
		}
		if je := eng.Partials["JsonErrorResponse"]; je != nil {
			sites = append(sites, je.File+":1")
			toks := goToks(flattenProgram(je.Prog, nil))
			ok1, ok2 := false, false
			for _, tk := range toks {
				if tk.Lit == "statusCode" {
					ok1 = true
				}
				if tk.Lit == "opError" {
					ok2 = true
				}
			}
			if !ok1 || !ok2 {
				viol = en + ": the error reply does not send (statusCode, opError / RFC-7807 of it)"
			}
			for i, tk := range toks {
				if tk.Lit == "http" && i+2 < len(toks) && strings.HasPrefix(toks[i+2].Lit, "Status") && toks[i+2].Lit != "StatusText" {
					viol = en + ": the error reply uses a fixed status http." + toks[i+2].Lit
				}
			}
		}
		o := r.add("C12.e", "tpl-order", en+":reply-status-sources", en+": success and error replies carry getStatusCode's status, output-validation failures 500", []string{eng.PkgRel}, sites, viol)
		o.NonTrivial = true
	}

	// ---- C12.f parameter binding discipline, arms and bit sizes (shared rules with C05)
	checkEngineParsing(c, r, map[string]string{"a": "C12.f", "b": "C12.f", "c": "C12.f", "d": "C12.f"})
	checkConversionArms(c, r, "C12.f")
	// copies of a partial that agreed on the reviewed tree still agree
	checkPartialPartitions(c, r, "C12.b")

	// ---- C12.g the URL helpers (shared with C02.e)
	for _, en := range engines {
		gp := parts[en]
		if gp == nil {
			continue
		}
		name := "to" + strings.ToUpper(en[:1]) + en[1:] + "Url"
		fn := gp.fn(name)
		if fn == nil {
			r.add("C12.g", "slash-collapse", en+":"+name, "", nil, []string{gp.Tpl.File + ":1"}, "func "+name+" not found")
			continue
		}
		v := slashCollapse(fn.Body, func(cl *ast.CallExpr) string { return exprString(cl.Fun) }, nil)
		viol := ""
		if !v.Collapses {
			viol = fmt.Sprintf("%s: %s does not collapse duplicate slashes like its siblings (%s)", gp.site(fn.Pos()), name, v.Why)
		}
		r.add("C12.g", "slash-collapse", en+":"+name, en+": registered paths are normalised the same way in every engine", []string{gp.Tpl.File}, []string{gp.site(fn.Pos())}, viol)
	}

	if tierThorough {
		witnessSameRegistrations(c, r, "C12.b")
	}
}

func tplOf(eng *TplEngine, name string) *Tpl {
	if name == "routes.hbs" {
		return eng.Routes
	}
	if t := eng.Partials[name]; t != nil {
		return t
	}
	return eng.Extensions[name]
}

func mapKeys[T any](m map[string]T) []string {
	out := make([]string, 0, len(m))
	for k := range m {
		out = append(out, k)
	}
	sort.Strings(out)
	return out
}

// chainedFromCtx: the `)` at toks[i] closes a call chain that started at one of the
// context identifiers (fiberCtx.Status(x).JSON(y)).
func chainedFromCtx(toks []gtok, i int, ctx []string) bool {
	depth := 0
	for j := i; j >= 0; j-- {
		switch toks[j].Tok {
		case token.RPAREN:
			depth++
		case token.LPAREN:
			depth--
			if depth == 0 {
				// toks[j-1] is the method name, toks[j-2] '.', toks[j-3] receiver or ')'
				if j >= 3 && toks[j-2].Tok == token.PERIOD {
					if toks[j-3].Tok == token.IDENT {
						for _, cn := range ctx {
							if toks[j-3].Lit == cn {
								return true
							}
						}
						return false
					}
					if toks[j-3].Tok == token.RPAREN {
						return chainedFromCtx(toks, j-3, ctx)
					}
				}
				return false
			}
		}
	}
	return false
}

// partialStreams: per partial name, per engine, the Go token stream of the partial (template
// constructs as placeholders) with the engine's request-context identifiers renamed.
func partialStreams(c *Ctx) map[string]map[string]string {
	ctxIdents := map[string]bool{"ginCtx": true, "echoCtx": true, "fiberCtx": true}
	out := map[string]map[string]string{}
	for _, en := range c.T.Order {
		eng := c.T.Engines[en]
		for pn, t := range eng.Partials {
			if t == nil {
				continue
			}
			toks := goToks(flattenProgram(t.Prog, nil))
			var sb strings.Builder
			for _, tk := range toks {
				s := tk.String()
				if tk.Tok == token.IDENT && ctxIdents[tk.Lit] {
					s = "«ctx»"
				}
				sb.WriteString(s)
				sb.WriteByte(' ')
			}
			if out[pn] == nil {
				out[pn] = map[string]string{}
			}
			out[pn][en] = sb.String()
		}
	}
	return out
}

func partialGroups(c *Ctx) []string {
	var lines []string
	tok, shp := currentPartialPartitions(c)
	jb, _ := json.Marshal(map[string]any{"partial_token_groups": tok, "partial_shape_groups": shp})
	lines = append(lines, "JSON "+string(jb))
	ps := partialStreams(c)
	var names []string
	for n := range ps {
		names = append(names, n)
	}
	sort.Strings(names)
	for _, n := range names {
		groups := map[string][]string{}
		for en, s := range ps[n] {
			groups[s] = append(groups[s], en)
		}
		var gs []string
		for _, ens := range groups {
			sort.Strings(ens)
			gs = append(gs, strings.Join(ens, "+"))
		}
		sort.Strings(gs)
		lines = append(lines, fmt.Sprintf("%-40s %v", n, gs))
		sh := map[string][]string{}
		for _, en := range c.T.Order {
			sh[partialShape(c, en, n)] = append(sh[partialShape(c, en, n)], en)
		}
		for k, v := range sh {
			lines = append(lines, fmt.Sprintf("      shape %v: %.150s", v, k))
		}
	}
	return lines
}

// partialShape: an engine-independent profile of a partial's Go text: how many branches,
// loops, type assertions it has, which non-context identifiers it assigns, which string
// literals it contains. Framework calls differ between engines; this does not.
func partialShape(c *Ctx, en, pn string) string {
	eng := c.T.Engines[en]
	t := eng.Partials[pn]
	if t == nil {
		return ""
	}
	ctxIdents := map[string]bool{"ginCtx": true, "echoCtx": true, "fiberCtx": true, "w": true, "req": true}
	toks := goToks(flattenProgram(t.Prog, nil))
	nIf, nFor, nSwitch, nAssert := 0, 0, 0, 0
	assigned := map[string]bool{}
	lits := map[string]bool{}
	for i, tk := range toks {
		switch tk.Tok {
		case token.IF:
			nIf++
		case token.FOR:
			nFor++
		case token.SWITCH:
			nSwitch++
		case token.STRING:
			lits[tk.Lit] = true
		case token.LPAREN:
			if i > 0 && toks[i-1].Tok == token.PERIOD {
				nAssert++
			}
		case token.ASSIGN, token.DEFINE:
			for j := i - 1; j >= 0 && (toks[j].Tok == token.IDENT || toks[j].Tok == token.COMMA || toks[j].Tok == token.PERIOD); j-- {
				if toks[j].Tok == token.IDENT && !ctxIdents[toks[j].Lit] && (j == 0 || toks[j-1].Tok != token.PERIOD) {
					assigned[toks[j].Lit] = true
				}
			}
		}
	}
	return fmt.Sprintf("if=%d for=%d switch=%d assert=%d assigns=%v lits=%v", nIf, nFor, nSwitch, nAssert, keys(assigned), keys(lits))
}

// partitionOf: engines grouped by equal value.
func partitionOf(vals map[string]string) [][]string {
	groups := map[string][]string{}
	for en, v := range vals {
		groups[v] = append(groups[v], en)
	}
	var out [][]string
	for _, ens := range groups {
		sort.Strings(ens)
		out = append(out, ens)
	}
	sort.Slice(out, func(i, j int) bool { return strings.Join(out[i], "+") < strings.Join(out[j], "+") })
	return out
}

// currentPartialPartitions: for every partial, which engines have token-identical text (after
// renaming the request-context identifiers) and which have the same engine-independent shape.
func currentPartialPartitions(c *Ctx) (tokens, shapes map[string][][]string) {
	tokens, shapes = map[string][][]string{}, map[string][][]string{}
	for pn, per := range partialStreams(c) {
		tokens[pn] = partitionOf(per)
		sh := map[string]string{}
		for en := range per {
			sh[en] = partialShape(c, en, pn)
		}
		shapes[pn] = partitionOf(sh)
	}
	return
}

// checkPartialPartitions (C12.b): engines whose copy of a partial was token-identical, or had
// the same shape (branches, loops, type assertions, assigned names, string literals), on the
// reviewed tree still agree with each other. An edit made to one copy only - a fix, a
// feature, a special case - makes that engine answer differently from its siblings.
func checkPartialPartitions(c *Ctx, r *Report, clause string) {
	b, err := os.ReadFile(filepath.Join(c.VerifDir, "tables", "partials.json"))
	if err != nil {
		r.undecided(clause, "sibling", "partial-partitions", "", err.Error())
		return
	}
	var doc struct {
		Tok map[string][][]string `json:"partial_token_groups"`
		Shp map[string][][]string `json:"partial_shape_groups"`
	}
	if err := json.Unmarshal(b, &doc); err != nil || len(doc.Tok) == 0 || len(doc.Shp) == 0 {
		r.undecided(clause, "sibling", "partial-partitions", "", "tables/partials.json has no partial_token_groups / partial_shape_groups")
		return
	}
	tok, shp := currentPartialPartitions(c)
	streams := partialStreams(c)
	groupOf := func(part [][]string) map[string]int {
		m := map[string]int{}
		for i, g := range part {
			for _, en := range g {
				m[en] = i
			}
		}
		return m
	}
	var names []string
	for pn := range doc.Tok {
		names = append(names, pn)
	}
	sort.Strings(names)
	for _, pn := range names {
		viol := ""
		var sites []string
		for _, en := range c.T.Order {
			if t := c.T.Engines[en].Partials[pn]; t != nil {
				sites = append(sites, t.File+":1")
			}
		}
		for _, kind := range []struct {
			what      string
			reviewed  [][]string
			current   [][]string
			isPresent bool
		}{{"token-identical", doc.Tok[pn], tok[pn], true}, {"of the same shape", doc.Shp[pn], shp[pn], true}} {
			cur := groupOf(kind.current)
			for _, g := range kind.reviewed {
				for i := 1; i < len(g); i++ {
					a, b := g[0], g[i]
					if _, ok := streams[pn][a]; !ok {
						continue
					}
					if _, ok := streams[pn][b]; !ok {
						continue
					}
					if cur[a] != cur[b] && viol == "" {
						viol = fmt.Sprintf("partial %s: the %s and %s copies were %s on the reviewed tree and no longer are: one engine's copy was edited alone, so for the same route and request that engine now does something its siblings do not (shapes: %s | %s)", pn, a, b, kind.what, partialShape(c, a, pn), partialShape(c, b, pn))
					}
				}
			}
		}
		o := r.add(clause, "sibling", "partial-partition:"+pn, "engines that shared this partial's text / shape on the reviewed tree still do", c.T.Order, sites, viol)
		o.NonTrivial = true
	}
}
