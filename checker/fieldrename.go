package main

import (
	"go/ast"
	"go/types"
	"os"
	"sort"
	"strings"
)

// Renamed struct fields. Rules name the fields they are about (`SymbolGraph.revDeps`,
// `ReceiverMeta.Params`). A struct of the reviewed tree whose fields have, position by position,
// the reviewed types but other names had fields renamed: the checker then analyses the tree
// with those identifiers spelled the reviewed way (an overlay handed to go/packages - nothing on
// disk is touched), so that every rule sees the field it knows. Only a pure rename qualifies:
// same number of fields, same types in the same order, and the reviewed name not in use by
// another field of the struct.

// structFieldsTable: "pkg.Type" -> ["name type", ...] of every analysed named struct.
func (w *World) structFieldsTable() map[string][]string {
	out := map[string][]string{}
	for _, p := range w.Pkgs {
		if !isAnalysedPkg(p.PkgPath) {
			continue
		}
		sc := p.Types.Scope()
		for _, nm := range sc.Names() {
			tn, ok := sc.Lookup(nm).(*types.TypeName)
			if !ok {
				continue
			}
			st, ok := tn.Type().Underlying().(*types.Struct)
			if !ok {
				continue
			}
			var fs []string
			for i := 0; i < st.NumFields(); i++ {
				f := st.Field(i)
				fs = append(fs, f.Name()+" "+short(types.TypeString(f.Type(), nil)))
			}
			out[short(p.PkgPath)+"."+tn.Name()] = fs
		}
	}
	return out
}

// fieldRenameOverlay: file -> contents with renamed fields spelled the reviewed way; nil when no
// struct qualifies.
func (w *World) fieldRenameOverlay() map[string][]byte {
	if !w.base.loaded || len(w.base.fields) == 0 {
		return nil
	}
	rename := map[*types.Var]string{}
	for _, p := range w.Pkgs {
		if !isAnalysedPkg(p.PkgPath) {
			continue
		}
		sc := p.Types.Scope()
		for _, nm := range sc.Names() {
			tn, ok := sc.Lookup(nm).(*types.TypeName)
			if !ok {
				continue
			}
			st, ok := tn.Type().Underlying().(*types.Struct)
			if !ok {
				continue
			}
			old, ok := w.base.fields[short(p.PkgPath)+"."+tn.Name()]
			if !ok || len(old) != st.NumFields() {
				continue
			}
			cur := map[string]bool{}
			for i := 0; i < st.NumFields(); i++ {
				cur[st.Field(i).Name()] = true
			}
			pending := map[*types.Var]string{}
			pure := true
			for i := 0; i < st.NumFields(); i++ {
				f := st.Field(i)
				sp := strings.SplitN(old[i], " ", 2)
				if len(sp) != 2 {
					pure = false
					break
				}
				oldName, oldType := sp[0], sp[1]
				if short(types.TypeString(f.Type(), nil)) != oldType {
					pure = false
					break
				}
				if f.Name() == oldName {
					continue
				}
				if cur[oldName] || f.Embedded() || (tn.Exported() && ast.IsExported(oldName) != ast.IsExported(f.Name())) {
					pure = false // names swapped, an embedded field, or visibility changed: not a plain rename
					break
				}
				pending[f] = oldName
			}
			if pure {
				for f, n := range pending {
					rename[f] = n
				}
			}
		}
	}
	if len(rename) == 0 {
		return nil
	}
	type edit struct {
		off, n int
		to     string
	}
	edits := map[string][]edit{}
	for _, p := range w.Pkgs {
		if !isGleecePkg(p.PkgPath) || p.TypesInfo == nil {
			continue
		}
		note := func(id *ast.Ident, obj types.Object) {
			v, ok := obj.(*types.Var)
			if !ok {
				return
			}
			to, ok := rename[v]
			if !ok || id.Name != v.Name() {
				return
			}
			pos := w.Fset.Position(id.Pos())
			edits[pos.Filename] = append(edits[pos.Filename], edit{pos.Offset, len(id.Name), to})
		}
		for id, obj := range p.TypesInfo.Defs {
			note(id, obj)
		}
		for id, obj := range p.TypesInfo.Uses {
			note(id, obj)
		}
	}
	out := map[string][]byte{}
	for file, es := range edits {
		b, err := os.ReadFile(file)
		if err != nil {
			return nil
		}
		sort.Slice(es, func(i, j int) bool { return es[i].off > es[j].off })
		last := -1
		for _, e := range es {
			if e.off == last || e.off+e.n > len(b) {
				continue
			}
			last = e.off
			b = append(b[:e.off], append([]byte(e.to), b[e.off+e.n:]...)...)
		}
		out[file] = b
	}
	w.stats["struct_fields_renamed_since_review"] = len(rename)
	return out
}
