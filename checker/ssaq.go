package main

import (
	"fmt"
	"go/constant"
	"go/token"
	"go/types"
	"sort"
	"strings"

	"golang.org/x/tools/go/ssa"
)

// ---------------------------------------------------------------------------
// Callee resolution

// calleeName returns a short, stable name of the statically known callee of a call
// (function, method, or interface method), "" for dynamic calls through values.
func calleeName(c ssa.CallInstruction) string {
	com := c.Common()
	if com.IsInvoke() {
		return fnName(com.Method.FullName())
	}
	if f := com.StaticCallee(); f != nil {
		if f.Origin() != nil {
			f = f.Origin()
		}
		if obj, ok := f.Object().(*types.Func); ok && obj != nil {
			return fnName(obj.FullName())
		}
		return short(f.String())
	}
	if b, ok := com.Value.(*ssa.Builtin); ok {
		return "builtin." + b.Name()
	}
	return ""
}

// allInstrsLocal iterates the instructions of fn (optionally including nested closures).
func allInstrsLocal(fn *ssa.Function, withAnon bool, visit func(f *ssa.Function, b *ssa.BasicBlock, i int, ins ssa.Instruction)) {
	if fn == nil {
		return
	}
	for _, b := range fn.Blocks {
		for i, ins := range b.Instrs {
			visit(fn, b, i, ins)
		}
	}
	if withAnon {
		for _, a := range fn.AnonFuncs {
			allInstrsLocal(a, true, visit)
		}
	}
}

// allInstrs iterates the instructions of fn and of the new functions it calls (see
// inline.go): code that was moved into a helper is still code of fn.
func allInstrs(fn *ssa.Function, withAnon bool, visit func(f *ssa.Function, b *ssa.BasicBlock, i int, ins ssa.Instruction)) {
	if fn == nil {
		return
	}
	if curWorld == nil || !curWorld.base.loaded {
		allInstrsLocal(fn, withAnon, visit)
		return
	}
	for i, f := range curWorld.regionFns(fn) {
		allInstrsLocal(f, withAnon || i > 0, visit)
	}
}

// callsIn returns the call instructions in fn whose callee name satisfies pred. A call
// through an interface matches by the interface method's name, or when EVERY gleece
// implementation of that method satisfies pred (must-style: the call certainly is one).
func callsIn(fn *ssa.Function, withAnon bool, pred func(name string) bool) []ssa.CallInstruction {
	return callsInVia(allInstrs, fn, withAnon, pred)
}

// callsInLocal: like callsIn but confined to fn's own body (path rules, which reason about
// fn's own control-flow graph).
func callsInLocal(fn *ssa.Function, withAnon bool, pred func(name string) bool) []ssa.CallInstruction {
	return callsInVia(allInstrsLocal, fn, withAnon, pred)
}

func callsInVia(iter func(*ssa.Function, bool, func(*ssa.Function, *ssa.BasicBlock, int, ssa.Instruction)), fn *ssa.Function, withAnon bool, pred func(name string) bool) []ssa.CallInstruction {
	var out []ssa.CallInstruction
	iter(fn, withAnon, func(_ *ssa.Function, _ *ssa.BasicBlock, _ int, ins ssa.Instruction) {
		if c, ok := ins.(ssa.CallInstruction); ok {
			if pred(calleeName(c)) {
				out = append(out, c)
				return
			}
			if impls := implNames(c); len(impls) > 0 {
				all := true
				for _, n := range impls {
					if !pred(n) {
						all = false
					}
				}
				if all {
					out = append(out, c)
				}
			}
		}
	})
	return out
}

// implIndex: the named non-interface types of the analysed packages (class-hierarchy
// resolution of interface calls). Set once by loadWorld.
var implIndex []*types.Named

var implCache = map[*types.Func][]string{}

// implNames: for an interface (invoke-mode) call, the short names of the concrete gleece
// methods it may dispatch to (CHA over the analysed packages); nil for static calls.
func implNames(c ssa.CallInstruction) []string {
	com := c.Common()
	if !com.IsInvoke() {
		return nil
	}
	if r, ok := implCache[com.Method]; ok {
		return r
	}
	iface, _ := com.Value.Type().Underlying().(*types.Interface)
	var out []string
	if iface != nil {
		for _, nt := range implIndex {
			for _, t := range []types.Type{nt, types.NewPointer(nt)} {
				if !types.Implements(t, iface) {
					continue
				}
				obj, _, _ := types.LookupFieldOrMethod(t, true, com.Method.Pkg(), com.Method.Name())
				if f, ok := obj.(*types.Func); ok {
					out = append(out, fnName(f.FullName()))
				}
				break
			}
		}
	}
	sort.Strings(out)
	implCache[com.Method] = out
	return out
}

func nameIs(names ...string) func(string) bool {
	return func(n string) bool {
		for _, x := range names {
			if n == x {
				return true
			}
		}
		return false
	}
}

// ---------------------------------------------------------------------------
// Nil / bool facts from dominating branches

func isNilConst(v ssa.Value) bool {
	c, ok := v.(*ssa.Const)
	return ok && c.IsNil()
}

func isBoolConst(v ssa.Value, want bool) bool {
	c, ok := v.(*ssa.Const)
	if !ok || c.Value == nil || c.Value.Kind() != constant.Bool {
		return false
	}
	return constant.BoolVal(c.Value) == want
}

// edgeFact describes what is known on the edge from an If block to one successor.
type edgeFact struct {
	From *ssa.BasicBlock
	To   *ssa.BasicBlock
	Cond ssa.Value
	Pol  bool // true: cond holds on this edge
}

// dominatingFacts returns the branch facts that hold on entry of block b:
// for every If whose successor edge dominates b. (An edge P->S dominates b iff
// S dominates b and S's only predecessor is P.)
func dominatingFacts(b *ssa.BasicBlock) []edgeFact {
	out := localFacts(b)
	if curWorld != nil && curWorld.isNewFn(b.Parent()) {
		out = append(out, curWorld.callerFacts(b.Parent(), 0)...)
	}
	return out
}

// callerFacts: the branch facts that hold at every call site of a new function.
func (w *World) callerFacts(fn *ssa.Function, depth int) []edgeFact {
	if depth > 6 {
		return nil
	}
	sites := w.callSitesOfNew(fn)
	if len(sites) == 0 {
		return nil
	}
	factsAt := func(c ssa.CallInstruction) []edgeFact {
		fs := localFacts(c.Block())
		if w.isNewFn(c.Parent()) {
			fs = append(fs, w.callerFacts(c.Parent(), depth+1)...)
		}
		return fs
	}
	common := factsAt(sites[0])
	for _, c := range sites[1:] {
		type ck struct {
			v   ssa.Value
			pol bool
		}
		have := map[ck]bool{}
		for _, f := range factsAt(c) {
			have[ck{f.Cond, f.Pol}] = true
		}
		var keep []edgeFact
		for _, f := range common {
			if have[ck{f.Cond, f.Pol}] {
				keep = append(keep, f)
			}
		}
		common = keep
	}
	return common
}

func localFacts(b *ssa.BasicBlock) []edgeFact {
	var out []edgeFact
	for x := b; x != nil; x = x.Idom() {
		if len(x.Preds) != 1 {
			continue
		}
		p := x.Preds[0]
		if len(p.Instrs) == 0 {
			continue
		}
		if ifi, ok := p.Instrs[len(p.Instrs)-1].(*ssa.If); ok && len(p.Succs) == 2 && p.Succs[0] != p.Succs[1] {
			out = append(out, edgeFact{From: p, To: x, Cond: ifi.Cond, Pol: p.Succs[0] == x})
		}
	}
	return out
}

// condImplies decomposes a condition under a polarity into atomic facts
// (handles !x; && under true; || under false are split by the SSA builder already into
// separate If blocks, so only negation needs unwrapping).
func unwrapNot(cond ssa.Value, pol bool) (ssa.Value, bool) {
	for {
		u, ok := cond.(*ssa.UnOp)
		if !ok || u.Op != token.NOT {
			return cond, pol
		}
		cond, pol = u.X, !pol
	}
}

// knownNil reports whether v is known to be nil on entry to block b.
func knownNil(v ssa.Value, b *ssa.BasicBlock) bool {
	if isNilConst(v) {
		return true
	}
	for _, f := range dominatingFacts(b) {
		c, pol := unwrapNot(f.Cond, f.Pol)
		if bo, ok := c.(*ssa.BinOp); ok {
			var other ssa.Value
			if bo.X == v {
				other = bo.Y
			} else if bo.Y == v {
				other = bo.X
			} else {
				continue
			}
			if !isNilConst(other) {
				continue
			}
			if (bo.Op == token.EQL && pol) || (bo.Op == token.NEQ && !pol) {
				return true
			}
		}
	}
	return false
}

var nonNilBusy = map[*ssa.Parameter]bool{}

// knownNonNil reports whether v is known to be non-nil on entry to block b.
func knownNonNil(v ssa.Value, b *ssa.BasicBlock) bool {
	if p, ok := v.(*ssa.Parameter); ok && curWorld != nil && curWorld.isNewFn(p.Parent()) && p.Parent().Parent() == nil {
		// a parameter of a new function: non-nil when every call site passes a non-nil value
		idx := -1
		for i, q := range p.Parent().Params {
			if q == p {
				idx = i
			}
		}
		sites := curWorld.callSitesOfNew(p.Parent())
		if idx >= 0 && len(sites) > 0 && !nonNilBusy[p] {
			nonNilBusy[p] = true
			all := true
			for _, c := range sites {
				args := c.Common().Args
				if idx >= len(args) || !(knownNonNil(args[idx], c.Block()) || provablyNonNil(args[idx], c.Block())) {
					all = false
					break
				}
			}
			delete(nonNilBusy, p)
			if all {
				return true
			}
		}
	}
	for _, f := range dominatingFacts(b) {
		c, pol := unwrapNot(f.Cond, f.Pol)
		if bo, ok := c.(*ssa.BinOp); ok {
			// (go/ssa has no CSE: `if s.Flows != nil { f(s.Flows) }` loads the field twice)
			var other ssa.Value
			if bo.X == v || (isNilConst(bo.Y) && equivLoad(bo.X, v, 0)) {
				other = bo.Y
			} else if bo.Y == v || (isNilConst(bo.X) && equivLoad(bo.Y, v, 0)) {
				other = bo.X
			} else {
				continue
			}
			if !isNilConst(other) {
				continue
			}
			if (bo.Op == token.NEQ && pol) || (bo.Op == token.EQL && !pol) {
				return true
			}
		}
	}
	return false
}

// ---------------------------------------------------------------------------
// Exits of a function

type exitKind int

const (
	exitSuccess exitKind = iota // error result is nil (const or proven)
	exitFailure                 // error result is provably non-nil
	exitUnknown                 // error result is delegated / not provably either
	exitPanic
)

type fnExit struct {
	Block *ssa.BasicBlock // block from which the function is left
	Pred  *ssa.BasicBlock // if the error result is a phi: the predecessor edge this exit stands for
	Kind  exitKind
	Ret   *ssa.Return
	// Delegate: the error result is exactly the error result of this call (`return f()`,
	// or `x, err := f(); return x, err` without a test): the caller sees f's verdict.
	Delegate ssa.CallInstruction
}

// delegateOf: v is the last result (or the only result) of a call.
func delegateOf(v ssa.Value) ssa.CallInstruction {
	switch x := v.(type) {
	case *ssa.Extract:
		if c, ok := x.Tuple.(*ssa.Call); ok {
			if x.Index == c.Call.Signature().Results().Len()-1 {
				return c
			}
		}
	case *ssa.Call:
		if x.Call.Signature().Results().Len() == 1 {
			return x
		}
	}
	return nil
}

// errResultIndex returns the index of the last result if it is of type error (or a
// pointer type named *Error-like is not considered), else -1.
func errResultIndex(fn *ssa.Function) int {
	res := fn.Signature.Results()
	if res.Len() == 0 {
		return -1
	}
	last := res.At(res.Len() - 1).Type()
	if types.Identical(last, types.Universe.Lookup("error").Type()) {
		return res.Len() - 1
	}
	return -1
}

// exitsOf classifies every way of leaving fn. Return operands that are phis are split
// per incoming edge. Named results that are spilled (defer) are loaded from an Alloc:
// those are classified as failure unless proven nil, which is the conservative answer
// for "success" obligations (they then demand more, never less).
func exitsOf(fn *ssa.Function) []fnExit {
	var out []fnExit
	ei := errResultIndex(fn)
	for _, b := range fn.Blocks {
		if len(b.Instrs) == 0 {
			continue
		}
		switch last := b.Instrs[len(b.Instrs)-1].(type) {
		case *ssa.Panic:
			out = append(out, fnExit{Block: b, Kind: exitPanic})
		case *ssa.Return:
			if ei < 0 {
				out = append(out, fnExit{Block: b, Kind: exitSuccess, Ret: last})
				continue
			}
			ev := unspill(last.Results[ei], b)
			if phi, ok := ev.(*ssa.Phi); ok && phi.Block() == b {
				for i, e := range phi.Edges {
					k := exitUnknown
					if isNilConst(e) || knownNil(e, b.Preds[i]) || knownNilOnEdge(e, b.Preds[i], b) {
						k = exitSuccess
					} else if provablyNonNil(e, b.Preds[i]) {
						k = exitFailure
					}
					out = append(out, fnExit{Block: b, Pred: b.Preds[i], Kind: k, Ret: last, Delegate: delegateOf(e)})
				}
				continue
			}
			k := exitUnknown
			if isNilConst(ev) || knownNil(ev, b) {
				k = exitSuccess
			} else if provablyNonNil(ev, b) {
				k = exitFailure
			}
			out = append(out, fnExit{Block: b, Kind: k, Ret: last, Delegate: delegateOf(ev)})
		}
	}
	return out
}

// unspill: in functions with defers go/ssa spills results into allocs (`*t1 = v;
// rundefers; t2 = *t1; return t2`). Resolve such a load to the value stored last in b.
func unspill(v ssa.Value, b *ssa.BasicBlock) ssa.Value {
	u, ok := v.(*ssa.UnOp)
	if !ok || u.Op != token.MUL || u.Block() != b {
		return v
	}
	al, ok := u.X.(*ssa.Alloc)
	if !ok {
		return v
	}
	var last ssa.Value
	for _, ins := range b.Instrs {
		if ins == ssa.Instruction(u) {
			break
		}
		if st, ok := ins.(*ssa.Store); ok && st.Addr == ssa.Value(al) {
			last = st.Val
		}
	}
	if last != nil {
		return last
	}
	return v
}

// provablyNonNil: an error value that cannot be nil at block b.
func provablyNonNil(v ssa.Value, b *ssa.BasicBlock) bool {
	switch x := v.(type) {
	case *ssa.MakeInterface:
		return true
	case *ssa.Call:
		switch calleeName(x) {
		case "errors.New", "fmt.Errorf", "errors.Join":
			return true
		}
		// error-preserving wrappers of the repository (frozenError(err), getFrozenError(..)):
		// every return of the callee is a fresh non-nil error or one of its parameters,
		// and the corresponding argument is non-nil here
		if callee := x.Call.StaticCallee(); callee != nil && len(callee.Blocks) > 0 && wrapperNonNil(callee, x, b, 0) {
			return true
		}
	case *ssa.Phi:
		for _, e := range x.Edges {
			if !provablyNonNil(e, b) {
				return false
			}
		}
		return len(x.Edges) > 0
	}
	return knownNonNil(v, b)
}

func wrapperNonNil(callee *ssa.Function, call *ssa.Call, b *ssa.BasicBlock, depth int) bool {
	if depth > 3 {
		return false
	}
	ei := -1
	res := callee.Signature.Results()
	for i := 0; i < res.Len(); i++ {
		if res.At(i).Type().String() == "error" {
			ei = i
		}
	}
	if ei < 0 {
		return false
	}
	nret := 0
	for _, blk := range callee.Blocks {
		if len(blk.Instrs) == 0 {
			continue
		}
		ret, ok := blk.Instrs[len(blk.Instrs)-1].(*ssa.Return)
		if !ok || len(ret.Results) <= ei {
			continue
		}
		nret++
		var leaves []ssa.Value
		var walk func(v ssa.Value, d int)
		walk = func(v ssa.Value, d int) {
			if ph, ok := v.(*ssa.Phi); ok && d < 4 {
				for _, e := range ph.Edges {
					walk(e, d+1)
				}
				return
			}
			leaves = append(leaves, v)
		}
		walk(ret.Results[ei], 0)
		for _, lv := range leaves {
			if prm, ok := lv.(*ssa.Parameter); ok {
				idx := -1
				for i, q := range callee.Params {
					if q == prm {
						idx = i
					}
				}
				if idx < 0 || idx >= len(call.Call.Args) || !provablyNonNil(call.Call.Args[idx], b) {
					return false
				}
				continue
			}
			if c2, ok := lv.(*ssa.Call); ok {
				switch calleeName(c2) {
				case "errors.New", "fmt.Errorf", "errors.Join":
					continue
				}
			}
			if _, ok := lv.(*ssa.MakeInterface); ok {
				continue
			}
			return false
		}
	}
	return nret > 0
}

// knownNilOnEdge: v known nil when control flows from p to s (p ends in If on v).
func knownNilOnEdge(v ssa.Value, p, s *ssa.BasicBlock) bool {
	if len(p.Instrs) == 0 {
		return false
	}
	ifi, ok := p.Instrs[len(p.Instrs)-1].(*ssa.If)
	if !ok || len(p.Succs) != 2 || p.Succs[0] == p.Succs[1] {
		return false
	}
	c, pol := unwrapNot(ifi.Cond, p.Succs[0] == s)
	if bo, ok := c.(*ssa.BinOp); ok {
		var other ssa.Value
		if bo.X == v {
			other = bo.Y
		} else if bo.Y == v {
			other = bo.X
		} else {
			return false
		}
		if !isNilConst(other) {
			return false
		}
		return (bo.Op == token.EQL && pol) || (bo.Op == token.NEQ && !pol)
	}
	return false
}

// ---------------------------------------------------------------------------
// must-pass-through on the block graph

type edge struct{ from, to *ssa.BasicBlock }

// reachAvoiding computes the blocks reachable from fn's entry without entering any
// block in avoidBlocks and without traversing any edge in avoidEdges. The returned
// map also records, for edge-exits, the set of traversed edges.
func reachAvoiding(fn *ssa.Function, avoidBlocks map[*ssa.BasicBlock]bool, avoidEdges map[edge]bool) (map[*ssa.BasicBlock]bool, map[edge]bool) {
	seen := map[*ssa.BasicBlock]bool{}
	used := map[edge]bool{}
	if len(fn.Blocks) == 0 {
		return seen, used
	}
	entry := fn.Blocks[0]
	if avoidBlocks[entry] {
		return seen, used
	}
	stack := []*ssa.BasicBlock{entry}
	seen[entry] = true
	for len(stack) > 0 {
		b := stack[len(stack)-1]
		stack = stack[:len(stack)-1]
		for _, s := range b.Succs {
			e := edge{b, s}
			if avoidEdges[e] || avoidBlocks[s] {
				continue
			}
			used[e] = true
			if !seen[s] {
				seen[s] = true
				stack = append(stack, s)
			}
		}
	}
	return seen, used
}

// okEdgesOfCall finds the CFG edges on which the error/ok result of call c is known
// good (err == nil, ok == true). resultIdx < 0 means "last result". For a call with a
// single result the call value itself is the result.
// It returns nil if the result is never tested by an If.
func okEdgesOfCall(c ssa.CallInstruction, resultIdx int) []edge {
	v := c.Value()
	if v == nil {
		return nil
	}
	var results []ssa.Value
	sig := c.Common().Signature()
	n := sig.Results().Len()
	if n == 0 {
		return nil
	}
	if resultIdx < 0 {
		resultIdx = n - 1
	}
	if n == 1 {
		results = []ssa.Value{v}
	} else {
		for _, r := range *v.Referrers() {
			if ex, ok := r.(*ssa.Extract); ok && ex.Index == resultIdx {
				results = append(results, ex)
			}
		}
	}
	isBool := false
	if b, ok := sig.Results().At(resultIdx).Type().Underlying().(*types.Basic); ok && b.Kind() == types.Bool {
		isBool = true
	}
	var out []edge
	for _, r := range results {
		if isBool {
			collectCondEdges(r, true, &out, map[ssa.Value]bool{})
		} else {
			followNil(r, &out, map[ssa.Value]bool{})
		}
	}
	return out
}

// followNil collects edges on which val (an error / pointer result) is known nil.
func followNil(val ssa.Value, out *[]edge, seen map[ssa.Value]bool) {
	if seen[val] {
		return
	}
	seen[val] = true
	refs := val.Referrers()
	if refs == nil {
		return
	}
	for _, r := range *refs {
		switch x := r.(type) {
		case *ssa.BinOp:
			var other ssa.Value
			if x.X == val {
				other = x.Y
			} else {
				other = x.X
			}
			if !isNilConst(other) || (x.Op != token.NEQ && x.Op != token.EQL) {
				continue
			}
			condTrueMeansNil := x.Op == token.EQL
			collectCondEdges(x, condTrueMeansNil, out, map[ssa.Value]bool{})
		case *ssa.Store:
			if al, ok := x.Addr.(*ssa.Alloc); ok && x.Val == val {
				for _, ar := range *al.Referrers() {
					if ld, ok := ar.(*ssa.UnOp); ok && ld.Op == token.MUL {
						followNil(ld, out, seen)
					}
				}
			}
		case *ssa.Phi:
			// a phi merging this error with others: nil-ness of the phi implies nothing
			// about which call produced it unless all other edges are nil consts.
			allOthersNil := true
			for _, e := range x.Edges {
				if e != val && !isNilConst(e) {
					allOthersNil = false
				}
			}
			if allOthersNil {
				followNil(x, out, seen)
			}
		case *ssa.MakeInterface:
			followNil(x, out, seen)
		case *ssa.ChangeInterface:
			followNil(x, out, seen)
		case *ssa.ChangeType:
			followNil(x, out, seen)
		}
	}
}

// collectCondEdges: cond is a bool value; wantTrue tells which truth value is "good".
func collectCondEdges(cond ssa.Value, wantTrue bool, out *[]edge, seen map[ssa.Value]bool) {
	if seen[cond] {
		return
	}
	seen[cond] = true
	refs := cond.Referrers()
	if refs == nil {
		return
	}
	for _, r := range *refs {
		switch x := r.(type) {
		case *ssa.If:
			blk := x.Block()
			if len(blk.Succs) != 2 {
				continue
			}
			if wantTrue {
				*out = append(*out, edge{blk, blk.Succs[0]})
			} else {
				*out = append(*out, edge{blk, blk.Succs[1]})
			}
		case *ssa.UnOp:
			if x.Op == token.NOT {
				collectCondEdges(x, !wantTrue, out, seen)
			}
		}
	}
}

// mustPassOK checks: every success exit of fn is reachable only through an edge on
// which some call matching pred returned a good result. Returns the call sites found,
// and a violation text ("" if the obligation holds).
func (w *World) mustPassOK(fn *ssa.Function, pred func(string) bool, resultIdx int, what string) (sites []string, violation string) {
	calls := callsInLocal(fn, false, pred)
	// a new function that itself only succeeds after a good call stands for that call
	var viaHelper []ssa.CallInstruction
	for _, hc := range w.newHelperCalls(fn) {
		h := w.newCallee(hc)
		if w.summary(sumKey{namedOf(h), "ok", what, resultIdx}, func() bool { _, v := w.mustPassOK(h, pred, resultIdx, what); return v == "" }) {
			viaHelper = append(viaHelper, hc)
			continue
		}
		// a runner handed a literal table of stages: it succeeds only after every stage did
		for _, g := range w.tableCallsVia(hc) {
			if _, v := w.mustPassOK(g, pred, resultIdx, what); v == "" {
				viaHelper = append(viaHelper, hc)
				break
			}
		}
	}
	if len(calls)+len(viaHelper) == 0 {
		return nil, fmt.Sprintf("%s: no call to %s found in %s", w.pos(fn.Pos()), what, short(fn.String()))
	}
	avoid := map[edge]bool{}
	passed := map[*ssa.BasicBlock]bool{}
	for _, c := range calls {
		sites = append(sites, w.pos(c.Pos()))
		es := okEdgesOfCall(c, resultIdx)
		for _, e := range es {
			avoid[e] = true
		}
	}
	isHelper := map[ssa.CallInstruction]bool{}
	for _, c := range viaHelper {
		isHelper[c] = true
		sites = append(sites, w.pos(c.Pos()))
		if errResultIndex(w.newCallee(c)) >= 0 {
			for _, e := range okEdgesOfCall(c, -1) {
				avoid[e] = true
			}
		} else {
			// no verdict to test: having returned from it is having passed the good call
			passed[c.Block()] = true
			for _, s := range c.Block().Succs {
				avoid[edge{c.Block(), s}] = true
			}
		}
	}
	predExt := func(c ssa.CallInstruction) bool { return pred(calleeName(c)) || isHelper[c] }
	_ = predExt
	if len(avoid) == 0 && len(passed) == 0 {
		// pure delegation: every non-failing exit hands the callee's own verdict to the caller
		allDelegated := true
		n := 0
		for _, ex := range exitsOf(fn) {
			if ex.Kind == exitFailure || ex.Kind == exitPanic {
				continue
			}
			n++
			if !(ex.Kind == exitUnknown && ex.Delegate != nil && predExt(ex.Delegate)) {
				allDelegated = false
			}
		}
		if allDelegated && n > 0 {
			return sites, ""
		}
		return sites, fmt.Sprintf("result of %s is never tested in %s (%s)", what, short(fn.String()), strings.Join(sites, ","))
	}
	reach, used := reachAvoiding(fn, nil, avoid)
	for _, ex := range exitsOf(fn) {
		if ex.Kind == exitFailure || ex.Kind == exitPanic {
			continue
		}
		if ex.Kind == exitUnknown && ex.Delegate != nil && predExt(ex.Delegate) {
			continue // the caller receives the callee's own verdict
		}
		bad := false
		if ex.Pred != nil {
			bad = reach[ex.Pred] && used[edge{ex.Pred, ex.Block}]
		} else {
			bad = reach[ex.Block] && !passed[ex.Block]
		}
		if bad {
			return sites, fmt.Sprintf("%s: success return of %s is reachable without a successful %s", w.pos(retPos(ex)), short(fn.String()), what)
		}
	}
	return sites, ""
}

func retPos(ex fnExit) token.Pos {
	if ex.Ret != nil && ex.Ret.Pos().IsValid() {
		return ex.Ret.Pos()
	}
	if ex.Block != nil {
		for i := len(ex.Block.Instrs) - 1; i >= 0; i-- {
			if p := ex.Block.Instrs[i].Pos(); p.IsValid() {
				return p
			}
		}
		if ex.Pred != nil {
			for i := len(ex.Pred.Instrs) - 1; i >= 0; i-- {
				if p := ex.Pred.Instrs[i].Pos(); p.IsValid() {
					return p
				}
			}
		}
	}
	return token.NoPos
}

// mustPassBlock checks that every success exit passes through a block containing a
// call matching pred (result not necessarily tested).
func (w *World) mustPassCall(fn *ssa.Function, pred func(string) bool, what string) (sites []string, violation string) {
	calls := callsInLocal(fn, false, pred)
	for _, hc := range w.newHelperCalls(fn) {
		h := w.newCallee(hc)
		if w.summary(sumKey{namedOf(h), "call", what, 0}, func() bool { _, v := w.mustPassCall(h, pred, what); return v == "" }) {
			calls = append(calls, hc)
			continue
		}
		for _, g := range w.tableCallsVia(hc) {
			if _, v := w.mustPassCall(g, pred, what); v == "" {
				calls = append(calls, hc)
				break
			}
		}
	}
	if len(calls) == 0 {
		return nil, fmt.Sprintf("%s: no call to %s found in %s", w.pos(fn.Pos()), what, short(fn.String()))
	}
	avoid := map[*ssa.BasicBlock]bool{}
	for _, c := range calls {
		sites = append(sites, w.pos(c.Pos()))
		avoid[c.Block()] = true
	}
	reach, used := reachAvoiding(fn, avoid, nil)
	for _, ex := range exitsOf(fn) {
		if ex.Kind == exitFailure || ex.Kind == exitPanic {
			continue
		}
		bad := false
		if ex.Pred != nil {
			bad = reach[ex.Pred] && used[edge{ex.Pred, ex.Block}]
		} else {
			bad = reach[ex.Block]
		}
		if bad {
			return sites, fmt.Sprintf("%s: success return of %s is reachable without calling %s", w.pos(retPos(ex)), short(fn.String()), what)
		}
	}
	return sites, ""
}

var errPropBusy = map[*ssa.Function]bool{}

// errPropagates checks that whenever a call matching pred fails (error non-nil / ok
// false), every way onward leaves fn through a failure exit: the error is never
// swallowed. Returns inspected sites and a violation text.
func (w *World) errPropagates(fn *ssa.Function, pred func(string) bool, resultIdx int, what string) (sites []string, violation string) {
	calls := callsInLocal(fn, false, pred)
	idxOf := map[ssa.CallInstruction]int{}
	// a new function that contains such a call must hand the failure on itself, and its own
	// failure must not be swallowed here
	for _, hc := range w.newHelperCalls(fn) {
		h := w.newCallee(hc)
		if !w.regionHasCall(h, pred) || errPropBusy[namedOf(h)] {
			continue
		}
		errPropBusy[namedOf(h)] = true
		_, v := w.errPropagates(h, pred, resultIdx, what)
		delete(errPropBusy, namedOf(h))
		if v != "" {
			if strings.Contains(v, "no call to") {
				continue // the call sits in a deeper helper that h does not reach through an error path of its own
			}
			return []string{w.pos(hc.Pos())}, v
		}
		if errResultIndex(h) < 0 {
			return []string{w.pos(hc.Pos())}, fmt.Sprintf("%s: %s fails inside %s, which has no error result to report it with", w.pos(hc.Pos()), what, fnShort(h))
		}
		calls = append(calls, hc)
		idxOf[hc] = -1
	}
	if len(calls) == 0 {
		return nil, fmt.Sprintf("%s: no call to %s found in %s", w.pos(fn.Pos()), what, short(fn.String()))
	}
	exitKind := map[*ssa.BasicBlock][]fnExit{}
	for _, ex := range exitsOf(fn) {
		exitKind[ex.Block] = append(exitKind[ex.Block], ex)
	}
	for _, c := range calls {
		sites = append(sites, w.pos(c.Pos()))
		ri := resultIdx
		if v, ok := idxOf[c]; ok {
			ri = v
		}
		oks := okEdgesOfCall(c, ri)
		if len(oks) == 0 {
			return sites, fmt.Sprintf("%s: the result of %s is never tested", w.pos(c.Pos()), what)
		}
		for _, ok := range oks {
			// the sibling edge of the ok edge is the failure edge
			var bad *ssa.BasicBlock
			for _, s := range ok.from.Succs {
				if s != ok.to {
					bad = s
				}
			}
			if bad == nil {
				continue
			}
			seen := map[*ssa.BasicBlock]bool{bad: true}
			stack := []*ssa.BasicBlock{bad}
			for len(stack) > 0 {
				b := stack[len(stack)-1]
				stack = stack[:len(stack)-1]
				for _, ex := range exitKind[b] {
					if ex.Kind == exitSuccess || ex.Kind == exitUnknown {
						// for phi-split exits only count the edge actually reachable
						if ex.Pred != nil && !seen[ex.Pred] {
							continue
						}
						return sites, fmt.Sprintf("%s: after %s failed (%s) the function can still return without an error", w.pos(retPos(ex)), what, w.pos(c.Pos()))
					}
				}
				for _, s := range b.Succs {
					if !seen[s] {
						seen[s] = true
						stack = append(stack, s)
					}
				}
			}
		}
	}
	return sites, ""
}

// instrDominates: a executes before b on every path to b.
func instrDominates(a, b ssa.Instruction) bool {
	ba, bb := a.Block(), b.Block()
	if ba == bb {
		for _, ins := range ba.Instrs {
			if ins == a {
				return true
			}
			if ins == b {
				return false
			}
		}
		return false
	}
	return ba.Dominates(bb)
}

// ---------------------------------------------------------------------------
// Backward slices

type sliceAtoms struct {
	Fields   map[*types.Var]bool // struct fields read
	Calls    map[string]bool     // callee short names
	Params   map[*ssa.Parameter]bool
	Globals  map[string]bool
	Consts   []string
	Builtin  map[string]bool
	FreeVars map[*ssa.FreeVar]bool

	accessors map[*ssa.Function]bool // accessors looked into (their parameters are not atoms)
}

// isAccessor: a gleece function with a body of at most a few blocks that calls nothing but
// builtins - a getter, a membership test, a field projection.
var accessorMemo = map[*ssa.Function]bool{}

func isAccessor(fn *ssa.Function) bool {
	if r, ok := accessorMemo[fn]; ok {
		return r
	}
	r := func() bool {
		if fn.Pkg == nil || !isGleecePkg(fn.Pkg.Pkg.Path()) || fn.Blocks == nil || len(fn.Blocks) > 4 || len(fn.AnonFuncs) > 0 {
			return false
		}
		n := 0
		for _, b := range fn.Blocks {
			for _, ins := range b.Instrs {
				n++
				switch x := ins.(type) {
				case ssa.CallInstruction:
					if _, isBuiltin := x.Common().Value.(*ssa.Builtin); !isBuiltin {
						return false
					}
				case *ssa.Store, *ssa.MapUpdate, *ssa.Send, *ssa.Go, *ssa.Defer, *ssa.Panic:
					_ = x
					return false
				}
			}
		}
		return n <= 24
	}()
	accessorMemo[fn] = r
	return r
}

func newAtoms() *sliceAtoms {
	return &sliceAtoms{Fields: map[*types.Var]bool{}, Calls: map[string]bool{}, Params: map[*ssa.Parameter]bool{}, Globals: map[string]bool{}, Builtin: map[string]bool{}, FreeVars: map[*ssa.FreeVar]bool{}}
}

func (a *sliceAtoms) fieldNames() []string {
	var out []string
	for f := range a.Fields {
		out = append(out, f.Name())
	}
	sort.Strings(out)
	return out
}

func (a *sliceAtoms) hasFieldNamed(name string) bool {
	for f := range a.Fields {
		if f.Name() == name {
			return true
		}
	}
	return false
}

func (a *sliceAtoms) hasField(v *types.Var) bool { return v != nil && a.Fields[v] }

func structFieldVar(t types.Type, idx int) *types.Var {
	if p, ok := t.Underlying().(*types.Pointer); ok {
		t = p.Elem()
	}
	st, ok := t.Underlying().(*types.Struct)
	if !ok || idx >= st.NumFields() {
		return nil
	}
	return st.Field(idx)
}

// backSlice collects the atoms the value v is computed from (intraprocedural, through
// local allocs: every store into the alloc contributes).
func backSlice(v ssa.Value, atoms *sliceAtoms, seen map[ssa.Value]bool, depth int) {
	if v == nil || seen[v] || depth > bound(60) {
		return
	}
	seen[v] = true
	switch x := v.(type) {
	case *ssa.Const:
		if x.Value != nil {
			atoms.Consts = append(atoms.Consts, x.Value.ExactString())
		} else {
			atoms.Consts = append(atoms.Consts, "nil")
		}
	case *ssa.Parameter:
		if curWorld != nil && x.Parent().Parent() == nil && curWorld.isNewFn(x.Parent()) {
			// parameter of a new function: the arguments of its call sites
			idx := -1
			for i, q := range x.Parent().Params {
				if q == x {
					idx = i
				}
			}
			if i := sliceCtxIndex(x.Parent()); idx >= 0 && i >= 0 {
				// reached through a particular call: that call's argument, in its caller's context
				saved := sliceCtx
				fr := saved[i]
				sliceCtx = saved[:i]
				if args := fr.call.Common().Args; idx < len(args) {
					backSlice(args[idx], atoms, fr.outerSeen, depth+1)
				}
				sliceCtx = saved
				return
			}
			if sites := curWorld.ssaSitesForHost(curWorld.callSitesOfNew(x.Parent())); idx >= 0 && len(sites) > 0 {
				for _, c := range sites {
					if args := c.Common().Args; idx < len(args) {
						backSlice(args[idx], atoms, seen, depth+1)
					}
				}
				return
			}
		}
		if atoms.accessors[x.Parent()] {
			return // parameter of an accessor looked into: its arguments are followed at the call
		}
		atoms.Params[x] = true
	case *ssa.Extract:
		if call, ok := x.Tuple.(*ssa.Call); ok && curWorld != nil {
			if callee := curWorld.newCallee(call); callee != nil {
				sliceResultsVia(call, callee, x.Index, atoms, seen, depth)
				return
			}
		}
		backSlice(x.Tuple, atoms, seen, depth+1)
	case *ssa.FreeVar:
		atoms.FreeVars[x] = true
	case *ssa.Global:
		atoms.Globals[short(x.String())] = true
	case *ssa.Function:
		atoms.Calls["func:"+short(x.String())] = true
	case *ssa.Builtin:
		atoms.Builtin[x.Name()] = true
	case *ssa.FieldAddr:
		if f := structFieldVar(x.X.Type(), x.Field); f != nil {
			atoms.Fields[f] = true
		}
		// a field of a struct that was built in view (a parameter struct of a new type handed to a
		// split-off helper, a local literal): what was stored into THAT field, not everything the
		// struct carries
		if vals, ok := carrierFieldValues(x.X, x.Field, 0); ok {
			for _, sv := range vals {
				backSlice(sv, atoms, seen, depth+1)
			}
			return
		}
		backSlice(x.X, atoms, seen, depth+1)
	case *ssa.Field:
		if f := structFieldVar(x.X.Type(), x.Field); f != nil {
			atoms.Fields[f] = true
		}
		if vals, ok := carrierFieldValues(x.X, x.Field, 0); ok {
			for _, sv := range vals {
				backSlice(sv, atoms, seen, depth+1)
			}
			return
		}
		backSlice(x.X, atoms, seen, depth+1)
	case *ssa.Alloc:
		for _, sv := range storedInto(x, 0) {
			backSlice(sv, atoms, seen, depth+1)
		}
	case *ssa.Call:
		if curWorld != nil {
			if callee := curWorld.newCallee(x); callee != nil {
				// a new function: looked through (its results, with parameters bound to the
				// arguments of its call sites), not recorded as a call
				sliceResultsVia(x, callee, -1, atoms, seen, depth)
				return
			}
		}
		n := calleeName(x)
		if n != "" {
			atoms.Calls[n] = true
		}
		if callee := x.Call.StaticCallee(); callee != nil && isAccessor(callee) {
			// a plain accessor: what it reads is what the caller reads through it
			if atoms.accessors == nil {
				atoms.accessors = map[*ssa.Function]bool{}
			}
			atoms.accessors[callee] = true
			sliceResults(callee, -1, atoms, seen, depth)
		}
		if x.Call.IsInvoke() {
			backSlice(x.Call.Value, atoms, seen, depth+1)
		} else if n == "" {
			backSlice(x.Call.Value, atoms, seen, depth+1)
		}
		for _, a := range x.Call.Args {
			backSlice(a, atoms, seen, depth+1)
		}
	default:
		if ins, ok := v.(ssa.Instruction); ok {
			for _, op := range ins.Operands(nil) {
				if *op != nil {
					backSlice(*op, atoms, seen, depth+1)
				}
			}
		}
	}
}

// Context of a slice: the calls of new functions it descended through. While the results of a
// new helper are followed from one call, its parameters stand for that call's arguments - a
// helper called four times with four different fields is four different computations.
type sliceFrame struct {
	call      ssa.CallInstruction
	callee    *ssa.Function
	outerSeen map[ssa.Value]bool
}

var sliceCtx []sliceFrame

func sliceCtxIndex(fn *ssa.Function) int {
	for i := len(sliceCtx) - 1; i >= 0; i-- {
		if sliceCtx[i].callee == fn {
			return i
		}
	}
	return -1
}

func sliceResultsVia(call ssa.CallInstruction, callee *ssa.Function, idx int, atoms *sliceAtoms, seen map[ssa.Value]bool, depth int) {
	if sliceCtxIndex(callee) >= 0 || len(sliceCtx) > 8 {
		sliceResults(callee, idx, atoms, seen, depth) // recursion: no further context
		return
	}
	sliceCtx = append(sliceCtx, sliceFrame{call, callee, seen})
	sliceResults(callee, idx, atoms, map[ssa.Value]bool{}, depth)
	sliceCtx = sliceCtx[:len(sliceCtx)-1]
}

// ssaSitesForHost: the call sites in the current host's region (all, without a host or when
// none is).
func (w *World) ssaSitesForHost(sites []ssa.CallInstruction) []ssa.CallInstruction {
	if w.curHost == "" || len(sites) < 2 {
		return sites
	}
	var out []ssa.CallInstruction
	for _, c := range sites {
		if w.inHostRegion(fnReal(namedOf(c.Parent()))) {
			out = append(out, c)
		}
	}
	if len(out) == 0 {
		return sites
	}
	return out
}

// sliceResults continues a backward slice in the returned values (all, or result idx) of
// a new function.
func sliceResults(callee *ssa.Function, idx int, atoms *sliceAtoms, seen map[ssa.Value]bool, depth int) {
	for _, b := range callee.Blocks {
		if len(b.Instrs) == 0 {
			continue
		}
		ret, ok := b.Instrs[len(b.Instrs)-1].(*ssa.Return)
		if !ok {
			continue
		}
		for i, r := range ret.Results {
			if idx < 0 || i == idx {
				backSlice(r, atoms, seen, depth+1)
			}
		}
	}
}

// storedInto returns every value stored into an address derived from addr (the alloc
// itself, its elements &a[i], its fields &a.f), flow-insensitively.
func storedInto(addr ssa.Value, depth int) []ssa.Value {
	var out []ssa.Value
	refs := addr.Referrers()
	if refs == nil || depth > 6 {
		return out
	}
	for _, r := range *refs {
		switch x := r.(type) {
		case *ssa.Store:
			if x.Addr == addr {
				out = append(out, x.Val)
			}
		case *ssa.IndexAddr:
			if x.X == addr {
				out = append(out, storedInto(x, depth+1)...)
			}
		case *ssa.FieldAddr:
			if x.X == addr {
				out = append(out, storedInto(x, depth+1)...)
			}
		case *ssa.MapUpdate:
			if x.Map == addr {
				out = append(out, x.Key, x.Value)
			}
		case ssa.CallInstruction:
			// handed to a new function: what that function stores through its parameter
			if curWorld != nil {
				if callee := curWorld.newCallee(x); callee != nil {
					for i, a := range x.Common().Args {
						if a == addr && i < len(callee.Params) {
							out = append(out, storedInto(callee.Params[i], depth+1)...)
						}
					}
				}
			}
		}
	}
	return out
}

func sliceOf(v ssa.Value) *sliceAtoms {
	a := newAtoms()
	backSlice(v, a, map[ssa.Value]bool{}, 0)
	return a
}

// guardsOf returns the branch facts dominating an instruction.
func guardsOf(ins ssa.Instruction) []edgeFact { return dominatingFacts(ins.Block()) }

// ---------------------------------------------------------------------------
// Stores / field writers

// fieldStores returns all Store instructions in gleece that write field fld
// (through FieldAddr), plus composite literal initialisations (which are also
// FieldAddr+Store in SSA).
func (w *World) fieldStores(fld *types.Var) []*ssa.Store {
	var out []*ssa.Store
	for _, fn := range w.SSAFuncs {
		for _, b := range fn.Blocks {
			for _, ins := range b.Instrs {
				st, ok := ins.(*ssa.Store)
				if !ok {
					continue
				}
				if fa, ok := st.Addr.(*ssa.FieldAddr); ok {
					if structFieldVar(fa.X.Type(), fa.Field) == fld {
						out = append(out, st)
					}
				}
			}
		}
	}
	return out
}

// callersOf returns every call instruction in gleece (all SSA functions) to a callee
// matching pred.
// callersOf: who-style. A call through an interface counts as a call of every gleece
// implementation it may dispatch to (CHA): a second way in must not be overlooked.
func (w *World) callersOf(pred func(string) bool) []ssa.CallInstruction {
	var out []ssa.CallInstruction
	for _, fn := range w.SSAFuncs {
		for _, b := range fn.Blocks {
			for _, ins := range b.Instrs {
				c, ok := ins.(ssa.CallInstruction)
				if !ok {
					continue
				}
				if pred(calleeName(c)) {
					out = append(out, c)
					continue
				}
				for _, n := range implNames(c) {
					if pred(n) {
						out = append(out, c)
						break
					}
				}
			}
		}
	}
	return out
}

// enclosingNamed returns the outermost named function containing fn.
func enclosingNamed(fn *ssa.Function) *ssa.Function {
	for fn.Parent() != nil {
		fn = fn.Parent()
	}
	return fn
}

// fnShort names the function a site is attributed to: the function itself, or - for a
// function the reviewed tree did not have - the reviewed function(s) it is reached from
// (joined by "|"), see inline.go.
func fnShort(fn *ssa.Function) string {
	if curWorld != nil && curWorld.base.loaded && curWorld.isNewFn(fn) {
		return curWorld.hostName(fn)
	}
	return fnReal(fn)
}

// fnReal: the declared name of the (enclosing named) function.
func fnReal(fn *ssa.Function) string {
	fn = enclosingNamed(fn)
	if fn.Origin() != nil {
		fn = fn.Origin()
	}
	if obj, ok := fn.Object().(*types.Func); ok && obj != nil {
		return fnName(obj.FullName())
	}
	return short(fn.String())
}

func (a *sliceAtoms) String() string {
	var parts []string
	for _, f := range a.fieldNames() {
		parts = append(parts, "."+f)
	}
	var cs []string
	for c := range a.Calls {
		cs = append(cs, c+"()")
	}
	sort.Strings(cs)
	parts = append(parts, cs...)
	for p := range a.Params {
		parts = append(parts, "param "+p.Name())
	}
	for _, k := range a.Consts {
		parts = append(parts, "const "+k)
	}
	return "[" + strings.Join(parts, " ") + "]"
}

// paramTyped: the parameter's type prints (module-relative) as typeStr. Rules select
// parameters by type and position, never by name: a rename does not change behaviour.
func paramTyped(p *ssa.Parameter, typeStr string) bool {
	return short(p.Type().String()) == typeStr
}

// carrierFieldValues: base is (a pointer to, or a copy of) a struct of a NEW type that is built
// by a literal in view - directly, or at every call site of the new function whose parameter it
// is: the values stored into field idx of that literal.
func carrierFieldValues(base ssa.Value, idx int, depth int) ([]ssa.Value, bool) {
	w := curWorld
	if w == nil || depth > 3 {
		return nil, false
	}
	t := base.Type()
	if p, ok := t.Underlying().(*types.Pointer); ok {
		t = p.Elem()
	}
	nt, ok := t.(*types.Named)
	if !ok || nt.Obj().Pkg() == nil || !w.isNewTypeName(short(nt.Obj().Pkg().Path())+"."+nt.Obj().Name()) {
		return nil, false
	}
	fromAlloc := func(al *ssa.Alloc) ([]ssa.Value, bool) {
		var out []ssa.Value
		if al.Referrers() == nil {
			return nil, false
		}
		for _, rf := range *al.Referrers() {
			switch y := rf.(type) {
			case *ssa.FieldAddr:
				if y.Field != idx || y.Referrers() == nil {
					continue
				}
				for _, r2 := range *y.Referrers() {
					if st, ok := r2.(*ssa.Store); ok && st.Addr == ssa.Value(y) {
						out = append(out, st.Val)
					}
				}
			case *ssa.Store:
				if y.Addr == ssa.Value(al) {
					// the whole struct assigned from elsewhere: give up
					if sub, ok := carrierFieldValues(y.Val, idx, depth+1); ok {
						out = append(out, sub...)
					} else {
						return nil, false
					}
				}
			}
		}
		return out, true
	}
	switch b := stripTrivial(base).(type) {
	case *ssa.Alloc:
		return fromAlloc(b)
	case *ssa.UnOp:
		if al, ok := b.X.(*ssa.Alloc); ok {
			return fromAlloc(al)
		}
	case *ssa.Parameter:
		fn := b.Parent()
		if fn == nil || !w.isNewFn(fn) {
			return nil, false
		}
		pi := -1
		for i, q := range fn.Params {
			if q == b {
				pi = i
			}
		}
		sites := w.callSitesOfNew(fn)
		if pi < 0 || len(sites) == 0 {
			return nil, false
		}
		var out []ssa.Value
		for _, cs := range sites {
			if pi >= len(cs.Common().Args) {
				return nil, false
			}
			sub, ok := carrierFieldValues(cs.Common().Args[pi], idx, depth+1)
			if !ok {
				return nil, false
			}
			out = append(out, sub...)
		}
		return out, true
	}
	return nil, false
}

