package main

import (
	"fmt"
	"go/ast"
	"go/token"
	"go/types"
	"sort"
	"strings"

	"golang.org/x/tools/go/ssa"
)

func init() {
	register("C01", "Static structural obligations for 'OpenAPI operations are exactly the non-hidden annotated routes': per-iteration path rules on the route/controller loops of both emitters and of the reduction chain (nothing dropped, only hidden skipped), who-calls/who-writes rules on the path-item writers (nothing invented), field-flow rules for path/verb/operationId/tag/deprecation, a guard rule on receiver collection (no leak between controllers) and verb-table agreement. Decides the shape of the code on every path, not string normalisation or third-party marshalling.", checkC01)
}

var emitters = []struct{ Ver, Pkg string }{{"3.0", "generator/swagen/swagen30"}, {"3.1", "generator/swagen/swagen31"}}

func isTypeExpr(fi *FuncInfo) func(ast.Expr) bool {
	return func(e ast.Expr) bool {
		tv, ok := fi.Pkg.TypesInfo.Types[e]
		return ok && tv.IsType()
	}
}

func checkC01(c *Ctx, r *Report) {
	defer checkArtifactWrites(c, r, "C01.c", "generator/swagen.GenerateAndOutputSpec")
	defer checkHolderDispatch(c, r, "C01.d")
	defer checkGraphMutationSites(c, r, "C01.a")
	w := c.W
	r.NotDecided = append(r.NotDecided,
		"what common.RemoveDuplicateSlash does to every string (only that both emitters apply it to controller-path + route-path, and that its pattern collapses slash runs)",
		"JSON marshalling by kin-openapi / libopenapi",
		"whether the AST walk finds every method shape (generic receivers, methods in un-globbed files); IsApiEndpoint value semantics")
	r.Assume = append(r.Assume, "typeutil/SSA static call resolution; loops analysed with go/cfg path search (path-insensitive except for the listed skip conditions)")

	for _, e := range emitters {
		gcs := e.Pkg + ".generateControllerSpec"
		set := e.Pkg + ".setNewRouteOperation"
		// C01.a nothing annotated is dropped, nothing but hidden is skipped
		ruleEach(c, r, "C01.a", gcs,
			func(fi *FuncInfo) func(ast.Expr) bool {
				return w.rangeOverField(fi, "definitions.ControllerMetadata.Routes")
			}, "def.Routes",
			func(fi *FuncInfo) func(ast.Node) bool { return w.callPred(fi, set) }, "setNewRouteOperation",
			func(fi *FuncInfo) []skipSpec {
				hid := w.condCalls(fi, "generator/swagen/swagtool.IsHiddenAsset")
				rd := w.condReadsField(fi, "definitions.RouteMetadata.Hiding")
				return []skipSpec{{Cond: func(e ast.Expr) bool { return hid(e) && rd(e) }, Pol: true, Desc: "IsHiddenAsset(&route.Hiding)"}}
			}, true,
			e.Ver+": every route of a controller reaches setNewRouteOperation; the only skip is IsHiddenAsset(&route.Hiding), the only other exit an error return")
		// hidden routes ARE skipped: the registration is guarded by !IsHiddenAsset(route.Hiding)
		ruleGuarded(c, r, "C01.a", gcs, "setNewRouteOperation guarded by !IsHiddenAsset",
			func(ins ssa.Instruction) bool {
				cl, ok := ins.(ssa.CallInstruction)
				return ok && calleeName(cl) == set
			},
			func(a *sliceAtoms, _ ssa.Value) bool {
				return a.Calls["generator/swagen/swagtool.IsHiddenAsset"] && a.hasFieldNamed("Hiding")
			}, false, 1,
			e.Ver+": a hidden route never reaches setNewRouteOperation")
		ruleEach(c, r, "C01.a", e.Pkg+".GenerateControllersSpec",
			func(fi *FuncInfo) func(ast.Expr) bool { return w.rangeOverType(fi, "[]definitions.ControllerMetadata") }, "defs",
			func(fi *FuncInfo) func(ast.Node) bool { return w.callPred(fi, gcs) }, "generateControllerSpec",
			nil, true, e.Ver+": every controller is emitted (only exit: error)")
		ruleMustCallOK(c, r, "C01.a", e.Pkg+".GenerateSpec", e.Pkg+".GenerateControllersSpec", -1, e.Ver+": GenerateSpec returns a document only after GenerateControllersSpec succeeded")

		// C01.b nothing is invented
		ruleWhoCalls(c, r, "C01.b", nameIs(set), set, []string{gcs}, 1, e.Ver+": setNewRouteOperation is called only from generateControllerSpec")
		// exactly one registration call per loop body
		if fi := need(c, r, "C01.b", gcs); fi != nil {
			calls := callsIn(fi.SSA, true, nameIs(set))
			viol := ""
			var sites []string
			for _, cl := range calls {
				sites = append(sites, w.pos(cl.Pos()))
			}
			if len(calls) != 1 {
				viol = fmt.Sprintf("expected exactly one call to setNewRouteOperation in %s, found %d (a second registration would invent an operation)", gcs, len(calls))
			}
			r.add("C01.b", "whocalls", gcs+":single-registration", e.Ver+": one registration per route", []string{gcs}, sites, viol)
		}

		// C01.c same path rule + verb
		checkPathRule(c, r, "C01.c", e.Ver, set)
		checkPathItemOwnership(c, r, "C01.b", e.Ver, e.Pkg, set)

		// C01.d operationId / tag / deprecation / responses
		co := e.Pkg + ".createOperation"
		var opT *types.Named
		opID := "OperationID"
		if e.Ver == "3.0" {
			opT = w.extType(pkgKin, "Operation")
		} else {
			opT = w.extType(pkgV3, "Operation")
			opID = "OperationId"
		}
		ruleFieldFlow(c, r, ffSpec{Clause: "C01.d", Fn: co, Owner: opT, Field: opID, Must: []string{"definitions.RouteMetadata.OperationId"}, Desc: e.Ver + ": operationId is the method name (RouteMetadata.OperationId)"})
		ruleFieldFlow(c, r, ffSpec{Clause: "C01.d", Fn: co, Owner: opT, Field: "Tags", Must: []string{"definitions.ControllerMetadata.Tag"}, Desc: e.Ver + ": tags = [controller tag]"})
		ruleFieldFlow(c, r, ffSpec{Clause: "C01.d", Fn: co, Owner: opT, Field: "Deprecated", Must: []string{"definitions.RouteMetadata.Deprecation", "definitions.DeprecationOptions.Deprecated"}, MustCalls: []string{"generator/swagen/swagtool.IsDeprecated"}, Desc: e.Ver + ": deprecated = IsDeprecated(&route.Deprecation)"})
		// createOperation is what generateControllerSpec registers: the operation passed to
		// setNewRouteOperation is the result of createOperation(def, route)
		if fi := need(c, r, "C01.d", gcs); fi != nil {
			viol := ""
			var sites []string
			for _, cl := range callsIn(fi.SSA, false, nameIs(set)) {
				sites = append(sites, w.pos(cl.Pos()))
				args := cl.Common().Args
				op := args[len(args)-1]
				for _, ov := range w.originValues(stripTrivial(op)) {
					call, ok := stripTrivial(ov).(*ssa.Call)
					if !ok || calleeName(call) != co {
						viol = fmt.Sprintf("%s: the operation registered is not the value returned by createOperation(def, route)", w.pos(cl.Pos()))
						continue
					}
					sites = append(sites, w.pos(call.Pos()))
					// createOperation's arguments are the loop's def and route
					if a := sliceOf(call.Call.Args[1]); !a.hasFieldNamed("Routes") {
						viol = fmt.Sprintf("%s: createOperation is not applied to the current element of def.Routes", w.pos(call.Pos()))
					}
				}
			}
			r.add("C01.d", "fieldflow", gcs+":registered-op==createOperation(def,route)", e.Ver+": the registered operation is createOperation(def, route) of the current route", []string{gcs}, sites, viol)
		}
	}

	// reduction chain (shared by spec and router)
	const cred = "(core/metadata.ControllerMeta).Reduce"
	const rred = "(core/metadata.ReceiverMeta).Reduce"
	ruleEach(c, r, "C01.a", cred,
		func(fi *FuncInfo) func(ast.Expr) bool {
			return w.rangeOverField(fi, "core/metadata.ControllerMeta.Receivers")
		}, "m.Receivers",
		func(fi *FuncInfo) func(ast.Node) bool { return w.appendTo(fi, w.resultSlice(fi)) }, "append(reducedReceivers)",
		nil, true, "every receiver of a controller is reduced and kept (only exit: error)")
	ruleEach(c, r, "C01.a", "(*core/pipeline.GleecePipeline).reduceControllers",
		func(fi *FuncInfo) func(ast.Expr) bool { return w.rangeOverType(fi, "[]core/metadata.ControllerMeta") }, "controllers",
		func(fi *FuncInfo) func(ast.Node) bool { return w.appendTo(fi, w.resultSlice(fi)) }, "append(reducedControllers)",
		nil, true, "every controller is reduced and kept (only exit: error)")
	ctrlMeta := w.lookupType("definitions", "ControllerMetadata")
	routeMeta := w.lookupType("definitions", "RouteMetadata")
	restMeta := w.lookupType("definitions", "RestMetadata")
	ruleFieldFlow(c, r, ffSpec{Clause: "C01.d", Fn: cred, Owner: ctrlMeta, Field: "Routes", AllowedCalls: []string{"*"}, AllowedFields: []string{"*"}, Must: []string{"core/metadata.ControllerMeta.Receivers"}, Desc: "ControllerMetadata.Routes is the reduced receiver list"})
	ruleFieldFlow(c, r, ffSpec{Clause: "C01.d", Fn: cred, Owner: ctrlMeta, Field: "Name", Must: []string{"core/metadata.SymNodeMeta.Name"}, AllowedFields: []string{"core/metadata.ControllerMeta.Struct", "core/metadata.StructMeta.SymNodeMeta"}, Desc: "controller name"})
	ruleFieldFlow(c, r, ffSpec{Clause: "C01.d", Fn: cred, Owner: ctrlMeta, Field: "PkgPath", Must: []string{"core/metadata.SymNodeMeta.PkgPath"}, AllowedFields: []string{"core/metadata.ControllerMeta.Struct", "core/metadata.StructMeta.SymNodeMeta"}, Desc: "controller package"})
	ruleFieldFlow(c, r, ffSpec{Clause: "C01.d", Fn: cred, Owner: ctrlMeta, Field: "Tag", Must: []string{"core/metadata.SymNodeMeta.Annotations"}, MustCalls: []string{"core/annotations.GetTag"}, AllowedFields: []string{"core/metadata.ControllerMeta.Struct", "core/metadata.StructMeta.SymNodeMeta"}, Desc: "controller tag = GetTag(annotations)"})
	ruleFieldFlow(c, r, ffSpec{Clause: "C01.d", Fn: cred, Owner: restMeta, Field: "Path", Must: []string{"core/metadata.SymNodeMeta.Annotations"}, MustCalls: []string{"(core/annotations.AnnotationHolder).GetFirstValueOrEmpty"}, AllowedFields: []string{"core/metadata.ControllerMeta.Struct", "core/metadata.StructMeta.SymNodeMeta"}, Desc: "controller path = first @Route value"})
	if fi := need(c, r, "C01.d", cred); fi != nil {
		checkRouteAnnotationArg(c, r, fi, "C01.d", cred)
	}
	ruleFieldFlow(c, r, ffSpec{Clause: "C01.d", Fn: rred, Owner: routeMeta, Field: "OperationId", Must: []string{"core/metadata.SymNodeMeta.Name"}, AllowedFields: []string{"core/metadata.ReceiverMeta.SymNodeMeta"}, Desc: "operationId = method name"})
	ruleFieldFlow(c, r, ffSpec{Clause: "C01.d", Fn: rred, Owner: routeMeta, Field: "HttpVerb", Must: []string{"core/annotations.Attribute.Value"}, MustCalls: []string{"(core/annotations.AnnotationHolder).GetFirst"}, AllowedFields: []string{"core/metadata.SymNodeMeta.Annotations", "core/metadata.ReceiverMeta.SymNodeMeta"}, Desc: "verb = value of the first @Method annotation"})
	ruleFieldFlow(c, r, ffSpec{Clause: "C01.d", Fn: rred, Owner: routeMeta, Field: "Hiding", Must: []string{"core/metadata.SymNodeMeta.Annotations"}, MustCalls: []string{"core/metadata.GetMethodHideOpts"}, AllowedFields: []string{"core/metadata.ReceiverMeta.SymNodeMeta"}, Desc: "hiding = GetMethodHideOpts(annotations)"})
	ruleFieldFlow(c, r, ffSpec{Clause: "C01.d", Fn: rred, Owner: routeMeta, Field: "Deprecation", Must: []string{"core/metadata.SymNodeMeta.Annotations"}, MustCalls: []string{"core/metadata.GetDeprecationOpts"}, AllowedFields: []string{"core/metadata.ReceiverMeta.SymNodeMeta"}, Desc: "deprecation = GetDeprecationOpts(annotations)"})
	ruleFieldFlow(c, r, ffSpec{Clause: "C01.d", Fn: rred, Owner: restMeta, Field: "Path", Must: []string{"core/metadata.SymNodeMeta.Annotations"}, MustCalls: []string{"(core/annotations.AnnotationHolder).GetFirstValueOrEmpty"}, AllowedFields: []string{"core/metadata.ReceiverMeta.SymNodeMeta"}, Desc: "route path = first @Route value"})
	if fi := need(c, r, "C01.d", rred); fi != nil {
		checkRouteAnnotationArg(c, r, fi, "C01.d", rred)
	}
	// GetMethodHideOpts / GetDeprecationOpts look at the right annotations
	checkAnnotationConst(c, r, "C01.d", "core/metadata.GetMethodHideOpts", "GleeceAnnotationHidden")
	checkAnnotationConst(c, r, "C01.d", "core/metadata.GetDeprecationOpts", "GleeceAnnotationDeprecated")
	checkAnnotationConst(c, r, "C01.d", rred, "GleeceAnnotationMethod")

	// the emitters get the pipeline's metadata itself (no renamed/filtered copy)
	checkManagerPassThrough(c, r, "C01.d")
	checkHiddenSemantics(c, r, "C01.a")
	checkVisitorCursors(c, r, "C01.b")
	// every package the loader returned is indexed (a package that loaded with errors under
	// allowPackageLoadFailures still contributes the syntax that was parsed: its controllers)
	if fi := need(c, r, "C01.a", "(*core/arbitrators.PackagesFacade).loadAndCacheExpressions"); fi != nil {
		viol := ""
		var sites []string
		n := 0
		for _, l := range w.rangeLoops(fi, w.rangeOverType(fi, "[]*golang.org/x/tools/go/packages.Package")) {
			owner := w.ownerOf(fi, l)
			target := w.callPred(owner, "(*core/arbitrators.PackagesFacade).cachePackage")
			has := false
			ast.Inspect(l.Body, func(n ast.Node) bool {
				if target(n) {
					has = true
				}
				return !has
			})
			if !has {
				continue // (the loop that collects load errors)
			}
			n++
			ss, v := w.eachIteration(owner, w.cfgOf(owner), l, target, nil, true)
			sites = append(sites, ss...)
			if v != "" {
				viol = v + " (a package the loader returned is not cached: its files - and the controllers in them - are not walked)"
			}
		}
		if n == 0 {
			viol = "no loop over the loaded packages that caches them"
			sites = []string{w.pos(fi.Decl.Pos())}
		}
		o := r.add("C01.a", "each-iteration", fi.Key+":range(loaded packages)->cachePackage", "every package returned by the loader is cached (no package is left out because it loaded with errors)", []string{fi.Key}, sites, viol)
		o.NonTrivial = true
	}

	// IsHiddenAsset semantic skeleton: true iff Type == HideMethodAlways
	if fi := need(c, r, "C01.a", "generator/swagen/swagtool.IsHiddenAsset"); fi != nil {
		viol := ""
		var sites []string
		nTrue := 0
		isAlwaysTest := func(cnd ssa.Value, pol bool) bool {
			cnd, pol = unwrapNot(cnd, pol)
			a := sliceOf(cnd)
			bo, isB := cnd.(*ssa.BinOp)
			return isB && ((bo.Op == token.EQL && pol) || (bo.Op == token.NEQ && !pol)) && a.hasFieldNamed("Type") && hasConst(a, `"Always"`)
		}
		// answer: the value returned at the end of block b is true only under Type == Always -
		// the constant true behind such a test, or the test itself (`return o != nil && o.Type == Always`)
		var answer func(v ssa.Value, b *ssa.BasicBlock, pos string, depth int)
		answer = func(v ssa.Value, b *ssa.BasicBlock, pos string, depth int) {
			switch x := v.(type) {
			case *ssa.Const:
				if isBoolConst(x, false) {
					return
				}
				nTrue++
				for _, f := range dominatingFacts(b) {
					if isAlwaysTest(f.Cond, f.Pol) {
						return
					}
				}
				viol = fmt.Sprintf("%s: IsHiddenAsset returns true on a path not guarded by Type == HideMethodAlways", pos)
			case *ssa.Phi:
				if depth > 6 {
					viol = fmt.Sprintf("%s: IsHiddenAsset returns a non-constant", pos)
					return
				}
				for i, e := range x.Edges {
					answer(e, x.Block().Preds[i], pos, depth+1)
				}
			default:
				if isAlwaysTest(v, true) {
					nTrue++
					return
				}
				viol = fmt.Sprintf("%s: IsHiddenAsset returns a non-constant that is not the test Type == HideMethodAlways", pos)
			}
		}
		for _, ex := range exitsOf(fi.SSA) {
			if ex.Ret == nil {
				continue
			}
			sites = append(sites, w.pos(retPos(ex)))
			answer(unspill(ex.Ret.Results[0], ex.Block), ex.Block, w.pos(retPos(ex)), 0)
		}
		if nTrue == 0 {
			viol = "IsHiddenAsset never answers true: `@Hidden` would not hide anything"
		}
		r.add("C01.a", "guardedby", "swagtool.IsHiddenAsset:true-iff-Always", "IsHiddenAsset answers true only under Type == HideMethodAlways", []string{fi.Key}, sites, viol)
	}

	// C01.c the normaliser collapses slash runs of any length
	ruleSlashCollapse(c, r, "C01.c", "common.RemoveDuplicateSlash", "RemoveDuplicateSlash collapses runs of '/' of any length (so 'controller-route + method-route normalises to that path' is a function of the concatenation, independent of how many slashes meet)")

	// C01.e routes never leak between controllers
	checkNoLeak(c, r)

	// C01.f verb tables
	checkVerbTables(c, r, "C01.f")

	// the visitor collects every endpoint receiver of the controller
	const vc = "(*core/visitors.ControllerVisitor).visitController"
	ruleEach(c, r, "C01.a", vc,
		func(fi *FuncInfo) func(ast.Expr) bool { return w.rangeOverField(fi, "go/ast.File.Decls") }, "file.Decls",
		func(fi *FuncInfo) func(ast.Node) bool {
			return w.appendTo(fi, func(e ast.Expr) bool {
				se, ok := e.(*ast.SelectorExpr)
				return ok && se.Sel.Name == "Receivers"
			})
		}, "append(controllerMeta.Receivers)",
		func(fi *FuncInfo) []skipSpec {
			isRecv := w.condCalls(fi, "gast.IsFuncDeclReceiverForStruct")
			return []skipSpec{
				{TypeSwitchMiss: true, Cond: func(ast.Expr) bool { return false }, Desc: "declaration is not a *ast.FuncDecl"},
				{Cond: isRecv, Pol: false, Desc: "function is not a receiver of the controller"},
				{Cond: w.nilTestOf(fi, "*core/metadata.ReceiverMeta"), Pol: true, Desc: "VisitMethod returned nil (not an API endpoint)"},
				{Cond: w.commaOkOf(fi, "assert", "*go/ast.FuncDecl"), Pol: false, Desc: "declaration is not a *ast.FuncDecl (comma-ok form)"},
			}
		}, true,
		"every receiver for which VisitMethod yields metadata is appended to the controller")

	ruleHelperShape(c, r, "C01.e", helperShape{Fn: "gast.IsFuncDeclReceiverForStruct", AllowedCalls: []string{"builtin.len"}, MustFields: []string{"Recv", "Name"},
		Why: "a method belongs to a controller iff its receiver type (T or *T) is named exactly like the struct"})

	ruleEarlyExitInventory(c, r, "C01.a", 10, "core/visitors", "core/metadata", "core/arbitrators", "core/pipeline", "core/annotations")
	ruleErrDrops(c, r, "C01.a", "core/visitors", "core/metadata", "graphs")
	ruleIRWriters(c, r, "C01.d", "definitions.RouteMetadata", "definitions.ControllerMetadata", "definitions.MethodHideOptions", "definitions.DeprecationOptions", "definitions.RestMetadata")
	// every element filter in these packages is a reviewed one
	ruleSkipInventory(c, r, "C01.a", loadSkipTable(c.VerifDir), 8, "generator/swagen", "core/visitors", "core/metadata", "core/arbitrators", "core/pipeline")
}

// checkPathItemOwnership (C01.b): path items of the DOCUMENT are looked up and written
// only inside setNewRouteOperation, and the lookup and the insertion use the same
// container (the document's path map), so operations of different controllers that
// normalise to the same path are merged, never overwritten.
func checkPathItemOwnership(c *Ctx, r *Report, clause, ver, pkgRel, setFn string) {
	w := c.W
	var sites []string
	viol := ""
	nLookup, nInsert := 0, 0
	isPathContainer := func(recv ssa.Value) bool {
		a := sliceOf(recv)
		if ver == "3.0" {
			return a.hasFieldNamed("Paths")
		}
		return a.hasFieldNamed("PathItems") && a.hasFieldNamed("Paths")
	}
	for _, fn := range w.SSAFuncs {
		if fn.Pkg == nil || short(fn.Pkg.Pkg.Path()) != pkgRel {
			continue
		}
		for _, b := range fn.Blocks {
			for _, ins := range b.Instrs {
				cl, ok := ins.(ssa.CallInstruction)
				if !ok {
					continue
				}
				name := calleeName(cl)
				var kind string
				switch {
				case ver == "3.0" && (strings.HasSuffix(name, "openapi3.Paths).Set")):
					kind = "insert"
				case ver == "3.0" && (strings.HasSuffix(name, "openapi3.Paths).Find") || strings.HasSuffix(name, "openapi3.Paths).Value")):
					kind = "lookup"
				case ver == "3.0" && strings.HasSuffix(name, "openapi3.PathItem).SetOperation"):
					kind = "op"
				case ver == "3.1" && strings.Contains(name, "OrderedMap[") && strings.HasSuffix(name, ").Set"):
					kind = "insert"
				case ver == "3.1" && strings.Contains(name, "OrderedMap[") && (strings.HasSuffix(name, ").Get") || strings.HasSuffix(name, ").GetOrZero") || strings.HasSuffix(name, ").Load")):
					kind = "lookup"
				default:
					continue
				}
				args := cl.Common().Args
				if len(args) == 0 {
					continue
				}
				isPathMap := false
				if ver == "3.1" {
					// only maps of *v3.PathItem values are of interest
					if strings.Contains(args[0].Type().String(), "v3.PathItem]") {
						isPathMap = true
					}
				} else {
					isPathMap = true
				}
				if !isPathMap {
					continue
				}
				p := w.pos(cl.Pos())
				sites = append(sites, p)
				if fnShort(fn) != setFn {
					viol = fmt.Sprintf("%s: path items are %s in %s; only %s may touch them (a second writer can overwrite or invent operations)", p, map[string]string{"insert": "inserted", "lookup": "looked up", "op": "given operations"}[kind], fnShort(fn), setFn)
					continue
				}
				if kind == "op" {
					continue
				}
				if !isPathContainer(args[0]) {
					viol = fmt.Sprintf("%s: the %s does not operate on the document's own path map (operations of other controllers on the same path would be lost)", p, kind)
				}
				if kind == "lookup" {
					nLookup++
				} else {
					nInsert++
				}
			}
		}
	}
	if nLookup != 1 || nInsert != 1 {
		viol = fmt.Sprintf("expected exactly one lookup and one insertion of the document's path items in %s, found %d/%d", setFn, nLookup, nInsert)
	}
	if ver == "3.1" {
		pi := w.extType(pkgV3, "PathItem")
		for _, verb := range []string{"Get", "Post", "Put", "Delete", "Patch", "Head", "Options", "Trace"} {
			if fld := fieldOf(pi, verb); fld != nil {
				for _, st := range w.fieldStores(fld) {
					sites = append(sites, w.pos(st.Pos()))
					if fnShort(st.Parent()) != setFn && w.tableClosureReader(st.Parent()) != setFn {
						viol = fmt.Sprintf("%s: PathItem.%s is written outside %s", w.pos(st.Pos()), verb, setFn)
					}
				}
			}
		}
	}
	o := r.add(clause, "whowrites", setFn+":path-item-ownership", ver+": the document's path items are looked up and written only in setNewRouteOperation, on the document's own map", []string{setFn}, sites, viol)
	// ... and every call registers the item under the route's own path key: the lookup may find
	// an item through another spelling of the template (kin's Paths.Find normalises parameter
	// names), the registration under the own key is what makes the route's path appear in the
	// document and lets the document validator see parameters and path together
	if fi := need(c, r, clause, setFn); fi != nil {
		isSet := func(n string) bool {
			return strings.HasSuffix(n, "openapi3.Paths).Set") || (strings.Contains(n, "OrderedMap[") && strings.HasSuffix(n, ").Set"))
		}
		ss, v := w.mustPassCall(fi.SSA, isSet, "Paths.Set(routePath, pathItem)")
		for _, cl := range callsIn(fi.SSA, false, isSet) {
			if a := sliceOf(cl.Common().Args[len(cl.Common().Args)-2]); !a.Calls["common.RemoveDuplicateSlash"] {
				v = fmt.Sprintf("%s: the path item is not registered under the route's composed path", w.pos(cl.Pos()))
			}
		}
		r.add(clause, "mustcall", setFn+":registered-under-own-path", ver+": every operation's path item is (re-)registered under the route's own path key, whatever the lookup found", []string{setFn}, ss, v)
	}
	o.NonTrivial = true
}

func hasConst(a *sliceAtoms, c string) bool {
	for _, x := range a.Consts {
		if x == c {
			return true
		}
	}
	return false
}

// checkPathRule: routePath = RemoveDuplicateSlash(def.RestMetadata.Path + route.RestMetadata.Path)
// (controller operand first), used as the key of lookups and insertion; verb operand is
// route.HttpVerb.
func checkPathRule(c *Ctx, r *Report, clause, ver, setFn string) {
	fi := need(c, r, clause, setFn)
	if fi == nil {
		return
	}
	w := c.W
	info := fi.Pkg.TypesInfo
	var sites []string
	viol := ""
	var rds []*ast.CallExpr
	w.inspectRegion(fi, func(n ast.Node) bool {
		if cl, ok := n.(*ast.CallExpr); ok && calleeOfCall(info, cl) == "common.RemoveDuplicateSlash" {
			rds = append(rds, cl)
		}
		return true
	})
	if len(rds) != 1 {
		viol = fmt.Sprintf("expected one call to common.RemoveDuplicateSlash in %s, found %d", setFn, len(rds))
	} else {
		sites = append(sites, w.pos(rds[0].Pos()))
		be, ok := rds[0].Args[0].(*ast.BinaryExpr)
		if !ok || be.Op != token.ADD {
			viol = fmt.Sprintf("%s: argument of RemoveDuplicateSlash is not <controller path> + <route path>", w.pos(rds[0].Pos()))
		} else {
			xa, ya := w.exprAtoms(fi, be.X), w.exprAtoms(fi, be.Y)
			if !(xa.Fields["definitions.ControllerMetadata.RestMetadata"] && xa.Fields["definitions.RestMetadata.Path"] && len(xa.Fields) == 2 && len(xa.Calls) == 0) {
				viol = fmt.Sprintf("%s: left operand of the path concatenation is not def.RestMetadata.Path (%s)", w.pos(be.Pos()), xa)
			}
			if !(ya.Fields["definitions.RouteMetadata.RestMetadata"] && ya.Fields["definitions.RestMetadata.Path"] && len(ya.Fields) == 2 && len(ya.Calls) == 0) {
				viol = fmt.Sprintf("%s: right operand of the path concatenation is not route.RestMetadata.Path (%s)", w.pos(be.Pos()), ya)
			}
		}
	}
	// every path-keyed call (Find/Get/Set on Paths / PathItems) uses that value
	nKeyed := 0
	w.inspectRegion(fi, func(n ast.Node) bool {
		cl, ok := n.(*ast.CallExpr)
		if !ok {
			return true
		}
		name := calleeOfCall(info, cl)
		isPaths := strings.HasSuffix(name, "openapi3.Paths).Find") || strings.HasSuffix(name, "openapi3.Paths).Set") ||
			((strings.HasSuffix(name, ").Set") || strings.HasSuffix(name, ").Get")) && strings.Contains(name, "OrderedMap["))
		if !isPaths {
			return true
		}
		nKeyed++
		sites = append(sites, w.pos(cl.Pos()))
		at := w.exprAtoms(fi, cl.Args[0])
		if !at.hasCall("common.RemoveDuplicateSlash") {
			viol = fmt.Sprintf("%s: path key of %s is not the normalised controller+route path", w.pos(cl.Pos()), name)
		}
		return true
	})
	if nKeyed < 2 {
		viol = fmt.Sprintf("expected >= 2 path-keyed calls (lookup + insert) in %s, found %d", setFn, nKeyed)
	}
	r.add(clause, "fieldflow", setFn+":path-key", ver+": path key = RemoveDuplicateSlash(def.RestMetadata.Path + route.RestMetadata.Path), used for lookup and insertion", []string{setFn, "common.RemoveDuplicateSlash"}, sites, viol)

	// verb operand
	viol = ""
	sites = nil
	if ver == "3.0" {
		n := 0
		w.inspectRegion(fi, func(nd ast.Node) bool {
			cl, ok := nd.(*ast.CallExpr)
			if ok && strings.HasSuffix(calleeOfCall(info, cl), "openapi3.PathItem).SetOperation") {
				n++
				sites = append(sites, w.pos(cl.Pos()))
				at := w.exprAtoms(fi, cl.Args[0])
				if !at.Fields["definitions.RouteMetadata.HttpVerb"] || len(at.Fields) != 1 {
					viol = fmt.Sprintf("%s: SetOperation's method is not route.HttpVerb (%s)", w.pos(cl.Pos()), at)
				}
				for k := range at.Calls {
					if !strings.HasPrefix(k, "conv:") {
						viol = fmt.Sprintf("%s: SetOperation's method passes through %s", w.pos(cl.Pos()), k)
					}
				}
			}
			return true
		})
		if n != 1 {
			viol = fmt.Sprintf("expected one SetOperation call, found %d", n)
		}
	} else {
		sw := w.switches(fi, w.exprIsJustField(fi, "definitions.RouteMetadata.HttpVerb"))
		if len(sw) == 0 {
			// the same dispatch as a table: setters[route.HttpVerb](pathItem, operation), each entry
			// keyed by a verb constant and storing into the slot of that verb
			isVerb := w.exprIsJustField(fi, "definitions.RouteMetadata.HttpVerb")
			nTab := 0
			w.inspectRegion(fi, func(n ast.Node) bool {
				ix, ok := n.(*ast.IndexExpr)
				if !ok || !isVerb(ast.Unparen(ix.Index)) {
					return true
				}
				id, ok := ast.Unparen(ix.X).(*ast.Ident)
				if !ok {
					return true
				}
				v, ok := info.ObjectOf(id).(*types.Var)
				if !ok {
					return true
				}
				lit := w.mapLiteralOf(fi, v)
				if lit == nil {
					return true
				}
				nTab++
				sites = append(sites, w.pos(ix.Pos()))
				for _, el := range lit.Elts {
					kv, ok := el.(*ast.KeyValueExpr)
					if !ok {
						continue
					}
					tv, ok := info.Types[kv.Key]
					if !ok || tv.Value == nil {
						viol = fmt.Sprintf("%s: a key of the verb table is not a constant", w.pos(kv.Pos()))
						continue
					}
					verb := constString(tv.Value)
					want := strings.Title(strings.ToLower(verb))
					found := false
					if fl, ok := ast.Unparen(kv.Value).(*ast.FuncLit); ok {
						for _, st := range fl.Body.List {
							if as, ok := st.(*ast.AssignStmt); ok && len(as.Lhs) == 1 {
								if se, ok := as.Lhs[0].(*ast.SelectorExpr); ok && se.Sel.Name == want {
									found = true
									sites = append(sites, w.pos(as.Pos()))
								}
							}
						}
					}
					if !found {
						viol = fmt.Sprintf("%s: the entry for %q does not store the operation into PathItem.%s", w.pos(kv.Pos()), verb, want)
					}
				}
				return true
			})
			if nTab != 1 {
				viol = fmt.Sprintf("expected one switch on route.HttpVerb (or one table indexed by it) in %s, found %d/%d", setFn, len(sw), nTab)
			}
		} else if len(sw) != 1 {
			viol = fmt.Sprintf("expected one switch on route.HttpVerb in %s, found %d", setFn, len(sw))
		} else {
			sites = append(sites, w.pos(sw[0].Pos))
			// each case stores into the PathItem field of the same verb
			for _, cc := range sw[0].Stmt.Body.List {
				cl := cc.(*ast.CaseClause)
				for _, lab := range cl.List {
					v := constString(info.Types[lab].Value)
					want := strings.Title(strings.ToLower(v))
					found := false
					for _, st := range cl.Body {
						if as, ok := st.(*ast.AssignStmt); ok {
							if se, ok := as.Lhs[0].(*ast.SelectorExpr); ok {
								sites = append(sites, w.pos(as.Pos()))
								if se.Sel.Name == want {
									found = true
								}
							}
						}
					}
					if !found {
						viol = fmt.Sprintf("%s: case %q does not store the operation into PathItem.%s", w.pos(cl.Pos()), v, want)
					}
				}
			}
		}
	}
	r.add(clause, "fieldflow", setFn+":verb", ver+": the operation is stored under route.HttpVerb", []string{setFn}, sites, viol)
}

// checkRouteAnnotationArg: GetFirstValueOrEmpty is called with GleeceAnnotationRoute.
func checkRouteAnnotationArg(c *Ctx, r *Report, fi *FuncInfo, clause, fn string) {
	w := c.W
	info := fi.Pkg.TypesInfo
	var sites []string
	viol := ""
	n := 0
	w.inspectRegion(fi, func(nd ast.Node) bool {
		cl, ok := nd.(*ast.CallExpr)
		if ok && calleeOfCall(info, cl) == "(core/annotations.AnnotationHolder).GetFirstValueOrEmpty" {
			n++
			sites = append(sites, w.pos(cl.Pos()))
			if tv := info.Types[cl.Args[0]]; tv.Value == nil || constString(tv.Value) != "Route" {
				viol = fmt.Sprintf("%s: path is not read from the @Route annotation", w.pos(cl.Pos()))
			}
		}
		return true
	})
	if n != 1 {
		viol = fmt.Sprintf("expected one GetFirstValueOrEmpty call in %s, found %d", fn, n)
	}
	r.add(clause, "setagree", fn+":@Route", "the REST path is read from the @Route annotation", []string{fn}, sites, viol)
}

// checkAnnotationConst: function fn references annotation constant `constName`.
func checkAnnotationConst(c *Ctx, r *Report, clause, fn, constName string) {
	fi := need(c, r, clause, fn)
	if fi == nil {
		return
	}
	w := c.W
	info := fi.Pkg.TypesInfo
	var sites []string
	w.inspectRegion(fi, func(nd ast.Node) bool {
		if id, ok := nd.(*ast.Ident); ok {
			if cst, ok := info.Uses[id].(*types.Const); ok && cst.Name() == constName && short(cst.Pkg().Path()) == "core/annotations" {
				sites = append(sites, w.pos(id.Pos()))
			}
		}
		return true
	})
	viol := ""
	if len(sites) == 0 {
		viol = fmt.Sprintf("%s does not consult annotations.%s", fn, constName)
	}
	r.add(clause, "setagree", fn+":"+constName, fn+" consults annotations."+constName, []string{fn}, sites, viol)
}

// checkNoLeak (C01.e): the call to VisitMethod in visitController must be dominated by a
// condition that depends on the package identity of the controller / the file, not only
// on the struct name.
func checkNoLeak(c *Ctx, r *Report) {
	const vc = "(*core/visitors.ControllerVisitor).visitController"
	fi := need(c, r, "C01.e", vc)
	if fi == nil {
		return
	}
	w := c.W
	var sites []string
	viol := ""
	calls := callsIn(fi.SSA, true, nameIs("(*core/visitors.RouteVisitor).VisitMethod"))
	if len(calls) == 0 {
		viol = "no call to RouteVisitor.VisitMethod in visitController"
	}
	for _, cl := range calls {
		sites = append(sites, w.pos(cl.Pos()))
		okName, okPkg := false, false
		for _, f := range guardsOf(cl.(ssa.Instruction)) {
			cnd, _ := unwrapNot(f.Cond, f.Pol)
			a := sliceOf(cnd)
			if a.Calls["gast.IsFuncDeclReceiverForStruct"] {
				okName = true
			}
			if a.hasFieldNamed("PkgPath") || a.Calls["(*core/arbitrators.PackagesFacade).GetPackageForFile"] || a.Calls["(*core/visitors.RouteVisitor).getPkgForSourceFile"] {
				okPkg = true
				sites = append(sites, w.pos(instrPos(f.From)))
			}
		}
		if !okName {
			viol = fmt.Sprintf("%s: VisitMethod is not guarded by IsFuncDeclReceiverForStruct", w.pos(cl.Pos()))
		} else if !okPkg {
			viol = fmt.Sprintf("%s: receivers are matched to the controller by struct NAME only (IsFuncDeclReceiverForStruct(controllerMeta.Struct.Name, ...)) over all source files; no condition on the path to VisitMethod depends on the package (PkgPath / GetPackageForFile): two packages declaring a controller with the same name receive each other's routes", w.pos(cl.Pos()))
		}
	}
	r.add("C01.e", "guardedby", vc+":VisitMethod guarded by package identity", "receiver collection is restricted to the controller's own package", []string{vc}, sites, viol)
}

func checkVerbTables(c *Ctx, r *Report, clause string) {
	w := c.W
	supported, pos := w.globalMapKeys("definitions", "routeSupportedHttpVerbs")
	var sites []string
	sites = append(sites, w.pos(pos))
	// 3.1 switch labels
	var labels31 []string
	if fi := need(c, r, clause, "generator/swagen/swagen31.setNewRouteOperation"); fi != nil {
		labs, ps := w.dispatchLabels(fi, w.exprIsJustField(fi, "definitions.RouteMetadata.HttpVerb"))
		labels31 = append(labels31, labs...)
		for _, p := range ps {
			sites = append(sites, w.pos(p))
		}
	}
	ruleSubset(c, r, clause, "routeSupportedHttpVerbs⊆swagen31.setNewRouteOperation-cases", "every verb validation accepts has an arm in the 3.1 emitter (otherwise the operation is silently dropped)", "definitions.routeSupportedHttpVerbs", supported, "swagen31 verb switch", labels31, sites)

	// kin-openapi SetOperation labels (read from the library source that is compiled in)
	var kinLabels []string
	var ksites []string
	if p := w.ByPath[pkgKin]; p != nil {
		for _, f := range p.Syntax {
			for _, d := range f.Decls {
				fd, ok := d.(*ast.FuncDecl)
				if !ok || fd.Name.Name != "SetOperation" || fd.Recv == nil {
					continue
				}
				ast.Inspect(fd, func(n ast.Node) bool {
					if sw, ok := n.(*ast.SwitchStmt); ok {
						for _, cc := range sw.Body.List {
							for _, e := range cc.(*ast.CaseClause).List {
								if tv := p.TypesInfo.Types[e]; tv.Value != nil {
									kinLabels = append(kinLabels, constString(tv.Value))
								}
							}
						}
					}
					return true
				})
				ksites = append(ksites, w.pos(fd.Pos()))
			}
		}
	}
	sort.Strings(kinLabels)
	ruleSubset(c, r, clause, "routeSupportedHttpVerbs⊆kin.SetOperation-cases", "every verb validation accepts is accepted by kin-openapi PathItem.SetOperation (which panics otherwise)", "definitions.routeSupportedHttpVerbs", supported, "kin-openapi SetOperation switch", kinLabels, append(sites[:1], ksites...))
}

// checkHiddenSemantics (C01.a / C02.g): a method carrying @Hidden - with or without a value - is
// hidden; any other answer is given only where the annotation holder or the @Hidden attribute
// is known to be missing (a nil test holds). Stated on exits and dominating facts, whatever
// the shape of the function.
func checkHiddenSemantics(c *Ctx, r *Report, clause string) {
	w := c.W
	fi := need(c, r, clause, "core/metadata.GetMethodHideOpts")
	if fi == nil {
		return
	}
	always := ""
	if p := w.pkg("definitions"); p != nil {
		if k, ok := p.Types.Scope().Lookup("HideMethodAlways").(*types.Const); ok {
			always = k.Val().ExactString()
		}
	}
	viol := ""
	var sites []string
	nAlways := 0
	if always == "" {
		viol = "definitions.HideMethodAlways not found"
	}
	for _, ex := range exitsOf(fi.SSA) {
		if ex.Ret == nil || len(ex.Ret.Results) == 0 {
			continue
		}
		sites = append(sites, w.pos(retPos(ex)))
		a := sliceOf(unspill(ex.Ret.Results[0], ex.Block))
		isAlways := false
		for _, k := range a.Consts {
			if k == always {
				isAlways = true
			}
		}
		if isAlways {
			nAlways++
			continue
		}
		underNil := false
		for _, f := range dominatingFacts(ex.Block) {
			cnd, pol := unwrapNot(f.Cond, f.Pol)
			if bo, ok := cnd.(*ssa.BinOp); ok && (isNilConst(bo.X) || isNilConst(bo.Y)) && ((bo.Op == token.EQL && pol) || (bo.Op == token.NEQ && !pol)) {
				underNil = true
			}
		}
		if !underNil {
			viol = fmt.Sprintf("%s: GetMethodHideOpts answers something other than HideMethodAlways for a method that does carry @Hidden (no `holder/attribute == nil` fact holds here): such a method is documented and counted as served-and-documented although it was annotated to be kept out (IsHiddenAsset is true for HideMethodAlways only)", w.pos(retPos(ex)))
		}
	}
	if nAlways == 0 && viol == "" {
		viol = "GetMethodHideOpts never answers HideMethodAlways"
	}
	r.add(clause, "guardedby", fi.Key+":@Hidden=>always", "a method annotated @Hidden (any form) is hidden; `never` is answered only for a missing holder/attribute", []string{fi.Key}, sites, viol)
}

// checkVisitorCursors: a walker remembers "the file / declaration I am in" by storing the node
// a type-switch arm has just matched into a field of its receiver; whatever is visited next is
// attributed to that cursor. The store must happen for every node of that kind: a conditional
// update leaves the cursor on an earlier node, and the next entity inherits that one's file,
// documentation, route prefix or tag.
func checkVisitorCursors(c *Ctx, r *Report, clause string) {
	w := c.W
	n := 0
	var sites []string
	viol := ""
	for _, fi := range w.funcsOfPkg("core/visitors") {
		if fi.SSA == nil || fi.SSA.Signature.Recv() == nil || len(fi.SSA.Params) == 0 || w.isNewName(fi.Key) {
			continue
		}
		recv := fi.SSA.Params[0]
		// the type-switch arms of fi: ok-successor of `if extract(typeassert,ok)#1`
		armOf := map[*ssa.TypeAssert]*ssa.BasicBlock{}
		for _, b := range fi.SSA.Blocks {
			ifi, ok := b.Instrs[len(b.Instrs)-1].(*ssa.If)
			if !ok {
				continue
			}
			if ex, ok := ifi.Cond.(*ssa.Extract); ok && ex.Index == 1 {
				if ta, ok := ex.Tuple.(*ssa.TypeAssert); ok && ta.CommaOk {
					if p, isParam := ta.X.(*ssa.Parameter); isParam && p != recv {
						armOf[ta] = b.Succs[0]
					}
				}
			}
		}
		if len(armOf) == 0 {
			continue
		}
		// every arm that can store its node into a receiver field does so on all its paths
		for ta, arm := range armOf {
			var stores []*ssa.Store
			allInstrsLocal(fi.SSA, false, func(_ *ssa.Function, _ *ssa.BasicBlock, _ int, ins ssa.Instruction) {
				st, ok := ins.(*ssa.Store)
				if !ok {
					return
				}
				fa, ok := st.Addr.(*ssa.FieldAddr)
				if !ok || fa.X != ssa.Value(recv) {
					return
				}
				if ex, ok := st.Val.(*ssa.Extract); ok && ex.Index == 0 && ex.Tuple == ssa.Value(ta) {
					stores = append(stores, st)
				}
			})
			for _, st := range stores {
				n++
				sites = append(sites, w.pos(st.Pos()))
				// can the arm be left (reach a return, or the code after the switch) without passing the store?
				seen, _ := reachAvoiding2(arm, map[*ssa.BasicBlock]bool{st.Block(): true})
				leaves := false
				for b := range seen {
					if !arm.Dominates(b) {
						leaves = true
					} else if _, isRet := b.Instrs[len(b.Instrs)-1].(*ssa.Return); isRet {
						leaves = true
					}
				}
				if st.Block() != arm && leaves {
					fld := ""
					if fv := structFieldVar(st.Addr.(*ssa.FieldAddr).X.Type(), st.Addr.(*ssa.FieldAddr).Field); fv != nil {
						fld = fv.Name()
					}
					viol = fmt.Sprintf("%s: %s updates its cursor %s only for some of the %s nodes it visits: after a node that is skipped the cursor still points at an earlier one, and whatever is visited next is attributed to that one (its file, its doc comment, its route prefix and tag)", w.pos(st.Pos()), fi.Key, fld, short(ta.AssertedType.String()))
				}
			}
		}
	}
	if n < 2 {
		viol = fmt.Sprintf("expected the cursor stores of ControllerVisitor.Visit (current file, current declaration), found %d", n)
	}
	if len(sites) == 0 {
		sites = []string{"core/visitors:0"}
	}
	o := r.add(clause, "mustcall", "visitor-cursors-updated-for-every-node", "a visitor's cursor fields (the file / declaration being walked) are updated for every node of their kind", []string{"core/visitors"}, sites, viol)
	o.NonTrivial = true
}

// reachAvoiding2: blocks reachable from start without entering an avoided block.
func reachAvoiding2(start *ssa.BasicBlock, avoid map[*ssa.BasicBlock]bool) (map[*ssa.BasicBlock]bool, bool) {
	seen := map[*ssa.BasicBlock]bool{}
	if avoid[start] {
		return seen, false
	}
	work := []*ssa.BasicBlock{start}
	for len(work) > 0 {
		b := work[len(work)-1]
		work = work[:len(work)-1]
		if seen[b] || avoid[b] {
			continue
		}
		seen[b] = true
		work = append(work, b.Succs...)
	}
	return seen, true
}

// tableClosureReader: fn is a function literal in the initialiser of a package-level variable
// (a table of functions); when exactly one declared function reads that variable, the literal's
// code runs on its behalf - its name (else "").
func (w *World) tableClosureReader(fn *ssa.Function) string {
	if fn == nil || fn.Parent() == nil || fn.Parent().Name() != "init" || fn.Parent().Parent() != nil {
		return ""
	}
	init := fn.Parent()
	// the global the closure ends up in: a MapUpdate / Store in init whose value is this function
	var g *ssa.Global
	for _, b := range init.Blocks {
		for _, ins := range b.Instrs {
			var val, dst ssa.Value
			switch x := ins.(type) {
			case *ssa.MapUpdate:
				val, dst = x.Value, x.Map
			case *ssa.Store:
				val, dst = x.Val, x.Addr
			default:
				continue
			}
			v := stripTrivial(val)
			if mc, ok := v.(*ssa.MakeClosure); ok {
				v = mc.Fn
			}
			if v != ssa.Value(fn) {
				continue
			}
			// dst: the map value; find the global it is stored into
			for _, b2 := range init.Blocks {
				for _, i2 := range b2.Instrs {
					if st, ok := i2.(*ssa.Store); ok && stripTrivial(st.Val) == stripTrivial(dst) {
						if gg, ok := st.Addr.(*ssa.Global); ok {
							g = gg
						}
					}
				}
			}
			if gg, ok := dst.(*ssa.Global); ok {
				g = gg
			}
		}
	}
	if g == nil {
		return ""
	}
	readers := map[string]bool{}
	for _, f := range w.SSAFuncs {
		if f == init {
			continue
		}
		for _, b := range f.Blocks {
			for _, ins := range b.Instrs {
				for _, op := range ins.Operands(nil) {
					if *op == ssa.Value(g) {
						readers[fnShort(f)] = true
					}
				}
			}
		}
	}
	if len(readers) == 1 {
		for k := range readers {
			return k
		}
	}
	return ""
}
