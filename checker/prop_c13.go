package main

import (
	"encoding/json"
	"fmt"
	"go/ast"
	"go/types"
	"os"
	"path/filepath"
	"sort"
	"strings"

	"golang.org/x/tools/go/ssa"
)

func init() {
	register("C13", "Static structural obligations for 'output is a deterministic function of project and configuration': an inventory rule over every source of unspecified iteration order in gleece (range over maps, set-to-slice conversions, MapKeys) requires each to be mechanically benign (commutative effects), totally sorted before use, or listed with a reason in a reviewed table; must-pass rules put ForceOrderedJSON on every success path of both emitters; who-calls rules forbid ambient inputs except the guarded date comment; a type-level witness and read-set/mutation rules make the spec independent of the routing engine and of the order in which generators run. Decides gleece's own code; nondeterminism inside go/packages, kin-openapi, libopenapi or raymond is not decided.", checkC13)
}

type orderTable struct {
	Sites map[string]string `json:"sites"`
}

func loadOrderTable(verifDir string) (*orderTable, error) {
	b, err := os.ReadFile(filepath.Join(verifDir, "tables", "maporder.json"))
	if err != nil {
		return nil, err
	}
	t := &orderTable{}
	if err := json.Unmarshal(b, t); err != nil {
		return nil, err
	}
	return t, nil
}

func checkC13(c *Ctx, r *Report) {
	defer checkEngineMapsCloned(c, r, "C13.c")
	defer checkContainerFields(c, r, "C13.c")
	defer checkProcessWideState(c, r, "C13.c")
	defer checkMemoKeys(c, r, "C13.c")
	// the routes file is rendered in the order of slices: no template iterates a Go map (raymond walks
	// a map in reflect's unspecified key order)
	defer func() {
		for _, en := range c.T.Order {
			eng := c.T.Engines[en]
			viol := ""
			if len(eng.EachOverMap) > 0 {
				viol = eng.EachOverMap[0] + ": the rendered order of its entries differs between runs, so the routes file is not a function of project and configuration"
			}
			r.add("C13.a", "maporder", "tpl:"+en+":no-each-over-map", en+": no `{{#each}}` block iterates a Go map", []string{eng.Routes.File}, []string{eng.Routes.File + ":1"}, viol)
		}
	}()
	w := c.W
	// the spec is a function of sources and configuration minus the routing engine: the engine is
	// consulted by the routes generator only (what the analysis, the reduction and the spec emitters
	// compute cannot vary with it)
	defer func() {
		ruleWhoReads(c, r, "C13.e", w.lookupType("definitions", "RoutesConfig"), "Engine", []string{"generator/routes", "cmd"}, 1,
			"the routing engine selects router templates; a reader elsewhere makes the spec (or the symbol graph) depend on the engine")
	}()
	r.NotDecided = append(r.NotDecided,
		"nondeterminism inside go/packages, kin-openapi, libopenapi, raymond",
		"totality of sort comparators on inputs with equal keys (after the repairs the inputs of every sort are themselves deterministic, so ties no longer vary between runs)",
		"the DOT/graph dump of the `dump` command (not a generated artifact of the property)")
	r.Assume = append(r.Assume, "a loop whose body only writes maps/sets, accumulates commutatively or logs is order-insensitive", "encoding/json marshals map[string]any with sorted keys")

	// ---------------- C13.a order inventory
	tbl, err := loadOrderTable(c.VerifDir)
	if err != nil {
		r.undecided("C13.a", "maporder", "table", "", "tables/maporder.json unreadable: "+err.Error())
		return
	}
	sites := w.orderSites(map[string]bool{"common.MapValues": true, "definitions.GetValidHttpVerbs": true, "definitions.GetValidHttpStatusCodes": true})
	if len(sites) < 40 {
		r.undecided("C13.a", "maporder", "inventory", "", fmt.Sprintf("only %d order-tainted sites found (floor 40): the scanner lost coverage", len(sites)))
	}
	nBenign, nSorted, nTabled := 0, 0, 0
	used := map[string]bool{}
	for _, s := range sites {
		viol := ""
		why := s.Class
		switch {
		case strings.HasPrefix(s.Class, "benign:"):
			nBenign++
		case strings.HasPrefix(s.Class, "sorted:"):
			nSorted++
		default:
			if reason, ok := tbl.Sites[s.Key]; ok {
				nTabled++
				used[s.Key] = true
				why = "tabled: " + reason
			} else {
				viol = fmt.Sprintf("%s: iteration order of %s(%s) in %s is unspecified and is neither mechanically benign (effects: %v), nor sorted before use, nor in the reviewed table: it can leak into generated output or identifier allocation", w.pos(s.Pos), s.Kind, s.What, s.Fn, s.Effects)
			}
		}
		o := r.add("C13.a", "maporder", s.Key, "order-tainted source is neutralised ("+why+")", []string{s.Fn}, []string{w.pos(s.Pos)}, viol)
		o.NonTrivial = len(s.Effects) > 0
	}
	r.count("order_sites", len(sites))
	r.count("order_sites_benign", nBenign)
	r.count("order_sites_sorted", nSorted)
	r.count("order_sites_tabled", nTabled)

	// the mechanisms the table relies on
	for _, e := range emitters {
		g := e.Pkg + ".GenerateSpec"
		ruleMustCallOK(c, r, "C13.a", g, "generator/swagen/swagtool.ForceOrderedJSON", -1, e.Ver+": every non-failing return passed ForceOrderedJSON (keys re-sorted) with err == nil")
		if fi := need(c, r, "C13.a", g); fi != nil {
			// what is returned is ForceOrderedJSON's output
			viol := ""
			var ss []string
			for _, ex := range exitsOf(fi.SSA) {
				if ex.Ret == nil || ex.Kind == exitFailure {
					continue
				}
				ss = append(ss, w.pos(retPos(ex)))
				for _, v := range w.originValues(stripTrivial(ex.Ret.Results[0])) {
					if k, isConst := v.(*ssa.Const); isConst && k.IsNil() && ex.Kind != exitSuccess {
						continue // the (nil, err) return of a helper the result is delegated to
					}
					exr, ok := stripTrivial(v).(*ssa.Extract)
					if !ok || exr.Index != 0 {
						viol = fmt.Sprintf("%s: the bytes returned are not ForceOrderedJSON's result", w.pos(retPos(ex)))
						continue
					}
					if call, ok := exr.Tuple.(*ssa.Call); !ok || calleeName(call) != "generator/swagen/swagtool.ForceOrderedJSON" {
						viol = fmt.Sprintf("%s: the bytes returned are not ForceOrderedJSON's result", w.pos(retPos(ex)))
					}
				}
			}
			r.add("C13.a", "fieldflow", g+":returns(ForceOrderedJSON)", e.Ver+": the emitted bytes are the key-ordered ones", []string{g}, ss, viol)
		}
	}
	if fi := need(c, r, "C13.a", "generator/swagen/swagtool.ForceOrderedJSON"); fi != nil {
		viol := ""
		var ss []string
		un := callsIn(fi.SSA, false, nameIs("encoding/json.Unmarshal"))
		ma := callsIn(fi.SSA, false, nameIs("encoding/json.MarshalIndent", "encoding/json.Marshal"))
		se := callsIn(fi.SSA, false, nameIs("generator/swagen/swagtool.sortEnumValues"))
		if len(un) != 1 || len(ma) != 1 || len(se) != 1 {
			viol = "ForceOrderedJSON is no longer unmarshal -> sortEnumValues -> marshal"
		} else {
			ss = append(ss, w.pos(un[0].Pos()), w.pos(se[0].Pos()), w.pos(ma[0].Pos()))
			// the value unmarshalled into must be an interface (=> map[string]any => sorted keys)
			tgt := un[0].Common().Args[1]
			if mi, ok := tgt.(*ssa.MakeInterface); ok {
				if pt, ok := mi.X.Type().Underlying().(*types.Pointer); !ok || !types.IsInterface(pt.Elem()) {
					viol = fmt.Sprintf("%s: JSON is not re-read into an untyped value (map[string]any marshals with sorted keys; a typed/ordered target would keep insertion order)", w.pos(un[0].Pos()))
				}
			}
			if !instrDominates(un[0].(ssa.Instruction), ma[0].(ssa.Instruction)) || !instrDominates(se[0].(ssa.Instruction), ma[0].(ssa.Instruction)) {
				viol = "ordering of unmarshal / sortEnumValues / marshal is broken"
			}
			if !sliceReaches(ma[0].Common().Args[0], un[0].Common().Args[1]) && !sameAlloc(ma[0].Common().Args[0], un[0].Common().Args[1]) {
				viol = fmt.Sprintf("%s: the value marshalled is not the value that was re-read", w.pos(ma[0].Pos()))
			}
		}
		r.add("C13.a", "mustcall", fi.Key+":unmarshal-sort-marshal", "ForceOrderedJSON re-marshals through an untyped value and sorts enum arrays", []string{fi.Key}, ss, viol)
	}
	// UnpackImportsMap sorts package paths and every alias list
	if fi := need(c, r, "C13.a", "generator/routes.registerHandlebarsHelpers"); fi != nil {
		viol := "UnpackImportsMap helper not found"
		var ss []string
		info := fi.Pkg.TypesInfo
		w.inspectRegion(fi, func(n ast.Node) bool {
			cl, ok := n.(*ast.CallExpr)
			if !ok || calleeOfCall(info, cl) != pkgRaymond+".RegisterHelper" || len(cl.Args) != 2 {
				return true
			}
			if tv := info.Types[cl.Args[0]]; tv.Value == nil || constString(tv.Value) != "UnpackImportsMap" {
				return true
			}
			fl := w.helperBody(fi, cl.Args[1])
			if fl == nil {
				return true
			}
			sortedVars := map[string]bool{}
			nSortedRanges := 0
			ast.Inspect(fl, func(m ast.Node) bool {
				if as, ok := m.(*ast.AssignStmt); ok && len(as.Lhs) == 1 && len(as.Rhs) == 1 {
					if rc, isCall := ast.Unparen(as.Rhs[0]).(*ast.CallExpr); isCall && strings.HasPrefix(calleeOfCall(info, rc), "slices.Sorted") {
						sortedVars[exprString(as.Lhs[0])] = true // a sorted copy
						ss = append(ss, w.pos(rc.Pos()))
					}
				}
				if sc, ok := m.(*ast.CallExpr); ok {
					cn := calleeOfCall(info, sc)
					if (strings.HasPrefix(cn, "sort.") || strings.HasPrefix(cn, "slices.Sort")) && len(sc.Args) > 0 {
						sortedVars[exprString(sc.Args[0])] = true
						ss = append(ss, w.pos(sc.Pos()))
					}
				}
				return true
			})
			viol = ""
			// every range inside the helper iterates a sorted slice or the map (to collect keys)
			ast.Inspect(fl, func(m ast.Node) bool {
				if rs, ok := m.(*ast.RangeStmt); ok {
					t := info.TypeOf(rs.X)
					if _, isMap := t.Underlying().(*types.Map); isMap {
						return true
					}
					if rc, isCall := ast.Unparen(rs.X).(*ast.CallExpr); isCall && strings.HasPrefix(calleeOfCall(info, rc), "slices.Sorted") {
						nSortedRanges++ // ranges over a sorted copy
						ss = append(ss, w.pos(rc.Pos()))
						return true
					}
					if !sortedVars[exprString(rs.X)] {
						viol = fmt.Sprintf("%s: UnpackImportsMap emits imports while ranging over %s, which is not sorted inside the helper", w.pos(rs.Pos()), exprString(rs.X))
					}
				}
				return true
			})
			if len(sortedVars)+nSortedRanges < 2 {
				viol = "UnpackImportsMap must sort both the package paths and each alias list"
			}
			return false
		})
		r.add("C13.a", "maporder", "routes.UnpackImportsMap-sorts", "imports are emitted in sorted (package, alias) order whatever the order of the map and of its alias slices", []string{fi.Key}, ss, viol)
	}
	// pipeline sorts the model/controller lists it hands to the generators
	for _, s := range []struct{ fn, v string }{
		{"(*core/pipeline.GleecePipeline).getReducedControllers", "controllers"},
		{"(*core/pipeline.GleecePipeline).getModels", "reducedStructs"},
		{"(*core/pipeline.GleecePipeline).getModels", "reducedEnums"},
	} {
		if fi := need(c, r, "C13.a", s.fn); fi != nil {
			viol := fmt.Sprintf("%s is not sorted in %s", s.v, s.fn)
			var ss []string
			w.inspectRegion(fi, func(n ast.Node) bool {
				if cl, ok := n.(*ast.CallExpr); ok && len(cl.Args) > 0 {
					cn := calleeOfCall(fi.Pkg.TypesInfo, cl)
					if (strings.HasPrefix(cn, "slices.Sort") || strings.HasPrefix(cn, "sort.")) && exprString(cl.Args[0]) == s.v {
						viol = ""
						ss = append(ss, w.pos(cl.Pos()))
					}
				}
				return true
			})
			r.add("C13.a", "maporder", s.fn+":sorts("+s.v+")", "the "+s.v+" list is sorted before it is handed to the generators", []string{s.fn}, ss, viol)
		}
	}

	// ---------------- C13.b no ambient inputs
	ambient := func(n string) bool {
		switch n {
		case "time.Now", "time.Since", "os.Getenv", "os.LookupEnv", "os.Environ", "os.Hostname", "os.Getpid", "os.Getuid", "os.Getwd", "os.UserHomeDir", "os.Executable",
			"github.com/google/uuid.New", "github.com/google/uuid.NewString", "github.com/google/uuid.NewRandom":
			return true
		}
		return strings.HasPrefix(n, "math/rand.") || strings.HasPrefix(n, "math/rand/v2.") || strings.HasPrefix(n, "crypto/rand.")
	}
	{
		var ss []string
		viol := ""
		type ambCall struct {
			cl   ssa.CallInstruction
			name string
		}
		var calls []ambCall
		for _, cl := range w.callersOf(ambient) {
			calls = append(calls, ambCall{cl, calleeName(cl)})
		}
		// an ambient function handed over as a value (an injected clock): the calls of that
		// parameter in the receiving function are calls of it; any other use of the value is not followed
		for _, fn := range w.SSAFuncs {
			for _, b := range fn.Blocks {
				for _, ins := range b.Instrs {
					for ai, op := range ins.Operands(nil) {
						f, ok := (*op).(*ssa.Function)
						if !ok || !ambient(fnShort(f)) {
							continue
						}
						cl, isCall := ins.(ssa.CallInstruction)
						if isCall && cl.Common().Value == ssa.Value(f) {
							continue // an ordinary call (listed above)
						}
						followed := false
						if isCall {
							if callee := cl.Common().StaticCallee(); callee != nil && callee.Blocks != nil {
								for i, a := range cl.Common().Args {
									if a != ssa.Value(f) || i >= len(callee.Params) {
										continue
									}
									followed = true
									prm := callee.Params[i]
									if refs := prm.Referrers(); refs != nil {
										for _, rf := range *refs {
											if dc, ok := rf.(ssa.CallInstruction); ok && dc.Common().Value == ssa.Value(prm) {
												calls = append(calls, ambCall{dc, fnShort(f)})
											} else {
												viol = fmt.Sprintf("%s: the ambient function %s, handed to %s as a value, is passed on or stored there: where it is consulted is not followed", w.pos(rf.Pos()), fnShort(f), fnShort(callee))
											}
										}
									}
								}
							}
						}
						_ = ai
						if !followed {
							ss = append(ss, w.pos(ins.Pos()))
							viol = fmt.Sprintf("%s: the ambient function %s is used as a value in %s (stored, returned or passed to code that is not analysed): where it is consulted is not followed", w.pos(ins.Pos()), fnShort(f), fnShort(fn))
						}
					}
				}
			}
		}
		for _, ac := range calls {
			cl, name := ac.cl, ac.name
			fn := fnShort(cl.Parent())
			p := w.pos(cl.Pos())
			ss = append(ss, p)
			switch {
			case name == "time.Now" && fn == "generator/routes.GetTemplateContext":
				// must be guarded by !SkipGenerateDateComment
				ok := false
				for _, f := range guardsOf(cl.(ssa.Instruction)) {
					cnd, pol := unwrapNot(f.Cond, f.Pol)
					if !pol && sliceOf(cnd).hasFieldNamed("SkipGenerateDateComment") {
						ok = true
					}
				}
				if !ok {
					viol = fmt.Sprintf("%s: time.Now is not guarded by !SkipGenerateDateComment", p)
				}
			case strings.HasPrefix(fn, "infrastructure/logger."):
				// log timestamps are not artifacts
			default:
				viol = fmt.Sprintf("%s: ambient input %s is consulted in %s (output would depend on process/environment/time)", p, name, fn)
			}
		}
		if len(ss) == 0 {
			viol = "expected at least the guarded time.Now of the date comment (rule would pass vacuously)"
		}
		o := r.add("C13.b", "whocalls", "ambient-inputs", "no clock, environment, host, pid, cwd or randomness reaches the output except the date comment under !skipGenerateDateComment", []string{"time.Now", "os.Getenv", "math/rand.*", "..."}, ss, viol)
		o.NonTrivial = true
		// pointer formatting
		var ps []string
		pv := ""
		for _, fi := range w.Funcs {
			rel := short(fi.Pkg.PkgPath)
			if !(strings.HasPrefix(rel, "generator/") || strings.HasPrefix(rel, "core/pipeline") || strings.HasPrefix(rel, "core/metadata")) {
				continue
			}
			w.inspectRegion(fi, func(n ast.Node) bool {
				if bl, ok := n.(*ast.BasicLit); ok && strings.Contains(bl.Value, "%p") {
					ps = append(ps, w.pos(bl.Pos()))
					pv = fmt.Sprintf("%s: %%p formats an address (differs between runs)", w.pos(bl.Pos()))
				}
				return true
			})
		}
		ps = append(ps, "generator/:0")
		r.add("C13.b", "whocalls", "no-%p-in-generators", "no address formatting in generators / reducers", nil, ps, pv)
	}

	// ---------------- C13.c spec independent of the engine and of generator order
	checkSpecEngineIndependence(c, r)

	// ---- C13.e no scheduling-dependent order: the analysis and generation path is sequential.
	// Identifier allocation (import serials, edge ordinals) and every append-in-visit-order
	// list depend on the order of execution; a goroutine makes that order a property of the run.
	checkNoGoroutines(c, r, "C13.e")

	// ---- C13.f the artifacts do not depend on what an earlier run left at the output path
	checkArtifactWrites(c, r, "C13.f", "generator/routes.GenerateRoutes", "generator/swagen.GenerateAndOutputSpec")

	// ---- C13.a (cont.) every in-place sort is a reviewed one
	ruleSortInventory(c, r, "C13.a")
}

// checkArtifactWrites: the artifact replaces whatever was at the output path (truncating write),
// is written on every successful run, and what is already there is never looked at.
func checkArtifactWrites(c *Ctx, r *Report, clause string, fnks ...string) {
	for _, fnk := range fnks {
		fi := need(c, r, clause, fnk)
		if fi == nil {
			continue
		}
		viol := ""
		var sites []string
		fws := c.W.fileWritesOf(fi.SSA, 0)
		for _, fw := range fws {
			sites = append(sites, c.W.pos(fw.Site.Pos()))
			if !fw.Truncates {
				viol = fmt.Sprintf("%s: %s writes its artifact with %s and no O_TRUNC: bytes of a longer file left by an earlier run survive behind the new content, so the output is a function of history, not of project and configuration", c.W.pos(fw.Site.Pos()), fnk, fw.Via)
			}
		}
		if len(fws) == 0 {
			viol = "no file write found in " + fnk
		}
		r.add(clause, "fieldflow", fnk+":truncating-write", "the artifact replaces whatever was at the output path", []string{fnk}, sites, viol)
		// ... on every successful run (no "already up to date" shortcut), and what is at the
		// output path is never read: otherwise the bytes that end up there depend on what was there
		{
			v2 := ""
			var s2 []string
			var writeBlocks = map[*ssa.BasicBlock]bool{}
			for _, fw := range fws {
				if fw.Site.Parent() == fi.SSA {
					writeBlocks[fw.Site.Block()] = true
				} else if h := c.W.hostCallsIn(fi.SSA, fw.Site); len(h) > 0 {
					for _, hc := range h {
						writeBlocks[hc.Block()] = true
					}
				}
				s2 = append(s2, c.W.pos(fw.Site.Pos()))
			}
			if len(writeBlocks) > 0 {
				seen, _ := reachAvoiding(fi.SSA, writeBlocks, nil)
				for _, ex := range exitsOf(fi.SSA) {
					if ex.Ret != nil && ex.Kind == exitSuccess && seen[ex.Ret.Block()] {
						v2 = fmt.Sprintf("%s: %s can succeed without writing its artifact: what is at the output path after the run then depends on what an earlier run left there", c.W.pos(retPos(ex)), fnk)
					}
				}
			}
			for _, cl := range callsIn(fi.SSA, true, func(n string) bool {
				return n == "os.ReadFile" || n == "os.Open" || n == "os.Stat" || n == "os.Lstat" || n == "io/ioutil.ReadFile"
			}) {
				s2 = append(s2, c.W.pos(cl.Pos()))
				v2 = fmt.Sprintf("%s: %s looks at the file system (%s) before writing: the artifact becomes a function of what is already there, not of project and configuration alone", c.W.pos(cl.Pos()), fnk, calleeName(cl))
			}
			if len(s2) == 0 {
				s2 = []string{c.W.pos(fi.Decl.Pos())}
			}
			r.add(clause, "mustcall", fnk+":written-on-every-success", "every successful run writes the artifact, without first looking at what is at the output path", []string{fnk}, s2, v2)
		}
	}
}

func sameAlloc(a, b ssa.Value) bool {
	ra := rootAlloc(a)
	rb := rootAlloc(b)
	return ra != nil && ra == rb
}

func rootAlloc(v ssa.Value) ssa.Value {
	for i := 0; i < 8; i++ {
		switch x := v.(type) {
		case *ssa.MakeInterface:
			v = x.X
		case *ssa.UnOp:
			v = x.X
		case *ssa.Alloc:
			return x
		default:
			return nil
		}
	}
	return nil
}

func checkSpecEngineIndependence(c *Ctx, r *Report) {
	w := c.W
	forbidden := map[string]bool{"definitions.RoutesConfig": true, "definitions.RoutingEngineType": true, "definitions.ExperimentalConfig": true, "definitions.GleeceConfig": true, "definitions.AuthorizationConfig": true}
	// (i) type-level witness: closure of the parameter types of the spec entry points
	for _, fn := range []string{"generator/swagen.GenerateSpec", "generator/swagen.GenerateAndOutputSpec", "generator/swagen/swagen30.GenerateSpec", "generator/swagen/swagen31.GenerateSpec"} {
		fi := need(c, r, "C13.c", fn)
		if fi == nil {
			continue
		}
		viol := ""
		seen := map[string]bool{}
		var walk func(t types.Type, path string, depth int)
		walk = func(t types.Type, path string, depth int) {
			if t == nil || depth > 12 {
				return
			}
			switch x := t.(type) {
			case *types.Named:
				name := short(x.Obj().Pkg().Path()) + "." + x.Obj().Name()
				if x.Obj().Pkg() == nil {
					return
				}
				if forbidden[name] {
					viol = fmt.Sprintf("%s: parameter closure of %s contains %s (via %s): the spec emitters can see routing-engine configuration", w.pos(fi.Decl.Pos()), fn, name, path)
				}
				if seen[name] || !isGleecePkg(x.Obj().Pkg().Path()) {
					return
				}
				seen[name] = true
				walk(x.Underlying(), path+">"+x.Obj().Name(), depth+1)
			case *types.Pointer:
				walk(x.Elem(), path, depth+1)
			case *types.Slice:
				walk(x.Elem(), path, depth+1)
			case *types.Array:
				walk(x.Elem(), path, depth+1)
			case *types.Map:
				walk(x.Key(), path, depth+1)
				walk(x.Elem(), path, depth+1)
			case *types.Struct:
				for i := 0; i < x.NumFields(); i++ {
					walk(x.Field(i).Type(), path+"."+x.Field(i).Name(), depth+1)
				}
			}
		}
		sig := fi.Obj.Type().(*types.Signature)
		for i := 0; i < sig.Params().Len(); i++ {
			walk(sig.Params().At(i).Type(), sig.Params().At(i).Name(), 0)
		}
		o := r.add("C13.c", "type-witness", fn+":params-exclude-routing-config", "the types reachable from the spec generator's parameters do not include RoutesConfig / RoutingEngineType / ExperimentalConfig / GleeceConfig", []string{fn}, []string{w.pos(fi.Decl.Pos())}, viol)
		o.NonTrivial = len(seen) > 3
		r.count("witness_types_walked", len(seen))
	}
	// (ii) no function of the spec generators reads a field of those config types or a global of generator/routes
	{
		var ss []string
		viol := ""
		n := 0
		for _, fn := range w.SSAFuncs {
			if fn.Pkg == nil || !strings.HasPrefix(short(fn.Pkg.Pkg.Path()), "generator/swagen") {
				continue
			}
			n++
			for _, b := range fn.Blocks {
				for _, ins := range b.Instrs {
					var xt types.Type
					switch x := ins.(type) {
					case *ssa.FieldAddr:
						xt = x.X.Type()
					case *ssa.Field:
						xt = x.X.Type()
					default:
						continue
					}
					if nt, ok := derefNamed(xt); ok && nt.Obj().Pkg() != nil {
						name := short(nt.Obj().Pkg().Path()) + "." + nt.Obj().Name()
						if forbidden[name] {
							ss = append(ss, w.pos(ins.Pos()))
							viol = fmt.Sprintf("%s: spec generator code reads a field of %s", w.pos(ins.Pos()), name)
						}
					}
				}
			}
		}
		ss = append(ss, "generator/swagen:0")
		o := r.add("C13.c", "readset", "generator/swagen*:no-read(routing config)", "no spec generator function reads routing/experimental configuration", []string{"generator/swagen"}, ss, viol)
		o.NonTrivial = true
		r.count("swagen_functions_scanned", n)
	}
	// (iii) generators do not mutate the shared IR (so the result does not depend on which generator ran first)
	ruleNoIRMutation(c, r, "C13.c")
	// (iv) templates: the engine-specific parts never feed back (routes context is built from, not into, the metadata)
	if fi := need(c, r, "C13.c", "generator/routes.GetTemplateContext"); fi != nil {
		viol := ""
		var ss []string
		calls := 0
		allInstrs(fi.SSA, true, func(_ *ssa.Function, _ *ssa.BasicBlock, _ int, ins ssa.Instruction) {
			if cl, ok := ins.(ssa.CallInstruction); ok {
				n := calleeName(cl)
				if cf := cl.Common().StaticCallee(); cf != nil && w.isNewFn(cf) {
					return // a helper split off GetTemplateContext: its instructions are walked as part of it
				}
				if isGleeceCallee(n) && !strings.HasPrefix(strings.TrimLeft(n, "(*"), "infrastructure/logger") {
					calls++
					ss = append(ss, w.pos(cl.Pos()))
					viol = fmt.Sprintf("%s: GetTemplateContext calls %s: the context must be a plain projection of configuration and metadata", w.pos(cl.Pos()), n)
				}
			}
		})
		ss = append(ss, w.pos(fi.Decl.Pos()))
		r.add("C13.c", "whocalls", fi.Key+":pure-projection", "the routes context is a plain projection (no engine-specific rewriting of the shared metadata)", []string{fi.Key}, ss, viol)
	}
	_ = sort.Strings
}

// isGleeceCallee: the (short) callee name denotes a function of gleece itself.
func isGleeceCallee(n string) bool {
	x := strings.TrimLeft(n, "(*")
	for _, pre := range []string{"generator/", "core/", "common", "definitions", "graphs", "gast", "infrastructure/", "cmd"} {
		if strings.HasPrefix(x, pre) {
			return true
		}
	}
	return false
}

// ruleNoIRMutation: generators, validators and cmd only read the flattened metadata.
func ruleNoIRMutation(c *Ctx, r *Report, clause string) {
	w := c.W
	allowed := map[string]string{
		"generator/swagen/swagtool.AppendErrorSchema:<elem>": "appends the RFC-7807 model to the caller's Models.Structs (by design; the routes templates read only Models.Enums)",
	}
	var ss []string
	viol := ""
	muts := w.irMutations([]string{"generator/", "core/validators", "cmd"})
	for _, m := range muts {
		ss = append(ss, m.Pos)
		if _, ok := allowed[m.Fn+":"+m.Field]; !ok {
			viol = fmt.Sprintf("%s: %s writes %s of an existing IR value (reached through %s): the metadata is shared between the spec and routes generators, so what one generator sees would depend on which ran first / on the engine", m.Pos, m.Fn, m.Field, m.Root)
		}
	}
	if len(muts) == 0 {
		viol = "expected the tabled AppendErrorSchema site (rule would pass vacuously)"
	}
	o := r.add(clause, "whowrites", "generators:no-IR-mutation", "generators, validators and cmd only read the flattened metadata (definitions.*); the single tabled exception is AppendErrorSchema", keysOf(allowed), ss, viol)
	o.NonTrivial = true
}

// checkNoGoroutines (C13.e / C14.c): the analysis and generation path is sequential - no
// scheduling-dependent order, and no wait on a goroutine that can block a run for ever.
func checkNoGoroutines(c *Ctx, r *Report, clause string) {
	viol := ""
	var sites []string
	n := 0
	for _, fn := range c.W.SSAFuncs {
		allInstrsLocal(fn, false, func(f *ssa.Function, _ *ssa.BasicBlock, _ int, ins ssa.Instruction) {
			if g, ok := ins.(*ssa.Go); ok {
				n++
				sites = append(sites, c.W.pos(g.Pos()))
				viol = fmt.Sprintf("%s: %s starts a goroutine: first-come allocations made on that path (SyncedProvider.GetIdForKey serials, graph edge ordinals, append order) then depend on scheduling, so two runs over the same project can emit different identifiers", c.W.pos(g.Pos()), fnShort(f))
			}
		})
	}
	if n == 0 {
		sites = append(sites, "gleece:0")
	}
	o := r.add(clause, "sequential", "no-goroutines-in-analysis-or-generation", fmt.Sprintf("no `go` statement in the %d analysed functions", len(c.W.SSAFuncs)), []string{"gleece"}, sites, viol)
	o.NonTrivial = true
}

// checkEngineMapsCloned: the engines' embedded template maps (package-level) are never handed to
// code that writes into them: what overrideTemplates / loadTemplatesExtensions (or whatever new
// helper took their place) receive is a fresh maps.Clone on every path. A write into the
// shared map survives the call and leaks one configuration's overrides or extensions into the
// next generation of the same process.
func checkEngineMapsCloned(c *Ctx, r *Report, clause string) {
	w := c.W
	fi := need(c, r, clause, "generator/routes.registerPartials")
	if fi == nil {
		return
	}
	viol := ""
	var sites []string
	n := 0
	allInstrs(fi.SSA, true, func(f *ssa.Function, _ *ssa.BasicBlock, _ int, ins ssa.Instruction) {
		if f != fi.SSA {
			return
		}
		cl, ok := ins.(ssa.CallInstruction)
		if !ok {
			return
		}
		callee := cl.Common().StaticCallee()
		if callee == nil || callee.Pkg == nil || !isGleecePkg(callee.Pkg.Pkg.Path()) {
			return
		}
		for _, a := range cl.Common().Args {
			mt, isMap := a.Type().Underlying().(*types.Map)
			if !isMap || mt.Elem().String() != "string" {
				continue
			}
			// only maps that can be the engines' own: origin is a load of a package-level variable, or a clone
			for _, ov := range w.originValues(a) {
				switch x := ov.(type) {
				case *ssa.Call:
					if calleeName(x) == "maps.Clone" {
						n++
						sites = append(sites, w.pos(cl.Pos()))
						continue
					}
				case *ssa.UnOp:
					if g, isG := x.X.(*ssa.Global); isG && g.Pkg != nil && strings.Contains(g.Pkg.Pkg.Path(), "generator/templates/") {
						viol = fmt.Sprintf("%s: registerPartials hands %s - an engine's embedded template map itself, not a clone - to %s on some path: overrides/extensions written into it stay for the life of the process and show up in later generations that did not configure them", w.pos(cl.Pos()), short(g.String()), fnShort(callee))
						sites = append(sites, w.pos(cl.Pos()))
					}
				}
			}
		}
	})
	if n < 2 && viol == "" {
		viol = fmt.Sprintf("expected the cloned partials and extensions maps to be handed to the override/extension loaders, found %d", n)
	}
	if len(sites) == 0 {
		sites = []string{w.pos(fi.Decl.Pos())}
	}
	r.add(clause, "fieldflow", "generator/routes.registerPartials:engine-maps-cloned", "user templates are written into clones of the engines' embedded maps, never into the maps themselves", []string{fi.Key}, sites, viol)
}
