package main

import (
	"go/types"
	"sort"
	"strings"

	"golang.org/x/tools/go/ssa"
)

// irMutation is a store that changes an already existing IR value (a definitions.* struct
// reached through a parameter, a loaded pointer, a slice element or a call result) as
// opposed to initialising a fresh local.
type irMutation struct {
	Fn    string
	Field string // qualified field, or "<elem>" for element/pointer stores
	Pos   string
	Root  string
}

func isDefinitionsStruct(t types.Type) (*types.Named, bool) {
	n, ok := derefNamed(t)
	if !ok || n.Obj().Pkg() == nil {
		return nil, false
	}
	if n.Obj().Pkg().Path() != modPath+"/definitions" {
		return nil, false
	}
	_, isStruct := n.Underlying().(*types.Struct)
	return n, isStruct
}

// addrRoot walks an address expression down to its root value.
func addrRoot(v ssa.Value) (root ssa.Value, throughIR bool) {
	for i := 0; i < 12 && v != nil; i++ {
		switch x := v.(type) {
		case *ssa.FieldAddr:
			if _, ok := isDefinitionsStruct(x.X.Type()); ok {
				throughIR = true
			}
			v = x.X
		case *ssa.IndexAddr:
			v = x.X
		default:
			return v, throughIR
		}
	}
	return v, throughIR
}

func (w *World) irMutations(pkgPrefixes []string) []irMutation {
	var out []irMutation
	for _, fn := range w.SSAFuncs {
		var pkgRel string
		if fn.Pkg != nil {
			pkgRel = short(fn.Pkg.Pkg.Path())
		} else if fn.Origin() != nil && fn.Origin().Pkg != nil {
			pkgRel = short(fn.Origin().Pkg.Pkg.Path())
		}
		match := false
		for _, p := range pkgPrefixes {
			if strings.HasPrefix(pkgRel, p) {
				match = true
			}
		}
		if !match {
			continue
		}
		for _, b := range fn.Blocks {
			for _, ins := range b.Instrs {
				// in-place filter idiom: s := irSlice[:0]; s = append(s, ...) overwrites the shared backing array
				if sl, isSlice := ins.(*ssa.Slice); isSlice {
					if k, isConst := sl.High.(*ssa.Const); isConst && k.Value != nil && k.Int64() == 0 {
						if st, isSl := sl.X.Type().Underlying().(*types.Slice); isSl {
							if _, isIR := isDefinitionsStruct(st.Elem()); isIR {
								root, _ := addrRoot(sl.X)
								if _, fresh := root.(*ssa.Alloc); !fresh {
									if _, mk := root.(*ssa.MakeSlice); !mk {
										out = append(out, irMutation{Fn: fnShort(fn), Field: "<in-place filter [:0]>", Pos: w.pos(sl.Pos()), Root: "existing slice"})
									}
								}
							}
						}
					}
					continue
				}
				st, ok := ins.(*ssa.Store)
				if !ok {
					continue
				}
				root, throughIR := addrRoot(st.Addr)
				// element type stored is an IR struct, or the address goes through an IR struct field
				elemIsIR := false
				if pt, ok := st.Addr.Type().Underlying().(*types.Pointer); ok {
					if _, ok := isDefinitionsStruct(pt.Elem()); ok {
						elemIsIR = true
					}
					if sl, ok := pt.Elem().Underlying().(*types.Slice); ok {
						if _, ok := isDefinitionsStruct(sl.Elem()); ok {
							elemIsIR = true
						}
					}
				}
				if !throughIR && !elemIsIR {
					continue
				}
				fresh := false
				switch r := root.(type) {
				case *ssa.Alloc:
					fresh = true
					_ = r
				}
				if fresh {
					continue
				}
				field := "<elem>"
				if fa, ok := st.Addr.(*ssa.FieldAddr); ok {
					if f := structFieldVar(fa.X.Type(), fa.Field); f != nil {
						field = f.Name()
						if n, ok := derefNamed(fa.X.Type()); ok {
							field = short(n.Obj().Pkg().Path()) + "." + n.Obj().Name() + "." + f.Name()
						}
					}
				}
				rootDesc := "?"
				switch r := root.(type) {
				case *ssa.Parameter:
					rootDesc = "param " + r.Name()
				case *ssa.UnOp:
					rootDesc = "loaded pointer"
				case *ssa.Call:
					rootDesc = "result of " + calleeName(r)
				case *ssa.Extract:
					rootDesc = "call result"
				case *ssa.Phi:
					rootDesc = "phi"
				case *ssa.FreeVar:
					rootDesc = "captured " + r.Name()
				case *ssa.MakeSlice, *ssa.Slice:
					// a slice made in this function: element stores initialise it
					if _, isMake := root.(*ssa.MakeSlice); isMake {
						continue
					}
					if sl, ok := root.(*ssa.Slice); ok {
						if _, isAlloc := sl.X.(*ssa.Alloc); isAlloc {
							continue
						}
					}
					rootDesc = "slice"
				}
				out = append(out, irMutation{Fn: fnShort(fn), Field: field, Pos: w.pos(st.Pos()), Root: rootDesc})
			}
		}
	}
	sort.Slice(out, func(i, j int) bool { return posLess(out[i].Pos, out[j].Pos) })
	return out
}
