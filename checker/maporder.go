package main

import (
	"fmt"
	"go/ast"
	"go/token"
	"go/types"
	"sort"
	"strings"
)

// RK-MO: sources of unspecified iteration order and their mechanical classification.

type orderSite struct {
	Fn      string // enclosing named function (short key)
	Kind    string // "range-map" | "call"
	What    string // expression ranged over / callee
	Pos     token.Pos
	Class   string // benign:<why> | sorted:<vars> | unclassified
	Effects []string
	Key     string // stable key: fn + kind + what (+ ordinal when repeated)
}

var taintedCallees = map[string]bool{
	"common.MapKeys": true, "maps.Keys": true, "maps.Values": true,
	"(reflect.Value).MapKeys": true, "(reflect.Value).MapRange": true,
}

func isTaintedCallee(name string) (bool, string) {
	if taintedCallees[name] {
		return true, name
	}
	if strings.Contains(name, "golang-set") || strings.Contains(name, "mapset") {
		for _, m := range []string{").ToSlice", ").Each", ").Iter", ").Iterator", ").Pop", ").String"} {
			if strings.HasSuffix(name, m) {
				return true, "Set" + strings.TrimSuffix(m, "")[1:]
			}
		}
	}
	return false, ""
}

// orderSites scans every analysed function.
func (w *World) orderSites(extraTainted map[string]bool) []orderSite {
	var out []orderSite
	fkeys := make([]string, 0, len(w.Funcs))
	for k := range w.Funcs {
		fkeys = append(fkeys, k)
	}
	sort.Strings(fkeys)
	count := map[string]int{}
	for _, k := range fkeys {
		fi := w.Funcs[k]
		if fi.Decl.Body == nil {
			continue
		}
		info := fi.Pkg.TypesInfo
		// a site inside a new function is attributed to the reviewed function(s) it is reached from
		mk := func(kind, what string, pos token.Pos) []orderSite {
			var ss []orderSite
			for _, host := range hostParts(w.hostKey(fi.Key)) {
				base := host + ":" + kind + "(" + what + ")"
				count[base]++
				key := base
				if count[base] > 1 {
					key = fmt.Sprintf("%s#%d", base, count[base])
				}
				ss = append(ss, orderSite{Fn: host, Kind: kind, What: what, Pos: pos, Key: key})
			}
			return ss
		}
		mapTypeOf := func(e ast.Expr) string {
			if t := info.TypeOf(e); t != nil {
				// the parameter of a generic new helper: the type the callers instantiate it with
				if id, ok := ast.Unparen(e).(*ast.Ident); ok && mentionsTypeParam(t) {
					w.buildASTNewIndex()
					if np, ok := w.newParams[info.Uses[id]]; ok && np.Idx >= 0 {
						for _, site := range w.astSites[np.Key] {
							if a := argOfSite(site, np.Idx); a != nil {
								if at := site.Fi.Pkg.TypesInfo.TypeOf(a); at != nil && !mentionsTypeParam(at) {
									return short(types.TypeString(at, nil))
								}
							}
						}
					}
				}
				return short(types.TypeString(t, nil))
			}
			return exprString(e)
		}
		// sort calls in the function: variable name -> positions
		sorted := map[string][]token.Pos{}
		ast.Inspect(fi.Decl, func(n ast.Node) bool {
			if c, ok := n.(*ast.CallExpr); ok && len(c.Args) > 0 {
				cn := calleeOfCall(info, c)
				if strings.HasPrefix(cn, "sort.") || strings.HasPrefix(cn, "slices.Sort") {
					// a sort establishes an order only if its key is a function of the elements'
					// content: positions in a token.FileSet (load order) and addresses are not
					if !unstableSortKey(info, c) {
						sorted[exprString(c.Args[0])] = append(sorted[exprString(c.Args[0])], c.Pos())
					}
				}
			}
			return true
		})
		sortedAfter := func(name string, after token.Pos) bool {
			for _, p := range sorted[name] {
				if p > after {
					return true
				}
			}
			return false
		}
		ast.Inspect(fi.Decl, func(n ast.Node) bool {
			switch x := n.(type) {
			case *ast.RangeStmt:
				t := info.TypeOf(x.X)
				if t == nil {
					return true
				}
				if _, isMap := t.Underlying().(*types.Map); !isMap {
					return true
				}
				eff := map[string]bool{}
				w.loopEffects(fi, x.Body, eff, x)
				for _, s := range mk("range-map", mapTypeOf(x.X), x.Pos()) {
					s.Effects = keys(eff)
					s.Class = classifyEffects(eff, func(v string) bool { return sortedAfter(v, x.End()) })
					out = append(out, s)
				}
			case *ast.CallExpr:
				cn := calleeOfCall(info, x)
				tainted, label := isTaintedCallee(cn)
				if !tainted && extraTainted[cn] {
					tainted, label = true, cn
				}
				if !tainted {
					return true
				}
				kind, what := "call", label
				if (cn == "maps.Keys" || cn == "maps.Values") && len(x.Args) == 1 {
					// the iterator form of ranging over the map
					kind, what = "range-map", mapTypeOf(x.Args[0])
				}
				class := "unclassified"
				var effects []string
				// where does the result go?
				outer := w.collectWrapper(fi, x)
				if w.sortedDirectly(fi, outer) {
					class = "sorted:in-place(slices.Sorted)"
				} else if dst := w.assignedTo(fi, outer); dst != "" {
					effects = []string{"assigned:" + dst}
					if sortedAfter(dst, x.End()) {
						class = "sorted:" + dst
					}
				}
				for _, s := range mk(kind, what, x.Pos()) {
					s.Class, s.Effects = class, effects
					out = append(out, s)
				}
			}
			return true
		})
	}
	return out
}

// parentCall: the call expression of which e is a direct argument, nil otherwise.
func parentCall(fi *FuncInfo, e ast.Expr) *ast.CallExpr {
	var res *ast.CallExpr
	ast.Inspect(fi.Decl, func(n ast.Node) bool {
		if c, ok := n.(*ast.CallExpr); ok {
			for _, a := range c.Args {
				if a == e {
					res = c
				}
			}
		}
		return res == nil
	})
	return res
}

// collectWrapper: slices.Collect(it) / slices.AppendSeq(s, it) materialise an iterator
// without ordering it: the enclosing call stands for the iterator call.
func (w *World) collectWrapper(fi *FuncInfo, call *ast.CallExpr) *ast.CallExpr {
	if p := parentCall(fi, call); p != nil {
		if n := calleeOfCall(fi.Pkg.TypesInfo, p); strings.HasPrefix(n, "slices.Collect") || strings.HasPrefix(n, "slices.AppendSeq") {
			return p
		}
	}
	return call
}

// sortedDirectly: the call is the argument of slices.Sorted / SortedFunc / SortedStableFunc.
func (w *World) sortedDirectly(fi *FuncInfo, call *ast.CallExpr) bool {
	if p := parentCall(fi, call); p != nil {
		n := calleeOfCall(fi.Pkg.TypesInfo, p)
		if strings.HasPrefix(n, "slices.Sorted") && !unstableSortKey(fi.Pkg.TypesInfo, p) {
			return true
		}
	}
	return false
}

// assignedTo returns the variable a call's result is assigned to, "" otherwise.
func (w *World) assignedTo(fi *FuncInfo, call *ast.CallExpr) string {
	res := ""
	ast.Inspect(fi.Decl, func(n ast.Node) bool {
		switch x := n.(type) {
		case *ast.AssignStmt:
			for i, r := range x.Rhs {
				if r == ast.Expr(call) && i < len(x.Lhs) {
					res = exprString(x.Lhs[i])
				}
			}
		case *ast.ValueSpec:
			for i, r := range x.Values {
				if r == ast.Expr(call) && i < len(x.Names) {
					res = x.Names[i].Name
				}
			}
		}
		return res == ""
	})
	return res
}

// loopEffects collects what a loop body does with each element.
func (w *World) loopEffects(fi *FuncInfo, body ast.Node, eff map[string]bool, loop *ast.RangeStmt) {
	info := fi.Pkg.TypesInfo
	ast.Inspect(body, func(n ast.Node) bool {
		switch x := n.(type) {
		case *ast.FuncLit:
			return false
		case *ast.AssignStmt:
			for i, l := range x.Lhs {
				switch lx := l.(type) {
				case *ast.IndexExpr:
					if _, isMap := info.TypeOf(lx.X).Underlying().(*types.Map); isMap {
						eff["mapwrite"] = true
					} else {
						eff["indexwrite:"+exprString(lx.X)] = true
					}
				case *ast.Ident:
					if lx.Name == "_" {
						continue
					}
					obj := info.Defs[lx]
					if obj != nil && x.Tok == token.DEFINE {
						continue // fresh local of this iteration
					}
					if obj == nil {
						obj = info.Uses[lx]
					}
					if obj != nil && obj.Pos() > loop.Pos() && obj.Pos() < loop.End() {
						continue // declared inside the loop
					}
					if i < len(x.Rhs) || len(x.Rhs) == 1 {
						rhs := x.Rhs[min(i, len(x.Rhs)-1)]
						if c, ok := rhs.(*ast.CallExpr); ok && calleeOfCall(info, c) == "builtin.append" && len(c.Args) > 0 && exprString(c.Args[0]) == lx.Name {
							eff["append:"+lx.Name] = true
							continue
						}
					}
					switch x.Tok {
					case token.ADD_ASSIGN, token.SUB_ASSIGN, token.OR_ASSIGN, token.AND_ASSIGN:
						if b, ok := info.TypeOf(lx).Underlying().(*types.Basic); ok && b.Info()&(types.IsInteger|types.IsBoolean) != 0 {
							eff["accum"] = true
							continue
						}
						eff["concat:"+lx.Name] = true
					default:
						if isBoolOrAccum(x, i) {
							eff["accum"] = true
						} else {
							eff["assign:"+lx.Name] = true
						}
					}
				case *ast.SelectorExpr:
					eff["fieldwrite:"+exprString(lx)] = true
				case *ast.StarExpr:
					eff["ptrwrite:"+exprString(lx.X)] = true
				}
			}
		case *ast.IncDecStmt:
			eff["accum"] = true
		case *ast.ReturnStmt:
			eff["return-in-loop"] = true
		case *ast.BranchStmt:
			if x.Tok == token.BREAK {
				eff["break"] = true
			}
		case *ast.ExprStmt:
			if c, ok := x.X.(*ast.CallExpr); ok {
				cn := calleeOfCall(info, c)
				switch {
				case cn == "builtin.delete":
					eff["mapwrite"] = true
				case strings.HasPrefix(cn, "infrastructure/logger."):
					eff["log"] = true
				case strings.HasSuffix(cn, ").Add") && (strings.Contains(cn, "golang-set") || strings.Contains(cn, "mapset")):
					eff["setadd"] = true
				case strings.Contains(cn, "OrderedMap[") && strings.HasSuffix(cn, ").Set"):
					eff["orderedmap-set"] = true
				case strings.Contains(cn, "strings.Builder).Write") || strings.HasPrefix(cn, "fmt.Fprint"):
					eff["text-output"] = true
				default:
					eff["call:"+cn] = true
				}
			}
		}
		return true
	})
}

func isBoolOrAccum(as *ast.AssignStmt, i int) bool {
	if i >= len(as.Rhs) {
		return false
	}
	if id, ok := as.Rhs[i].(*ast.Ident); ok && (id.Name == "true" || id.Name == "false") {
		return true // flag set: idempotent
	}
	return false
}

func classifyEffects(eff map[string]bool, sortedLater func(v string) bool) string {
	var appended []string
	for e := range eff {
		switch {
		case e == "mapwrite", e == "setadd", e == "accum", e == "log":
		case strings.HasPrefix(e, "append:"):
			appended = append(appended, strings.TrimPrefix(e, "append:"))
		default:
			return "unclassified"
		}
	}
	if len(appended) == 0 {
		return "benign:commutative-effects-only"
	}
	sort.Strings(appended)
	for _, v := range appended {
		if !sortedLater(v) {
			return "unclassified"
		}
	}
	return "sorted:" + strings.Join(appended, ",")
}

// unstableSortKey: the comparator of a sort call reads a value whose order depends on
// the run (token.Pos: assigned in load order; uintptr/unsafe.Pointer; %p formatting).
func unstableSortKey(info *types.Info, c *ast.CallExpr) bool {
	bad := false
	for _, a := range c.Args[1:] {
		// a token.Pos orders positions of ONE file (its base depends on load order): reading it
		// is fine once the comparator has compared the files themselves (a string field or
		// method named …Path / …File… / Filename) earlier in its text
		fileCompared := token.NoPos
		ast.Inspect(a, func(n ast.Node) bool {
			if se, ok := n.(*ast.SelectorExpr); ok {
				if t := info.TypeOf(se); t != nil && t.String() == "string" {
					if nm := se.Sel.Name; strings.Contains(nm, "Path") || strings.Contains(nm, "File") {
						if !fileCompared.IsValid() || se.Pos() < fileCompared {
							fileCompared = se.Pos()
						}
					}
				}
			}
			return true
		})
		ast.Inspect(a, func(n ast.Node) bool {
			e, ok := n.(ast.Expr)
			if !ok {
				return true
			}
			if t := info.TypeOf(e); t != nil {
				switch t.String() {
				case "go/token.Pos":
					if !(fileCompared.IsValid() && fileCompared < e.Pos()) {
						bad = true
					}
				case "uintptr", "unsafe.Pointer":
					bad = true
				}
			}
			// a key computed by a gleece function that prints a token.Pos into it (SymbolKey.BaseId:
			// "name@pos@path") is as run-dependent as the position itself
			if call, isCall := n.(*ast.CallExpr); isCall && curWorld != nil {
				if name := calleeOfCall(info, call); name != "" && curWorld.printsPos(name, 0) {
					if !(fileCompared.IsValid() && fileCompared < call.Pos()) {
						bad = true
					}
				}
			}
			if bl, ok := n.(*ast.BasicLit); ok && strings.Contains(bl.Value, "%p") {
				bad = true
			}
			return true
		})
	}
	return bad
}

// printsPos: the gleece function (or one it calls, two levels) formats a value of type
// token.Pos into a string.
func (w *World) printsPos(key string, depth int) bool {
	fi := w.Funcs[key]
	if fi == nil || fi.Decl.Body == nil || depth > 2 {
		return false
	}
	if r, ok := w.printsPosMemo[key]; ok {
		return r
	}
	if w.printsPosMemo == nil {
		w.printsPosMemo = map[string]bool{}
	}
	w.printsPosMemo[key] = false
	info := fi.Pkg.TypesInfo
	found := false
	ast.Inspect(fi.Decl.Body, func(n ast.Node) bool {
		call, ok := n.(*ast.CallExpr)
		if !ok || found {
			return !found
		}
		name := calleeOfCall(info, call)
		if strings.HasPrefix(name, "fmt.Sprint") || strings.HasPrefix(name, "fmt.Append") || strings.HasPrefix(name, "strconv.") {
			for _, a := range call.Args {
				if containsNode(a, func(m ast.Node) bool {
					e, ok := m.(ast.Expr)
					if !ok {
						return false
					}
					t := info.TypeOf(e)
					return t != nil && t.String() == "go/token.Pos"
				}) {
					found = true
				}
			}
		} else if name != "" && w.printsPos(name, depth+1) {
			found = true
		}
		return !found
	})
	w.printsPosMemo[key] = found
	return found
}

func mentionsTypeParam(t types.Type) bool {
	found := false
	var walk func(t types.Type, d int)
	walk = func(t types.Type, d int) {
		if t == nil || found || d > 6 {
			return
		}
		switch x := t.(type) {
		case *types.TypeParam:
			found = true
		case *types.Map:
			walk(x.Key(), d+1)
			walk(x.Elem(), d+1)
		case *types.Slice:
			walk(x.Elem(), d+1)
		case *types.Array:
			walk(x.Elem(), d+1)
		case *types.Pointer:
			walk(x.Elem(), d+1)
		case *types.Named:
			if ta := x.TypeArgs(); ta != nil {
				for i := 0; i < ta.Len(); i++ {
					walk(ta.At(i), d+1)
				}
			}
		}
	}
	walk(t, 0)
	return found
}
