package main

import (
	"encoding/json"
	"fmt"
	"os"
	"path/filepath"
	"sort"
	"strings"
	"time"
)

// Status of one obligation.
type Status string

const (
	Discharged Status = "discharged"
	Violated   Status = "violated"
	Undecided  Status = "undecided" // counts as a failure (never a silent pass)
)

// Obligation is one (rule kind, instance) pair evaluated against /repo.
type Obligation struct {
	Property   string   `json:"property"`
	Clause     string   `json:"clause"`  // e.g. "C01.a"
	Rule       string   `json:"rule"`    // rule kind, e.g. "each-iteration"
	Key        string   `json:"key"`     // stable key: rule + construct (never a line number)
	Desc       string   `json:"desc"`    // human readable statement of what must hold
	Anchors    []string `json:"anchors"` // resolved constructs the rule talks about
	Sites      []string `json:"sites"`   // file:line of everything inspected
	Status     Status   `json:"status"`
	Message    string   `json:"message,omitempty"` // why violated / undecided
	NonTrivial bool     `json:"nontrivial"`        // rule reasoned about >1 path / element / site
	Tier       string   `json:"tier,omitempty"`    // "thorough" if only evaluated in thorough tier
	Known      string   `json:"known_finding,omitempty"`
}

// Report accumulates obligations for one property.
type Report struct {
	Property   string
	Obls       []*Obligation
	Assume     []string
	NotDecided []string
	Counters   map[string]int
}

func newReport(prop string) *Report {
	return &Report{Property: prop, Counters: map[string]int{}}
}

func (r *Report) count(name string, n int) { r.Counters[name] += n }

// add registers an obligation; status is decided by msg: "" = discharged.
func (r *Report) add(clause, rule, key, desc string, anchors, sites []string, violation string) *Obligation {
	o := &Obligation{
		Property: r.Property, Clause: clause, Rule: rule,
		Key:  rule + ":" + key,
		Desc: desc, Anchors: anchors, Sites: dedupSorted(sites),
		Status: Discharged, NonTrivial: len(sites) > 1,
	}
	if violation != "" {
		o.Status = Violated
		o.Message = violation
	}
	r.Obls = append(r.Obls, o)
	return o
}

func (r *Report) undecided(clause, rule, key, desc string, why string) *Obligation {
	o := &Obligation{Property: r.Property, Clause: clause, Rule: rule, Key: rule + ":" + key, Desc: desc, Status: Undecided, Message: why}
	r.Obls = append(r.Obls, o)
	return o
}

func dedupSorted(in []string) []string {
	m := map[string]bool{}
	out := []string{}
	for _, s := range in {
		if s == "" || m[s] {
			continue
		}
		m[s] = true
		out = append(out, s)
	}
	sort.Slice(out, func(i, j int) bool { return posLess(out[i], out[j]) })
	return out
}

// posLess orders "file:line[:col] ..." strings numerically on the line.
func posLess(a, b string) bool {
	fa, la := splitPos(a)
	fb, lb := splitPos(b)
	if fa != fb {
		return fa < fb
	}
	if la != lb {
		return la < lb
	}
	return a < b
}

func splitPos(s string) (string, int) {
	parts := strings.SplitN(s, ":", 3)
	if len(parts) < 2 {
		return s, 0
	}
	n := 0
	fmt.Sscanf(parts[1], "%d", &n)
	return parts[0], n
}

// ---------------------------------------------------------------------------
// Known findings

type KnownFinding struct {
	Property     string `json:"property"`
	Key          string `json:"key"` // obligation key (rule:construct)
	WhatFails    string `json:"what_fails"`
	FailingInput string `json:"failing_input"`
}

type FixedEntry struct {
	Property string `json:"property"`
	Commit   string `json:"commit"`
	What     string `json:"what_failed"`
	Key      string `json:"key,omitempty"`
}

type KnownFile struct {
	Findings []KnownFinding `json:"findings"`
	Fixed    []FixedEntry   `json:"fixed"`
}

func loadKnown(path string) (*KnownFile, error) {
	kf := &KnownFile{}
	b, err := os.ReadFile(path)
	if err != nil {
		if os.IsNotExist(err) {
			return kf, nil
		}
		return nil, err
	}
	if err := json.Unmarshal(b, kf); err != nil {
		return nil, err
	}
	return kf, nil
}

// ---------------------------------------------------------------------------
// Evidence + verdict

type evidence struct {
	PropertyID  string         `json:"property_id"`
	Tier        string         `json:"tier"`
	Seed        int            `json:"seed"`
	Level       string         `json:"level"`
	Coverage    map[string]any `json:"coverage"`
	Assumptions []string       `json:"assumptions"`
	WallS       float64        `json:"wall_s"`
	Violations  int            `json:"violations"`
}

// finish prints verdict lines, writes evidence and replay files; returns exit code.
func (r *Report) finish(verifDir, tier string, seed int, started time.Time, known *KnownFile, stats map[string]int, explanation string) int {
	knownByKey := map[string]KnownFinding{}
	for _, k := range known.Findings {
		if k.Property == r.Property {
			knownByKey[k.Key] = k
		}
	}
	usedKnown := map[string]bool{}

	sort.SliceStable(r.Obls, func(i, j int) bool {
		if r.Obls[i].Clause != r.Obls[j].Clause {
			return r.Obls[i].Clause < r.Obls[j].Clause
		}
		return r.Obls[i].Key < r.Obls[j].Key
	})

	nViol, nKnown, nDis, nNonTriv := 0, 0, 0, 0
	sitesSeen := map[string]bool{}
	os.MkdirAll(filepath.Join(verifDir, "replay"), 0o755)
	os.MkdirAll(filepath.Join(verifDir, "evidence"), 0o755)
	// remove stale replay files of this property
	if old, _ := filepath.Glob(filepath.Join(verifDir, "replay", r.Property+"-*.json")); old != nil {
		for _, f := range old {
			os.Remove(f)
		}
	}
	knownLines := []string{}
	for _, o := range r.Obls {
		for _, s := range o.Sites {
			sitesSeen[s] = true
		}
		if o.NonTrivial {
			nNonTriv++
		}
		switch o.Status {
		case Discharged:
			nDis++
		default:
			if k, ok := knownByKey[o.Key]; ok && o.Status == Violated {
				o.Known = k.WhatFails
				usedKnown[o.Key] = true
				nKnown++
				line := fmt.Sprintf("KNOWN-FINDING: property=%s %s [%s] %s", r.Property, o.Key, k.WhatFails, strings.Join(o.Sites, " "))
				fmt.Println(line)
				knownLines = append(knownLines, line)
				continue
			}
			nViol++
			safe := strings.NewReplacer("/", "_", ":", "_", " ", "_", "*", "", "(", "", ")", "", "{", "", "}", "", "\"", "", "'", "").Replace(o.Key)
			if len(safe) > 120 {
				safe = safe[:120]
			}
			rp := filepath.Join(verifDir, "replay", fmt.Sprintf("%s-%s.json", r.Property, safe))
			b, _ := json.MarshalIndent(o, "", "  ")
			os.WriteFile(rp, b, 0o644)
			fmt.Printf("%s %s clause=%s rule=%s key=%s\n    %s\n    sites: %s\n", strings.ToUpper(string(o.Status)), r.Property, o.Clause, o.Rule, o.Key, o.Message, strings.Join(o.Sites, " "))
			fmt.Printf("VIOLATION property=%s replay=%s\n", r.Property, rp)
		}
	}
	// A listed known finding that no longer reproduces is reported (informational, not a failure):
	stale := []string{}
	for k := range knownByKey {
		if !usedKnown[k] {
			stale = append(stale, k)
		}
	}
	sort.Strings(stale)
	for _, k := range stale {
		fmt.Printf("NOTE: known finding %s of %s did not reproduce on this tree (repaired or construct gone)\n", k, r.Property)
	}

	samples := []any{}
	for i, o := range r.Obls {
		if i < 400 {
			samples = append(samples, o)
		}
	}
	cov := map[string]any{
		"explanation":         explanation,
		"obligations":         len(r.Obls),
		"discharged":          nDis,
		"known_findings":      nKnown,
		"new_violations":      nViol,
		"evaluations":         len(sitesSeen),
		"distinct_nontrivial": nNonTriv,
		"rule":                "one evaluation = one distinct source site (file:line) inspected by some obligation; an obligation is non-trivial when its rule had to reason about more than one site (several paths, elements, call sites or sibling implementations)",
		"samples":             samples,
		"exhaustive":          true,
		"not_decided":         r.NotDecided,
		"known_finding_lines": knownLines,
		"stale_known":         stale,
		"checker_cmd":         "./run.sh " + tier + " " + r.Property,
	}
	for k, v := range stats {
		cov[k] = v
	}
	for k, v := range r.Counters {
		cov[k] = v
	}
	if r.Assume == nil {
		r.Assume = []string{}
	}
	if r.NotDecided == nil {
		r.NotDecided = []string{}
		cov["not_decided"] = r.NotDecided
	}
	ev := evidence{
		PropertyID: r.Property, Tier: tier, Seed: seed, Level: "other",
		Coverage: cov, Assumptions: r.Assume,
		WallS: time.Since(started).Seconds(), Violations: nViol,
	}
	b, _ := json.MarshalIndent(ev, "", " ")
	if err := os.WriteFile(filepath.Join(verifDir, "evidence", r.Property+".json"), b, 0o644); err != nil {
		fmt.Fprintf(os.Stderr, "cannot write evidence: %v\n", err)
		return 2
	}
	fmt.Printf("SUMMARY property=%s tier=%s obligations=%d discharged=%d known=%d violations=%d sites=%d wall=%.1fs\n",
		r.Property, tier, len(r.Obls), nDis, nKnown, nViol, len(sitesSeen), time.Since(started).Seconds())
	if nViol > 0 {
		return 1
	}
	return 0
}
