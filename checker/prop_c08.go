package main

import (
	"fmt"
	"go/ast"
	"go/token"
	"go/types"
	"reflect"
	"strings"

	"golang.org/x/tools/go/ssa"
)

func init() {
	register("C08", "Static structural obligations for 'whenever a spec is emitted it is a valid, closed document': validation calls dominate every non-failing return of the three GenerateSpec functions, the spec file is written only after a successful GenerateSpec and with its result, config sections flow into the document, every response literal carries a description, and enum literals are typed. Decides the presence and placement of the validators, not what the validators accept.", checkC08)
}

func checkC08(c *Ctx, r *Report) {
	// "the command fails instead of writing an invalid document": a rejected document is a non-zero exit (shared with C14.d, C20.a)
	defer checkCommandExitStatus(c, r, "C08.a")
	defer func() { ruleSkipInventory(c, r, "C08.d", loadSkipTable(c.VerifDir), 1, "generator/swagen") }()
	defer checkOrderedJSONIsEncoderOutput(c, r, "C08.b")
	// enum values, formats and bounds written for ONE usage must not land in the shared component
	// (the component would then carry values of another type than its own): no write through a $ref
	defer checkAliasWritesAs(c, r, "C08.e")
	defer func() { ruleRegexInventory(c, r, "C08.d", "core/validators", "common") }()
	w := c.W
	r.NotDecided = append(r.NotDecided,
		"$ref closure, path-template/parameter matching and parameter uniqueness for arbitrary inputs are delegated to kin-openapi Validate / libopenapi-validator; only the presence of those calls on every success path is decided",
		"what the third-party validators themselves accept")
	r.Assume = append(r.Assume,
		"kin-openapi (*T).Validate and libopenapi-validator ValidateDocument reject invalid documents as documented",
		"call resolution is static (typeutil / ssa.StaticCallee); reflection is not modelled")

	const g30 = "generator/swagen/swagen30.GenerateSpec"
	const g31 = "generator/swagen/swagen31.GenerateSpec"
	const gm = "generator/swagen.GenerateSpec"
	const gout = "generator/swagen.GenerateAndOutputSpec"

	// C08.a validation on every success path
	ruleMustCallOK(c, r, "C08.a", g30, "(*"+pkgKin+".T).Validate", -1, "3.0: every non-failing return passed openapi.Validate(ctx) with err == nil")
	if fi := need(c, r, "C08.a", g30); fi != nil {
		// Validate dominates json.Marshal
		vals := callsIn(fi.SSA, false, nameIs("(*"+pkgKin+".T).Validate"))
		mars := callsIn(fi.SSA, false, nameIs("encoding/json.Marshal"))
		viol := ""
		var sites []string
		if len(vals) == 0 || len(mars) == 0 {
			viol = "Validate or json.Marshal call not found in " + g30
		}
		for _, m := range mars {
			sites = append(sites, w.pos(m.Pos()))
			dom := false
			for _, v := range vals {
				sites = append(sites, w.pos(v.Pos()))
				if instrDominates(v.(ssa.Instruction), m.(ssa.Instruction)) {
					dom = true
				}
			}
			if !dom {
				viol = fmt.Sprintf("%s: json.Marshal of the document is not dominated by openapi.Validate", w.pos(m.Pos()))
			}
		}
		r.add("C08.a", "mustcall", g30+":Validate-before-Marshal", "3.0: validation dominates marshalling", []string{g30}, sites, viol)
	}
	ruleMustCallOK(c, r, "C08.a", g31, "github.com/pb33f/libopenapi.NewDocument", -1, "3.1: every non-failing return passed libopenapi.NewDocument with err == nil")
	ruleMustCallOK(c, r, "C08.a", g31, "github.com/pb33f/libopenapi-validator.NewValidator", -1, "3.1: every non-failing return passed validator.NewValidator with errs == nil")
	ruleMustCallOK(c, r, "C08.a", g31, "(github.com/pb33f/libopenapi-validator.Validator).ValidateDocument", 0, "3.1: every non-failing return passed ValidateDocument with succeeded == true")
	if fi := need(c, r, "C08.a", g31); fi != nil {
		// the bytes returned are the bytes validated
		nd := callsIn(fi.SSA, false, nameIs("github.com/pb33f/libopenapi.NewDocument"))
		viol := ""
		var sites []string
		if len(nd) != 1 {
			viol = fmt.Sprintf("expected exactly one NewDocument call, found %d", len(nd))
		} else {
			validated := nd[0].Common().Args[0]
			sites = append(sites, w.pos(nd[0].Pos()))
			for _, ex := range exitsOf(fi.SSA) {
				if ex.Kind == exitFailure || ex.Kind == exitPanic || ex.Ret == nil {
					continue
				}
				sites = append(sites, w.pos(retPos(ex)))
				if !sameValue(ex.Ret.Results[0], validated) {
					viol = fmt.Sprintf("%s: the bytes returned on success are not the value passed to libopenapi.NewDocument (validated bytes != emitted bytes)", w.pos(retPos(ex)))
				}
			}
		}
		r.add("C08.a", "fieldflow", g31+":returned==validated", "3.1: the value returned is the value validated", []string{g31}, sites, viol)
	}
	ruleMustCallOK(c, r, "C08.a", gm, "generator/swagen/swagen30.GenerateSpec", -1, "manager: every non-failing return (both version arms) first passed the 3.0 generation+validation with err == nil")

	// unknown version => error: default arm of the version switch returns a failure
	if fi := need(c, r, "C08.a", gm); fi != nil {
		// whatever the form of the dispatch: every return that is not a failure happens where
		// config.OpenAPI is known to equal one of the supported versions; everywhere else
		// (the default arm, the fall-through after the if-chain) the function fails
		viol := ""
		var sites []string
		nVersioned := 0
		for _, ex := range exitsOf(fi.SSA) {
			if ex.Ret == nil || ex.Kind == exitFailure {
				if ex.Ret != nil {
					sites = append(sites, w.pos(retPos(ex)))
				}
				continue
			}
			blk := ex.Block
			if ex.Pred != nil {
				blk = ex.Pred
			}
			known := false
			for _, f := range dominatingFacts(blk) {
				cnd, pol := unwrapNot(f.Cond, f.Pol)
				bo, ok := cnd.(*ssa.BinOp)
				if !ok {
					continue
				}
				if a := sliceOf(cnd); a.hasFieldNamed("OpenAPI") && len(a.Consts) > 0 && ((bo.Op == token.EQL && pol) || (bo.Op == token.NEQ && !pol)) {
					known = true
				}
			}
			sites = append(sites, w.pos(retPos(ex)))
			if known {
				nVersioned++
			} else {
				viol = fmt.Sprintf("%s: a return that is not a failure is reachable without config.OpenAPI having matched a supported version: an unknown version would yield bytes (or silently nothing)", w.pos(retPos(ex)))
			}
		}
		if nVersioned == 0 && viol == "" {
			viol = "no version-specific return found in " + gm
		}
		r.add("C08.a", "mustcall", gm+":unknown-version-is-error", "manager: unknown OpenAPI version yields an error, never bytes", []string{gm}, sites, viol)
	}

	// C08.b write only after success, and write the generated bytes
	ruleWriteAfterOK(c, r, "C08.b", gout, "generator/swagen.GenerateSpec", "spec file is written only after GenerateSpec returned err == nil")
	ruleSiteAfterOK(c, r, "C08.b", gout, "os.MkdirAll", "generator/swagen.GenerateSpec", -1, "output directory is created only after GenerateSpec returned err == nil")
	if fi := need(c, r, "C08.b", gout); fi != nil {
		viol := ""
		var sites []string
		wf := w.fileWritesOf(fi.SSA, 0)
		for _, fw := range wf {
			sites = append(sites, w.pos(fw.Site.Pos()))
			data := stripTrivial(fw.Data)
			ex, ok := data.(*ssa.Extract)
			if !ok || ex.Index != 0 {
				viol = fmt.Sprintf("%s: data written is not result #0 of GenerateSpec", w.pos(fw.Site.Pos()))
				continue
			}
			call, ok := ex.Tuple.(*ssa.Call)
			if !ok || calleeName(call) != "generator/swagen.GenerateSpec" {
				viol = fmt.Sprintf("%s: data written is not result #0 of GenerateSpec", w.pos(fw.Site.Pos()))
			}
			pathAtoms := fw.PathAtoms
			if !pathAtoms.hasFieldNamed("OutputPath") || !pathAtoms.hasFieldNamed("SpecGeneratorConfig") || len(pathAtoms.Consts) > 0 {
				viol = fmt.Sprintf("%s: path written is not config.SpecGeneratorConfig.OutputPath itself (fields %v, constants %v)", w.pos(fw.Site.Pos()), pathAtoms.fieldNames(), pathAtoms.Consts)
			}
			if !fw.Truncates {
				viol = fmt.Sprintf("%s: the spec is written with %s without O_TRUNC: regenerating a smaller document over an existing file leaves the new JSON followed by stale bytes - an unparsable spec - while the command succeeds", w.pos(fw.Site.Pos()), fw.Via)
			}
		}
		if len(wf) != 1 {
			viol = fmt.Sprintf("expected exactly one file write in %s, found %d", gout, len(wf))
		}
		r.add("C08.b", "fieldflow", gout+":WriteFile(data,path)", "the bytes written are GenerateSpec's result, the path is SpecGeneratorConfig.OutputPath and the file is truncated", []string{gout}, sites, viol)
	}
	// the only function in swagen* that touches the file system for writing
	ruleWhoCalls(c, r, "C08.b", func(n string) bool {
		return n == "os.WriteFile" || n == "os.Create" || n == "os.OpenFile" || n == "(*os.File).Write" || n == "(*os.File).WriteString"
	}, "file-write sinks (os.WriteFile/Create/OpenFile/File.Write*)",
		[]string{gout, "generator/routes.GenerateRoutes", "cmd.writeOutput", "cmd.dumpGraph"}, 2,
		"files are written only by the spec writer, the routes writer and the dump command")

	// C08.c config sections copied
	checkEnumMembersTyped(c, r, "C08.b")
	checkInfoCopied(c, r, "C08.c", g30, g31)
	checkInfoSectionsIndependent(c, r, "C08.c", g30, g31)
	// ... and the configuration they are copied from is the file as written (shared with C20.a)
	checkConfigDecodedAsRead(c, r, "C08.c")
	// security/model/controller sub-generators are on every success path
	for _, sub := range []string{"GenerateSecuritySpec", "GenerateModelsSpec", "GenerateControllersSpec"} {
		ruleMustCallOK(c, r, "C08.c", g30, "generator/swagen/swagen30."+sub, -1, "3.0: "+sub+" ran without error before a document is returned")
		ruleMustCallOK(c, r, "C08.c", g31, "generator/swagen/swagen31."+sub, -1, "3.1: "+sub+" ran without error before a document is returned")
	}

	// securitySchemes are those of the configuration (shared rule with C04.c)
	for _, e := range emitters {
		checkSecuritySchemes(c, r, "C08.c", e.Ver, e.Pkg)
		// every path a route is served under is a key of the document, with that route's operation
		// and parameters under it (what the document validation judges) - shared with C01.b
		checkPathItemOwnership(c, r, "C08.d", e.Ver, e.Pkg, e.Pkg+".setNewRouteOperation")
	}

	// the emitters read the IR, they never rewrite it (3.1 runs after 3.0 on the same slices)
	ruleNoIRMutation(c, r, "C08.c")
	checkManagerPassThrough(c, r, "C08.a")

	// closure of security requirements: a name used by an operation is a declared scheme (shared with C04.b)
	checkSchemeMembership(c, r, "C08.f")
	// info.contact / info.license are copied whenever they are configured (nil test on the section itself)
	for _, e := range emitters {
		fnk := e.Pkg + ".GenerateSpec"
		fi := need(c, r, "C08.c", fnk)
		if fi == nil {
			continue
		}
		viol := ""
		var sites []string
		n := 0
		allInstrs(fi.SSA, false, func(_ *ssa.Function, _ *ssa.BasicBlock, _ int, ins ssa.Instruction) {
			st, ok := ins.(*ssa.Store)
			if !ok {
				return
			}
			fa, ok := st.Addr.(*ssa.FieldAddr)
			if !ok {
				return
			}
			fv := structFieldVar(fa.X.Type(), fa.Field)
			if fv == nil || (fv.Name() != "Contact" && fv.Name() != "License") {
				return
			}
			n++
			sites = append(sites, w.pos(st.Pos()))
			okGuard := false
			for _, f := range guardsOf(st) {
				cnd, p := unwrapNot(f.Cond, f.Pol)
				if bo, isB := cnd.(*ssa.BinOp); isB && ((bo.Op == token.NEQ && p) || (bo.Op == token.EQL && !p)) && (isNilConst(bo.X) || isNilConst(bo.Y)) {
					if a := sliceOf(cnd); a.hasFieldNamed(fv.Name()) && len(a.Calls) == 0 {
						okGuard = true
					}
				}
			}
			if !okGuard {
				viol = fmt.Sprintf("%s: info.%s is copied under a condition other than `config.Info.%s != nil`: a configured section can then be missing from the document (e.g. an e-mail-only contact judged `empty`)", w.pos(st.Pos()), strings.ToLower(fv.Name()), fv.Name())
			}
		})
		if n != 2 {
			viol = fmt.Sprintf("expected assignments of Info.Contact and Info.License in %s, found %d", fnk, n)
		}
		r.add("C08.c", "guardedby", fnk+":contact+license-iff-configured", e.Ver+": contact and license appear in the document exactly when the configuration has them", []string{fnk}, sites, viol)
	}

	// C08.f precondition of the delegated $ref-closure check
	checkRefConstruction(c, r)

	// C08.d every response literal has a description
	for _, e := range []struct {
		pkgRel string
		owner  *types.Named
	}{{"generator/swagen/swagen30", w.extType(pkgKin, "Response")}, {"generator/swagen/swagen31", w.extType(pkgV3, "Response")}} {
		viol := ""
		var sites []string
		n := 0
		if e.owner == nil {
			r.undecided("C08.d", "fieldflow", e.pkgRel+":Response.Description", "", "Response type not found")
			continue
		}
		for _, fi := range w.funcsOfPkg(e.pkgRel) {
			w.inspectRegion(fi, func(nd ast.Node) bool {
				cl, ok := nd.(*ast.CompositeLit)
				if !ok {
					return true
				}
				nt, ok := derefNamed(fi.Pkg.TypesInfo.TypeOf(cl))
				if !ok || nt.Obj() != e.owner.Obj() {
					return true
				}
				n++
				sites = append(sites, w.pos(cl.Pos()))
				has := false
				for _, el := range cl.Elts {
					if kv, ok := el.(*ast.KeyValueExpr); ok {
						if id, ok := kv.Key.(*ast.Ident); ok && id.Name == "Description" {
							has = true
							// 3.1: must pass through ToResponseDescription (libopenapi drops empty descriptions)
							if e.pkgRel == "generator/swagen/swagen31" {
								at := w.exprAtoms(fi, kv.Value)
								if !at.Calls["generator/swagen/swagen31.ToResponseDescription"] {
									viol = fmt.Sprintf("%s: 3.1 response description does not pass through ToResponseDescription (an empty description would be omitted and the document rejected or invalid)", w.pos(kv.Pos()))
								}
							}
						}
					}
				}
				if !has {
					viol = fmt.Sprintf("%s: Response literal without Description (required by OpenAPI)", w.pos(cl.Pos()))
				}
				return true
			})
		}
		if n < 2 {
			viol = fmt.Sprintf("expected >= 2 Response literals in %s, found %d", e.pkgRel, n)
		}
		r.add("C08.d", "fieldflow", e.pkgRel+":Response.Description", "every Response literal sets Description", []string{e.pkgRel}, sites, viol)
	}

	// C08.e typed enum values
	checkTypedEnum30(c, r)
	checkTypedEnum31(c, r)
}

// sameValue: a and b are the same SSA value (modulo trivial wrappers).
func sameValue(a, b ssa.Value) bool {
	return stripTrivial(a) == stripTrivial(b)
}

func stripTrivial(v ssa.Value) ssa.Value {
	return stripTrivialSeen(v, map[ssa.Value]bool{})
}

func stripTrivialSeen(v ssa.Value, seen map[ssa.Value]bool) ssa.Value {
	for {
		if seen[v] {
			return v
		}
		switch x := v.(type) {
		case *ssa.ChangeType:
			v = x.X
		case *ssa.Phi:
			// phi of identical values (loop phis refer to themselves: visited set)
			seen[v] = true
			var first ssa.Value
			same := true
			for _, e := range x.Edges {
				e = stripTrivialSeen(e, seen)
				if e == v {
					continue
				}
				if first == nil {
					first = e
				} else if first != e {
					same = false
				}
			}
			if same && first != nil && first != v {
				v = first
				continue
			}
			return v
		default:
			return v
		}
	}
}

// 3.0: generateEnumSpec must not box every enum value as a string when the schema
// type is computed from the model (not the constant "string").
func checkTypedEnum30(c *Ctx, r *Report) {
	const fn = "generator/swagen/swagen30.generateEnumSpec"
	fi := need(c, r, "C08.e", fn)
	if fi == nil {
		return
	}
	w := c.W
	schema := w.extType(pkgKin, "Schema")
	sinks := w.fieldSinks(fi, schema, "Enum")
	var sites []string
	viol := ""
	if len(sinks) == 0 {
		viol = "no assignment to Schema.Enum in " + fn
	}
	// type operand
	tsinks := w.fieldSinks(fi, schema, "Type")
	typeIsConstString := len(tsinks) > 0
	for _, t := range tsinks {
		at := w.exprAtoms(fi, t.Expr)
		if len(at.Fields) > 0 || len(at.Calls) > 0 {
			typeIsConstString = false
		}
	}
	// collect MakeInterface operands that flow into append(...) of []any in this function
	onlyStrings := true
	nBox := 0
	convCalls := false
	allInstrs(fi.SSA, true, func(_ *ssa.Function, _ *ssa.BasicBlock, _ int, ins ssa.Instruction) {
		if mi, ok := ins.(*ssa.MakeInterface); ok {
			nBox++
			sites = append(sites, w.pos(mi.Pos()))
			if b, ok := mi.X.Type().Underlying().(*types.Basic); !ok || b.Kind() != types.String {
				onlyStrings = false
			}
		}
		if cl, ok := ins.(ssa.CallInstruction); ok {
			switch calleeName(cl) {
			case "strconv.ParseInt", "strconv.ParseFloat", "strconv.ParseBool", "strconv.Atoi", "strconv.ParseUint":
				convCalls = true
			}
		}
	})
	for _, s := range sinks {
		sites = append(sites, w.pos(s.Pos))
	}
	if viol == "" && !typeIsConstString && nBox > 0 && onlyStrings && !convCalls {
		viol = fmt.Sprintf("%s: schema type is computed from the enum's Go type but every enum literal is emitted as a JSON string (integer/number enums get string values, e.g. \"type\":\"integer\",\"enum\":[\"1\",\"2\"])", w.pos(fi.Decl.Pos()))
	}
	r.add("C08.e", "typed-enum", fn, "3.0 enum literals are converted according to the schema type", []string{fn}, sites, viol)
}

// 3.1: the yaml.Node literals built for enum values must carry a Tag chosen from the type.
func checkTypedEnum31(c *Ctx, r *Report) {
	const fn = "generator/swagen/swagen31.generateEnumsSpec"
	fi := need(c, r, "C08.e", fn)
	if fi == nil {
		return
	}
	w := c.W
	node := w.extType("go.yaml.in/yaml/v4", "Node")
	if node == nil {
		r.undecided("C08.e", "typed-enum", fn, "", "yaml.Node type not found")
		return
	}
	var sites []string
	n := 0
	w.inspectRegion(fi, func(nd ast.Node) bool {
		if cl, ok := nd.(*ast.CompositeLit); ok {
			if nt, ok := derefNamed(fi.Pkg.TypesInfo.TypeOf(cl)); ok && nt.Obj() == node.Obj() {
				n++
				sites = append(sites, w.pos(cl.Pos()))
			}
		}
		return true
	})
	tags := w.fieldSinks(fi, node, "Tag")
	viol := ""
	if n == 0 {
		viol = "no yaml.Node literal in " + fn
	} else if len(tags) == 0 {
		viol = fmt.Sprintf("%s: enum value nodes are built without a Tag although the schema type is computed from the enum's Go type: scalars are re-typed by YAML resolution (a string enum whose constants look numeric is emitted as numbers; BuildSchemaValidationV31's oneof arm sets !!int/!!float, this function does not)", w.pos(fi.Decl.Pos()))
	}
	r.add("C08.e", "typed-enum", fn, "3.1 enum value nodes carry a type tag", []string{fn}, sites, viol)
}

// checkRefConstruction (C08.f): $ref closure is delegated to kin-openapi's validator,
// which reports an unresolved reference only for a SchemaRef whose Value is nil. Hence a
// SchemaRef that carries a Ref must be born without a Value, and may only receive a Value
// that was looked up in components.schemas. Otherwise a dangling $ref is marshalled and
// written instead of failing the command.
func checkRefConstruction(c *Ctx, r *Report) {
	w := c.W
	sref := w.extType(pkgKin, "SchemaRef")
	if sref == nil {
		r.undecided("C08.f", "ref-closure", "swagen30:SchemaRef", "", "openapi3.SchemaRef not found")
		return
	}
	var sites []string
	viol := ""
	nRef := 0
	for _, fi := range w.funcsOfPkg("generator/swagen/swagen30") {
		info := fi.Pkg.TypesInfo
		fd := w.defsOf(fi)
		// (1) every place that sets Ref
		for _, sk := range w.fieldSinks(fi, sref, "Ref") {
			if tv := info.Types[sk.Expr]; tv.Value != nil && constString(tv.Value) == "" {
				continue
			}
			nRef++
			sites = append(sites, w.pos(sk.Pos))
		}
		w.inspectRegion(fi, func(n ast.Node) bool {
			switch x := n.(type) {
			case *ast.CompositeLit:
				nt, ok := derefNamed(info.TypeOf(x))
				if !ok || nt.Obj() != sref.Obj() {
					return true
				}
				hasRef, hasValue := false, false
				for _, el := range x.Elts {
					if kv, ok := el.(*ast.KeyValueExpr); ok {
						switch kv.Key.(*ast.Ident).Name {
						case "Ref":
							hasRef = true
						case "Value":
							hasValue = true
						}
					}
				}
				if hasRef && hasValue {
					viol = fmt.Sprintf("%s: SchemaRef literal sets both Ref and Value: a dangling $ref would not be detected by the validator", w.pos(x.Pos()))
				}
			case *ast.AssignStmt:
				for i, l := range x.Lhs {
					se, ok := l.(*ast.SelectorExpr)
					if !ok {
						continue
					}
					sel := info.Selections[se]
					if sel == nil || sel.Kind() != types.FieldVal {
						continue
					}
					if nt, ok := derefNamed(sel.Recv()); !ok || nt.Obj() != sref.Obj() {
						continue
					}
					switch se.Sel.Name {
					case "Ref":
						// x.Ref = ... : x must be a fresh SchemaRef literal without Value
						fresh := false
						if id, ok := se.X.(*ast.Ident); ok {
							obj := info.Uses[id]
							ds := fd.defs[obj]
							fresh = len(ds) > 0
							for _, d := range ds {
								if d == x.Rhs[min(i, len(x.Rhs)-1)] {
									continue
								}
								lit := compositeOf(d)
								if lit == nil {
									fresh = false
									continue
								}
								for _, el := range lit.Elts {
									if kv, ok := el.(*ast.KeyValueExpr); ok && kv.Key.(*ast.Ident).Name == "Value" {
										fresh = false
									}
								}
							}
						}
						if !fresh {
							viol = fmt.Sprintf("%s: Ref is set on a SchemaRef that is not a fresh literal without Value (it may already carry a schema, hiding a dangling $ref from validation)", w.pos(x.Pos()))
						}
					case "Value":
						// only for SchemaRefs that carry a Ref: the value must come from components.schemas
						at := w.exprAtoms(fi, x.Rhs[min(i, len(x.Rhs)-1)])
						recvAt := w.exprAtoms(fi, se.X)
						carriesRef := false
						for lit := range recvAt.Lits {
							if strings.Contains(lit, "#/components/schemas/") {
								carriesRef = true
							}
						}
						if strings.Contains(exprString(se.X), "SchemaRef") {
							carriesRef = true // schemaRefMap entries are the recorded $ref placeholders
						}
						if carriesRef {
							sites = append(sites, w.pos(x.Pos()))
							if !(at.Fields[pkgKin+".Components.Schemas"] || at.Fields[short(pkgKin)+".Components.Schemas"]) {
								viol = fmt.Sprintf("%s: a $ref placeholder receives a Value that is not looked up in components.schemas (%s)", w.pos(x.Pos()), at)
							}
						}
					}
				}
			}
			return true
		})
	}
	if nRef < 1 {
		viol = "no construction of a $ref SchemaRef found in swagen30 (rule would pass vacuously)"
	}
	o := r.add("C08.f", "ref-closure", "swagen30:$ref-born-without-value", "3.0: a SchemaRef carrying a $ref is created without Value and only ever receives a Value looked up in components.schemas, so the validator's unresolved-reference check (Value == nil) sees every dangling $ref", []string{"generator/swagen/swagen30"}, sites, viol)
	o.NonTrivial = true
}

func compositeOf(e ast.Expr) *ast.CompositeLit {
	switch x := e.(type) {
	case *ast.CompositeLit:
		return x
	case *ast.UnaryExpr:
		if x.Op == token.AND {
			return compositeOf(x.X)
		}
	case *ast.ParenExpr:
		return compositeOf(x.X)
	}
	return nil
}

// checkInfoCopied: info / servers / license / contact of the document are the
// configuration's (shared by C08.c and C20.d).
func checkInfoCopied(c *Ctx, r *Report, clause, g30, g31 string) {
	w := c.W
	info30 := w.extType(pkgKin, "Info")
	infoB := w.extType(pkgHBase, "Info")
	for _, f := range []struct{ sink, src string }{{"Title", "Title"}, {"Description", "Description"}, {"Version", "Version"}, {"TermsOfService", "TermsOfService"}} {
		ruleFieldFlow(c, r, ffSpec{Clause: clause, Fn: g30, Owner: info30, Field: f.sink, Must: []string{"definitions.OpenAPIInfo." + f.src}, AllowedFields: []string{"definitions.OpenAPIGeneratorConfig.Info"}, Desc: "3.0 info." + f.sink + " is the configured value"})
		ruleFieldFlow(c, r, ffSpec{Clause: clause, Fn: g31, Owner: infoB, Field: f.sink, Must: []string{"definitions.OpenAPIInfo." + f.src}, AllowedFields: []string{"definitions.OpenAPIGeneratorConfig.Info"}, Desc: "3.1 info." + f.sink + " is the configured value"})
	}
	ruleFieldFlow(c, r, ffSpec{Clause: clause, Fn: g30, Owner: w.extType(pkgKin, "Server"), Field: "URL", Must: []string{"definitions.OpenAPIGeneratorConfig.BaseURL"}, Desc: "3.0 servers[0].url is config.BaseURL"})
	ruleFieldFlow(c, r, ffSpec{Clause: clause, Fn: g31, Owner: w.extType(pkgV3, "Server"), Field: "URL", Must: []string{"definitions.OpenAPIGeneratorConfig.BaseURL"}, Desc: "3.1 servers[0].url is config.BaseURL"})
	for _, f := range []string{"Name", "URL"} {
		ruleFieldFlow(c, r, ffSpec{Clause: clause, Fn: g30, Owner: w.extType(pkgKin, "License"), Field: f, Must: []string{"definitions.OpenAPILicense." + f}, AllowedFields: []string{"definitions.OpenAPIGeneratorConfig.Info", "definitions.OpenAPIInfo.License"}, Desc: "3.0 license." + f})
		ruleFieldFlow(c, r, ffSpec{Clause: clause, Fn: g31, Owner: w.extType(pkgHBase, "License"), Field: f, Must: []string{"definitions.OpenAPILicense." + f}, AllowedFields: []string{"definitions.OpenAPIGeneratorConfig.Info", "definitions.OpenAPIInfo.License"}, Desc: "3.1 license." + f})
	}
	for _, f := range []string{"Name", "URL", "Email"} {
		ruleFieldFlow(c, r, ffSpec{Clause: clause, Fn: g30, Owner: w.extType(pkgKin, "Contact"), Field: f, Must: []string{"definitions.OpenAPIContact." + f}, AllowedFields: []string{"definitions.OpenAPIGeneratorConfig.Info", "definitions.OpenAPIInfo.Contact"}, Desc: "3.0 contact." + f})
		ruleFieldFlow(c, r, ffSpec{Clause: clause, Fn: g31, Owner: w.extType(pkgHBase, "Contact"), Field: f, Must: []string{"definitions.OpenAPIContact." + f}, AllowedFields: []string{"definitions.OpenAPIGeneratorConfig.Info", "definitions.OpenAPIInfo.Contact"}, Desc: "3.1 contact." + f})
	}
}

// checkManagerPassThrough (C08.a / C01.d): swagen.GenerateSpec hands its own controllers,
// models and configuration to both emitters - not a filtered, re-keyed or renamed copy.
func checkManagerPassThrough(c *Ctx, r *Report, clause string) {
	w := c.W
	const gm = "generator/swagen.GenerateSpec"
	fi := need(c, r, clause, gm)
	if fi == nil {
		return
	}
	viol := ""
	var sites []string
	n := 0
	for _, callee := range []string{"generator/swagen/swagen30.GenerateSpec", "generator/swagen/swagen31.GenerateSpec"} {
		for _, cl := range callsIn(fi.SSA, false, nameIs(callee)) {
			n++
			sites = append(sites, w.pos(cl.Pos()))
			args := cl.Common().Args
			if len(args) != 3 || len(fi.SSA.Params) < 3 {
				viol = fmt.Sprintf("%s: unexpected arity of %s", w.pos(cl.Pos()), callee)
				continue
			}
			for i, a := range args {
				if stripTrivial(a) != ssa.Value(fi.SSA.Params[i]) {
					viol = fmt.Sprintf("%s: argument %d of %s is not GenerateSpec's own %s but a derived value (%s): the document would be generated from something other than the validated metadata (renamed operation ids, filtered routes, ...) while the routes generator uses the original", w.pos(cl.Pos()), i, callee, fi.SSA.Params[i].Name(), sliceOf(a))
				}
			}
		}
	}
	if n != 2 {
		viol = fmt.Sprintf("expected one call of each emitter in %s, found %d", gm, n)
	}
	r.add(clause, "fieldflow", gm+":pass-through", "both emitters receive the pipeline's controllers, models and configuration themselves", []string{gm}, sites, viol)
}

// checkEnumMembersTyped: in both converters, the arm that fills `enum` for an integer-typed
// schema parses its members as integers only (and the number arm as numbers): a member of
// another JSON type than the schema's `type` makes every instance invalid.
func checkEnumMembersTyped(c *Ctx, r *Report, clause string) {
	w := c.W
	for _, fk := range []string{"generator/swagen/swagen30.BuildSchemaValidation", "generator/swagen/swagen31.BuildSchemaValidationV31"} {
		fi := need(c, r, clause, fk)
		if fi == nil {
			continue
		}
		viol := ""
		var sites []string
		n := 0
		for _, a := range w.converterArms(fi) {
			isEnum := false
			for _, t := range a.Target {
				if t == "enum" {
					isEnum = true
				}
			}
			if !isEnum || (a.Branch != "integer" && a.Branch != "number") {
				continue
			}
			n++
			sites = append(sites, w.pos(a.Pos))
			for _, p := range a.Parse {
				ok := (a.Branch == "integer" && p == "int-literal") || (a.Branch == "number" && (p == "float-literal" || p == "number"))
				if !ok {
					viol = fmt.Sprintf("%s: the %s arm for %s schemas also parses members as %s: the emitted enum can hold a member of another JSON type than the schema's `type` (e.g. 2.5 in an integer enum), which no instance can satisfy", w.pos(a.Pos), a.Label, a.Branch, p)
				}
			}
		}
		if n < 2 {
			viol = fmt.Sprintf("expected the integer and number enum arms in %s, found %d", fk, n)
			sites = []string{w.pos(fi.Decl.Pos())}
		}
		r.add(clause, "vocabulary", fk+":enum-members-typed", "enum members of integer / number schemas are parsed as that type only", []string{fk}, sites, viol)
	}
}

// checkOrderedJSONIsEncoderOutput: the 3.0 document is validated, then re-ordered by
// ForceOrderedJSON, then written: nothing validates what ForceOrderedJSON returns, so it must be
// a JSON encoder's output as it is - any textual post-processing (un-escaping, trimming, a
// replacer) can produce bytes that are not a JSON document at all.
func checkOrderedJSONIsEncoderOutput(c *Ctx, r *Report, clause string) {
	w := c.W
	const fo = "generator/swagen/swagtool.ForceOrderedJSON"
	fi := need(c, r, clause, fo)
	if fi == nil {
		return
	}
	viol := ""
	var sites []string
	n := 0
	for _, ex := range exitsOf(fi.SSA) {
		if ex.Ret == nil || ex.Kind != exitSuccess || len(ex.Ret.Results) != 2 {
			continue
		}
		sites = append(sites, w.pos(retPos(ex)))
		for _, ov := range w.originValues(unspill(ex.Ret.Results[0], ex.Block)) {
			ov = stripTrivial(ov)
			if k, ok := ov.(*ssa.Const); ok && k.IsNil() {
				continue
			}
			n++
			okEnc := false
			if e, ok := ov.(*ssa.Extract); ok && e.Index == 0 {
				if cl, ok := e.Tuple.(*ssa.Call); ok {
					switch calleeName(cl) {
					case "encoding/json.MarshalIndent", "encoding/json.Marshal":
						okEnc = true
					}
				}
			}
			if !okEnc {
				viol = fmt.Sprintf("%s: ForceOrderedJSON returns %s, not the JSON encoder's output as it is: the bytes written to the spec file were never parsed or validated in that form", w.pos(retPos(ex)), sliceOf(ov))
			}
		}
	}
	if n == 0 {
		viol = "no success return of ForceOrderedJSON yields a value"
	}
	r.add(clause, "fieldflow", fo+":returns-encoder-output", "the re-ordered document is the JSON encoder's output, untouched", []string{fo}, sites, viol)
}

// checkInfoSectionsIndependent: info.contact and info.license are optional and independent: the
// copy of one is not conditional on the other being present (an early `return` / `else` taken
// when the license is missing must not skip the contact, and vice versa).
func checkInfoSectionsIndependent(c *Ctx, r *Report, clause string, gens ...string) {
	w := c.W
	for _, g := range gens {
		fi := need(c, r, clause, g)
		if fi == nil {
			continue
		}
		viol := ""
		var sites []string
		n := 0
		allInstrs(fi.SSA, true, func(_ *ssa.Function, _ *ssa.BasicBlock, _ int, ins ssa.Instruction) {
			st, ok := ins.(*ssa.Store)
			if !ok {
				return
			}
			fa, ok := st.Addr.(*ssa.FieldAddr)
			if !ok {
				return
			}
			fv := structFieldVar(fa.X.Type(), fa.Field)
			if fv == nil || (fv.Name() != "Contact" && fv.Name() != "License") {
				return
			}
			if owner := types.TypeString(fa.X.Type(), nil); !strings.HasSuffix(strings.TrimPrefix(owner, "*"), ".Info") {
				return
			}
			if k, isConst := st.Val.(*ssa.Const); isConst && k.IsNil() {
				return
			}
			n++
			sites = append(sites, w.pos(st.Pos()))
			other := "License"
			if fv.Name() == "License" {
				other = "Contact"
			}
			for _, f := range dominatingFacts(st.Block()) {
				a := sliceOf(f.Cond)
				if a.hasFieldNamed(other) && !a.hasFieldNamed(fv.Name()) {
					viol = fmt.Sprintf("%s: info.%s is copied into the document only on a path that tested info.%s: a configuration with the one and without the other loses a section it configured", w.pos(st.Pos()), strings.ToLower(fv.Name()), strings.ToLower(other))
				}
				// the section is copied whenever it is configured: the only test of it is the nil test of the
				// section itself, never a test of one of its (all optional) members (C20-m20: a contact
				// with an e-mail but no name was dropped from the 3.1 document)
				if m := memberReadOfSection(f.Cond, fv.Name(), 0, map[ssa.Value]bool{}); m != "" {
					viol = fmt.Sprintf("%s: info.%s is copied into the document only when its member %s passes a test: the members of the section are optional, a configuration that sets the section without that member loses it", w.pos(st.Pos()), strings.ToLower(fv.Name()), m)
				}
			}
		})
		if n < 2 {
			viol = fmt.Sprintf("expected the copies of info.contact and info.license in %s, found %d", g, n)
		}
		r.add(clause, "guardedby", g+":info-sections-independent", "contact and license are copied independently of each other", []string{g}, sites, viol)
	}
}

// memberReadOfSection: the value is computed from a read of a member of the struct behind the
// field named section (x.<section>.<member>); returns the member's name.
func memberReadOfSection(v ssa.Value, section string, depth int, seen map[ssa.Value]bool) string {
	if v == nil || depth > 8 || seen[v] {
		return ""
	}
	seen[v] = true
	isSection := func(x ssa.Value) bool {
		x = stripTrivial(x)
		if u, ok := x.(*ssa.UnOp); ok && u.Op == token.MUL {
			x = u.X
		}
		switch y := x.(type) {
		case *ssa.FieldAddr:
			if fv := structFieldVar(y.X.Type(), y.Field); fv != nil && fv.Name() == section {
				return true
			}
		case *ssa.Field:
			if fv := structFieldVar(y.X.Type(), y.Field); fv != nil && fv.Name() == section {
				return true
			}
		}
		return false
	}
	// a member the configuration validator requires (`validate:"required"`) is set in every accepted
	// configuration: testing it again changes nothing (License.Name); only optional members count
	optionalMember := func(t types.Type, idx int) string {
		if p, ok := t.Underlying().(*types.Pointer); ok {
			t = p.Elem()
		}
		st, ok := t.Underlying().(*types.Struct)
		if !ok || idx >= st.NumFields() {
			return ""
		}
		for _, rule := range strings.Split(reflect.StructTag(st.Tag(idx)).Get("validate"), ",") {
			if rule == "required" {
				return ""
			}
		}
		return st.Field(idx).Name()
	}
	switch x := v.(type) {
	case *ssa.FieldAddr:
		if isSection(x.X) {
			if m := optionalMember(x.X.Type(), x.Field); m != "" {
				return m
			}
		}
	case *ssa.Field:
		if isSection(x.X) {
			if m := optionalMember(x.X.Type(), x.Field); m != "" {
				return m
			}
		}
	}
	if ins, ok := v.(ssa.Instruction); ok {
		for _, op := range ins.Operands(nil) {
			if op != nil && *op != nil {
				if m := memberReadOfSection(*op, section, depth+1, seen); m != "" {
					return m
				}
			}
		}
	}
	return ""
}
