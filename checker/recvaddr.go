package main

import (
	"fmt"
	"go/types"

	"golang.org/x/tools/go/ssa"
)

// valueRecvFieldAddrEscapes: methods with a VALUE receiver that take the address of one of
// the receiver's fields and let it escape (stored, returned, or passed on). The address
// then points into a per-call copy, so state reached through it (counters, caches) is not
// shared between calls.
func (w *World) valueRecvFieldAddrEscapes() []string {
	var out []string
	for _, fn := range w.SSAFuncs {
		if fn.Signature.Recv() == nil || len(fn.Params) == 0 {
			continue
		}
		recv := fn.Params[0]
		if _, isPtr := recv.Type().Underlying().(*types.Pointer); isPtr {
			continue
		}
		if _, isStruct := recv.Type().Underlying().(*types.Struct); !isStruct {
			continue
		}
		// the receiver is spilled into an Alloc when its address (or a field's) is taken
		for _, ref := range *recv.Referrers() {
			st, ok := ref.(*ssa.Store)
			if !ok || st.Val != ssa.Value(recv) {
				continue
			}
			al, ok := st.Addr.(*ssa.Alloc)
			if !ok {
				continue
			}
			for _, ar := range *al.Referrers() {
				fa, ok := ar.(*ssa.FieldAddr)
				if !ok {
					continue
				}
				// only fields whose type has mutable identity matter (structs, not plain loads)
				escapes := false
				for _, use := range *fa.Referrers() {
					switch u := use.(type) {
					case *ssa.UnOp:
						// plain load of the field value: no escape
					case *ssa.FieldAddr, *ssa.IndexAddr:
						// nested address computation: followed by a load typically
						_ = u
					case *ssa.Store:
						if u.Val == ssa.Value(fa) {
							escapes = true
						}
					case *ssa.Return, *ssa.MakeInterface, *ssa.MakeClosure:
						escapes = true
					case ssa.CallInstruction:
						// &recv.f passed as an argument / used as a pointer receiver of a method that mutates
						escapes = true
					}
				}
				if escapes {
					f := structFieldVar(fa.X.Type(), fa.Field)
					out = append(out, fmt.Sprintf("%s|%s|%s", w.pos(fa.Pos()), fnShort(fn), f.Name()))
				}
			}
		}
	}
	return out
}
