package main

import (
	"encoding/json"
	"fmt"
	"go/types"
	"os"
	"path/filepath"
	"sort"
	"strings"

	"golang.org/x/tools/go/ssa"
)

// Memo keys. A function that looks a key up in a map field and stores under a key into the
// same map field answers from memory: whatever it would compute for a second input that maps
// to the same key is replaced by what it computed for the first. The key must therefore
// carry everything the computation depends on. Which inputs a key is made of is inventoried
// per (function, map field) in tables/memokeys.json: `param:<type>` when the key is a
// parameter itself, field names and callee names otherwise. A key that is derived through a
// new call or from fewer / other inputs than reviewed is reported.

type memoKey struct {
	Host, Field string
	Atoms       []string
	Pos         string
}

func (w *World) memoKeys() []memoKey {
	var out []memoKey
	for _, fn := range w.SSAFuncs {
		if fn.Blocks == nil {
			continue
		}
		type use struct {
			idx  ssa.Value
			pos  string
			kind string
		}
		per := map[*types.Var][]use{}
		for _, b := range fn.Blocks {
			for _, ins := range b.Instrs {
				var m, idx ssa.Value
				kind := ""
				switch x := ins.(type) {
				case *ssa.Lookup:
					m, idx, kind = x.X, x.Index, "lookup"
				case *ssa.MapUpdate:
					m, idx, kind = x.Map, x.Key, "store"
				default:
					continue
				}
				if _, isMap := m.Type().Underlying().(*types.Map); !isMap {
					continue
				}
				u, ok := stripTrivial(m).(*ssa.UnOp)
				if !ok {
					continue
				}
				fa, ok := u.X.(*ssa.FieldAddr)
				if !ok {
					continue
				}
				if f := structFieldVar(fa.X.Type(), fa.Field); f != nil {
					per[f] = append(per[f], use{idx, w.pos(ins.Pos()), kind})
				}
			}
		}
		for f, uses := range per {
			hasL, hasS := false, false
			for _, u := range uses {
				hasL = hasL || u.kind == "lookup"
				hasS = hasS || u.kind == "store"
			}
			if !hasL || !hasS {
				continue
			}
			set := map[string]bool{}
			pos := uses[0].pos
			for _, u := range uses {
				for _, a := range memoKeyAtoms(u.idx) {
					set[a] = true
				}
			}
			owner := ""
			if named := fieldOwnerName(w, f); named != "" {
				owner = named + "."
			}
			out = append(out, memoKey{Host: fnShort(fn), Field: owner + f.Name(), Atoms: keys(set), Pos: pos})
		}
	}
	sort.Slice(out, func(i, j int) bool {
		if out[i].Host != out[j].Host {
			return out[i].Host < out[j].Host
		}
		return out[i].Field < out[j].Field
	})
	return out
}

func fieldOwnerName(w *World, f *types.Var) string {
	for _, p := range w.Pkgs {
		if !isAnalysedPkg(p.PkgPath) || p.Types != f.Pkg() {
			continue
		}
		sc := p.Types.Scope()
		for _, nm := range sc.Names() {
			if tn, ok := sc.Lookup(nm).(*types.TypeName); ok {
				if st, ok := tn.Type().Underlying().(*types.Struct); ok {
					for i := 0; i < st.NumFields(); i++ {
						if st.Field(i) == f {
							return short(p.PkgPath) + "." + tn.Name()
						}
					}
				}
			}
		}
	}
	return ""
}

func memoKeyAtoms(idx ssa.Value) []string { return memoKeyAtomsD(idx, 0) }

func memoKeyAtomsD(idx ssa.Value, depth int) []string {
	v := stripTrivial(idx)
	if p, ok := v.(*ssa.Parameter); ok {
		// the parameter of a split-off helper: what its callers pass
		if w := curWorld; w != nil && depth < 4 && p.Parent() != nil && w.isNewFn(p.Parent()) {
			pi := -1
			for i, q := range p.Parent().Params {
				if q == p {
					pi = i
				}
			}
			set := map[string]bool{}
			sites := w.callSitesOfNew(p.Parent())
			for _, cs := range sites {
				if pi >= 0 && pi < len(cs.Common().Args) {
					for _, a := range memoKeyAtomsD(cs.Common().Args[pi], depth+1) {
						set[a] = true
					}
				}
			}
			if len(sites) > 0 && len(set) > 0 {
				return keys(set)
			}
		}
		return []string{"param:" + short(types.TypeString(p.Type(), nil))}
	}
	a := newAtoms()
	backSlice(v, a, map[ssa.Value]bool{}, 0)
	var out []string
	for f := range a.Fields {
		out = append(out, "field:"+f.Name())
	}
	for cl := range a.Calls {
		if cl != "" {
			out = append(out, "call:"+cl)
		}
	}
	for p := range a.Params {
		out = append(out, "from:"+short(types.TypeString(p.Type(), nil)))
	}
	for g := range a.Globals {
		out = append(out, "global:"+g)
	}
	if len(out) == 0 {
		out = append(out, "other")
	}
	sort.Strings(out)
	return out
}

func (w *World) dumpMemoKeys() []byte {
	m := map[string][]string{}
	for _, k := range w.memoKeys() {
		m[k.Host+" @ "+k.Field] = k.Atoms
	}
	b, _ := json.MarshalIndent(map[string]any{
		"_comment": "per (function, map field it both looks up and stores into): what the key is made of; regenerate with -dump-memokeys on the reviewed tree",
		"keys":     m,
	}, "", " ")
	return append(b, '\n')
}

func checkMemoKeys(c *Ctx, r *Report, clause string) {
	w := c.W
	var doc struct {
		Keys map[string][]string `json:"keys"`
	}
	if b, err := os.ReadFile(filepath.Join(c.VerifDir, "tables", "memokeys.json")); err != nil || json.Unmarshal(b, &doc) != nil || len(doc.Keys) < 5 {
		r.undecided(clause, "fieldflow", "memo-keys", "", "tables/memokeys.json unreadable or too small")
		return
	}
	viol := ""
	var sites []string
	n := 0
	for _, k := range w.memoKeys() {
		if i := strings.LastIndex(k.Field, "."); i > 0 && w.isNewTypeName(k.Field[:i]) {
			continue // a map inside a new carrier type: judged where that value is kept
		}
		n++
		sites = append(sites, k.Pos)
		for _, h := range hostParts(k.Host) {
			want, ok := doc.Keys[h+" @ "+k.Field]
			if !ok {
				// the same field keyed the same way by another reviewed function: a moved lookup
				same := false
				for kk, atoms := range doc.Keys {
					if strings.HasSuffix(kk, " @ "+k.Field) && fmt.Sprint(atoms) == fmt.Sprint(k.Atoms) {
						same = true
					}
				}
				if !same {
					viol = fmt.Sprintf("%s: %s now answers from %s (looks a key up and stores under it) with a key made of %v; no reviewed function keys that map this way (tables/memokeys.json): two inputs that share the key get the first one's answer", k.Pos, h, k.Field, k.Atoms)
				}
				continue
			}
			if fmt.Sprint(want) != fmt.Sprint(k.Atoms) {
				viol = fmt.Sprintf("%s: %s keys %s with %v; reviewed: %v. A key that carries less than the inputs of the computation hands the answer computed for one input to another (all files of a package, all values with one name, ...)", k.Pos, h, k.Field, k.Atoms, want)
			}
		}
	}
	if n < 5 {
		viol = fmt.Sprintf("only %d memo-shaped (lookup + store) functions found (floor 5)", n)
	}
	o := r.add(clause, "fieldflow", "memo-keys", "every map that is looked up and stored into by one function is keyed by the reviewed inputs", []string{"tables/memokeys.json"}, sites, viol)
	o.NonTrivial = true
}
