package main

import (
	"fmt"
	"go/ast"
	"go/constant"
	"go/token"
	"go/types"
	"sort"
	"strings"

	"golang.org/x/tools/go/ssa"
)

// ---------------------------------------------------------------------------
// RK-ND: may-return-nil summaries and unguarded dereferences

// mayReturnNil: fn has a pointer/interface/map/func result #idx that is the nil constant
// on some return where the error result (if any) is nil too or absent.
func mayReturnNil(fn *ssa.Function) (idx int, yes bool) {
	if fn == nil || fn.Blocks == nil {
		return 0, false
	}
	res := fn.Signature.Results()
	ei := errResultIndex(fn)
	for i := 0; i < res.Len(); i++ {
		if i == ei {
			continue
		}
		switch res.At(i).Type().Underlying().(type) {
		case *types.Pointer:
		default:
			continue
		}
		for _, b := range fn.Blocks {
			if len(b.Instrs) == 0 {
				continue
			}
			ret, ok := b.Instrs[len(b.Instrs)-1].(*ssa.Return)
			if !ok {
				continue
			}
			isNil := func(v ssa.Value) bool {
				if isNilConst(v) {
					return true
				}
				if phi, ok := v.(*ssa.Phi); ok {
					for _, e := range phi.Edges {
						if isNilConst(e) {
							return true
						}
					}
				}
				return false
			}
			if !isNil(ret.Results[i]) {
				continue
			}
			if ei >= 0 && provablyNonNil(ret.Results[ei], b) {
				continue
			}
			if ei >= 0 && !isNilConst(ret.Results[ei]) && !knownNil(ret.Results[ei], b) {
				// error is a non-constant: assume callers test it
				if _, isPhi := ret.Results[ei].(*ssa.Phi); !isPhi {
					continue
				}
			}
			return i, true
		}
	}
	return 0, false
}

type nilDerefSite struct {
	Caller string
	Callee string
	Pos    token.Pos
	Use    string
	Key    string
}

// nilDerefSites: for every call of a may-return-nil gleece function, dereferences of the
// result that are not dominated by a non-nil fact.
func (w *World) nilDerefSites() (sites []nilDerefSite, nCalls int, summaries []string) {
	may := map[*ssa.Function]int{}
	for _, fn := range w.SSAFuncs {
		if idx, yes := mayReturnNil(fn); yes {
			may[fn] = idx
			summaries = append(summaries, fnShort(fn))
		}
	}
	// ... and, transitively, functions that hand on what such a function returned without
	// having tested it (`return parse(x)`, `v := parse(x); log(...); return v`)
	mayOf := func(callee *ssa.Function) (int, bool) {
		if idx, ok := may[callee]; ok {
			return idx, true
		}
		if callee.Origin() != nil {
			idx, ok := may[callee.Origin()]
			return idx, ok
		}
		return 0, false
	}
	for changed := true; changed; {
		changed = false
		for _, fn := range w.SSAFuncs {
			if _, done := may[fn]; done || fn.Signature.Results().Len() == 0 {
				continue
			}
			ei := errResultIndex(fn)
			for _, b := range fn.Blocks {
				if len(b.Instrs) == 0 {
					continue
				}
				ret, ok := b.Instrs[len(b.Instrs)-1].(*ssa.Return)
				if !ok {
					continue
				}
				// with an error result that is not known to be nil at this return, a nil value is the
				// failing answer (callers test the error) - the same leniency as for literal nils
				if ei >= 0 && !isNilConst(ret.Results[ei]) && !knownNil(ret.Results[ei], b) {
					continue
				}
				for i, rv := range ret.Results {
					if i == ei {
						continue
					}
					if _, isPtr := rv.Type().Underlying().(*types.Pointer); !isPtr {
						continue
					}
					for _, lv := range phiLeaves(unspill(rv, b)) {
						var call *ssa.Call
						idx := 0
						switch x := lv.(type) {
						case *ssa.Call:
							call = x
						case *ssa.Extract:
							call, _ = x.Tuple.(*ssa.Call)
							idx = x.Index
						}
						if call == nil || call.Call.StaticCallee() == nil {
							continue
						}
						if mi, ok := mayOf(call.Call.StaticCallee()); ok && mi == idx && !knownNonNil(lv, b) {
							if _, done := may[fn]; !done {
								may[fn] = i
								summaries = append(summaries, fnShort(fn))
								changed = true
							}
						}
					}
				}
			}
		}
	}
	sort.Strings(summaries)
	summaries = dedupSortedPlain(summaries)
	perKeyCalls := map[string]int{}
	for _, fn := range w.SSAFuncs {
		for _, b := range fn.Blocks {
			for _, ins := range b.Instrs {
				call, ok := ins.(*ssa.Call)
				if !ok {
					continue
				}
				callee := call.Call.StaticCallee()
				if callee == nil {
					continue
				}
				orig := callee
				if callee.Origin() != nil {
					orig = callee.Origin()
				}
				idx, isMay := may[callee]
				if !isMay {
					idx, isMay = may[orig]
				}
				if !isMay {
					continue
				}
				nCalls++
				var v ssa.Value = call
				if call.Call.Signature().Results().Len() > 1 {
					v = nil
					for _, r := range *call.Referrers() {
						if ex, ok := r.(*ssa.Extract); ok && ex.Index == idx {
							v = ex
						}
					}
				}
				if v == nil {
					continue
				}
				counted := false
				for _, use := range derefUses(v, map[ssa.Value]bool{}, 0) {
					if knownNonNil(use.val, use.ins.Block()) {
						continue
					}
					// same-block guard: `if v != nil && *v` is split into blocks by SSA, so nothing else to do
					// (an invariant is recorded per call whose result is dereferenced unguarded: a second
					// such call in the same function - on another holder, for another annotation - needs its own)
					base := fnShort(fn) + "<-" + fnShort(callee)
					if !counted {
						counted = true
						perKeyCalls[base]++
					}
					key := base
					if perKeyCalls[base] > 1 {
						key = fmt.Sprintf("%s#%d", base, perKeyCalls[base])
					}
					sites = append(sites, nilDerefSite{
						Caller: fnShort(fn), Callee: fnShort(callee), Pos: use.ins.Pos(), Use: use.kind,
						Key: key,
					})
				}
			}
		}
	}
	return
}

type derefUse struct {
	ins  ssa.Instruction
	val  ssa.Value
	kind string
}

// derefUses finds instructions that dereference v (directly, or after trivial copies).
func derefUses(v ssa.Value, seen map[ssa.Value]bool, depth int) []derefUse {
	var out []derefUse
	if seen[v] || depth > 4 || v.Referrers() == nil {
		return out
	}
	seen[v] = true
	for _, r := range *v.Referrers() {
		switch x := r.(type) {
		case *ssa.UnOp:
			if x.Op == token.MUL && x.X == v {
				out = append(out, derefUse{x, v, "*p"})
			}
		case *ssa.FieldAddr:
			if x.X == v {
				out = append(out, derefUse{x, v, "p.f"})
			}
		case *ssa.IndexAddr:
			if x.X == v {
				if _, isPtr := v.Type().Underlying().(*types.Pointer); isPtr {
					out = append(out, derefUse{x, v, "p[i]"})
				}
			}
		case *ssa.Store:
			// stored into a local and reloaded: follow loads of that alloc
			if al, ok := x.Addr.(*ssa.Alloc); ok && x.Val == v {
				for _, ar := range *al.Referrers() {
					if ld, ok := ar.(*ssa.UnOp); ok && ld.Op == token.MUL && ld.X == al {
						out = append(out, derefUses(ld, seen, depth+1)...)
					}
				}
			}
		case *ssa.ChangeType:
			out = append(out, derefUses(x, seen, depth+1)...)
		case *ssa.Phi:
			// merged with other values (`a := f(); if c { a = g() }; a.x`): a dereference of the
			// merge is a dereference of this value on the paths it comes from
			out = append(out, derefUses(x, seen, depth+1)...)
		}
	}
	return out
}

// ---------------------------------------------------------------------------
// RK-PS: panic-capable sites

type panicSite struct {
	Fn   string
	Kind string
	What string
	Pos  token.Pos
	Key  string
}

func (w *World) panicSites() []panicSite {
	var out []panicSite
	count := map[string]int{}
	seenSite := map[string]bool{}
	add := func(fn *ssa.Function, kind, what string, pos token.Pos) {
		sk := fmt.Sprintf("%d|%s|%s", pos, kind, what)
		if kind == "type-assert" {
			sk = fmt.Sprintf("%d|%s", pos, kind) // generic instantiations assert different concrete types at one site
		}
		if pos.IsValid() && seenSite[sk] {
			return // same source site seen through another generic instantiation
		}
		seenSite[sk] = true
		if kind == "type-assert" && fnShort(fn) == "core/annotations.getSliceProperty" {
			what = "TPropertyType"
		}
		base := fnShort(fn) + ":" + kind + "(" + what + ")"
		count[base]++
		key := base
		if count[base] > 1 {
			key = fmt.Sprintf("%s#%d", base, count[base])
		}
		out = append(out, panicSite{Fn: fnShort(fn), Kind: kind, What: what, Pos: pos, Key: key})
	}
	for _, fn := range w.SSAFuncs {
		inCmd := fn.Pkg != nil && (short(fn.Pkg.Pkg.Path()) == "cmd" || fn.Pkg.Pkg.Path() == modPath)
		for _, b := range fn.Blocks {
			for _, ins := range b.Instrs {
				switch x := ins.(type) {
				case *ssa.Panic:
					// (the panics go/ssa synthesises for the range-over-func protocol - an iterator that
					// calls yield after the loop ended - carry a constant runtime message, no source panic call)
					if k, isK := x.X.(*ssa.MakeInterface); isK {
						if cst, ok := k.X.(*ssa.Const); ok && cst.Value != nil && rangeFuncProtocolPanic(constString(cst.Value)) {
							continue
						}
					}
					add(fn, "panic", "explicit", x.Pos())
				case *ssa.TypeAssert:
					if !x.CommaOk {
						add(fn, "type-assert", short(types.TypeString(x.AssertedType, nil)), x.Pos())
					}
				case ssa.CallInstruction:
					n := calleeName(x)
					switch {
					case n == "os.Exit" || strings.HasPrefix(n, "log.Fatal") || strings.HasPrefix(n, "log.Panic"):
						if !inCmd {
							add(fn, "exit", n, x.Pos())
						}
					case n == "regexp.MustCompile" || n == "text/template.Must" || strings.HasSuffix(n, ".MustCompile"):
						if _, isConst := x.Common().Args[0].(*ssa.Const); !isConst {
							add(fn, "must", n, x.Pos())
						}
					case strings.HasSuffix(n, "openapi3.PathItem).SetOperation"):
						add(fn, "lib-panic", "PathItem.SetOperation(unknown method)", x.Pos())
					case n == pkgRaymond+".RegisterPartials" || n == pkgRaymond+".RegisterPartial" || n == pkgRaymond+".RegisterHelper" || n == pkgRaymond+".RegisterHelpers":
						// (RegisterHelpers / RegisterPartials are loops over the single form: same failure, same invariant)
						add(fn, "lib-panic", strings.TrimSuffix(strings.TrimPrefix(n, pkgRaymond+"."), "s")+"(duplicate)", x.Pos())
					case n == pkgRaymond+".Render" || n == pkgRaymond+".MustRender":
						if n == pkgRaymond+".MustRender" {
							add(fn, "lib-panic", "MustRender", x.Pos())
						}
					case n == "(reflect.Type).Kind" || n == "(reflect.Type).Elem" || n == "(reflect.Type).ConvertibleTo" || n == "(reflect.Type).String":
						// method on a reflect.Type obtained from reflect.TypeOf(x): nil Type if x is a nil interface
						if recv := x.Common().Value; recv != nil {
							if a := sliceOf(recv); a.Calls["reflect.TypeOf"] || a.Calls["(reflect.Value).Type"] {
								if !reflectTypeSafe(recv, x.Block()) {
									add(fn, "reflect", n+" on reflect.TypeOf/Value.Type result", x.Pos())
								}
							}
						}
					case n == "(reflect.Value).Type" || n == "(reflect.Value).Convert" || n == "(reflect.Value).Interface":
						if len(x.Common().Args) > 0 {
							if a := sliceOf(x.Common().Args[0]); a.Calls["reflect.ValueOf"] {
								if !reflectValueSafe(x.Common().Args[0], x.Block()) {
									add(fn, "reflect", n+" on reflect.ValueOf result (zero Value for nil)", x.Pos())
								}
							}
						}
					}
				case *ssa.IndexAddr:
					if k, ok := x.Index.(*ssa.Const); ok && k.Value != nil {
						if _, isSlice := x.X.Type().Underlying().(*types.Slice); isSlice {
							if !indexBounded(x.X, k.Int64(), x.Block()) {
								add(fn, "index", fmt.Sprintf("[%d] of %s", k.Int64(), valueDesc(x.X)), x.Pos())
							}
						}
					}
				case *ssa.Slice:
					// s[a:b] with two computed bounds: a <= b is an obligation of its own (each bound
					// may be within range and the pair still cross)
					if x.Low != nil && x.High != nil {
						_, lc := stripTrivial(x.Low).(*ssa.Const)
						_, hc := stripTrivial(x.High).(*ssa.Const)
						if !lc && !hc && !boundsOrdered(x.Low, x.High, x.Block()) {
							add(fn, "slice-bounds", "s[lo:hi] with two computed bounds and no established lo <= hi", x.Pos())
						}
					}
					// s[a:b] where a or b derives from a search result that may be -1
					for _, bound := range []ssa.Value{x.Low, x.High} {
						if bound == nil {
							continue
						}
						// every search result that flows into the bound must have been tested
						for _, src := range searchResultsIn(bound, 0, map[ssa.Value]bool{}) {
							if !searchChecked(src, bound, x.Block(), 0) && !searchCheckedAlong(src, bound, x.Block(), 0) {
								add(fn, "slice-bound", calleeName(src)+" result used as slice bound without a -1 test", x.Pos())
								break
							}
						}
					}
				}
			}
		}
	}
	return out
}

// reflectTypeSafe: the reflect.Type receiver cannot be the nil Type: it is
// reflect.TypeOf(arg) with arg known non-nil here, reflect.TypeOf of a typed pointer
// constant ((*T)(nil)), the Elem()/Type() of such a value, or Value.Type() of a valid Value.
func reflectTypeSafe(t ssa.Value, b *ssa.BasicBlock) bool {
	switch x := t.(type) {
	case *ssa.Call:
		switch calleeName(x) {
		case "reflect.TypeOf":
			arg := x.Call.Args[0]
			if mi, ok := arg.(*ssa.MakeInterface); ok {
				// a typed value boxed into an interface is never the nil interface
				if _, isIface := mi.X.Type().Underlying().(*types.Interface); !isIface {
					return true
				}
				arg = mi.X
			}
			if ld, ok := arg.(*ssa.UnOp); ok && ld.Op == token.MUL {
				// *value where value is a *any: need the loaded interface to be non-nil
				return knownNonNilLoad(ld, b)
			}
			return knownNonNil(arg, b)
		case "(reflect.Value).Type":
			return reflectValueSafe(x.Call.Args[0], b)
		}
		if x.Call.IsInvoke() && (x.Call.Method.Name() == "Elem" || x.Call.Method.Name() == "Key") {
			return reflectTypeSafe(x.Call.Value, b)
		}
	case *ssa.Parameter:
		return true // a reflect.Type handed in by the caller (checked at the caller's site)
	}
	return false
}

// knownNonNilLoad: some dominating branch tested an equivalent load (*p) against nil.
func knownNonNilLoad(ld *ssa.UnOp, b *ssa.BasicBlock) bool {
	for _, f := range dominatingFacts(b) {
		c, pol := unwrapNot(f.Cond, f.Pol)
		bo, ok := c.(*ssa.BinOp)
		if !ok {
			continue
		}
		var other, side ssa.Value
		if isNilConst(bo.Y) {
			side, other = bo.X, bo.Y
		} else if isNilConst(bo.X) {
			side, other = bo.Y, bo.X
		} else {
			continue
		}
		_ = other
		if l2, ok := side.(*ssa.UnOp); ok && l2.Op == token.MUL && l2.X == ld.X {
			if (bo.Op == token.NEQ && pol) || (bo.Op == token.EQL && !pol) {
				return true
			}
		}
	}
	return false
}

// reflectValueSafe: the reflect.Value is valid: reflect.ValueOf of a typed (non-interface)
// value, an element of a valid slice Value, or IsValid() was tested on it.
func reflectValueSafe(v ssa.Value, b *ssa.BasicBlock) bool {
	for _, f := range dominatingFacts(b) {
		c, pol := unwrapNot(f.Cond, f.Pol)
		if cl, ok := c.(*ssa.Call); ok && calleeName(cl) == "(reflect.Value).IsValid" && pol {
			if sameValue(cl.Call.Args[0], v) || equivLoad(cl.Call.Args[0], v, 0) {
				return true
			}
		}
	}
	switch x := v.(type) {
	case *ssa.Call:
		switch calleeName(x) {
		case "reflect.ValueOf":
			arg := x.Call.Args[0]
			if mi, ok := arg.(*ssa.MakeInterface); ok {
				if _, isIface := mi.X.Type().Underlying().(*types.Interface); !isIface {
					return true
				}
			}
			if ld, ok := arg.(*ssa.UnOp); ok && ld.Op == token.MUL {
				return knownNonNilLoad(ld, b)
			}
			return knownNonNil(arg, b)
		case "(reflect.Value).Index", "reflect.MakeSlice", "(reflect.Value).Convert", "(reflect.Value).Elem", "(reflect.Value).Field":
			return true
		}
	case *ssa.UnOp:
		if x.Op == token.MUL {
			if al, ok := x.X.(*ssa.Alloc); ok {
				for _, sv := range storedInto(al, 0) {
					if !reflectValueSafe(sv, b) {
						return false
					}
				}
				return true
			}
		}
	}
	return false
}

// searchResultsIn: all search calls whose result flows (through arithmetic, conversions,
// phis) into v.
func searchResultsIn(v ssa.Value, depth int, seen map[ssa.Value]bool) []*ssa.Call {
	if depth > 5 || v == nil || seen[v] {
		return nil
	}
	seen[v] = true
	switch x := v.(type) {
	case *ssa.Call:
		if c := searchResultIn(x, 0); c != nil {
			return []*ssa.Call{c}
		}
	case *ssa.BinOp:
		return append(searchResultsIn(x.X, depth+1, seen), searchResultsIn(x.Y, depth+1, seen)...)
	case *ssa.Convert:
		return searchResultsIn(x.X, depth+1, seen)
	case *ssa.Phi:
		var out []*ssa.Call
		for _, e := range x.Edges {
			out = append(out, searchResultsIn(e, depth+1, seen)...)
		}
		return out
	}
	return nil
}

// searchResultIn: the bound is (an arithmetic function of) the result of a search that
// returns -1 when nothing is found.
func searchResultIn(v ssa.Value, depth int) *ssa.Call {
	if depth > 4 {
		return nil
	}
	switch x := v.(type) {
	case *ssa.Call:
		switch calleeName(x) {
		case "strings.Index", "strings.LastIndex", "strings.IndexByte", "strings.IndexRune", "strings.IndexAny", "strings.LastIndexByte", "strings.LastIndexAny",
			"bytes.Index", "bytes.LastIndex", "bytes.IndexByte", "slices.Index", "slices.IndexFunc", "strings.IndexFunc":
			return x
		}
	case *ssa.BinOp:
		if c := searchResultIn(x.X, depth+1); c != nil {
			return c
		}
		return searchResultIn(x.Y, depth+1)
	case *ssa.Convert:
		return searchResultIn(x.X, depth+1)
	case *ssa.Phi:
		for _, e := range x.Edges {
			if c := searchResultIn(e, depth+1); c != nil {
				return c
			}
		}
	}
	return nil
}

// searchChecked: a dominating branch compared the search result (or the phi/bound that
// carries it) with a constant (idx >= 0, idx != -1, idx < 0 on the other edge, ...) or
// found it greater than another search result that is itself known to be >= 0.
func searchChecked(src *ssa.Call, carrier ssa.Value, b *ssa.BasicBlock, depth int) bool {
	if depth > 2 {
		return false
	}
	isSubject := func(v ssa.Value) bool {
		if v == ssa.Value(src) || v == carrier {
			return true
		}
		if phi, ok := v.(*ssa.Phi); ok {
			for _, e := range phi.Edges {
				if e == ssa.Value(src) {
					return true
				}
			}
		}
		return false
	}
	for _, f := range dominatingFacts(b) {
		c, pol := unwrapNot(f.Cond, f.Pol)
		bo, ok := c.(*ssa.BinOp)
		if !ok || !isSubject(bo.X) {
			continue
		}
		if k, isK := bo.Y.(*ssa.Const); isK && k.Value != nil {
			n := k.Int64()
			switch {
			case bo.Op == token.GEQ && pol && n >= 0, bo.Op == token.GTR && pol && n >= -1, bo.Op == token.LSS && !pol && n >= 0,
				bo.Op == token.LEQ && !pol && n >= -1, bo.Op == token.NEQ && pol && n == -1, bo.Op == token.EQL && !pol && n == -1:
				return true
			}
			continue
		}
		// src > other, with other a checked search result
		if (bo.Op == token.GTR || bo.Op == token.GEQ) && pol {
			if other := searchResultIn(bo.Y, 0); other != nil && searchChecked(other, bo.Y, b, depth+1) {
				return true
			}
		}
	}
	return false
}

// searchCheckedAlong: the search result reaches v (used at the end of block b) only through
// places where it has been tested - a value computed from it inside the guarded branch and
// merged with a default afterwards (`end := len(s); if i := IndexByte(..); i != -1 { end = start+i }`).
func searchCheckedAlong(src *ssa.Call, v ssa.Value, b *ssa.BasicBlock, depth int) bool {
	if depth > 8 {
		return false
	}
	if searchChecked(src, v, b, 0) {
		return true
	}
	dependsOnSrc := func(x ssa.Value) bool {
		for _, s := range searchResultsIn(x, 0, map[ssa.Value]bool{}) {
			if s == src {
				return true
			}
		}
		return false
	}
	switch x := v.(type) {
	case *ssa.Phi:
		for i, e := range x.Edges {
			if dependsOnSrc(e) && !searchCheckedAlong(src, e, x.Block().Preds[i], depth+1) {
				return false
			}
		}
		return true
	case *ssa.Call:
		return false
	case ssa.Instruction:
		ok := false
		for _, op := range x.Operands(nil) {
			if *op == nil || !dependsOnSrc(*op) {
				continue
			}
			if !searchCheckedAlong(src, *op, x.Block(), depth+1) {
				return false
			}
			ok = true
		}
		return ok
	}
	return false
}

func valueDesc(v ssa.Value) string {
	a := sliceOf(v)
	var parts []string
	for c := range a.Calls {
		parts = append(parts, c)
	}
	for _, f := range a.fieldNames() {
		parts = append(parts, "."+f)
	}
	sort.Strings(parts)
	if len(parts) > 3 {
		parts = parts[:3]
	}
	if len(parts) == 0 {
		return v.Name()
	}
	return strings.Join(parts, ",")
}

// indexBounded: a constant index k into slice value x is safe if x is a fresh literal /
// varargs array slice, the result of strings.Split (index 0), or dominated by a length test.
func indexBounded(x ssa.Value, k int64, b *ssa.BasicBlock) bool {
	switch s := x.(type) {
	case *ssa.Slice:
		if al, ok := s.X.(*ssa.Alloc); ok {
			if pt, ok := al.Type().Underlying().(*types.Pointer); ok {
				if arr, ok := pt.Elem().Underlying().(*types.Array); ok && arr.Len() > k {
					return true
				}
			}
		}
	case *ssa.Call:
		n := calleeName(s)
		if k == 0 && (n == "strings.Split" || n == "strings.SplitN" || n == "strings.SplitAfter") {
			return true // Split always returns at least one element
		}
	}
	// what the dominating branches say about len(x) - or about the length of what x is a
	// same-length copy of (slices.Clone(y), append([]T{}, y...))
	subjects := []ssa.Value{x}
	if src := sameLengthSource(x); src != nil {
		subjects = append(subjects, src)
	}
	minLen := int64(0)
	excluded := map[int64]bool{}
	for _, f := range dominatingFacts(b) {
		cnd, pol := unwrapNot(f.Cond, f.Pol)
		bo, ok := cnd.(*ssa.BinOp)
		if !ok {
			continue
		}
		lenOf := func(v ssa.Value) bool {
			c, ok := v.(*ssa.Call)
			if !ok {
				return false
			}
			if bi, ok := c.Call.Value.(*ssa.Builtin); ok && bi.Name() == "len" {
				for _, sj := range subjects {
					if sameValue(c.Call.Args[0], sj) || equivLoad(c.Call.Args[0], sj, 0) {
						return true
					}
				}
			}
			return false
		}
		kc, isK := bo.Y.(*ssa.Const)
		if !lenOf(bo.X) || !isK || kc.Value == nil || kc.Value.Kind() != constant.Int {
			continue
		}
		n := kc.Int64()
		switch {
		case (bo.Op == token.GTR && pol) || (bo.Op == token.LEQ && !pol):
			minLen = max(minLen, n+1)
		case (bo.Op == token.GEQ && pol) || (bo.Op == token.LSS && !pol):
			minLen = max(minLen, n)
		case (bo.Op == token.EQL && pol) || (bo.Op == token.NEQ && !pol):
			minLen = max(minLen, n)
		case (bo.Op == token.NEQ && pol) || (bo.Op == token.EQL && !pol):
			excluded[n] = true // (the default arm of `switch len(x)` after `case 0, 1`)
		}
	}
	for excluded[minLen] {
		minLen++
	}
	return minLen > k
}

// sameLengthSource: the slice x is an element-for-element copy of.
func sameLengthSource(x ssa.Value) ssa.Value {
	if mk, ok := x.(*ssa.MakeSlice); ok {
		// make([]T, len(y))
		if lc, ok := mk.Len.(*ssa.Call); ok && calleeName(lc) == "builtin.len" && len(lc.Call.Args) == 1 {
			return lc.Call.Args[0]
		}
		return nil
	}
	c, ok := x.(*ssa.Call)
	if !ok {
		return nil
	}
	switch calleeName(c) {
	case "slices.Clone":
		if len(c.Call.Args) == 1 {
			return c.Call.Args[0]
		}
	case "builtin.append":
		// append([]T{}, y...): SSA passes y itself as the second operand of a spread append
		if len(c.Call.Args) == 2 {
			if isEmptySliceLiteral(c.Call.Args[0]) {
				if _, isSlice := c.Call.Args[1].Type().Underlying().(*types.Slice); isSlice {
					if _, fromVarargs := c.Call.Args[1].(*ssa.Slice); !fromVarargs {
						return c.Call.Args[1]
					}
				}
			}
		}
	}
	return nil
}

func isEmptySliceLiteral(v ssa.Value) bool {
	switch x := v.(type) {
	case *ssa.Const:
		return x.IsNil()
	case *ssa.Slice:
		if al, ok := x.X.(*ssa.Alloc); ok {
			if pt, ok := al.Type().Underlying().(*types.Pointer); ok {
				if arr, ok := pt.Elem().Underlying().(*types.Array); ok {
					return arr.Len() == 0
				}
			}
		}
	case *ssa.MakeSlice:
		if k, ok := x.Len.(*ssa.Const); ok && k.Value != nil {
			return k.Int64() == 0
		}
	}
	return false
}

// equivLoad: a and b are loads of the same field of the same base (no SSA-level CSE in
// go/ssa: `len(v.RetVals)` and `v.RetVals[0]` load the field twice).
func equivLoad(a, b ssa.Value, depth int) bool {
	if a == b {
		return true
	}
	if depth > 4 {
		return false
	}
	la, ok1 := a.(*ssa.UnOp)
	lb, ok2 := b.(*ssa.UnOp)
	if ok1 && ok2 && la.Op == token.MUL && lb.Op == token.MUL {
		fa, ok3 := la.X.(*ssa.FieldAddr)
		fb, ok4 := lb.X.(*ssa.FieldAddr)
		if ok3 && ok4 && fa.Field == fb.Field {
			return equivLoad(fa.X, fb.X, depth+1)
		}
		return la.X == lb.X
	}
	xa, ok5 := a.(*ssa.Field)
	xb, ok6 := b.(*ssa.Field)
	if ok5 && ok6 && xa.Field == xb.Field {
		return equivLoad(xa.X, xb.X, depth+1)
	}
	fa, ok7 := a.(*ssa.FieldAddr)
	fb, ok8 := b.(*ssa.FieldAddr)
	if ok7 && ok8 && fa.Field == fb.Field {
		return equivLoad(fa.X, fb.X, depth+1)
	}
	return false
}

// ---------------------------------------------------------------------------
// RK-PS termination: recursion SCCs and condition-only loops

// callEdges builds the gleece-internal call graph (static callees; interface invokes are
// resolved to every gleece method of that name whose receiver implements the interface).
func (w *World) callEdges() map[*ssa.Function][]*ssa.Function {
	byName := map[string][]*ssa.Function{}
	for _, fn := range w.SSAFuncs {
		if fn.Signature.Recv() != nil {
			byName[fn.Name()] = append(byName[fn.Name()], fn)
		}
	}
	inSet := map[*ssa.Function]bool{}
	for _, fn := range w.SSAFuncs {
		inSet[fn] = true
	}
	edges := map[*ssa.Function][]*ssa.Function{}
	for _, fn := range w.SSAFuncs {
		for _, b := range fn.Blocks {
			for _, ins := range b.Instrs {
				switch x := ins.(type) {
				case ssa.CallInstruction:
					com := x.Common()
					if com.IsInvoke() {
						iface, _ := com.Value.Type().Underlying().(*types.Interface)
						for _, cand := range byName[com.Method.Name()] {
							rt := cand.Signature.Recv().Type()
							if iface != nil && (types.Implements(rt, iface) || types.Implements(types.NewPointer(rt), iface)) {
								edges[fn] = append(edges[fn], cand)
							}
						}
						continue
					}
					if c := com.StaticCallee(); c != nil {
						if inSet[c] {
							edges[fn] = append(edges[fn], c)
						} else if c.Origin() != nil && inSet[c.Origin()] {
							edges[fn] = append(edges[fn], c.Origin())
						}
					} else if self := closureSelfCall(fn, com.Value); self != nil {
						// `var walk func(…); walk = func(…) { … walk(…) … }`: the closure calls
						// itself through the variable it is stored in
						edges[fn] = append(edges[fn], self)
					}
					// closures passed as arguments may be called by the callee: treat as edge
					for _, a := range com.Args {
						if mc, ok := a.(*ssa.MakeClosure); ok {
							if cf, ok := mc.Fn.(*ssa.Function); ok && inSet[cf] {
								edges[fn] = append(edges[fn], cf)
							}
						}
					}
				case *ssa.MakeClosure:
					if cf, ok := x.Fn.(*ssa.Function); ok && inSet[cf] {
						edges[fn] = append(edges[fn], cf)
					}
				}
			}
		}
	}
	return edges
}

// recursionSCCs returns the strongly connected components with a cycle.
func (w *World) recursionSCCs() [][]string {
	edges := w.callEdges()
	index := 0
	idx := map[*ssa.Function]int{}
	low := map[*ssa.Function]int{}
	on := map[*ssa.Function]bool{}
	var stack []*ssa.Function
	var sccs [][]string
	var strong func(v *ssa.Function)
	strong = func(v *ssa.Function) {
		idx[v], low[v] = index, index
		index++
		stack = append(stack, v)
		on[v] = true
		for _, x := range edges[v] {
			if _, seen := idx[x]; !seen {
				strong(x)
				if low[x] < low[v] {
					low[v] = low[x]
				}
			} else if on[x] && idx[x] < low[v] {
				low[v] = idx[x]
			}
		}
		if low[v] == idx[v] {
			var comp []*ssa.Function
			for {
				x := stack[len(stack)-1]
				stack = stack[:len(stack)-1]
				on[x] = false
				comp = append(comp, x)
				if x == v {
					break
				}
			}
			selfLoop := false
			for _, x := range edges[v] {
				if x == v {
					selfLoop = true
				}
			}
			if len(comp) > 1 || selfLoop {
				names := map[string]bool{}
				for _, f := range comp {
					names[fnShort(f)] = true
				}
				var ns []string
				for n := range names {
					ns = append(ns, n)
				}
				sort.Strings(ns)
				sccs = append(sccs, ns)
			}
		}
	}
	for _, fn := range w.SSAFuncs {
		if _, seen := idx[fn]; !seen {
			strong(fn)
		}
	}
	sort.Slice(sccs, func(i, j int) bool { return strings.Join(sccs[i], ",") < strings.Join(sccs[j], ",") })
	return sccs
}

type loopSite struct {
	Fn   string
	Desc string
	Pos  token.Pos
	Key  string
}

// condLoops lists `for {}` and `for cond {}` loops (range loops over finite collections
// and classic counted loops `for i := ..; i < n; i++` are bounded by construction).
func (w *World) condLoops() []loopSite {
	var out []loopSite
	keysSorted := make([]string, 0, len(w.Funcs))
	for k := range w.Funcs {
		keysSorted = append(keysSorted, k)
	}
	sort.Strings(keysSorted)
	for _, k := range keysSorted {
		fi := w.Funcs[k]
		n := 0
		ast.Inspect(fi.Decl, func(nd ast.Node) bool {
			fs, ok := nd.(*ast.ForStmt)
			if !ok {
				return true
			}
			counted := fs.Init != nil && fs.Cond != nil && fs.Post != nil
			if counted || selfEvidentVariant(fs) {
				return true
			}
			n++
			desc := "for {}"
			if fs.Cond != nil {
				desc = "for " + exprString(fs.Cond)
			}
			out = append(out, loopSite{Fn: fi.Key, Desc: desc, Pos: fs.Pos(), Key: fmt.Sprintf("%s:loop#%d", fi.Key, n)})
			return true
		})
	}
	return out
}

// ---------------------------------------------------------------------------
// RK-ED: dropped errors

type errDropSite struct {
	Fn     string
	Callee string
	Pos    token.Pos
	Key    string
}

func (w *World) errDropSites() []errDropSite {
	var out []errDropSite
	count := map[string]int{}
	errT := types.Universe.Lookup("error").Type()
	for _, fn := range w.SSAFuncs {
		for _, b := range fn.Blocks {
			for _, ins := range b.Instrs {
				call, ok := ins.(*ssa.Call)
				if !ok {
					continue
				}
				sig := call.Call.Signature()
				nres := sig.Results().Len()
				if nres == 0 || !types.Identical(sig.Results().At(nres-1).Type(), errT) {
					continue
				}
				name := calleeName(call)
				watched := isGleeceCallee(name)
				switch name {
				case "github.com/titanous/json5.Unmarshal", "encoding/json.Unmarshal", "golang.org/x/tools/imports.Process", "go/format.Source",
					"os.WriteFile", "os.MkdirAll", "os.ReadFile", "(*github.com/go-playground/validator/v10.Validate).RegisterValidation":
					watched = true
				}
				if !watched {
					continue
				}
				used := false
				if nres == 1 {
					used = call.Referrers() != nil && len(*call.Referrers()) > 0
				} else if call.Referrers() != nil {
					for _, r := range *call.Referrers() {
						if ex, ok := r.(*ssa.Extract); ok && ex.Index == nres-1 && ex.Referrers() != nil && len(*ex.Referrers()) > 0 {
							used = true
						}
					}
				}
				if used {
					// tested and then tolerated: the `err != nil` side rejoins the normal flow (or
					// ends in success) instead of failing
					if pos, tolerated := w.errTolerated(fn, call, nres); tolerated {
						base := fnShort(fn) + ":tolerates(" + name + ")"
						count[base]++
						key := base
						if count[base] > 1 {
							key = fmt.Sprintf("%s#%d", base, count[base])
						}
						out = append(out, errDropSite{Fn: fnShort(fn), Callee: name, Pos: pos, Key: key})
					}
					continue
				}
				base := fnShort(fn) + ":drops(" + name + ")"
				count[base]++
				key := base
				if count[base] > 1 {
					key = fmt.Sprintf("%s#%d", base, count[base])
				}
				out = append(out, errDropSite{Fn: fnShort(fn), Callee: name, Pos: call.Pos(), Key: key})
			}
		}
	}
	return out
}

// errTolerated: the error result of call is tested against nil in fn and the non-nil side of
// that test neither returns a failure, nor panics/exits, nor hands the error on (stores it,
// passes it to a non-logging call, returns it): it logs at most and carries on.
func (w *World) errTolerated(fn *ssa.Function, call *ssa.Call, nres int) (token.Pos, bool) {
	var errV ssa.Value = call
	if nres > 1 {
		errV = nil
		for _, r := range *call.Referrers() {
			if ex, ok := r.(*ssa.Extract); ok && ex.Index == nres-1 {
				errV = ex
			}
		}
	}
	if errV == nil || errV.Referrers() == nil {
		return token.NoPos, false
	}
	// every use is either the nil test or a logging call; anything else hands the error on
	var tests []*ssa.BinOp
	for _, r := range *errV.Referrers() {
		switch x := r.(type) {
		case *ssa.BinOp:
			if (x.Op == token.NEQ || x.Op == token.EQL) && (isNilConst(x.X) || isNilConst(x.Y)) {
				tests = append(tests, x)
				continue
			}
			return token.NoPos, false
		case *ssa.DebugRef:
			continue
		case ssa.CallInstruction:
			if n := calleeName(x); strings.HasPrefix(n, "infrastructure/logger.") || strings.HasPrefix(n, "log.") {
				continue
			}
			return token.NoPos, false
		case *ssa.MakeInterface, *ssa.ChangeInterface:
			// boxed for a variadic logging call?
			xv := x.(ssa.Value)
			onlyLogged := xv.Referrers() != nil
			if onlyLogged {
				for _, rr := range *xv.Referrers() {
					if !w.flowsOnlyToLog(rr, 0) {
						onlyLogged = false
					}
				}
			}
			if onlyLogged {
				continue
			}
			return token.NoPos, false
		default:
			return token.NoPos, false
		}
	}
	if len(tests) == 0 {
		return token.NoPos, false
	}
	for _, t := range tests {
		if t.Referrers() == nil {
			continue
		}
		for _, r := range *t.Referrers() {
			ifi, ok := r.(*ssa.If)
			if !ok {
				return token.NoPos, false // the test's outcome is data (stored, returned): not judged here
			}
			nonNil := ifi.Block().Succs[0]
			if t.Op == token.EQL {
				nonNil = ifi.Block().Succs[1]
			}
			// does the non-nil side fail? every path from it must end in a failure exit / panic
			seen := map[*ssa.BasicBlock]bool{}
			work := []*ssa.BasicBlock{nonNil}
			for len(work) > 0 {
				b := work[len(work)-1]
				work = work[:len(work)-1]
				if seen[b] {
					continue
				}
				seen[b] = true
				if !nonNil.Dominates(b) {
					return t.Pos(), true // rejoined the normal flow
				}
				switch last := b.Instrs[len(b.Instrs)-1].(type) {
				case *ssa.Return:
					for _, ex := range exitsOf(fn) {
						if ex.Ret == last && ex.Kind == exitSuccess {
							return t.Pos(), true
						}
					}
					if errResultIndex(fn) < 0 {
						return t.Pos(), true // nothing to report the failure through
					}
				case *ssa.Panic:
				default:
					exits := false
					for _, in := range b.Instrs {
						if c, ok := in.(ssa.CallInstruction); ok {
							if n := calleeName(c); n == "os.Exit" || n == "log.Fatal" || n == "log.Fatalf" || n == "log.Fatalln" { // (gleece's own logger.Fatal only logs)
								exits = true
							}
						}
					}
					if !exits {
						work = append(work, b.Succs...)
					}
				}
			}
		}
	}
	return token.NoPos, false
}

// flowsOnlyToLog: instruction r (a user of a boxed error) only feeds a logging call.
func (w *World) flowsOnlyToLog(r ssa.Instruction, depth int) bool {
	if depth > 4 {
		return false
	}
	switch x := r.(type) {
	case ssa.CallInstruction:
		n := calleeName(x)
		return strings.HasPrefix(n, "infrastructure/logger.") || strings.HasPrefix(n, "log.")
	case *ssa.Store:
		// stored into the varargs array of a call
		if ia, ok := x.Addr.(*ssa.IndexAddr); ok {
			if al, ok := ia.X.(*ssa.Alloc); ok && al.Referrers() != nil {
				for _, rr := range *al.Referrers() {
					if sl, ok := rr.(*ssa.Slice); ok && sl.Referrers() != nil {
						for _, r3 := range *sl.Referrers() {
							if !w.flowsOnlyToLog(r3, depth+1) {
								return false
							}
						}
					}
				}
				return true
			}
		}
		return false
	case *ssa.DebugRef:
		return true
	}
	return false
}

// closureSelfCall: inside closure fn, callee is a load of a captured variable into which
// fn's own closure value is stored: a recursive call of fn. Returns fn, or nil.
func closureSelfCall(fn *ssa.Function, callee ssa.Value) *ssa.Function {
	if fn.Parent() == nil {
		return nil
	}
	ld, ok := callee.(*ssa.UnOp)
	if !ok || ld.Op != token.MUL {
		return nil
	}
	fv, ok := ld.X.(*ssa.FreeVar)
	if !ok {
		return nil
	}
	idx := -1
	for i, v := range fn.FreeVars {
		if v == fv {
			idx = i
		}
	}
	if idx < 0 {
		return nil
	}
	// in the parent: the MakeClosure of fn, its binding for that free variable, and a store of the closure into it
	for _, b := range fn.Parent().Blocks {
		for _, ins := range b.Instrs {
			mc, ok := ins.(*ssa.MakeClosure)
			if !ok || mc.Fn != ssa.Value(fn) || idx >= len(mc.Bindings) {
				continue
			}
			cell := mc.Bindings[idx]
			if refs := cell.Referrers(); refs != nil {
				for _, r := range *refs {
					if st, ok := r.(*ssa.Store); ok && st.Addr == cell {
						if v, ok := st.Val.(*ssa.MakeClosure); ok && v.Fn == ssa.Value(fn) {
							return fn
						}
					}
				}
			}
		}
	}
	return nil
}

// rangeFuncProtocolPanic: the messages of the panics go/ssa synthesises around a
// range-over-func loop (yield called after the loop ended, iterator resumed while running ...).
func rangeFuncProtocolPanic(msg string) bool {
	msg = strings.Trim(msg, "\"")
	for _, p := range []string{"yield function called after range loop exit", "iterator call did not preserve panic", "range function", "iterator"} {
		if strings.HasPrefix(msg, p) {
			return true
		}
	}
	return false
}

// selfEvidentVariant: `for ... v < bound ... { ...; v++ }` written without the init/post
// clauses: a conjunct of the condition compares a variable with something the body does not
// assign, and the body moves that variable towards the bound by a constant step in a top-level
// statement, with no `continue` that could bypass it and no other assignment to it.
func selfEvidentVariant(fs *ast.ForStmt) bool {
	if fs.Cond == nil {
		return false
	}
	var conjuncts []ast.Expr
	var split func(e ast.Expr)
	split = func(e ast.Expr) {
		e = ast.Unparen(e)
		if b, ok := e.(*ast.BinaryExpr); ok && b.Op == token.LAND {
			split(b.X)
			split(b.Y)
			return
		}
		conjuncts = append(conjuncts, e)
	}
	split(fs.Cond)
	assigned := map[string]int{}
	hasContinue := false
	var scan func(n ast.Node, depth int)
	scan = func(n ast.Node, depth int) {
		ast.Inspect(n, func(x ast.Node) bool {
			switch y := x.(type) {
			case *ast.FuncLit:
				return false
			case *ast.BranchStmt:
				if y.Tok == token.CONTINUE || y.Tok == token.GOTO {
					hasContinue = true
				}
			case *ast.AssignStmt:
				for _, l := range y.Lhs {
					if id, ok := l.(*ast.Ident); ok {
						assigned[id.Name]++
					}
				}
			case *ast.IncDecStmt:
				if id, ok := y.X.(*ast.Ident); ok {
					assigned[id.Name]++
				}
			case *ast.RangeStmt:
				for _, l := range []ast.Expr{y.Key, y.Value} {
					if id, ok := l.(*ast.Ident); ok {
						assigned[id.Name]++
					}
				}
			case *ast.UnaryExpr:
				if y.Op == token.AND {
					if id, ok := y.X.(*ast.Ident); ok {
						assigned[id.Name] += 2 // address taken: anything may write it
					}
				}
			}
			return true
		})
	}
	scan(fs.Body, 0)
	if hasContinue {
		return false
	}
	// direction of the top-level step statements
	step := map[string]int{}
	for _, st := range fs.Body.List {
		switch y := st.(type) {
		case *ast.IncDecStmt:
			if id, ok := y.X.(*ast.Ident); ok {
				if y.Tok == token.INC {
					step[id.Name] = 1
				} else {
					step[id.Name] = -1
				}
			}
		case *ast.AssignStmt:
			if len(y.Lhs) == 1 && len(y.Rhs) == 1 && (y.Tok == token.ADD_ASSIGN || y.Tok == token.SUB_ASSIGN) {
				if id, ok := y.Lhs[0].(*ast.Ident); ok {
					if lit, ok := y.Rhs[0].(*ast.BasicLit); ok && lit.Kind == token.INT && lit.Value != "0" {
						if y.Tok == token.ADD_ASSIGN {
							step[id.Name] = 1
						} else {
							step[id.Name] = -1
						}
					}
				}
			}
		}
	}
	mentions := func(e ast.Expr) map[string]bool {
		out := map[string]bool{}
		ast.Inspect(e, func(x ast.Node) bool {
			if id, ok := x.(*ast.Ident); ok {
				out[id.Name] = true
			}
			return true
		})
		return out
	}
	for _, cj := range conjuncts {
		b, ok := cj.(*ast.BinaryExpr)
		if !ok {
			continue
		}
		try := func(v ast.Expr, bound ast.Expr, dir int) bool {
			id, ok := ast.Unparen(v).(*ast.Ident)
			if !ok || step[id.Name] != dir || assigned[id.Name] != 1 {
				return false
			}
			for nm := range mentions(bound) {
				if assigned[nm] > 0 {
					return false
				}
			}
			return true
		}
		switch b.Op {
		case token.LSS, token.LEQ: // v < bound: v rises; bound > v: bound... (X < Y)
			if try(b.X, b.Y, 1) || try(b.Y, b.X, -1) {
				return true
			}
		case token.GTR, token.GEQ: // v > bound: v falls
			if try(b.X, b.Y, -1) || try(b.Y, b.X, 1) {
				return true
			}
		}
	}
	return false
}

// boundsOrdered: lo <= hi holds at b: hi is lo plus something non-negative (lo + len(..),
// lo + constant), or a dominating branch compared them (lo <= hi, lo < hi, hi >= lo, hi > lo).
func boundsOrdered(lo, hi ssa.Value, b *ssa.BasicBlock) bool {
	lo, hi = stripTrivial(lo), stripTrivial(hi)
	// the [start, end) offsets of one capture group, as getGroupOffsets hands them out (results 0
	// and 1 of one call; regexp guarantees start <= end for a group that took part in the match)
	if el, ok := lo.(*ssa.Extract); ok && el.Index == 0 {
		if eh, ok := hi.(*ssa.Extract); ok && eh.Index == 1 && eh.Tuple == el.Tuple {
			if cl, ok := el.Tuple.(*ssa.Call); ok && calleeName(cl) == "core/annotations.getGroupOffsets" {
				return true
			}
		}
	}
	if bo, ok := hi.(*ssa.BinOp); ok && bo.Op == token.ADD {
		other := ssa.Value(nil)
		if stripTrivial(bo.X) == lo {
			other = stripTrivial(bo.Y)
		} else if stripTrivial(bo.Y) == lo {
			other = stripTrivial(bo.X)
		}
		if other != nil {
			if k, ok := other.(*ssa.Const); ok && k.Value != nil && !strings.HasPrefix(constString(k.Value), "-") {
				return true
			}
			if c, ok := other.(*ssa.Call); ok && calleeName(c) == "builtin.len" {
				return true
			}
		}
	}
	for _, f := range dominatingFacts(b) {
		cnd, pol := unwrapNot(f.Cond, f.Pol)
		bo, ok := cnd.(*ssa.BinOp)
		if !ok {
			continue
		}
		x, y := stripTrivial(bo.X), stripTrivial(bo.Y)
		op := bo.Op
		if !pol {
			switch op {
			case token.LSS:
				op = token.GEQ
			case token.LEQ:
				op = token.GTR
			case token.GTR:
				op = token.LEQ
			case token.GEQ:
				op = token.LSS
			default:
				continue
			}
		}
		if (x == lo && y == hi && (op == token.LSS || op == token.LEQ)) || (x == hi && y == lo && (op == token.GTR || op == token.GEQ)) {
			return true
		}
		// lo = v + 1 under v < hi
		if lb, ok := lo.(*ssa.BinOp); ok && lb.Op == token.ADD {
			if k, ok := stripTrivial(lb.Y).(*ssa.Const); ok && k.Value != nil && constString(k.Value) == "1" {
				v := stripTrivial(lb.X)
				if (x == v && y == hi && op == token.LSS) || (x == hi && y == v && op == token.GTR) {
					return true
				}
			}
		}
	}
	return false
}
