package main

import (
	"fmt"
	"go/ast"
	"go/token"
	"go/types"
	"sort"
	"strings"

	"golang.org/x/tools/go/ssa"
)

func init() {
	register("C17", "Static structural obligations on graphs/symboldg: the five indices (nodes, lookupKeys, edges, deps, revDeps) are written only by addNode, AddEdge, RemoveEdge, RemoveNode and the constructor; AddEdge writes deps[from][to], revDeps[to][from] and edges[from][kind::to] from the same (from,to,kind) and inserts the descriptor (and consumes an ordinal) only when the key is absent; RemoveEdge deletes from all three with mirrored keys and drops the adjacency entries only when no edge of another kind still links the pair; RemoveNode detaches every dependent (no dependent is skipped), removes every outgoing edge and deletes the node from all five indices; keys handed to RemoveNode inside the package are stored identities (a node's Id or a key enumerated from the indices), never freshly built ones; node insertion is idempotent (existing node returned for an equal file version, stale one evicted); queries read edges for outgoing and revDeps+edges for incoming. The invariant over operation histories is not decided.", checkC17)
}

const pkgSdg = "graphs/symboldg"

var graphIndices = []string{"nodes", "lookupKeys", "edges", "deps", "revDeps"}

type idxWrite struct {
	Fn    string
	Field string
	Kind  string // "insert" | "delete" | "assign"
	Pos   token.Pos
	Ins   ssa.Instruction
	Via   ssa.CallInstruction // the write is in a new helper: the call (in a reviewed function's region) it is done for
}

// in runs f with the write's call context: inside a new helper shared by several index
// updates (`linkKey(g.deps, from, to)`, `linkKey(g.revDeps, to, from)`), the helper's
// parameters stand for the arguments of that call.
func (wr idxWrite) in(f func()) {
	if wr.Via == nil {
		f()
		return
	}
	callee := wr.Via.Common().StaticCallee()
	saved := sliceCtx
	sliceCtx = append(append([]sliceFrame{}, saved...), sliceFrame{wr.Via, callee, map[ssa.Value]bool{}})
	defer func() { sliceCtx = saved }()
	f()
}

// indexWrites finds every mutation of a SymbolGraph index: map inserts and deletes on a
// map loaded (directly or through an inner map) from one of the index fields, and stores
// to the field itself.
func (w *World) indexWrites() []idxWrite {
	var out []idxWrite
	sg := w.lookupType(pkgSdg, "SymbolGraph")
	if sg == nil {
		return nil
	}
	fieldOfMap := func(m ssa.Value) string {
		a := sliceOf(m)
		for f := range a.Fields {
			for _, ix := range graphIndices {
				if f.Name() == ix {
					if own, ok := derefNamedOwner(f, sg); ok && own {
						return ix
					}
				}
			}
		}
		return ""
	}
	for _, fn := range w.SSAFuncs {
		if fn.Pkg == nil || !strings.HasPrefix(fn.Pkg.Pkg.Path(), modPath) {
			continue
		}
		// a write inside a new helper is one write per call of the helper
		ctxs := []ssa.CallInstruction{nil}
		if w.isNewFn(fn) && fn.Parent() == nil {
			if sites := w.callSitesOfNew(fn); len(sites) > 0 {
				ctxs = sites
			}
		}
		for _, via := range ctxs {
			via := via
			allInstrsLocal(fn, false, func(f *ssa.Function, _ *ssa.BasicBlock, _ int, ins ssa.Instruction) {
				host := fnShort(f)
				if via != nil {
					host = fnShort(via.Parent())
				}
				add := func(fld, kind string, pos token.Pos) {
					out = append(out, idxWrite{host, fld, kind, pos, ins, via})
				}
				idxWrite{Via: via}.in(func() {
					switch x := ins.(type) {
					case *ssa.MapUpdate:
						if fld := fieldOfMap(x.Map); fld != "" {
							add(fld, "insert", x.Pos())
						}
					case *ssa.Call:
						if calleeName(x) == "builtin.delete" && len(x.Call.Args) == 2 {
							if fld := fieldOfMap(x.Call.Args[0]); fld != "" {
								add(fld, "delete", x.Pos())
							}
						}
					case *ssa.Store:
						if fa, ok := x.Addr.(*ssa.FieldAddr); ok {
							if v := structFieldVar(fa.X.Type(), fa.Field); v != nil {
								if own, ok := derefNamedOwner(v, sg); ok && own {
									for _, ix := range graphIndices {
										if v.Name() == ix {
											add(ix, "assign", x.Pos())
										}
									}
								}
							}
						}
					}
				})
			})
		}
	}
	sort.Slice(out, func(i, j int) bool { return out[i].Pos < out[j].Pos })
	return out
}

// derefNamedOwner: v is a field of struct type owner.
func derefNamedOwner(v *types.Var, owner *types.Named) (bool, bool) {
	st, ok := owner.Underlying().(*types.Struct)
	if !ok {
		return false, false
	}
	for i := 0; i < st.NumFields(); i++ {
		if st.Field(i) == v {
			return true, true
		}
	}
	return false, true
}

func checkC17(c *Ctx, r *Report) {
	defer checkGraphMutationSites(c, r, "C17.a")
	defer checkEndpointsResolvedLast(c, r, "C17.b")
	defer checkOrphanTest(c, r, "C17.b")
	defer checkContainerFields(c, r, "C17.a")
	w := c.W
	r.NotDecided = append(r.NotDecided, "the invariant over operation histories (that edges, deps and revDeps denote the same edge set after any sequence of operations): an inductive argument", "agreement of Children/Parents/Descendants with a set model for every graph")
	const (
		addNode = "(*" + pkgSdg + ".SymbolGraph).addNode"
		addEdge = "(*" + pkgSdg + ".SymbolGraph).AddEdge"
		rmEdge  = "(*" + pkgSdg + ".SymbolGraph).RemoveEdge"
		rmNode  = "(*" + pkgSdg + ".SymbolGraph).RemoveNode"
		newG    = pkgSdg + ".NewSymbolGraph"
		guard   = "(*" + pkgSdg + ".SymbolGraph).idempotencyGuard"
		create  = "(*" + pkgSdg + ".SymbolGraph).createAndAddSymNode"
	)
	writes := w.indexWrites()

	// ---- C17.a ownership
	{
		allowed := map[string]map[string]bool{
			"nodes":      {addNode: true, rmNode: true, newG: true},
			"lookupKeys": {addNode: true, rmNode: true, newG: true, addEdge: true},
			"edges":      {addEdge: true, rmEdge: true, newG: true},
			"deps":       {addEdge: true, rmEdge: true, rmNode: true, newG: true},
			"revDeps":    {addEdge: true, rmEdge: true, rmNode: true, newG: true},
		}
		per := map[string][]string{}
		viols := map[string]string{}
		for _, wr := range writes {
			per[wr.Field] = append(per[wr.Field], w.pos(wr.Pos))
			if !allowed[wr.Field][wr.Fn] {
				viols[wr.Field] = fmt.Sprintf("%s: %s %ss SymbolGraph.%s; only %v may (a second writer cannot keep the redundant indices in step)", w.pos(wr.Pos), wr.Fn, wr.Kind, wr.Field, keysOfBool(allowed[wr.Field]))
			}
		}
		for _, ix := range graphIndices {
			v := viols[ix]
			if len(per[ix]) < 2 {
				v = fmt.Sprintf("only %d writes of SymbolGraph.%s recognised (floor 2)", len(per[ix]), ix)
			}
			r.add("C17.a", "whowrites", "SymbolGraph."+ix, "SymbolGraph."+ix+" is mutated only by its owners", keysOfBool(allowed[ix]), per[ix], v)
		}
	}

	// ---- C17.b co-mutation
	keyParam := func(v ssa.Value) map[string]bool {
		out := map[string]bool{}
		a := sliceOf(v)
		// AddEdge / RemoveEdge (g, from, to, kind, …): the role of a parameter is its position
		roles := []string{"g", "from", "to", "kind", "meta"}
		for p := range a.Params {
			for i, q := range p.Parent().Params {
				if q == p && i < len(roles) {
					out[roles[i]] = true
				}
			}
		}
		return out
	}
	if fi := need(c, r, "C17.b", addEdge); fi != nil {
		viol := ""
		var sites []string
		got := map[string]bool{}
		for _, wr := range writes {
			if wr.Fn != addEdge || wr.Kind != "insert" {
				continue
			}
			mu := wr.Ins.(*ssa.MapUpdate)
			sites = append(sites, w.pos(wr.Pos))
			wr.in(func() {
				kp := keyParam(mu.Key)
				mp := keyParam(mu.Map)
				_, innerMap := mu.Map.Type().Underlying().(*types.Map)
				_ = innerMap
				isOuter := false
				if mt, ok := mu.Map.Type().Underlying().(*types.Map); ok {
					_, isOuter = mt.Elem().Underlying().(*types.Map)
				}
				switch wr.Field {
				case "deps":
					if isOuter {
						if !kp["from"] || kp["to"] {
							viol = fmt.Sprintf("%s: deps is not keyed by the source", w.pos(wr.Pos))
						}
					} else {
						got["deps"] = true
						if !kp["to"] || kp["from"] || !mp["from"] {
							viol = fmt.Sprintf("%s: deps[from] does not record the target `to`", w.pos(wr.Pos))
						}
					}
				case "revDeps":
					if isOuter {
						if !kp["to"] || kp["from"] {
							viol = fmt.Sprintf("%s: revDeps is not keyed by the target", w.pos(wr.Pos))
						}
					} else {
						got["revDeps"] = true
						if !kp["from"] || kp["to"] || !mp["to"] {
							viol = fmt.Sprintf("%s: revDeps[to] does not record the source `from`", w.pos(wr.Pos))
						}
					}
				case "edges":
					if isOuter {
						if !kp["from"] || kp["to"] {
							viol = fmt.Sprintf("%s: edges is not keyed by the source", w.pos(wr.Pos))
						}
					} else {
						got["edges"] = true
						ka := sliceOf(mu.Key)
						if !ka.Calls[pkgSdg+".edgeMapKey"] || !kp["kind"] || !kp["to"] {
							viol = fmt.Sprintf("%s: the descriptor is not stored under edgeMapKey(kind, to)", w.pos(wr.Pos))
						}
						va := keyParam(mu.Value)
						if !va["from"] || !va["to"] || !va["kind"] {
							viol = fmt.Sprintf("%s: the stored descriptor is not built from (from, to, kind)", w.pos(wr.Pos))
						}
					}
				}
			})
		}
		for _, ix := range []string{"edges", "deps", "revDeps"} {
			if !got[ix] {
				viol = fmt.Sprintf("AddEdge does not insert into %s: the three edge indices go out of step (an edge visible from its source but not from its target, or vice versa)", ix)
			}
		}
		o := r.add("C17.b", "co-mutation", addEdge+":edges+deps+revDeps", "AddEdge records the edge in all three indices with mirrored keys", []string{addEdge}, sites, viol)
		o.NonTrivial = true
		// the adjacency inserts are unconditional (every path to the return), the descriptor conditional on absence
		v2 := ""
		var s2 []string
		for _, wr := range writes {
			if wr.Fn != addEdge || wr.Kind != "insert" || (wr.Field != "deps" && wr.Field != "revDeps") {
				continue
			}
			if mt, ok := wr.Ins.(*ssa.MapUpdate).Map.Type().Underlying().(*types.Map); ok {
				if _, outer := mt.Elem().Underlying().(*types.Map); outer {
					continue
				}
			}
			s2 = append(s2, w.pos(wr.Pos))
			at := wr.Ins.Block()
			if wr.Via != nil {
				// done by a new helper: every call of the helper reaches the write, and the call is on every path
				hseen, _ := reachAvoiding(wr.Ins.Parent(), map[*ssa.BasicBlock]bool{at: true}, nil)
				for _, ex := range exitsOf(wr.Ins.Parent()) {
					if ex.Ret != nil && hseen[ex.Ret.Block()] {
						v2 = fmt.Sprintf("%s: %s can return without having recorded %s", w.pos(retPos(ex)), fnReal(wr.Ins.Parent()), wr.Field)
					}
				}
				at = wr.Via.Block()
			}
			seen, _ := reachAvoiding(fi.SSA, map[*ssa.BasicBlock]bool{at: true}, nil)
			for _, ex := range exitsOf(fi.SSA) {
				if ex.Ret != nil && seen[ex.Ret.Block()] {
					v2 = fmt.Sprintf("%s: AddEdge can return without having recorded %s", w.pos(retPos(ex)), wr.Field)
				}
			}
		}
		r.add("C17.b", "mustcall", addEdge+":adjacency-on-every-path", "every AddEdge call records the adjacency in both directions", []string{addEdge}, s2, v2)
	}
	if fi := need(c, r, "C17.b", rmEdge); fi != nil {
		viol := ""
		var sites []string
		got := map[string]bool{}
		for _, wr := range writes {
			if wr.Fn != rmEdge || wr.Kind != "delete" {
				continue
			}
			cl := wr.Ins.(*ssa.Call)
			sites = append(sites, w.pos(wr.Pos))
			wr.in(func() {
				kp := keyParam(cl.Call.Args[1])
				mp := keyParam(cl.Call.Args[0])
				isOuter := false
				if mt, ok := cl.Call.Args[0].Type().Underlying().(*types.Map); ok {
					_, isOuter = mt.Elem().Underlying().(*types.Map)
				}
				if isOuter {
					return // dropping an emptied inner map
				}
				switch wr.Field {
				case "deps":
					got["deps"] = true
					if !kp["to"] || kp["from"] || !mp["from"] {
						viol = fmt.Sprintf("%s: RemoveEdge does not delete `to` from deps[from]", w.pos(wr.Pos))
					}
				case "revDeps":
					got["revDeps"] = true
					if !kp["from"] || kp["to"] || !mp["to"] {
						viol = fmt.Sprintf("%s: RemoveEdge does not delete `from` from revDeps[to]", w.pos(wr.Pos))
					}
				case "edges":
					got["edges"] = true
					if !mp["from"] {
						viol = fmt.Sprintf("%s: RemoveEdge does not delete from edges[from]", w.pos(wr.Pos))
					}
				}
			})
		}
		for _, ix := range []string{"edges", "deps", "revDeps"} {
			if !got[ix] {
				viol = fmt.Sprintf("RemoveEdge does not delete from %s: a removed edge stays visible through that index", ix)
			}
		}
		o := r.add("C17.b", "co-mutation", rmEdge+":edges+deps+revDeps", "RemoveEdge removes the edge from all three indices with mirrored keys", []string{rmEdge}, sites, viol)
		o.NonTrivial = true

		// kind-specific removal keeps the adjacency while another kind links the pair:
		// the deps/revDeps deletes must not be reachable when an edges[from] entry for `to` remains
		v2 := ""
		var s2 []string
		guardFound := false
		// idiom: a loop over the remaining inner edges whose body returns/skips when a key with the target's suffix exists
		var guardPos []token.Pos
		for _, rf := range w.astRegion(fi) {
			ast.Inspect(rf.Decl, func(n ast.Node) bool {
				rs, ok := n.(*ast.RangeStmt)
				if !ok {
					return true
				}
				hasSuffixTest, leaves := false, false
				ast.Inspect(rs.Body, func(m ast.Node) bool {
					switch x := m.(type) {
					case *ast.CallExpr:
						if calleeOfCall(fi.Pkg.TypesInfo, x) == "strings.HasSuffix" {
							hasSuffixTest = true
						}
					case *ast.ReturnStmt:
						leaves = true
					case *ast.AssignStmt:
						// flag idiom: stillLinked = true
						if len(x.Rhs) == 1 {
							if id, ok := x.Rhs[0].(*ast.Ident); ok && id.Name == "true" {
								leaves = true
							}
						}
					}
					return true
				})
				deletes := containsNode(rs.Body, func(m ast.Node) bool {
					cl, ok := m.(*ast.CallExpr)
					if !ok {
						return false
					}
					id, ok := cl.Fun.(*ast.Ident)
					return ok && id.Name == "delete"
				})
				if hasSuffixTest && leaves && !deletes {
					guardFound = true
					s2 = append(s2, w.pos(rs.Pos()))
					guardPos = append(guardPos, w.hostPos(fi, rs))
				}
				return true
			})
		}
		if !guardFound {
			v2 = "RemoveEdge(from, to, &kind) drops deps[from][to] and revDeps[to][from] although an edge of another kind may still link the pair: that edge stays among the source's outgoing edges but disappears from the target's incoming edges and from Parents()"
		}
		// the guard must precede the adjacency deletes
		if guardFound {
			for _, wr := range writes {
				if wr.Fn == rmEdge && wr.Kind == "delete" && (wr.Field == "deps" || wr.Field == "revDeps") {
					for _, gp := range guardPos {
						if dp := w.hostPosOfInstr(fi, wr.Ins); !(gp.IsValid() && gp < dp) {
							v2 = fmt.Sprintf("%s: adjacency is deleted before the remaining-edge test", w.pos(wr.Pos))
						}
					}
				}
			}
		}
		// the remaining-edge test holds for every kind argument: neither the test that leaves the loop
		// nor an `if` around the loop may be conditioned on the *SymbolEdgeKind parameter (C17-m20:
		// `if kind == nil && strings.HasSuffix(k, suffix)` can never fire after a kind-specific removal)
		if guardFound && v2 == "" {
			for _, rf := range w.astRegion(fi) {
				kindParams := map[types.Object]bool{}
				ast.Inspect(rf.Decl, func(n ast.Node) bool {
					if ft, ok := n.(*ast.FuncType); ok && ft.Params != nil {
						for _, f := range ft.Params.List {
							for _, nm := range f.Names {
								if ob := fi.Pkg.TypesInfo.Defs[nm]; ob != nil && strings.HasSuffix(ob.Type().String(), "SymbolEdgeKind") {
									kindParams[ob] = true
								}
							}
						}
					}
					return true
				})
				mentionsKind := func(e ast.Node) bool {
					return e != nil && containsNode(e, func(m ast.Node) bool {
						id, ok := m.(*ast.Ident)
						return ok && kindParams[fi.Pkg.TypesInfo.Uses[id]]
					})
				}
				// `kind != nil` is the one harmless test: with a nil kind every edge to the target has been
				// removed already, so the loop cannot find one - running it for non-nil kinds only changes nothing
				kindNonNil := func(e ast.Expr) bool {
					for {
						pe, ok := e.(*ast.ParenExpr)
						if !ok {
							break
						}
						e = pe.X
					}
					be, ok := e.(*ast.BinaryExpr)
					if !ok || be.Op != token.NEQ {
						return false
					}
					isNil := func(x ast.Expr) bool { id, ok := x.(*ast.Ident); return ok && id.Name == "nil" }
					isKind := func(x ast.Expr) bool {
						id, ok := x.(*ast.Ident)
						return ok && kindParams[fi.Pkg.TypesInfo.Uses[id]]
					}
					return (isKind(be.X) && isNil(be.Y)) || (isNil(be.X) && isKind(be.Y))
				}
				var harmfulConjunct func(e ast.Expr) bool
				harmfulConjunct = func(e ast.Expr) bool {
					if pe, ok := e.(*ast.ParenExpr); ok {
						return harmfulConjunct(pe.X)
					}
					if be, ok := e.(*ast.BinaryExpr); ok && be.Op == token.LAND {
						return harmfulConjunct(be.X) || harmfulConjunct(be.Y)
					}
					return mentionsKind(e) && !kindNonNil(e)
				}
				var stack []ast.Node
				ast.Inspect(rf.Decl, func(n ast.Node) bool {
					if n == nil {
						stack = stack[:len(stack)-1]
						return true
					}
					stack = append(stack, n)
					rs, ok := n.(*ast.RangeStmt)
					if !ok {
						return true
					}
					isGuard := false
					for _, gp := range guardPos {
						if gp == w.hostPos(fi, rs) {
							isGuard = true
						}
					}
					if !isGuard {
						return true
					}
					for _, anc := range stack[:len(stack)-1] {
						if is, ok := anc.(*ast.IfStmt); ok && mentionsKind(is.Cond) && !kindNonNil(is.Cond) && containsNode(is.Body, func(m ast.Node) bool { return m == ast.Node(rs) }) {
							v2 = fmt.Sprintf("%s: the remaining-edge test runs only under a condition on the kind argument (%s): for the other kind arguments the adjacency of a pair that is still linked is dropped", w.pos(is.Pos()), types.ExprString(is.Cond))
						}
					}
					ast.Inspect(rs.Body, func(m ast.Node) bool {
						if is, ok := m.(*ast.IfStmt); ok && harmfulConjunct(is.Cond) {
							v2 = fmt.Sprintf("%s: the remaining-edge test is conditioned on the kind argument (%s): after RemoveEdge(from, to, &kind) an edge of another kind no longer keeps deps[from][to] / revDeps[to][from], so it stays among the source's outgoing edges but disappears from the target's incoming edges and from Parents()", w.pos(is.Pos()), types.ExprString(is.Cond))
						}
						return true
					})
					return true
				})
			}
		}
		o2 := r.add("C17.b", "guardedby", rmEdge+":adjacency-kept-while-linked", "deps/revDeps entries of a pair are dropped only when no edge of any kind links it any more", []string{rmEdge}, s2, v2)
		o2.NonTrivial = true
	}
	if fi := need(c, r, "C17.b", addNode); fi != nil {
		viol := ""
		var sites []string
		var keys []ssa.Value
		for _, wr := range writes {
			if wr.Fn == addNode && wr.Kind == "insert" {
				sites = append(sites, w.pos(wr.Pos))
				keys = append(keys, wr.Ins.(*ssa.MapUpdate).Key)
			}
		}
		if len(keys) != 2 || keys[0] != keys[1] {
			viol = "addNode does not write nodes and lookupKeys under the same base id"
		}
		r.add("C17.b", "co-mutation", addNode+":nodes+lookupKeys", "a node and its lookup key are registered together under one base id", []string{addNode}, sites, viol)
	}
	if fi := need(c, r, "C17.b", rmNode); fi != nil {
		// final cleanup deletes the id from nodes, lookupKeys, deps, revDeps
		viol := ""
		var sites []string
		got := map[string]bool{}
		for _, wr := range writes {
			if wr.Fn != rmNode || wr.Kind != "delete" {
				continue
			}
			sites = append(sites, w.pos(wr.Pos))
			cl := wr.Ins.(*ssa.Call)
			ka := sliceOf(cl.Call.Args[1])
			if ka.Calls["(graphs.SymbolKey).BaseId"] && keyParam(cl.Call.Args[1])["from"] { // RemoveNode(g, key): the first parameter after the receiver
				got[wr.Field] = true
			}
		}
		for _, ix := range []string{"nodes", "lookupKeys", "deps", "revDeps"} {
			if !got[ix] {
				viol = fmt.Sprintf("RemoveNode does not delete the removed id from %s", ix)
			}
		}
		r.add("C17.b", "co-mutation", rmNode+":final-cleanup", "RemoveNode deletes the node's id from nodes, lookupKeys, deps and revDeps", []string{rmNode}, sites, viol)
	}
	// every dependent is detached; every outgoing edge is removed
	ruleEach(c, r, "C17.b", rmNode,
		func(fi *FuncInfo) func(ast.Expr) bool { return w.rangeOverType(fi, "[]graphs.SymbolKey") }, "dependents",
		func(fi *FuncInfo) func(ast.Node) bool { return w.callPred(fi, rmEdge) }, "RemoveEdge(fromKey, key, nil)", nil, false,
		"the edge of every dependent to the removed node is removed - including dependents that are not (yet) nodes themselves")
	ruleEach(c, r, "C17.b", rmNode,
		func(fi *FuncInfo) func(ast.Expr) bool { return w.rangeOverType(fi, "[]graphs/symboldg.SymbolEdge") }, "outgoingEdges",
		func(fi *FuncInfo) func(ast.Node) bool { return w.callPred(fi, rmEdge) }, "RemoveEdge(key, e.To, &e.Kind)", nil, false,
		"every outgoing edge of the removed node is removed")
	if fi := need(c, r, "C17.b", rmNode); fi != nil {
		// the dependents snapshot is the full revDeps[id] set; the outgoing snapshot the full edges[id] map
		viol := ""
		var sites []string
		info := fi.Pkg.TypesInfo
		// originField: the struct field a map-typed expression is read from (g.F[k], or a
		// local defined as `x, ok := g.F[k]` / `x := g.F[k]`)
		var originField func(e ast.Expr, depth int) string
		originField = func(e ast.Expr, depth int) string {
			if depth > 4 {
				return ""
			}
			switch x := ast.Unparen(e).(type) {
			case *ast.IndexExpr:
				if se, ok := ast.Unparen(x.X).(*ast.SelectorExpr); ok {
					if sel := info.Selections[se]; sel != nil && sel.Kind() == types.FieldVal {
						return sel.Obj().Name()
					}
				}
			case *ast.Ident:
				obj := info.ObjectOf(x)
				origin := ""
				w.inspectRegion(fi, func(n ast.Node) bool {
					as, ok := n.(*ast.AssignStmt)
					if !ok || len(as.Rhs) != 1 || len(as.Lhs) == 0 {
						return true
					}
					if id, ok := as.Lhs[0].(*ast.Ident); ok && info.ObjectOf(id) == obj {
						origin = originField(as.Rhs[0], depth+1)
					}
					return true
				})
				return origin
			}
			return ""
		}
		for _, field := range []string{"revDeps", "edges"} {
			// idiom 1: slices.Collect(maps.Keys|Values(g.F[k])) - complete by construction
			collected := false
			w.inspectRegion(fi, func(n ast.Node) bool {
				cl, ok := n.(*ast.CallExpr)
				if !ok || len(cl.Args) != 1 || !strings.HasPrefix(calleeOfCall(info, cl), "slices.Collect") {
					return true
				}
				inner, ok := ast.Unparen(cl.Args[0]).(*ast.CallExpr)
				if !ok || len(inner.Args) != 1 {
					return true
				}
				if k := calleeOfCall(info, inner); (strings.HasPrefix(k, "maps.Keys") || strings.HasPrefix(k, "maps.Values")) && originField(inner.Args[0], 0) == field {
					collected = true
					sites = append(sites, w.pos(cl.Pos()))
				}
				return true
			})
			if collected {
				continue
			}
			// idiom 2: a range loop over g.F[k] that appends on every iteration
			loops := w.rangeLoops(fi, func(e ast.Expr) bool {
				t := info.TypeOf(e)
				if t == nil {
					return false
				}
				_, isMap := t.Underlying().(*types.Map)
				return isMap && originField(e, 0) == field
			})
			if len(loops) != 1 {
				viol = fmt.Sprintf("expected one snapshot (range+append, or slices.Collect) of %s[id], found %d", field, len(loops))
				continue
			}
			sites = append(sites, w.pos(loops[0].Pos()))
			g := w.cfgOf(fi)
			_, v := w.eachIteration(fi, g, loops[0], func(n ast.Node) bool {
				as, ok := n.(*ast.AssignStmt)
				if !ok || len(as.Rhs) != 1 {
					return false
				}
				cl, ok := as.Rhs[0].(*ast.CallExpr)
				return ok && calleeOfCall(info, cl) == "builtin.append"
			}, nil, false)
			if v != "" {
				viol = fmt.Sprintf("the %s snapshot skips entries: %s", field, v)
			}
		}
		// RemoveEdge calls in the dependents loop: (fromKey, key, nil); in the outgoing loop: (key, e.To, &e.Kind)
		for _, cl := range callsIn(fi.SSA, false, nameIs(rmEdge)) {
			sites = append(sites, w.pos(cl.Pos()))
			args := cl.Common().Args
			isKey := func(v ssa.Value) bool {
				p, ok := stripTrivial(v).(*ssa.Parameter)
				return ok && len(fi.SSA.Params) == 2 && p == fi.SSA.Params[1]
			}
			k3, isNil := args[3].(*ssa.Const)
			if isNil && k3.IsNil() {
				if isKey(args[1]) || !isKey(args[2]) {
					viol = fmt.Sprintf("%s: dependents are not detached with RemoveEdge(dependent, key, nil)", w.pos(cl.Pos()))
				}
			} else if !isKey(args[1]) {
				viol = fmt.Sprintf("%s: outgoing edges are not removed with RemoveEdge(key, target, kind)", w.pos(cl.Pos()))
			}
		}
		r.add("C17.b", "fieldflow", rmNode+":snapshots+operands", "RemoveNode snapshots all dependents and all outgoing edges and removes each with the right operands", []string{rmNode}, sites, viol)
	}
	// keys given to RemoveNode inside the package are stored identities
	{
		viol := ""
		var sites []string
		n := 0
		for _, cl := range w.callersOf(nameIs(rmNode)) {
			if cl.Parent().Pkg == nil || short(cl.Parent().Pkg.Pkg.Path()) != pkgSdg {
				continue
			}
			n++
			sites = append(sites, w.pos(cl.Pos()))
			// the value itself (through phis/conversions), not what it was looked up with
			fresh, stored := false, false
			for _, lv := range phiLeaves(stripTrivial(cl.Common().Args[1])) {
				switch x := stripTrivial(lv).(type) {
				case *ssa.Call:
					if k := calleeName(x); strings.HasPrefix(k, "graphs.New") && strings.HasSuffix(k, "SymbolKey") {
						fresh = true
					}
				case *ssa.UnOp:
					switch ad := x.X.(type) {
					case *ssa.FieldAddr:
						if v := structFieldVar(ad.X.Type(), ad.Field); v != nil && v.Name() == "Id" {
							stored = true
						}
					case *ssa.IndexAddr:
						stored = true // element of a snapshot taken from the indices
					}
				case *ssa.Field:
					if v := structFieldVar(x.X.Type(), x.Field); v != nil && v.Name() == "Id" {
						stored = true
					}
				case *ssa.Extract:
					if _, ok := x.Tuple.(*ssa.Next); ok {
						stored = true // key enumerated from an index map
					}
				}
			}
			if fresh || !stored {
				viol = fmt.Sprintf("%s: %s evicts with a freshly built key instead of the stored identity (the node's Id): deps/revDeps are sets of full keys (file version included), so RemoveEdge's deletes miss the entries stored under the old version and stale adjacency survives the node", w.pos(cl.Pos()), fnShort(cl.Parent()))
			}
		}
		if n < 2 {
			viol = fmt.Sprintf("expected >= 2 internal RemoveNode calls (idempotencyGuard, cascade), found %d", n)
		}
		o := r.add("C17.b", "fieldflow", rmNode+":internal-callers-pass-stored-keys", "inside the package RemoveNode is only given stored identities", []string{guard, rmNode}, sites, viol)
		o.NonTrivial = true
	}

	// ---- C17.c idempotent insertion
	checkGraphIdempotency(c, r, "C17.c")

	// ---- C17.d queries read the index that the mutators maintain
	for _, q := range []struct {
		fn     string
		fields []string
	}{
		{"(*" + pkgSdg + ".SymbolGraph).GetEdges", []string{"edges", "revDeps"}},
		{"(*" + pkgSdg + ".SymbolGraph).childrenUnsorted", []string{"edges", "nodes"}},
		{"(*" + pkgSdg + ".SymbolGraph).childrenSorted", []string{"edges", "nodes"}},
		{"(*" + pkgSdg + ".SymbolGraph).parentsUnsorted", []string{"revDeps", "edges", "nodes"}},
		{"(*" + pkgSdg + ".SymbolGraph).parentsSorted", []string{"revDeps", "edges", "nodes"}},
		{"(*" + pkgSdg + ".SymbolGraph).Get", []string{"nodes"}},
	} {
		fi := need(c, r, "C17.d", q.fn)
		if fi == nil {
			continue
		}
		read := map[string]bool{}
		var sites []string
		allInstrs(fi.SSA, true, func(_ *ssa.Function, _ *ssa.BasicBlock, _ int, ins ssa.Instruction) {
			if fa, ok := ins.(*ssa.FieldAddr); ok {
				if v := structFieldVar(fa.X.Type(), fa.Field); v != nil {
					for _, ix := range graphIndices {
						if v.Name() == ix {
							read[ix] = true
							sites = append(sites, w.pos(fa.Pos()))
						}
					}
				}
			}
		})
		viol := ""
		for _, f := range q.fields {
			if !read[f] {
				viol = fmt.Sprintf("%s no longer reads SymbolGraph.%s", q.fn, f)
			}
		}
		for ix := range read {
			found := false
			for _, f := range q.fields {
				if f == ix {
					found = true
				}
			}
			if !found {
				viol = fmt.Sprintf("%s reads SymbolGraph.%s, which is not the index maintained for this query", q.fn, ix)
			}
		}
		r.add("C17.d", "readset", q.fn+":indices", q.fn+" answers from "+strings.Join(q.fields, "+"), []string{q.fn}, sites, viol)
	}
	if fi := need(c, r, "C17.d", "(*"+pkgSdg+".SymbolGraph).Descendants"); fi != nil {
		// the visited set starts empty: it is only filled from inside the walk over children
		// (a root that lies on a cycle is its own descendant)
		viol := ""
		var sites []string
		n := 0
		var stack []ast.Node
		// the visited set: a local of a set-shaped map type (map[K]struct{} or map[K]bool)
		isVisitedSet := func(e ast.Expr) bool {
			id, ok := e.(*ast.Ident)
			if !ok {
				return false
			}
			v, ok := fi.Pkg.TypesInfo.ObjectOf(id).(*types.Var)
			if !ok || v.IsField() || v.Pos() < fi.Decl.Pos() || v.Pos() > fi.Decl.End() {
				return false
			}
			m, ok := v.Type().Underlying().(*types.Map)
			if !ok {
				return false
			}
			if st, ok := m.Elem().Underlying().(*types.Struct); ok && st.NumFields() == 0 {
				return true
			}
			b, ok := m.Elem().Underlying().(*types.Basic)
			return ok && b.Kind() == types.Bool
		}
		w.inspectRegion(fi, func(nd ast.Node) bool {
			if nd == nil {
				stack = stack[:len(stack)-1]
				return true
			}
			stack = append(stack, nd)
			as, ok := nd.(*ast.AssignStmt)
			if !ok || len(as.Lhs) != 1 {
				return true
			}
			if isVisitedSet(as.Lhs[0]) && len(as.Rhs) == 1 {
				if cl, ok := as.Rhs[0].(*ast.CompositeLit); ok && len(cl.Elts) > 0 {
					n++
					sites = append(sites, w.pos(as.Pos()))
					viol = fmt.Sprintf("%s: the visited set is created non-empty (%s): a node reachable from itself is then missing from its own descendants, and Descendants is no longer the closure of Children", w.pos(as.Pos()), exprString(cl.Elts[0]))
				}
				return true
			}
			ix, ok := as.Lhs[0].(*ast.IndexExpr)
			if !ok || !isVisitedSet(ix.X) {
				return true
			}
			n++
			sites = append(sites, w.pos(as.Pos()))
			inLoop := false
			for _, anc := range stack {
				switch anc.(type) {
				case *ast.RangeStmt, *ast.ForStmt:
					inLoop = true
				}
			}
			if !inLoop {
				viol = fmt.Sprintf("%s: the visited set is seeded before the walk (with %s): a node reachable from itself is then missing from its own descendants, and Descendants is no longer the closure of Children", w.pos(as.Pos()), exprString(ix.Index))
			}
			return true
		})
		if n == 0 {
			viol = "Descendants keeps no visited set (non-termination on cycles is C14's concern; here: nothing to check)"
			viol = ""
		}
		r.add("C17.d", "traversal", fi.Key+":visited-starts-empty", "Descendants = everything reachable through one or more Children steps", []string{fi.Key}, sites, viol)
	}
	{
		// version equality is the conjunction of all identity components
		const eq = "(gast.FileVersion).Equals"
		fi := need(c, r, "C17.c", eq)
		if fi != nil {
			viol := ""
			var sites []string
			sites = append(sites, w.pos(fi.Decl.Pos()))
			for _, ex := range exitsOf(fi.SSA) {
				if ex.Ret == nil || len(ex.Ret.Results) != 1 {
					continue
				}
				for _, lv := range phiLeaves(unspill(ex.Ret.Results[0], ex.Block)) {
					if k, ok := lv.(*ssa.Const); ok && isBoolConst(k, true) {
						// a constant `true`: every component must have been compared equal on the way
						hashOK, timeOK := false, false
						for _, f := range guardsOfBlock(ex.Block) {
							cnd, p := unwrapNot(f.Cond, f.Pol)
							a := sliceOf(cnd)
							if p && a.hasFieldNamed("Hash") {
								hashOK = true
							}
							if p && a.hasFieldNamed("ModTime") {
								timeOK = true
							}
						}
						if !hashOK || !timeOK {
							viol = fmt.Sprintf("%s: FileVersion.Equals answers true without both components (ModTime, Hash) having compared equal: a node re-added under a version that differs in one component only is taken for the stored one and the stale node is kept", w.pos(retPos(ex)))
						}
					}
				}
			}
			read := map[string]bool{}
			allInstrs(fi.SSA, true, func(_ *ssa.Function, _ *ssa.BasicBlock, _ int, ins ssa.Instruction) {
				switch x := ins.(type) {
				case *ssa.FieldAddr:
					if v := structFieldVar(x.X.Type(), x.Field); v != nil {
						read[v.Name()] = true
					}
				case *ssa.Field:
					if v := structFieldVar(x.X.Type(), x.Field); v != nil {
						read[v.Name()] = true
					}
				}
			})
			if !read["Hash"] || !read["ModTime"] {
				viol = "FileVersion.Equals does not compare both ModTime and Hash"
			}
			r.add("C17.c", "readset", eq+":all-components", "two file versions are equal only if modification time and content hash both agree", []string{eq}, sites, viol)
		}
	}
	if fi := need(c, r, "C17.d", "(*"+pkgSdg+".SymbolGraph).GetEdges"); fi != nil {
		// incoming edges are filtered by target == key
		viol := "incoming edges are not filtered by `desc.Edge.To.BaseId() != mapKey`"
		var sites []string
		// some insertion into the result is only reached when the edge's target equals the queried key
		allInstrs(fi.SSA, true, func(_ *ssa.Function, _ *ssa.BasicBlock, _ int, ins ssa.Instruction) {
			mu, ok := ins.(*ssa.MapUpdate)
			if !ok {
				return
			}
			for _, f := range guardsOf(mu) {
				cnd, pol := unwrapNot(f.Cond, f.Pol)
				bo, ok := cnd.(*ssa.BinOp)
				if !ok || !((bo.Op == token.EQL && pol) || (bo.Op == token.NEQ && !pol)) {
					continue
				}
				for _, side := range []ssa.Value{bo.X, bo.Y} {
					if a := sliceOf(side); a.hasFieldNamed("To") && a.Calls["(graphs.SymbolKey).BaseId"] {
						sites = append(sites, w.pos(mu.Pos()), w.pos(instrPos(f.From)))
						viol = ""
					}
				}
			}
		})
		r.add("C17.d", "guardedby", fi.Key+":incoming-filter", "only edges that point at the queried node are listed as incoming", []string{fi.Key}, sites, viol)
	}

	ruleEarlyExitInventory(c, r, "C17.c", 8, "graphs")
	// a symbol is the same symbol across file versions: the graph identifies nodes by BaseId
	// (or SymbolKey.Equals). A raw `==` on two SymbolKey values also compares the file version, so
	// a view that uses it disagrees with the other views as soon as a file is re-visited.
	{
		reviewed := map[string]string{
			"(*graphs/symboldg.SymbolGraph).parentsUnsorted":   "matches the targets of stored edges against the node's stored Id: both were written by the same AddEdge/addNode round",
			"(*graphs/symboldg.SymbolGraph).parentsSorted":     "as parentsUnsorted",
			"(*graphs/symboldg.SymbolGraph).getTypeParamIndex": "matches an edge target against the operand keys of the composite the edge starts at: written together when the composite was inserted",
		}
		viol := ""
		var sites []string
		for _, fn := range w.SSAFuncs {
			if fn.Pkg == nil || short(fn.Pkg.Pkg.Path()) != pkgSdg {
				continue
			}
			allInstrsLocal(fn, false, func(f *ssa.Function, _ *ssa.BasicBlock, _ int, ins ssa.Instruction) {
				bo, ok := ins.(*ssa.BinOp)
				if !ok || (bo.Op != token.EQL && bo.Op != token.NEQ) {
					return
				}
				nt, ok := bo.X.Type().(*types.Named)
				if !ok || nt.Obj().Name() != "SymbolKey" || nt.Obj().Pkg() == nil || short(nt.Obj().Pkg().Path()) != "graphs" {
					return
				}
				sites = append(sites, w.pos(bo.Pos()))
				for _, h := range hostParts(fnShort(f)) {
					if _, ok := reviewed[h]; !ok {
						viol = fmt.Sprintf("%s: %s compares two SymbolKey values with `%s`, which includes the file version; the other views of the graph (nodes, lookupKeys, Exists, Get, edges) identify a symbol by BaseId, so after a file is re-visited this view drops or duplicates what the others still show", w.pos(bo.Pos()), h, bo.Op)
					}
				}
			})
		}
		if len(sites) == 0 {
			sites = []string{pkgSdg + ":0"}
		}
		r.add("C17.d", "vocabulary", "symbolkey-raw-equality", "raw `==` between SymbolKey values occurs only at the reviewed sites; elsewhere identity is BaseId / Equals", keysOf(reviewed), sites, viol)
	}
	// every element filter in these packages is a reviewed one
	ruleSkipInventory(c, r, "C17.d", loadSkipTable(c.VerifDir), 8, "graphs")
}

func keysOfBool(m map[string]bool) []string {
	var out []string
	for k := range m {
		out = append(out, k)
	}
	sort.Strings(out)
	return out
}

// posBefore compares two "file:line" strings of the same file.
func posBefore(a, b string) bool { return posLess(a, b) }

// checkGraphIdempotency: re-inserting an existing node or edge changes nothing (shared by C17.c and C19.a).
func checkGraphIdempotency(c *Ctx, r *Report, clause string) {
	w := c.W
	const (
		addNode = "(*" + pkgSdg + ".SymbolGraph).addNode"
		addEdge = "(*" + pkgSdg + ".SymbolGraph).AddEdge"
		rmNode  = "(*" + pkgSdg + ".SymbolGraph).RemoveNode"
		guard   = "(*" + pkgSdg + ".SymbolGraph).idempotencyGuard"
		create  = "(*" + pkgSdg + ".SymbolGraph).createAndAddSymNode"
	)
	ruleGuarded(c, r, clause, addEdge, "descriptor-insert-only-when-absent",
		func(ins ssa.Instruction) bool {
			mu, ok := ins.(*ssa.MapUpdate)
			if !ok {
				return false
			}
			_, isDesc := mu.Value.Type().(*types.Named)
			return isDesc && strings.HasSuffix(mu.Value.Type().String(), "SymbolEdgeDescriptor")
		},
		func(a *sliceAtoms, cnd ssa.Value) bool { return isCommaOk(cnd) && a.Calls[pkgSdg+".edgeMapKey"] }, false, 1,
		"re-adding an existing (from, to, kind) edge neither replaces the descriptor nor consumes an ordinal")
	ruleGuarded(c, r, clause, addEdge, "ordinal-only-when-absent",
		func(ins ssa.Instruction) bool {
			// an ordinal is consumed by the helper, or - the helper inlined - by advancing the counter itself
			if st, ok := ins.(*ssa.Store); ok {
				if fa, ok := st.Addr.(*ssa.FieldAddr); ok {
					if f := structFieldVar(fa.X.Type(), fa.Field); f != nil && f.Name() == "nextEdgeSeq" {
						return true
					}
				}
			}
			cl, ok := ins.(ssa.CallInstruction)
			return ok && strings.HasSuffix(calleeName(cl), ".getAndIncrementNextEdgeOrdinal")
		},
		func(a *sliceAtoms, cnd ssa.Value) bool { return isCommaOk(cnd) && a.Calls[pkgSdg+".edgeMapKey"] }, false, 1,
		"an ordinal is consumed only for a new edge")
	if fi := need(c, r, clause, guard); fi != nil {
		viol := ""
		var sites []string
		// returns the existing node under Version.Equals; otherwise RemoveNode(existing.Id)
		okRet := false
		for _, ex := range exitsOf(fi.SSA) {
			if ex.Ret == nil || len(ex.Ret.Results) != 3 {
				continue
			}
			n0 := stripTrivial(unspill(ex.Ret.Results[0], ex.Block))
			if isNilConst(n0) {
				continue
			}
			sites = append(sites, w.pos(retPos(ex)))
			for _, f := range guardsOfBlock(ex.Block) {
				cnd, p := unwrapNot(f.Cond, f.Pol)
				if cl, ok := cnd.(*ssa.Call); ok && p && strings.HasSuffix(calleeName(cl), "FileVersion).Equals") {
					okRet = true
				}
			}
			if a := sliceOf(n0); !a.hasFieldNamed("nodes") {
				viol = fmt.Sprintf("%s: the node returned as existing is not the one stored in the graph", w.pos(retPos(ex)))
			}
		}
		if !okRet {
			viol = "idempotencyGuard does not return the stored node under `existing.Version.Equals(version)`"
		}
		rn := callsIn(fi.SSA, false, nameIs(rmNode))
		if len(rn) != 1 {
			viol = "idempotencyGuard does not evict a stale node"
		}
		for _, cl := range rn {
			sites = append(sites, w.pos(cl.Pos()))
			g := false
			for _, f := range guardsOf(cl) {
				cnd, p := unwrapNot(f.Cond, f.Pol)
				if c2, ok := cnd.(*ssa.Call); ok && !p && strings.HasSuffix(calleeName(c2), "FileVersion).Equals") {
					g = true
				}
			}
			if !g {
				viol = fmt.Sprintf("%s: the eviction is not limited to a differing file version", w.pos(cl.Pos()))
			}
		}
		r.add(clause, "guardedby", guard+":same-version-returns-existing", "re-adding a node under the same file version returns the stored node; a newer version evicts the stale one first", []string{guard}, sites, viol)
	}
	if fi := need(c, r, clause, create); fi != nil {
		viol := ""
		var sites []string
		for _, cl := range callsIn(fi.SSA, false, nameIs(addNode)) {
			sites = append(sites, w.pos(cl.Pos()))
			g := false
			for _, f := range guardsOf(cl) {
				cnd, _ := unwrapNot(f.Cond, f.Pol)
				a := sliceOf(cnd)
				if a.Calls[guard] {
					g = true
				}
			}
			if !g {
				viol = fmt.Sprintf("%s: a node is created without consulting idempotencyGuard", w.pos(cl.Pos()))
			}
		}
		if len(sites) != 1 {
			viol = "expected one addNode call in createAndAddSymNode"
		}
		ruleWhoCalls(c, r, clause, nameIs(guard), guard, []string{create}, 1, "every declared-symbol node goes through createAndAddSymNode -> idempotencyGuard")
		r.add(clause, "guardedby", create+":guarded-creation", "a new node is created only when the guard found none (or evicted a stale one)", []string{create}, sites, viol)
	}
	for _, fnk := range []string{"(*" + pkgSdg + ".SymbolGraph).addBuiltinSymbol", "(*" + pkgSdg + ".SymbolGraph).addComposite"} {
		ruleGuarded(c, r, clause, fnk, "addNode-only-when-absent",
			func(ins ssa.Instruction) bool {
				cl, ok := ins.(ssa.CallInstruction)
				return ok && calleeName(cl) == addNode
			},
			func(a *sliceAtoms, cnd ssa.Value) bool { return isCommaOk(cnd) && a.hasFieldNamed("nodes") }, false, 1,
			"built-in/composite nodes are created once; later requests return the stored node")
	}

}

// checkEndpointsResolvedLast: the key of an edge endpoint that was obtained from an existence
// check (getKeyForUsage / ensureTypeNode answer "this node is in the graph") is only good until
// the graph is next changed by something that can remove nodes: createAndAddSymNode replaces a
// stale version of the node and RemoveNode cascades to its dependants - the endpoint just
// checked may be among them. Between the check and the AddEdge that relies on it no such call
// may lie on any path.
func checkEndpointsResolvedLast(c *Ctx, r *Report, clause string) {
	w := c.W
	const (
		addEdge = "(*" + pkgSdg + ".SymbolGraph).AddEdge"
		create  = "(*" + pkgSdg + ".SymbolGraph).createAndAddSymNode"
		rmNode  = "(*" + pkgSdg + ".SymbolGraph).RemoveNode"
	)
	isCheck := func(n string) bool {
		return n == "(*"+pkgSdg+".SymbolGraph).getKeyForUsage" || n == "(*"+pkgSdg+".SymbolGraph).ensureTypeNode"
	}
	isEvict := func(n string) bool { return n == create || n == rmNode }
	// a evict call m lies between k and e when m is reachable from k and e from m
	after := func(a, b ssa.Instruction) bool { // b can execute after a
		if a.Block() == b.Block() {
			ia, ib := -1, -1
			for i, ins := range a.Block().Instrs {
				if ins == a {
					ia = i
				}
				if ins == b {
					ib = i
				}
			}
			if ib > ia {
				return true
			}
		}
		return reachableBlocksFrom(a.Block())[b.Block()]
	}
	var sites []string
	viol := ""
	n := 0
	for _, fi := range w.funcsOfPkgPrefixes(pkgSdg) {
		if fi.SSA == nil || w.isNewName(fi.Key) {
			continue
		}
		edges := callsIn(fi.SSA, true, nameIs(addEdge))
		if len(edges) == 0 {
			continue
		}
		var evicts []ssa.CallInstruction
		allInstrs(fi.SSA, true, func(_ *ssa.Function, _ *ssa.BasicBlock, _ int, ins ssa.Instruction) {
			if cl, ok := ins.(ssa.CallInstruction); ok && isEvict(calleeName(cl)) {
				evicts = append(evicts, cl)
			}
		})
		for _, e := range edges {
			for _, arg := range e.Common().Args {
				for _, ov := range w.originValues(arg) {
					ex, ok := ov.(*ssa.Extract)
					if !ok {
						continue
					}
					k, ok := ex.Tuple.(*ssa.Call)
					if !ok || !isCheck(calleeName(k)) {
						continue
					}
					n++
					sites = append(sites, w.pos(k.Pos()))
					for _, m := range evicts {
						if m.Parent() == k.Parent() && m.Parent() == e.Parent() && after(k, m) && after(m, e) {
							viol = fmt.Sprintf("%s: %s links to a node whose presence was checked at %s, but %s at %s runs in between and can remove nodes (a stale version is replaced, its dependants go with it): the edge may point at a node that is no longer in the graph, and a failed resolution no longer fails the call", w.pos(e.Pos()), fi.Key, w.pos(k.Pos()), calleeName(m), w.pos(m.Pos()))
						}
					}
				}
			}
		}
	}
	if n < 1 {
		viol = "no AddEdge whose endpoint comes from getKeyForUsage / ensureTypeNode was found (floor 1)"
	}
	r.add(clause, "no-reorder", "symboldg:endpoint-check-then-link", "an edge endpoint checked for presence is linked before anything that can remove nodes runs", []string{addEdge, create, rmNode}, sites, viol)
}

// checkOrphanTest: a dependant of a removed node goes with it only if none of its remaining
// dependencies points at a node that exists: RemoveNode looks the targets of the dependant's
// `deps` entries up in the node index (an edge to a key that was never inserted as a node - a
// dangling reference - does not keep its source alive).
func checkOrphanTest(c *Ctx, r *Report, clause string) {
	w := c.W
	const rmNode = "(*" + pkgSdg + ".SymbolGraph).RemoveNode"
	fi := need(c, r, clause, rmNode)
	if fi == nil {
		return
	}
	viol := "RemoveNode no longer looks the targets of a dependant's remaining dependencies up in the node index before deciding that it is orphaned (a dependant whose only dependencies dangle is then kept, or one with a live dependency evicted)"
	var sites []string
	allInstrs(fi.SSA, true, func(_ *ssa.Function, _ *ssa.BasicBlock, _ int, ins ssa.Instruction) {
		lk, ok := ins.(*ssa.Lookup)
		if !ok || !lk.CommaOk {
			return
		}
		if !sliceOf(lk.X).hasFieldNamed("nodes") {
			return
		}
		// the key comes from iterating a deps entry
		if sliceOf(lk.Index).hasFieldNamed("deps") {
			sites = append(sites, w.pos(lk.Pos()))
			viol = ""
		}
	})
	if len(sites) == 0 {
		sites = []string{w.pos(fi.Decl.Pos())}
	}
	r.add(clause, "fieldflow", rmNode+":orphan-test-consults-nodes", "the orphan decision checks the dependant's remaining dependencies against the node index", []string{rmNode}, sites, viol)
}
