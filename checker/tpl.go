package main

import (
	"fmt"
	"go/ast"
	"go/token"
	"go/types"
	"os"
	"path/filepath"
	"reflect"
	"sort"
	"strconv"
	"strings"

	hast "github.com/aymerick/raymond/ast"
	hparser "github.com/aymerick/raymond/parser"
)

// ---------------------------------------------------------------------------
// Template loading (TplLoader)

type Tpl struct {
	Engine string
	Name   string // partial name, or "routes.hbs"
	File   string // repo relative path ("" for inline extension literals)
	Src    string
	Prog   *hast.Program
}

type TplEngine struct {
	EachOverMap []string // `{{#each m}}` blocks whose operand is a Go map
	Name       string
	PkgRel     string
	Routes     *Tpl
	Partials   map[string]*Tpl
	Extensions map[string]*Tpl
	EmbedVars  map[string]string // go var -> embedded file
	UnusedVars []string          // embedded vars not referenced by Partials map / RoutesTemplate
	Pos        string

	Reads    []TplRead
	Helpers  []TplHelperCall
	Invokes  []TplInvoke
	Emits    []TplEmit
	Problems []string
}

// TplEmit is one output position ({{x}} or {{{x}}}): raymond HTML-escapes the former.
type TplEmit struct {
	Tpl       string
	Expr      string   // helper name or path as written
	Fields    []string // resolved fields for a plain path ("" for helpers/data)
	Type      string
	Unescaped bool
	Line      int
}

// TplRead is one resolved context read.
type TplRead struct {
	Tpl    string   // template in which the path is written
	Path   string   // as written
	Fields []string // qualified Go fields it resolves to, in order
	Line   int
	Type   string // resulting Go type
}

type TplHelperCall struct {
	Tpl    string
	Helper string
	Args   []string // canonical args: resolved field chains or literals
	Block  bool
	Line   int
}

type TplInvoke struct {
	Tpl     string
	Partial string
	Hash    string
	Scope   string // Go type of the scope at the invocation
	Line    int
}

type HelperInfo struct {
	Name       string
	NumIn      int
	HasOptions bool
	ParamTypes []string
	Pos        string
}

type TplWorld struct {
	W       *World
	Engines map[string]*TplEngine
	Order   []string
	Helpers map[string]*HelperInfo
	RootCtx *types.Named
	stats   map[string]int
}

var raymondBuiltins = map[string]bool{"if": true, "unless": true, "with": true, "each": true, "log": true, "lookup": true, "equal": true}

func loadTemplates(w *World) (*TplWorld, error) {
	tw := &TplWorld{W: w, Engines: map[string]*TplEngine{}, Helpers: map[string]*HelperInfo{}, stats: map[string]int{}}
	tw.RootCtx = w.lookupType("generator/routes", "RoutesContext")
	if tw.RootCtx == nil {
		return nil, fmt.Errorf("generator/routes.RoutesContext not found")
	}
	prefix := modPath + "/generator/templates/"
	for _, p := range w.Pkgs {
		if !strings.HasPrefix(p.PkgPath, prefix) {
			continue
		}
		name := strings.TrimPrefix(p.PkgPath, prefix)
		if strings.Contains(name, "/") {
			continue
		}
		if p.Types.Scope().Lookup("RoutesTemplate") == nil {
			continue
		}
		eng, err := tw.loadEngine(name)
		if err != nil {
			return nil, err
		}
		tw.inlineNewPartials(eng)
		tw.Engines[name] = eng
		tw.Order = append(tw.Order, name)
	}
	sort.Strings(tw.Order)
	if len(tw.Order) == 0 {
		return nil, fmt.Errorf("no template engines found under generator/templates")
	}
	if err := tw.loadHelpers(); err != nil {
		return nil, err
	}
	// `{{#ifEqual a b}}…{{/ifEqual}}` without an else branch is `{{#equal a b}}…{{/equal}}` when the
	// project's ifEqual helper is the reviewed one (Str(a) == Str(b) ? Fn() : Inverse())
	if tw.ifEqualIsStrEquality() {
		for _, e := range tw.Order {
			eng := tw.Engines[e]
			renameIfEqual(eng.Routes.Prog)
			for _, t := range eng.Partials {
				renameIfEqual(t.Prog)
			}
		}
	}
	nst := 0
	for _, e := range tw.Order {
		eng := tw.Engines[e]
		tw.typeCheckEngine(eng)
		nst += countStatements(eng.Routes.Prog)
		for _, t := range eng.Partials {
			nst += countStatements(t.Prog)
		}
	}
	tw.stats["template_engines"] = len(tw.Order)
	tw.stats["template_statements_analysed"] = nst
	return tw, nil
}

func countStatements(p *hast.Program) int {
	if p == nil {
		return 0
	}
	n := 0
	for _, s := range p.Body {
		n++
		if b, ok := s.(*hast.BlockStatement); ok {
			n += countStatements(b.Program) + countStatements(b.Inverse)
		}
	}
	return n
}

func (tw *TplWorld) loadEngine(name string) (*TplEngine, error) {
	w := tw.W
	rel := "generator/templates/" + name
	p := w.pkg(rel)
	eng := &TplEngine{Name: name, PkgRel: rel, Partials: map[string]*Tpl{}, Extensions: map[string]*Tpl{}, EmbedVars: map[string]string{}}
	dir := filepath.Join(w.RepoDir, rel)
	varContent := map[string]*Tpl{}
	usedVars := map[string]bool{}
	var partialsLit, extLit *ast.CompositeLit
	for _, f := range p.Syntax {
		for _, d := range f.Decls {
			gd, ok := d.(*ast.GenDecl)
			if !ok || gd.Tok != token.VAR {
				continue
			}
			for _, s := range gd.Specs {
				vs := s.(*ast.ValueSpec)
				doc := vs.Doc
				if doc == nil {
					doc = gd.Doc
				}
				if doc != nil {
					for _, c := range doc.List {
						if strings.HasPrefix(c.Text, "//go:embed ") {
							file := strings.TrimSpace(strings.TrimPrefix(c.Text, "//go:embed "))
							for _, nm := range vs.Names {
								eng.EmbedVars[nm.Name] = file
								b, err := os.ReadFile(filepath.Join(dir, file))
								if err != nil {
									return nil, fmt.Errorf("%s: embedded file %s missing: %v", w.pos(vs.Pos()), file, err)
								}
								prog, err := hparser.Parse(string(b))
								if err != nil {
									return nil, fmt.Errorf("%s/%s does not parse as Handlebars: %v", rel, file, err)
								}
								canonBlocks(prog)
								varContent[nm.Name] = &Tpl{Engine: name, Name: nm.Name, File: rel + "/" + file, Src: string(b), Prog: prog}
							}
						}
					}
				}
				for i, nm := range vs.Names {
					if i < len(vs.Values) {
						if cl, ok := vs.Values[i].(*ast.CompositeLit); ok {
							switch nm.Name {
							case "Partials":
								partialsLit = cl
								eng.Pos = w.pos(cl.Pos())
							case "TemplateExtensions":
								extLit = cl
							}
						}
					}
				}
			}
		}
	}
	if partialsLit == nil || extLit == nil {
		return nil, fmt.Errorf("%s: Partials / TemplateExtensions map literals not found", rel)
	}
	rt := varContent["RoutesTemplate"]
	if rt == nil {
		return nil, fmt.Errorf("%s: RoutesTemplate is not an embedded file", rel)
	}
	rt.Name = "routes.hbs"
	eng.Routes = rt
	usedVars["RoutesTemplate"] = true
	for _, el := range partialsLit.Elts {
		kv := el.(*ast.KeyValueExpr)
		key := unquote(kv.Key.(*ast.BasicLit).Value)
		id, ok := kv.Value.(*ast.Ident)
		if !ok || varContent[id.Name] == nil {
			return nil, fmt.Errorf("%s: Partials[%q] is not an embedded template variable", w.pos(kv.Pos()), key)
		}
		usedVars[id.Name] = true
		t := *varContent[id.Name]
		t.Name = key
		eng.Partials[key] = &t
	}
	for _, el := range extLit.Elts {
		kv := el.(*ast.KeyValueExpr)
		key := unquote(kv.Key.(*ast.BasicLit).Value)
		tv := p.TypesInfo.Types[kv.Value]
		if tv.Value == nil {
			return nil, fmt.Errorf("%s: TemplateExtensions[%q] is not a constant string", w.pos(kv.Pos()), key)
		}
		src := constString(tv.Value)
		prog, err := hparser.Parse(src)
		if err != nil {
			return nil, fmt.Errorf("%s: extension %q does not parse: %v", w.pos(kv.Pos()), key, err)
		}
		canonBlocks(prog)
		eng.Extensions[key] = &Tpl{Engine: name, Name: key, Src: src, Prog: prog}
	}
	for v := range eng.EmbedVars {
		if !usedVars[v] {
			eng.UnusedVars = append(eng.UnusedVars, v)
		}
	}
	sort.Strings(eng.UnusedVars)
	return eng, nil
}

// loadHelpers extracts the raymond.RegisterHelper("name", func...) sites.
func (tw *TplWorld) loadHelpers() error {
	w := tw.W
	fi := w.fn("generator/routes.registerHandlebarsHelpers")
	if fi == nil {
		return fmt.Errorf("generator/routes.registerHandlebarsHelpers not found")
	}
	info := fi.Pkg.TypesInfo
	add := func(nameExpr, fnExpr ast.Expr, pos token.Pos) {
		tv := info.Types[nameExpr]
		if tv.Value == nil || info.TypeOf(fnExpr) == nil {
			return
		}
		name := constString(tv.Value)
		sig, _ := info.TypeOf(fnExpr).Underlying().(*types.Signature)
		if sig == nil {
			return
		}
		h := &HelperInfo{Name: name, NumIn: sig.Params().Len(), Pos: w.pos(pos)}
		for i := 0; i < sig.Params().Len(); i++ {
			ts := types.TypeString(sig.Params().At(i).Type(), nil)
			h.ParamTypes = append(h.ParamTypes, short(ts))
			if i == sig.Params().Len()-1 && strings.HasSuffix(ts, "raymond.Options") {
				h.HasOptions = true
			}
		}
		tw.Helpers[name] = h
	}
	w.inspectRegion(fi, func(n ast.Node) bool {
		c, ok := n.(*ast.CallExpr)
		if !ok {
			return true
		}
		switch calleeOfCall(info, c) {
		case "github.com/aymerick/raymond.RegisterHelper":
			if len(c.Args) == 2 {
				add(c.Args[0], c.Args[1], c.Pos())
			}
		case "github.com/aymerick/raymond.RegisterHelpers":
			// the bulk form: a map literal name -> function
			if len(c.Args) == 1 {
				if cl, ok := ast.Unparen(c.Args[0]).(*ast.CompositeLit); ok {
					for _, el := range cl.Elts {
						if kv, ok := el.(*ast.KeyValueExpr); ok {
							add(kv.Key, kv.Value, kv.Pos())
						}
					}
				}
			}
		}
		return true
	})
	if len(tw.Helpers) < 10 {
		return fmt.Errorf("only %d helper registrations recognised in registerHandlebarsHelpers", len(tw.Helpers))
	}
	return nil
}

// ---------------------------------------------------------------------------
// RK-T1: type-checking Handlebars paths against Go context types

type hashVal struct {
	Lit  string     // literal (string/bool/number) canonical, "" if path
	Type types.Type // for path-valued hash entries
	Bool *bool
}

type tscope struct {
	parent *tscope
	typ    types.Type         // Go type of the context (nil for hash scopes)
	hash   map[string]hashVal // partial hash frame
	inEach bool
	bparam bool // block parameters (`as |x i|`): names only, not a context level
}

func (s *tscope) String() string {
	if s == nil {
		return "<nil>"
	}
	if s.hash != nil {
		ks := []string{}
		for k, v := range s.hash {
			ks = append(ks, k+"="+v.Lit)
		}
		sort.Strings(ks)
		return "hash{" + strings.Join(ks, ",") + "}"
	}
	return short(types.TypeString(s.typ, nil))
}

type resolved struct {
	typ    types.Type
	fields []string
	lit    *hashVal
	ok     bool
	dyn    bool // resolved through a dynamic container (map / interface)
}

type tchecker struct {
	tw    *TplWorld
	eng   *TplEngine
	stack []string // partial inclusion stack
	memo  map[string]bool
}

func (tw *TplWorld) typeCheckEngine(eng *TplEngine) {
	tc := &tchecker{tw: tw, eng: eng, memo: map[string]bool{}}
	root := &tscope{typ: tw.RootCtx}
	tc.walkProgram(eng.Routes, eng.Routes.Prog, root)
}

func (tc *tchecker) problem(t *Tpl, line int, format string, args ...any) {
	file := t.File
	if file == "" {
		file = tc.eng.PkgRel + "/embeds.go#" + t.Name
	}
	tc.eng.Problems = append(tc.eng.Problems, fmt.Sprintf("%s:%d: %s", file, line, fmt.Sprintf(format, args...)))
}

func (tc *tchecker) walkProgram(t *Tpl, p *hast.Program, sc *tscope) {
	if p == nil {
		return
	}
	if len(p.BlockParams) > 0 {
		// `as |x i|`: x names the context the block is rendered with, i the key/index; raymond
		// looks block parameters up before the context stack and they are not a `../` level
		hv := map[string]hashVal{}
		for s := sc; s != nil; s = s.parent {
			if s.typ != nil {
				hv[p.BlockParams[0]] = hashVal{Type: s.typ}
				break
			}
		}
		if len(p.BlockParams) > 1 {
			hv[p.BlockParams[1]] = hashVal{Type: types.Typ[types.Int], Lit: "@index"}
		}
		sc = &tscope{parent: sc, hash: hv, bparam: true}
	}
	for _, st := range p.Body {
		switch n := st.(type) {
		case *hast.MustacheStatement:
			res := tc.evalExpr(t, n.Expression, sc, false)
			expr := n.Expression.HelperName()
			if expr == "" || (tc.tw.Helpers[expr] == nil && !raymondBuiltins[expr]) {
				if pe, ok := n.Expression.Path.(*hast.PathExpression); ok {
					expr = pe.Original
				}
			} else {
				expr = "helper:" + expr
			}
			tc.eng.Emits = append(tc.eng.Emits, TplEmit{Tpl: t.Name, Expr: expr, Fields: res.fields, Type: typeStr(res.typ), Unescaped: n.Unescaped, Line: n.Line})
		case *hast.BlockStatement:
			tc.walkBlock(t, n, sc)
		case *hast.PartialStatement:
			tc.walkPartial(t, n, sc)
		}
	}
}

func (tc *tchecker) walkPartial(t *Tpl, n *hast.PartialStatement, sc *tscope) {
	name, ok := hast.HelperNameStr(n.Name)
	if !ok || name == "" {
		tc.problem(t, n.Line, "dynamic partial name %s cannot be resolved statically", n.Name)
		return
	}
	target := tc.eng.Partials[name]
	if target == nil {
		target = tc.eng.Extensions[name]
	}
	hashStr := ""
	inner := sc
	if len(n.Params) > 1 || (len(n.Params) > 0 && n.Hash != nil) {
		tc.problem(t, n.Line, "partial %s: raymond rejects this argument combination", name)
		return
	}
	if len(n.Params) == 1 {
		r := tc.evalNode(t, n.Params[0], sc)
		if r.ok && r.typ != nil {
			inner = &tscope{parent: sc, typ: r.typ}
		}
	}
	if n.Hash != nil {
		h := map[string]hashVal{}
		parts := []string{}
		for _, pr := range n.Hash.Pairs {
			r := tc.evalNode(t, pr.Val, sc)
			hv := hashVal{Type: r.typ}
			if r.lit != nil {
				hv = *r.lit
			}
			h[pr.Key] = hv
			parts = append(parts, pr.Key+"="+hv.Lit)
		}
		sort.Strings(parts)
		hashStr = strings.Join(parts, " ")
		inner = &tscope{parent: sc, hash: h}
	}
	tc.eng.Invokes = append(tc.eng.Invokes, TplInvoke{Tpl: t.Name, Partial: name, Hash: hashStr, Scope: scopeTypeString(sc), Line: n.Line})
	if target == nil {
		tc.problem(t, n.Line, "partial {{> %s}} is not a key of %s Partials/TemplateExtensions", name, tc.eng.Name)
		return
	}
	for _, s := range tc.stack {
		if s == name {
			tc.problem(t, n.Line, "recursive partial inclusion %s", name)
			return
		}
	}
	key := name + "|" + scopeChainString(inner)
	if tc.memo[key] {
		return
	}
	tc.memo[key] = true
	tc.stack = append(tc.stack, name)
	tc.walkProgram(target, target.Prog, inner)
	tc.stack = tc.stack[:len(tc.stack)-1]
}

func scopeTypeString(sc *tscope) string {
	for s := sc; s != nil; s = s.parent {
		if s.typ != nil {
			return short(types.TypeString(s.typ, nil))
		}
	}
	return ""
}

func scopeChainString(sc *tscope) string {
	parts := []string{}
	for s := sc; s != nil; s = s.parent {
		parts = append(parts, s.String())
	}
	return strings.Join(parts, "<")
}

func (tc *tchecker) walkBlock(t *Tpl, n *hast.BlockStatement, sc *tscope) {
	name := n.Expression.HelperName()
	_, isPath := n.Expression.Path.(*hast.PathExpression)
	if name == "" && isPath {
		// {{#a.b}} section on a path: raymond pushes the value as context
		r := tc.evalExpr(t, n.Expression, sc, true)
		inner := sc
		if r.ok && r.typ != nil {
			if et := elemType(r.typ); et != nil {
				inner = &tscope{parent: sc, typ: et, inEach: true}
			} else if _, isB := r.typ.Underlying().(*types.Basic); !isB {
				inner = &tscope{parent: sc, typ: r.typ}
			}
		}
		tc.walkProgram(t, n.Program, inner)
		tc.walkProgram(t, n.Inverse, sc)
		return
	}
	h := tc.tw.Helpers[name]
	if h == nil && !raymondBuiltins[name] {
		// not a helper: a section on a simple field
		r := tc.evalExpr(t, n.Expression, sc, true)
		inner := sc
		if r.ok && r.typ != nil {
			if et := elemType(r.typ); et != nil {
				inner = &tscope{parent: sc, typ: et, inEach: true}
			}
		}
		tc.walkProgram(t, n.Program, inner)
		tc.walkProgram(t, n.Inverse, sc)
		return
	}
	// helper block
	args := []resolved{}
	argStrs := []string{}
	for _, p := range n.Expression.Params {
		r := tc.evalNode(t, p, sc)
		args = append(args, r)
		argStrs = append(argStrs, describe(r, p))
	}
	tc.eng.Helpers = append(tc.eng.Helpers, TplHelperCall{Tpl: t.Name, Helper: name, Args: argStrs, Block: true, Line: n.Line})
	tc.checkArity(t, n.Line, name, len(n.Expression.Params), true)
	switch name {
	case "each":
		inner := sc
		if len(args) == 1 && args[0].ok && args[0].typ != nil {
			et := elemType(args[0].typ)
			if _, isMap := args[0].typ.Underlying().(*types.Map); isMap {
				// raymond ranges over a Go map with reflect's MapKeys: the order of what is rendered
				// changes from run to run
				pth := fmt.Sprint(n.Expression.Params[0])
				if pe, ok := n.Expression.Params[0].(*hast.PathExpression); ok {
					pth = pe.Original
				}
				tc.eng.EachOverMap = append(tc.eng.EachOverMap, fmt.Sprintf("%s:%d: {{#each %s}} iterates a Go map (%s)", t.File, n.Line, pth, types.TypeString(args[0].typ, nil)))
			}
			if et == nil {
				tc.problem(t, n.Line, "{{#each %s}} iterates a non-iterable %s", n.Expression.Params[0], types.TypeString(args[0].typ, nil))
			} else {
				inner = &tscope{parent: sc, typ: et, inEach: true}
			}
		} else if len(args) == 1 && args[0].dyn {
			inner = &tscope{parent: sc, typ: types.NewInterfaceType(nil, nil), inEach: true}
		}
		tc.walkProgram(t, n.Program, inner)
		tc.walkProgram(t, n.Inverse, sc)
	case "with":
		inner := sc
		if len(args) == 1 && args[0].ok && args[0].typ != nil {
			inner = &tscope{parent: sc, typ: args[0].typ}
		}
		tc.walkProgram(t, n.Program, inner)
		tc.walkProgram(t, n.Inverse, sc)
	case "if", "unless":
		// constant folding of literal hash parameters
		if len(args) == 1 && args[0].lit != nil && args[0].lit.Bool != nil {
			truth := *args[0].lit.Bool
			if name == "unless" {
				truth = !truth
			}
			if truth {
				tc.walkProgram(t, n.Program, sc)
			} else {
				tc.walkProgram(t, n.Inverse, sc)
			}
			return
		}
		tc.walkProgram(t, n.Program, sc)
		tc.walkProgram(t, n.Inverse, sc)
	default:
		tc.walkProgram(t, n.Program, sc)
		tc.walkProgram(t, n.Inverse, sc)
	}
}

func elemType(t types.Type) types.Type {
	switch u := t.Underlying().(type) {
	case *types.Slice:
		return u.Elem()
	case *types.Array:
		return u.Elem()
	case *types.Map:
		return u.Elem()
	case *types.Pointer:
		return elemType(u.Elem())
	}
	return nil
}

func (tc *tchecker) checkArity(t *Tpl, line int, name string, nparams int, block bool) {
	h := tc.tw.Helpers[name]
	if h == nil {
		return // builtin
	}
	want := h.NumIn
	if h.HasOptions {
		want--
	}
	if nparams != want {
		tc.problem(t, line, "helper %s called with %d arguments, registered function takes %d (raymond panics)", name, nparams, want)
	}
	if block && !h.HasOptions {
		tc.problem(t, line, "helper %s used as a block but its function has no *raymond.Options parameter", name)
	}
}

func describe(r resolved, n hast.Node) string {
	if r.lit != nil && r.lit.Lit != "" {
		return "lit:" + r.lit.Lit
	}
	if len(r.fields) > 0 {
		return strings.Join(r.fields, ">")
	}
	if sub, ok := n.(*hast.SubExpression); ok {
		return "(" + sub.Expression.Canonical() + ")"
	}
	if pe, ok := n.(*hast.PathExpression); ok {
		if pe.Data {
			return "@" + strings.Join(pe.Parts, ".")
		}
		return pe.Original
	}
	return n.String()
}

// evalNode evaluates a param / hash value node.
func (tc *tchecker) evalNode(t *Tpl, n hast.Node, sc *tscope) resolved {
	switch x := n.(type) {
	case *hast.StringLiteral:
		return resolved{ok: true, typ: types.Typ[types.String], lit: &hashVal{Lit: strconv.Quote(x.Value)}}
	case *hast.BooleanLiteral:
		b := x.Value
		return resolved{ok: true, typ: types.Typ[types.Bool], lit: &hashVal{Lit: strconv.FormatBool(b), Bool: &b}}
	case *hast.NumberLiteral:
		return resolved{ok: true, typ: types.Typ[types.Float64], lit: &hashVal{Lit: x.Original}}
	case *hast.PathExpression:
		return tc.resolvePath(t, x, sc)
	case *hast.SubExpression:
		return tc.evalExpr(t, x.Expression, sc, false)
	case *hast.Expression:
		return tc.evalExpr(t, x, sc, false)
	}
	return resolved{}
}

// evalExpr evaluates a mustache / sub-expression.
func (tc *tchecker) evalExpr(t *Tpl, e *hast.Expression, sc *tscope, blockHead bool) resolved {
	if name := e.HelperName(); name != "" {
		if h := tc.tw.Helpers[name]; h != nil || raymondBuiltins[name] {
			argStrs := []string{}
			for _, p := range e.Params {
				r := tc.evalNode(t, p, sc)
				argStrs = append(argStrs, describe(r, p))
			}
			if !blockHead {
				tc.eng.Helpers = append(tc.eng.Helpers, TplHelperCall{Tpl: t.Name, Helper: name, Args: argStrs, Line: e.Line})
				tc.checkArity(t, e.Line, name, len(e.Params), false)
			}
			return resolved{ok: true, typ: types.Typ[types.String]}
		}
	}
	if len(e.Params) > 0 || e.Hash != nil {
		// looks like a helper call but no helper of that name exists: raymond would
		// try to evaluate it as a field and ignore the params.
		tc.problem(t, e.Line, "call of unknown helper %q", e.Path)
	}
	switch p := e.Path.(type) {
	case *hast.PathExpression:
		return tc.resolvePath(t, p, sc)
	default:
		return tc.evalNode(t, e.Path, sc)
	}
}

func (tc *tchecker) resolvePath(t *Tpl, p *hast.PathExpression, sc *tscope) resolved {
	if p.Data {
		// @index, @first, @last, @key, @root
		inEach := false
		for s := sc; s != nil; s = s.parent {
			if s.inEach {
				inEach = true
			}
		}
		if len(p.Parts) > 0 && p.Parts[0] == "root" {
			root := sc
			for root.parent != nil {
				root = root.parent
			}
			return tc.resolveParts(t, p, p.Parts[1:], root, false)
		}
		if !inEach {
			tc.problem(t, p.Line, "@%s used outside of an #each block", strings.Join(p.Parts, "."))
			return resolved{}
		}
		return resolved{ok: true, typ: types.Typ[types.Bool]}
	}
	start := sc
	for i := 0; i < p.Depth && start != nil; i++ {
		for start != nil && start.bparam {
			start = start.parent
		}
		if start != nil {
			start = start.parent
		}
	}
	if start == nil {
		tc.problem(t, p.Line, "path %s climbs above the root context", p.Original)
		return resolved{}
	}
	// a path through a block parameter (`ctrl.Name` inside `#each Controllers as |ctrl|`) is
	// rewritten to the equivalent depth-based path (`../Name`), so that every rule reads the
	// same template whichever spelling it uses
	if len(p.Parts) > 0 && !p.Data {
		d := 0
		for s := start; s != nil; s = s.parent {
			if !s.bparam {
				if s.hash != nil {
					if _, shadow := s.hash[p.Parts[0]]; shadow {
						break
					}
				}
				d++
				continue
			}
			if _, ok := s.hash[p.Parts[0]]; ok && s.hash[p.Parts[0]].Type != nil && s.parent != nil {
				if s.hash[p.Parts[0]].Lit == "@index" {
					break // the key/index parameter (an element of a []string is a basic type too)
				}
				p.Parts = p.Parts[1:]
				p.Depth += d
				rest := strings.Join(p.Parts, ".")
				if rest == "" {
					rest = "this"
				}
				p.Original = strings.Repeat("../", p.Depth) + rest
				start = s.parent
				break
			}
		}
	}
	if len(p.Parts) == 0 {
		// this / .
		for s := start; s != nil; s = s.parent {
			if s.typ != nil {
				return resolved{ok: true, typ: s.typ}
			}
			if s.hash != nil && !s.bparam {
				return resolved{ok: true, dyn: true}
			}
		}
	}
	return tc.resolveParts(t, p, p.Parts, start, true)
}

func (tc *tchecker) resolveParts(t *Tpl, p *hast.PathExpression, parts []string, start *tscope, climb bool) resolved {
	for s := start; s != nil; s = s.parent {
		r, firstResolved := tc.tryScope(s, parts)
		if firstResolved {
			if !r.ok {
				tc.problem(t, p.Line, "path %q: %q resolves in scope %s but the rest does not exist", p.Original, parts[0], s.String())
				return resolved{}
			}
			tc.eng.Reads = append(tc.eng.Reads, TplRead{Tpl: t.Name, Path: p.Original, Fields: r.fields, Line: p.Line, Type: typeStr(r.typ)})
			return r
		}
		if !climb {
			break
		}
	}
	tc.problem(t, p.Line, "path %q does not resolve in any enclosing scope (scope chain %s); raymond renders it as empty", p.Original, scopeChainString(start))
	return resolved{}
}

func typeStr(t types.Type) string {
	if t == nil {
		return ""
	}
	return short(types.TypeString(t, nil))
}

// tryScope resolves parts in exactly one scope. firstResolved mirrors raymond's
// partResolved: once the first segment exists, ancestors are not consulted.
func (tc *tchecker) tryScope(s *tscope, parts []string) (resolved, bool) {
	if s.hash != nil {
		hv, ok := s.hash[parts[0]]
		if !ok {
			return resolved{}, false
		}
		if len(parts) == 1 {
			hvCopy := hv
			if hv.Lit != "" || hv.Bool != nil {
				return resolved{ok: true, typ: hv.Type, lit: &hvCopy}, true
			}
			return resolved{ok: true, typ: hv.Type}, true
		}
		if hv.Type == nil {
			return resolved{}, true
		}
		r := walkFields(hv.Type, parts[1:])
		return r, true
	}
	if s.typ == nil {
		return resolved{}, false
	}
	ft, fname, ok, dyn := lookupSegment(s.typ, parts[0])
	if !ok {
		return resolved{}, false
	}
	if dyn {
		return resolved{ok: true, dyn: true, fields: []string{fname}}, true
	}
	r := walkFields(ft, parts[1:])
	if r.ok {
		r.fields = append([]string{fname}, r.fields...)
	}
	return r, true
}

func walkFields(t types.Type, parts []string) resolved {
	cur := t
	var fields []string
	for _, part := range parts {
		ft, fname, ok, dyn := lookupSegment(cur, part)
		if !ok {
			return resolved{}
		}
		fields = append(fields, fname)
		if dyn {
			return resolved{ok: true, dyn: true, fields: fields}
		}
		cur = ft
	}
	return resolved{ok: true, typ: cur, fields: fields}
}

// lookupSegment mirrors raymond's evalField on static types.
func lookupSegment(t types.Type, part string) (ft types.Type, qual string, ok bool, dyn bool) {
	if len(part) >= 2 && part[0] == '[' && part[len(part)-1] == ']' {
		part = part[1 : len(part)-1]
	}
	for {
		p, isPtr := t.Underlying().(*types.Pointer)
		if !isPtr {
			break
		}
		t = p.Elem()
	}
	// methods first (raymond checks MethodByName before fields)
	for _, name := range []string{part, strings.Title(part)} {
		if !token.IsExported(name) {
			continue
		}
		obj, _, _ := types.LookupFieldOrMethod(types.NewPointer(t), true, nil, name)
		if f, isFn := obj.(*types.Func); isFn {
			sig := f.Type().(*types.Signature)
			if sig.Results().Len() >= 1 {
				return sig.Results().At(0).Type(), "method:" + fnName(f.FullName()), true, false
			}
		}
	}
	switch u := t.Underlying().(type) {
	case *types.Struct:
		name := strings.Title(part)
		obj, idx, _ := types.LookupFieldOrMethod(t, true, nil, name)
		if v, isVar := obj.(*types.Var); isVar && v.IsField() && v.Exported() {
			// find declaring struct for qualification
			owner := t
			for i := 0; i < len(idx)-1; i++ {
				st := structOf(owner)
				owner = st.Field(idx[i]).Type()
			}
			q := v.Name()
			if n, isN := derefNamed(owner); isN {
				q = short(n.Obj().Pkg().Path()) + "." + n.Obj().Name() + "." + v.Name()
			}
			return v.Type(), q, true, false
		}
		// handlebars struct tag
		for i := 0; i < u.NumFields(); i++ {
			if tag, has := reflect.StructTag(u.Tag(i)).Lookup("handlebars"); has && tag == part {
				return u.Field(i).Type(), u.Field(i).Name(), true, false
			}
		}
		return nil, "", false, false
	case *types.Map:
		if b, isB := u.Key().Underlying().(*types.Basic); isB && b.Info()&types.IsString != 0 {
			return u.Elem(), "mapkey:" + part, true, true
		}
		return nil, "", false, false
	case *types.Slice:
		if _, err := strconv.Atoi(part); err == nil {
			return u.Elem(), "[" + part + "]", true, false
		}
		return nil, "", false, false
	case *types.Array:
		if _, err := strconv.Atoi(part); err == nil {
			return u.Elem(), "[" + part + "]", true, false
		}
		return nil, "", false, false
	case *types.Interface:
		return nil, "dynamic:" + part, true, true
	}
	return nil, "", false, false
}

// ---------------------------------------------------------------------------
// Statement-level helpers used by ordering rules

// findEach returns the program of the first {{#each <path>}} block directly inside p.
func findEach(p *hast.Program, path string) *hast.BlockStatement {
	if p == nil {
		return nil
	}
	for _, st := range p.Body {
		if b, ok := st.(*hast.BlockStatement); ok {
			if b.Expression.HelperName() == "each" && len(b.Expression.Params) == 1 {
				if pe, ok := b.Expression.Params[0].(*hast.PathExpression); ok && pe.Original == path {
					return b
				}
			}
		}
	}
	return nil
}

// partialName of a statement, "" if it is not a partial invocation.
func partialName(n hast.Node) string {
	ps, ok := n.(*hast.PartialStatement)
	if !ok {
		return ""
	}
	name, _ := hast.HelperNameStr(ps.Name)
	return name
}

// tplLine builds a site string for a template statement.
func tplSite(t *Tpl, eng *TplEngine, line int) string {
	f := t.File
	if f == "" {
		f = eng.PkgRel + "/embeds.go"
	}
	return fmt.Sprintf("%s:%d", f, line)
}

// canonBlocks rewrites `{{#unless p}}Y{{/unless}}` on a context path p into the equivalent
// `{{#if p}}{{else}}Y{{/if}}` (and an `unless` with an else into the swapped `if`), so that every
// rule reads one spelling. `unless` on data variables (@last, @first) is left as it is.
func canonBlocks(p *hast.Program) {
	if p == nil {
		return
	}
	for _, st := range p.Body {
		b, ok := st.(*hast.BlockStatement)
		if !ok {
			continue
		}
		if b.Expression != nil && b.Expression.HelperName() == "unless" && len(b.Expression.Params) == 1 && b.Expression.Hash == nil {
			if pe, isPath := b.Expression.Params[0].(*hast.PathExpression); isPath && !pe.Data {
				if hp, ok := b.Expression.Path.(*hast.PathExpression); ok {
					hp.Original, hp.Parts = "if", []string{"if"}
					then := b.Inverse
					if then == nil {
						then = &hast.Program{NodeType: hast.NodeProgram, Loc: b.Program.Loc}
					}
					b.Program, b.Inverse = then, b.Program
				}
			}
		}
		canonBlocks(b.Program)
		canonBlocks(b.Inverse)
	}
}

// inlineNewPartials: a partial under a name the reviewed templates did not have is a fragment
// that was moved out of a reviewed template (or out of routes.hbs). A plain invocation
// `{{> Name}}` (no context argument, no hash) renders the fragment in the invoking context, so
// the rules read the fragment where it is invoked - as for new Go functions. The new partial
// then is no template of its own any more.
func (tw *TplWorld) inlineNewPartials(eng *TplEngine) {
	w := tw.W
	if !w.base.loaded || len(w.base.partials) < 10 {
		return
	}
	isNew := func(name string) bool { return name != "" && !w.base.partials[name] && eng.Partials[name] != nil }
	var inlineProg func(p *hast.Program, depth int)
	inlineProg = func(p *hast.Program, depth int) {
		if p == nil || depth > 6 {
			return
		}
		var out []hast.Node
		for _, st := range p.Body {
			switch n := st.(type) {
			case *hast.PartialStatement:
				if nm := partialName(n); isNew(nm) && len(n.Params) == 0 && n.Hash == nil {
					sub := eng.Partials[nm].Prog
					inlineProg(sub, depth+1)
					out = append(out, sub.Body...)
					tw.stats["new_partials_inlined"]++
					continue
				}
			case *hast.BlockStatement:
				inlineProg(n.Program, depth)
				inlineProg(n.Inverse, depth)
			}
			out = append(out, st)
		}
		p.Body = out
	}
	inlineProg(eng.Routes.Prog, 0)
	names := make([]string, 0, len(eng.Partials))
	for nm := range eng.Partials {
		names = append(names, nm)
	}
	sort.Strings(names)
	for _, nm := range names {
		if !isNew(nm) {
			inlineProg(eng.Partials[nm].Prog, 0)
		}
	}
	for _, nm := range names {
		if isNew(nm) {
			delete(eng.Partials, nm)
		}
	}
}

func renameIfEqual(p *hast.Program) {
	if p == nil {
		return
	}
	for _, st := range p.Body {
		b, ok := st.(*hast.BlockStatement)
		if !ok {
			continue
		}
		if b.Expression != nil && b.Expression.HelperName() == "ifEqual" && len(b.Expression.Params) == 2 && b.Expression.Hash == nil && b.Inverse == nil {
			if hp, ok := b.Expression.Path.(*hast.PathExpression); ok {
				hp.Original, hp.Parts = "equal", []string{"equal"}
			}
		}
		renameIfEqual(b.Program)
		renameIfEqual(b.Inverse)
	}
}

// ifEqualIsStrEquality: the function registered as "ifEqual" compares raymond.Str of its two
// operands with == and renders Fn() on equality, Inverse() otherwise - nothing else.
func (tw *TplWorld) ifEqualIsStrEquality() bool {
	w := tw.W
	fi := w.fn("generator/routes.registerHandlebarsHelpers")
	if fi == nil {
		return false
	}
	info := fi.Pkg.TypesInfo
	ok := false
	w.inspectRegion(fi, func(n ast.Node) bool {
		c, isCall := n.(*ast.CallExpr)
		if !isCall || len(c.Args) != 2 || calleeOfCall(info, c) != "github.com/aymerick/raymond.RegisterHelper" {
			return true
		}
		if tv := info.Types[c.Args[0]]; tv.Value == nil || constString(tv.Value) != "ifEqual" {
			return true
		}
		fl, isLit := ast.Unparen(c.Args[1]).(*ast.FuncLit)
		if !isLit || len(fl.Body.List) != 2 {
			return true
		}
		is, ok1 := fl.Body.List[0].(*ast.IfStmt)
		ret, ok2 := fl.Body.List[1].(*ast.ReturnStmt)
		if !ok1 || !ok2 || is.Else != nil || is.Init != nil || len(is.Body.List) != 1 || len(ret.Results) != 1 {
			return true
		}
		be, ok3 := ast.Unparen(is.Cond).(*ast.BinaryExpr)
		then, ok4 := is.Body.List[0].(*ast.ReturnStmt)
		if !ok3 || !ok4 || be.Op != token.EQL || len(then.Results) != 1 {
			return true
		}
		isStr := func(e ast.Expr) bool {
			cl, isC := ast.Unparen(e).(*ast.CallExpr)
			return isC && len(cl.Args) == 1 && calleeOfCall(info, cl) == "github.com/aymerick/raymond.Str"
		}
		ok = isStr(be.X) && isStr(be.Y) && strings.HasSuffix(exprString(then.Results[0]), ".Fn()") && strings.HasSuffix(exprString(ret.Results[0]), ".Inverse()")
		return true
	})
	return ok
}
