package main

import (
	"fmt"
	"go/ast"
	"go/token"
	"go/types"
	"strings"

	"golang.org/x/tools/go/ssa"
)

func init() {
	register("C06", "Static structural obligations for 'documented parameters, bodies and responses equal the declared method signature': per-iteration rules on generateParams (every non-context parameter is documented in exactly one place, in signature order, no re-ordering anywhere between the AST and the emitter), field-flow rules for every field of parameters/bodies/form properties/responses in both emitters, guard rules for the 200/204/@Response rule and for 'content iff a value is returned', and a sibling-idiom rule that the writer and the reader of the requiredness tag match the same way. Decides which IR field feeds which spec field; the Go-type-string to schema mapping is a function of runtime strings and is not decided.", checkC06)
}

// noReorder: fn contains no sort / reverse call (parameter order must stay signature order).
func ruleNoReorder(c *Ctx, r *Report, clause, fnKey, what string) {
	fi := need(c, r, clause, fnKey)
	if fi == nil {
		return
	}
	w := c.W
	viol := ""
	sites := []string{w.pos(fi.Decl.Pos())}
	w.inspectRegion(fi, func(n ast.Node) bool {
		if cl, ok := n.(*ast.CallExpr); ok {
			cn := calleeOfCall(fi.Pkg.TypesInfo, cl)
			if strings.HasPrefix(cn, "sort.") || strings.HasPrefix(cn, "slices.Sort") || cn == "slices.Reverse" {
				arg := ""
				if len(cl.Args) > 0 {
					arg = exprString(cl.Args[0])
				}
				sites = append(sites, w.pos(cl.Pos()))
				viol = fmt.Sprintf("%s: %s re-orders %s (%s): documented/bound parameter order would no longer be signature order", w.pos(cl.Pos()), fnKey, arg, cn)
			}
		}
		return true
	})
	r.add(clause, "no-reorder", fnKey, what+" keeps signature order (no sort/reverse)", []string{fnKey}, sites, viol)
}

func checkC06(c *Ctx, r *Report) {
	defer func() { ruleRegexInventory(c, r, "C06.b", "core/metadata", "core/annotations") }()
	w := c.W
	r.NotDecided = append(r.NotDecided, "the Go-type-string -> OpenAPI schema mapping for every type string (ToOpenApiType is a switch over runtime names)", "what kin-openapi/libopenapi do with the model objects")
	r.Assume = append(r.Assume, "field-flow is decided flow-insensitively over single functions with one level of helper inlining")

	fp := "definitions.FuncParam"
	pm := "definitions.ParamMeta"
	tm := "definitions.TypeMetadata"

	for _, e := range emitters {
		gp := e.Pkg + ".generateParams"
		crp := e.Pkg + ".createRouteParam"
		crb := e.Pkg + ".createRequestBodyParam"
		crf := e.Pkg + ".createRequestFormParam"
		ccs := e.Pkg + ".createContentWithSchemaRef"
		gcs := e.Pkg + ".generateControllerSpec"
		var schemaFn, validFn string
		var paramT, bodyT, respT, opT *types.Named
		if e.Ver == "3.0" {
			schemaFn, validFn = e.Pkg+".InterfaceToSchemaRef", e.Pkg+".BuildSchemaValidation"
			paramT, bodyT, respT, opT = w.extType(pkgKin, "Parameter"), w.extType(pkgKin, "RequestBody"), w.extType(pkgKin, "Response"), w.extType(pkgKin, "Operation")
		} else {
			schemaFn, validFn = e.Pkg+".InterfaceToSchemaV3", e.Pkg+".BuildSchemaValidationV31"
			paramT, bodyT, respT, opT = w.extType(pkgV3, "Parameter"), w.extType(pkgV3, "RequestBody"), w.extType(pkgV3, "Response"), w.extType(pkgV3, "Operation")
		}

		// every non-context parameter is documented: body / form / parameters
		ruleEach(c, r, "C06.a", gp,
			func(fi *FuncInfo) func(ast.Expr) bool {
				return w.rangeOverField(fi, "definitions.RouteMetadata.FuncParams")
			}, "route.FuncParams",
			func(fi *FuncInfo) func(ast.Node) bool {
				calls := w.callPred(fi, crb, crf, crp)
				return func(n ast.Node) bool { return calls(n) }
			}, "createRequestBodyParam | createRequestFormParam | createRouteParam",
			func(fi *FuncInfo) []skipSpec {
				return []skipSpec{{Cond: w.condReadsField(fi, pm+".IsContext"), Pol: true, Desc: "context parameter"}}
			}, false,
			e.Ver+": every parameter except context parameters is documented (as body, form property or parameter)")
		ruleNoReorder(c, r, "C06.a", gp, e.Ver+": generateParams")
		ruleNoReorder(c, r, "C06.a", gcs, e.Ver+": generateControllerSpec")
		// arms of the location switch
		if fi := need(c, r, "C06.a", gp); fi != nil {
			// whatever the form of the dispatch (switch, if-chain): each creator is called exactly
			// where param.PassedIn is known to be (or not to be) Body / Form
			viol := ""
			var sites []string
			locFact := func(ins ssa.Instruction) map[string]bool { // "Body"/"Form" -> known equal (true) / known different (false)
				out := map[string]bool{}
				for _, f := range guardsOf(ins) {
					cnd, pol := unwrapNot(f.Cond, f.Pol)
					bo, ok := cnd.(*ssa.BinOp)
					if !ok || (bo.Op != token.EQL && bo.Op != token.NEQ) {
						continue
					}
					a := sliceOf(cnd)
					if !a.hasFieldNamed("PassedIn") {
						continue
					}
					eq := (bo.Op == token.EQL) == pol
					for _, k := range a.Consts {
						switch unquote(k) {
						case "Body", "Form":
							out[unquote(k)] = eq
						}
					}
				}
				return out
			}
			want := []struct {
				callee string
				is     map[string]bool
				desc   string
			}{
				{crb, map[string]bool{"Body": true}, "Body -> requestBody"},
				{crf, map[string]bool{"Form": true}, "Form -> form property"},
				{crp, map[string]bool{"Body": false, "Form": false}, "everything else -> parameters"},
			}
			for _, wnt := range want {
				calls := callsIn(fi.SSA, false, nameIs(wnt.callee))
				if len(calls) == 0 {
					viol = fmt.Sprintf("%s never calls %s (%s)", gp, wnt.callee, wnt.desc)
				}
				for _, cl := range calls {
					sites = append(sites, w.pos(cl.Pos()))
					got := locFact(cl)
					for k, v := range wnt.is {
						if gv, known := got[k]; !known || gv != v {
							viol = fmt.Sprintf("%s: %s is called where param.PassedIn is not known to be %s%s (%s)", w.pos(cl.Pos()), wnt.callee, map[bool]string{true: "", false: "other than "}[v], k, wnt.desc)
						}
					}
				}
			}
			// body: stored as operation.RequestBody; parameters: appended to operation.Parameters
			for _, t := range []struct{ callee, field string }{{crb, "RequestBody"}, {crp, "Parameters"}} {
				okStore := false
				for _, sk := range w.fieldSinks(fi, opT, t.field) {
					if w.exprAtoms(fi, sk.Expr).hasCall(t.callee) {
						okStore = true
						sites = append(sites, w.pos(sk.Pos))
					}
				}
				if !okStore {
					viol = fmt.Sprintf("the result of %s is not stored in operation.%s", t.callee, t.field)
				}
			}
			o := r.add("C06.a", "setagree", gp+":location-arms", e.Ver+": Body -> requestBody, Form -> form property, everything else -> parameters", []string{gp}, sites, viol)
			o.NonTrivial = true
		}

		// createRouteParam
		ruleFieldFlow(c, r, ffSpec{Clause: "C06.b", Fn: crp, Owner: paramT, Field: "Name", Must: []string{fp + ".NameInSchema"}, Desc: e.Ver + ": parameter name is the wire name (NameInSchema)"})
		ruleFieldFlow(c, r, ffSpec{Clause: "C06.b", Fn: crp, Owner: paramT, Field: "In", Must: []string{fp + ".PassedIn"}, MustCalls: []string{"strings.ToLower"}, Desc: e.Ver + ": parameter location is lower(PassedIn)"})
		ruleFieldFlow(c, r, ffSpec{Clause: "C06.b", Fn: crp, Owner: paramT, Field: "Description", Must: []string{fp + ".Description"}, Desc: e.Ver + ": parameter description"})
		ruleFieldFlow(c, r, ffSpec{Clause: "C06.b", Fn: crp, Owner: paramT, Field: "Required", Must: []string{fp + ".Validator"}, MustCalls: []string{"generator/swagen/swagtool.IsFieldRequired"}, Desc: e.Ver + ": required = IsFieldRequired(param.Validator)"})
		ruleFieldFlow(c, r, ffSpec{Clause: "C06.b", Fn: crp, Owner: paramT, Field: "Schema", Must: []string{pm + ".TypeMeta", tm + ".Name"}, MustCalls: []string{schemaFn}, AllowedCalls: []string{"*"}, AllowedFields: []string{fp + ".ParamMeta"}, Desc: e.Ver + ": schema is derived from the declared type name"})
		checkValidatorApplied(c, r, e.Ver, crp, validFn, fp)
		ruleMustCall(c, r, "C06.b", crp, e.Pkg+".handleRouteParamDeprecation", e.Ver+": parameter deprecation is applied")

		// body
		ruleFieldFlow(c, r, ffSpec{Clause: "C06.c", Fn: crb, Owner: bodyT, Field: "Required", Must: []string{fp + ".Validator"}, MustCalls: []string{"generator/swagen/swagtool.IsFieldRequired"}, Desc: e.Ver + ": requestBody.required = IsFieldRequired(param.Validator)"})
		ruleFieldFlow(c, r, ffSpec{Clause: "C06.c", Fn: crb, Owner: bodyT, Field: "Content", Must: []string{pm + ".TypeMeta", tm + ".Name", fp + ".Validator"}, MustCalls: []string{ccs}, AllowedFields: []string{fp + ".ParamMeta"}, Desc: e.Ver + ": requestBody content = JSON schema of the declared type"})
		ruleFieldFlow(c, r, ffSpec{Clause: "C06.c", Fn: crb, Owner: bodyT, Field: "Description", Must: []string{fp + ".Description"}, Desc: e.Ver + ": requestBody description"})
		// content type of createContentWithSchemaRef is JSON
		if fi := need(c, r, "C06.c", ccs); fi != nil {
			viol := ""
			var sites []string
			if e.Ver == "3.0" {
				n := 0
				w.inspectRegion(fi, func(nd ast.Node) bool {
					if cl, ok := nd.(*ast.CallExpr); ok && strings.HasSuffix(calleeOfCall(fi.Pkg.TypesInfo, cl), "openapi3.NewContentWithJSONSchemaRef") {
						n++
						sites = append(sites, w.pos(cl.Pos()))
					}
					return true
				})
				if n != 1 {
					viol = "createContentWithSchemaRef does not build JSON content"
				}
			} else {
				a := newAtoms()
				allInstrs(fi.SSA, false, func(_ *ssa.Function, _ *ssa.BasicBlock, _ int, ins ssa.Instruction) {
					if cl, ok := ins.(ssa.CallInstruction); ok && strings.Contains(calleeName(cl), "OrderedMap[") && strings.HasSuffix(calleeName(cl), ").Set") {
						backSlice(cl.Common().Args[1], a, map[ssa.Value]bool{}, 0)
						sites = append(sites, w.pos(cl.Pos()))
					}
				})
				if !hasConst(a, `"application/json"`) {
					viol = "createContentWithSchemaRef does not key the content by application/json"
				}
			}
			r.add("C06.c", "fieldflow", ccs+":application/json", e.Ver+": bodies and responses are documented as application/json", []string{ccs}, sites, viol)
		}

		// form
		checkFormParam(c, r, e.Ver, crf, fp, schemaFn)

		// responses
		checkResponses(c, r, e.Ver, e.Pkg, gcs, respT, opT)
	}

	// ---- the producers of the IR fields used above
	const fpr = "(core/metadata.FuncParam).Reduce"
	fpT := w.lookupType("definitions", "FuncParam")
	pmT := w.lookupType("definitions", "ParamMeta")
	ruleFieldFlow(c, r, ffSpec{Clause: "C06.d", Fn: fpr, Owner: fpT, Field: "NameInSchema", MustCalls: []string{"core/metadata.GetParameterSchemaName"}, AllowedFields: []string{"*"}, Desc: "NameInSchema = GetParameterSchemaName(name, annotations)"})
	ruleFieldFlow(c, r, ffSpec{Clause: "C06.d", Fn: fpr, Owner: fpT, Field: "PassedIn", MustCalls: []string{"core/metadata.GetParamPassedIn"}, AllowedFields: []string{"*"}, Desc: "PassedIn = GetParamPassedIn(name, annotations)"})
	ruleFieldFlow(c, r, ffSpec{Clause: "C06.d", Fn: fpr, Owner: fpT, Field: "Validator", MustCalls: []string{"core/metadata.GetParamValidator", "(core/metadata.TypeUsageMeta).IsByAddress"}, AllowedCalls: []string{"core/metadata.GetParamPassedIn"}, AllowedFields: []string{"*"}, Desc: "Validator = GetParamValidator(name, annotations, passedIn, isPointer)"})
	ruleFieldFlow(c, r, ffSpec{Clause: "C06.d", Fn: fpr, Owner: pmT, Field: "IsContext", MustCalls: []string{"(core/metadata.TypeUsageMeta).IsContext"}, AllowedFields: []string{"*"}, Desc: "IsContext = Type.IsContext()"})
	ruleFieldFlow(c, r, ffSpec{Clause: "C06.d", Fn: fpr, Owner: pmT, Field: "TypeMeta", MustCalls: []string{"(core/metadata.TypeUsageMeta).Reduce"}, AllowedFields: []string{"*"}, Desc: "TypeMeta = Type.Reduce(ctx)"})
	ruleFieldFlow(c, r, ffSpec{Clause: "C06.d", Fn: fpr, Owner: pmT, Field: "Name", Must: []string{"core/metadata.SymNodeMeta.Name"}, AllowedFields: []string{"core/metadata.FuncParam.SymNodeMeta"}, Desc: "Name = Go parameter name"})

	// order: AST order all the way
	const rred = "(core/metadata.ReceiverMeta).Reduce"
	ruleNoReorder(c, r, "C06.a", rred, "ReceiverMeta.Reduce")
	ruleNoReorder(c, r, "C06.a", "(*core/arbitrators.AstArbitrator).GetFuncParametersMeta", "GetFuncParametersMeta")
	ruleNoReorder(c, r, "C06.a", "(*core/visitors.RouteVisitor).constructRouteMetadata", "constructRouteMetadata")
	ruleEach(c, r, "C06.a", rred,
		func(fi *FuncInfo) func(ast.Expr) bool {
			return w.rangeOverField(fi, "core/metadata.ReceiverMeta.Params")
		}, "m.Params",
		func(fi *FuncInfo) func(ast.Node) bool { return w.appendTo(fi, w.resultSlice(fi)) }, "append(reducedParams)", nil, true,
		"every declared parameter is reduced and kept, in order")
	routeT := w.lookupType("definitions", "RouteMetadata")
	ruleFieldFlow(c, r, ffSpec{Clause: "C06.a", Fn: rred, Owner: routeT, Field: "FuncParams", Must: []string{"core/metadata.ReceiverMeta.Params"}, AllowedFields: []string{"*"}, AllowedCalls: []string{"*"}, Desc: "RouteMetadata.FuncParams is the reduced parameter list"})
	checkEveryDeclaredParamKept(c, r, "C06.a")

	// responses producers
	ruleFieldFlow(c, r, ffSpec{Clause: "C06.e", Fn: rred, Owner: routeT, Field: "ResponseSuccessCode", MustCalls: []string{"core/metadata.GetResponseStatusCodeAndDescription"}, AllowedFields: []string{"*"}, AllowedCalls: []string{"builtin.len"}, Desc: "success code comes from GetResponseStatusCodeAndDescription(annotations, hasReturnValue)"})
	ruleFieldFlow(c, r, ffSpec{Clause: "C06.e", Fn: rred, Owner: routeT, Field: "ErrorResponses", MustCalls: []string{"core/metadata.GetErrorResponses"}, AllowedFields: []string{"*"}, Desc: "error responses come from the @ErrorResponse annotations"})
	ruleFieldFlow(c, r, ffSpec{Clause: "C06.e", Fn: rred, Owner: routeT, Field: "Responses", Must: []string{"core/metadata.ReceiverMeta.RetVals"}, AllowedFields: []string{"*"}, AllowedCalls: []string{"*"}, Desc: "Responses are the reduced return values"})
	if fi := need(c, r, "C06.e", rred); fi != nil {
		// hasReturnValue := len(m.RetVals) > 1, and it is what is passed on
		viol := "hasReturnValue is not len(m.RetVals) > 1"
		var sites []string
		for _, cl := range callsIn(fi.SSA, false, nameIs("core/metadata.GetResponseStatusCodeAndDescription")) {
			sites = append(sites, w.pos(cl.Pos()))
			if bo, ok := cl.Common().Args[1].(*ssa.BinOp); ok && bo.Op == token.GTR {
				if k, ok := bo.Y.(*ssa.Const); ok && k.Int64() == 1 && sliceOf(bo.X).hasFieldNamed("RetVals") && sliceOf(bo.X).Calls["builtin.len"] {
					viol = ""
				}
			}
		}
		r.add("C06.e", "fieldflow", rred+":hasReturnValue", "a method 'returns a value' iff it has more than one return value (T, error)", []string{rred}, sites, viol)
	}
	checkStatusRule(c, r)
	checkAnnotationConst(c, r, "C06.e", "core/metadata.GetResponseStatusCodeAndDescription", "GleeceAnnotationResponse")
	checkAnnotationConst(c, r, "C06.e", "core/metadata.GetErrorResponses", "GleeceAnnotationErrorResponse")

	// requiredness
	checkRequiredness(c, r, "C06.f")
	// C06.d one body at most reaches the emitters (shared with C10.b)
	checkOneBodyPerRoute(c, r, "C06.d")
	checkSchemaTypeWriters(c, r, "C06.b")
	checkIsContextExact(c, r, "C06.a")

	// helpers whose meaning the rules above take for granted
	ruleHelperShape(c, r, "C06.f", helperShape{Fn: "generator/swagen/swagtool.IsFieldRequired", AllowedCalls: []string{"strings.Split"}, MustConsts: []string{",", "required"}, OnlyConsts: []string{",", "required"},
		Why: "a field/parameter is required iff `required` is one of the comma-separated rules of its validate tag"})
	ruleHelperShape(c, r, "C06.e", helperShape{Fn: "(definitions.RouteMetadata).GetValueReturnType", AllowedCalls: []string{"builtin.len"}, MustFields: []string{"Responses"}, MustConsts: []string{"1", "0"},
		Why: "the value return type is Responses[0] exactly when the method returns (value, error)"})

	ruleIRWriters(c, r, "C06.a", "definitions.FuncParam", "definitions.ParamMeta", "definitions.FuncReturnValue", "definitions.ErrorResponse", "definitions.TypeMetadata", "definitions.RouteMetadata")
	// every element filter in these packages is a reviewed one
	ruleSkipInventory(c, r, "C06.a", loadSkipTable(c.VerifDir), 6, "generator/swagen", "core/metadata")
}

// checkValidatorApplied: the validation converter is applied to the same schema with the
// parameter's validator and type name.
func checkValidatorApplied(c *Ctx, r *Report, ver, fn, validFn, fp string) {
	fi := need(c, r, "C06.b", fn)
	if fi == nil {
		return
	}
	w := c.W
	viol := ""
	var sites []string
	n := 0
	w.inspectRegion(fi, func(nd ast.Node) bool {
		cl, ok := nd.(*ast.CallExpr)
		if !ok || calleeOfCall(fi.Pkg.TypesInfo, cl) != validFn {
			return true
		}
		n++
		sites = append(sites, w.pos(cl.Pos()))
		if a := w.exprAtoms(fi, cl.Args[1]); !a.Fields[fp+".Validator"] || len(a.Fields) != 1 {
			viol = fmt.Sprintf("%s: the validation string given to %s is not param.Validator", w.pos(cl.Pos()), validFn)
		}
		if a := w.exprAtoms(fi, cl.Args[2]); !a.Fields["definitions.TypeMetadata.Name"] {
			viol = fmt.Sprintf("%s: the type given to %s is not param.TypeMeta.Name", w.pos(cl.Pos()), validFn)
		}
		return true
	})
	if n != 1 {
		viol = fmt.Sprintf("expected one %s call in %s, found %d", validFn, fn, n)
	}
	r.add("C06.b", "fieldflow", fn+":validator->schema", ver+": the parameter's validator is translated onto its schema", []string{fn, validFn}, sites, viol)
}

func checkFormParam(c *Ctx, r *Report, ver, crf, fp, schemaFn string) {
	fi := need(c, r, "C06.c", crf)
	if fi == nil {
		return
	}
	w := c.W
	info := fi.Pkg.TypesInfo
	viol := ""
	var sites []string
	// property key = NameInSchema
	nKey := 0
	w.inspectRegion(fi, func(n ast.Node) bool {
		switch x := n.(type) {
		case *ast.AssignStmt:
			if len(x.Lhs) == 1 {
				if ix, ok := x.Lhs[0].(*ast.IndexExpr); ok && strings.HasSuffix(exprString(ix.X), ".Properties") {
					nKey++
					sites = append(sites, w.pos(x.Pos()))
					if a := w.exprAtoms(fi, ix.Index); !a.Fields[fp+".NameInSchema"] || len(a.Fields) != 1 {
						viol = fmt.Sprintf("%s: form property key is not param.NameInSchema", w.pos(x.Pos()))
					}
					if a := w.exprAtoms(fi, x.Rhs[0]); !a.hasCall(schemaFn) || !a.Fields["definitions.TypeMetadata.Name"] {
						viol = fmt.Sprintf("%s: form property schema is not derived from the declared type", w.pos(x.Pos()))
					}
				}
			}
		case *ast.CallExpr:
			cn := calleeOfCall(info, x)
			if strings.Contains(cn, "OrderedMap[") && strings.HasSuffix(cn, ").Set") && len(x.Args) == 2 {
				if se, ok := x.Fun.(*ast.SelectorExpr); ok && strings.HasSuffix(exprString(se.X), ".Properties") {
					nKey++
					sites = append(sites, w.pos(x.Pos()))
					if a := w.exprAtoms(fi, x.Args[0]); !a.Fields[fp+".NameInSchema"] || len(a.Fields) != 1 {
						viol = fmt.Sprintf("%s: form property key is not param.NameInSchema", w.pos(x.Pos()))
					}
					if a := w.exprAtoms(fi, x.Args[1]); !a.hasCall(schemaFn) || !a.Fields["definitions.TypeMetadata.Name"] {
						viol = fmt.Sprintf("%s: form property schema is not derived from the declared type", w.pos(x.Pos()))
					}
				}
			}
		}
		return true
	})
	if nKey != 1 {
		viol = fmt.Sprintf("expected one insertion into the form schema's Properties in %s, found %d", crf, nKey)
	}
	r.add("C06.c", "fieldflow", crf+":properties[NameInSchema]", ver+": each @FormField becomes a property keyed by its wire name", []string{crf}, sites, viol)

	// required list appended iff IsFieldRequired(Validator), with NameInSchema
	viol = ""
	sites = nil
	nReq := 0
	allInstrs(fi.SSA, false, func(_ *ssa.Function, _ *ssa.BasicBlock, _ int, ins ssa.Instruction) {
		st, ok := ins.(*ssa.Store)
		if !ok {
			return
		}
		fa, ok := st.Addr.(*ssa.FieldAddr)
		if !ok {
			return
		}
		f := structFieldVar(fa.X.Type(), fa.Field)
		if f == nil || f.Name() != "Required" {
			return
		}
		nReq++
		sites = append(sites, w.pos(st.Pos()))
		a := sliceOf(st.Val)
		if !a.hasFieldNamed("NameInSchema") {
			viol = fmt.Sprintf("%s: the name appended to the form's required list is not NameInSchema", w.pos(st.Pos()))
		}
		ok2 := false
		for _, fct := range dominatingFacts(st.Block()) {
			cnd, pol := unwrapNot(fct.Cond, fct.Pol)
			ca := sliceOf(cnd)
			if pol && ca.Calls["generator/swagen/swagtool.IsFieldRequired"] && ca.hasFieldNamed("Validator") {
				ok2 = true
			}
		}
		if !ok2 {
			viol = fmt.Sprintf("%s: the form's required list is extended without IsFieldRequired(param.Validator) being true", w.pos(st.Pos()))
		}
	})
	if nReq != 1 {
		viol = fmt.Sprintf("expected one store to the form schema's Required in %s, found %d", crf, nReq)
	}
	r.add("C06.c", "guardedby", crf+":required-iff-IsFieldRequired", ver+": a form field is listed as required iff its validator says so", []string{crf}, sites, viol)

	// one urlencoded object body: content type constant
	a := newAtoms()
	n := 0
	allInstrs(fi.SSA, false, func(_ *ssa.Function, _ *ssa.BasicBlock, _ int, ins ssa.Instruction) {
		switch x := ins.(type) {
		case *ssa.MapUpdate:
			backSlice(x.Key, a, map[ssa.Value]bool{}, 0)
			n++
		case *ssa.Lookup:
			backSlice(x.Index, a, map[ssa.Value]bool{}, 0)
			n++
		case ssa.CallInstruction:
			cn := calleeName(x)
			if strings.Contains(cn, "OrderedMap[") && (strings.HasSuffix(cn, ").Set") || strings.HasSuffix(cn, ").Get")) {
				backSlice(x.Common().Args[1], a, map[ssa.Value]bool{}, 0)
				n++
			}
		}
	})
	viol = ""
	if !hasConst(a, `"application/x-www-form-urlencoded"`) {
		viol = "the form body is not keyed by application/x-www-form-urlencoded"
	}
	// created only when absent
	createdGuarded := false
	allInstrs(fi.SSA, false, func(_ *ssa.Function, _ *ssa.BasicBlock, _ int, ins ssa.Instruction) {
		st, ok := ins.(*ssa.Store)
		if !ok {
			return
		}
		if fa, ok := st.Addr.(*ssa.FieldAddr); ok {
			if f := structFieldVar(fa.X.Type(), fa.Field); f != nil && f.Name() == "RequestBody" {
				for _, fct := range dominatingFacts(st.Block()) {
					cnd, pol := unwrapNot(fct.Cond, fct.Pol)
					if bo, ok := cnd.(*ssa.BinOp); ok && bo.Op == token.EQL && pol && sliceOf(cnd).hasFieldNamed("RequestBody") {
						createdGuarded = true
					}
				}
			}
		}
	})
	if !createdGuarded {
		viol = "the form request body is (re)created without testing operation.RequestBody == nil: earlier form fields would be lost"
	}
	r.add("C06.c", "guardedby", crf+":single-urlencoded-body", ver+": all form fields share one application/x-www-form-urlencoded object body, created once", []string{crf}, []string{w.pos(fi.Decl.Pos())}, viol)
}

func checkResponses(c *Ctx, r *Report, ver, pkgRel, gcs string, respT, opT *types.Named) {
	w := c.W
	fi := need(c, r, "C06.e", gcs)
	if fi == nil {
		return
	}
	// success response keyed by the route's success code, error responses by their codes
	viol := ""
	var sites []string
	nSucc, nErr := 0, 0
	var succSet, errSet ssa.Instruction
	allInstrs(fi.SSA, false, func(_ *ssa.Function, _ *ssa.BasicBlock, _ int, ins ssa.Instruction) {
		cl, ok := ins.(ssa.CallInstruction)
		if !ok {
			return
		}
		cn := calleeName(cl)
		isSet := strings.HasSuffix(cn, "openapi3.Responses).Set") || (strings.Contains(cn, "OrderedMap[") && strings.HasSuffix(cn, ").Set") && strings.Contains(cl.Common().Args[0].Type().String(), "v3.Response]"))
		if !isSet {
			return
		}
		sites = append(sites, w.pos(cl.Pos()))
		key := sliceOf(cl.Common().Args[1])
		val := sliceOf(cl.Common().Args[2])
		if !key.Calls["generator/swagen/swagtool.HttpStatusCodeToString"] {
			viol = fmt.Sprintf("%s: response key is not HttpStatusCodeToString(code)", w.pos(cl.Pos()))
		}
		switch {
		case val.Calls[pkgRel+".createResponseSuccess"]:
			nSucc++
			succSet = ins
			if !key.hasFieldNamed("ResponseSuccessCode") {
				viol = fmt.Sprintf("%s: the success response is not keyed by route.ResponseSuccessCode", w.pos(cl.Pos()))
			}
		case val.Calls[pkgRel+".createErrorResponse"]:
			nErr++
			errSet = ins
			if !key.hasFieldNamed("HttpStatusCode") || !key.hasFieldNamed("ErrorResponses") {
				viol = fmt.Sprintf("%s: an error response is not keyed by its own HttpStatusCode", w.pos(cl.Pos()))
			}
		default:
			viol = fmt.Sprintf("%s: a response is registered that is neither createResponseSuccess nor createErrorResponse", w.pos(cl.Pos()))
		}
	})
	if nSucc != 1 || nErr != 1 {
		viol = fmt.Sprintf("expected one success and one error-response registration in %s, found %d/%d", gcs, nSucc, nErr)
	}
	o := r.add("C06.e", "fieldflow", gcs+":responses", ver+": responses = {success code -> success response} ∪ {each @ErrorResponse code -> error response}", []string{gcs}, sites, viol)
	o.NonTrivial = true
	// registrations are keyed by status code and overwrite: the success response goes in last,
	// so when an @ErrorResponse repeats the success code the success response is what is
	// documented - in both dialects
	if succSet != nil && errSet != nil {
		v := ""
		if before, decided := w.takesEffectBefore(fi, succSet, errSet); !decided {
			v = "cannot order the success and error response registrations"
		} else if before {
			v = fmt.Sprintf("%s: the success response is registered before the error responses: an @ErrorResponse with the success status code now replaces it (and the other dialect keeps the old order)", w.pos(succSet.Pos()))
		}
		r.add("C06.e", "no-reorder", gcs+":success-registered-last", ver+": on a status-code collision the success response wins (registered after the error responses)", []string{gcs}, []string{w.pos(succSet.Pos()), w.pos(errSet.Pos())}, v)
	}
	ruleEach(c, r, "C06.e", gcs,
		func(fi *FuncInfo) func(ast.Expr) bool {
			return w.rangeOverField(fi, "definitions.RouteMetadata.ErrorResponses")
		}, "route.ErrorResponses",
		func(fi *FuncInfo) func(ast.Node) bool { return w.callPred(fi, pkgRel+".createErrorResponse") }, "createErrorResponse", nil, false,
		ver+": every @ErrorResponse is documented")

	// createResponseSuccess: content iff a value is returned
	crs := pkgRel + ".createResponseSuccess"
	if sfi := need(c, r, "C06.e", crs); sfi != nil {
		viol := ""
		var sites []string
		// what is stored as Content / Description (struct literal element or field assignment)
		for _, sk := range w.fieldSinks(sfi, respT, "Content") {
			sites = append(sites, w.pos(sk.Pos))
			if a := w.exprAtoms(sfi, sk.Expr); !a.hasCall("(definitions.RouteMetadata).GetValueReturnType") || !a.Fields["definitions.TypeMetadata.Name"] {
				viol = fmt.Sprintf("%s: success content is not the schema of the method's value return type", w.pos(sk.Pos))
			}
		}
		descs := w.fieldSinks(sfi, respT, "Description")
		if len(descs) == 0 {
			viol = "the success response has no description"
		}
		for _, sk := range descs {
			sites = append(sites, w.pos(sk.Pos))
			if a := w.exprAtoms(sfi, sk.Expr); !a.Fields["definitions.RouteMetadata.ResponseDescription"] {
				viol = fmt.Sprintf("%s: success description is not route.ResponseDescription", w.pos(sk.Pos))
			}
		}
		// content iff a value is returned, whatever the shape (two literals, or one response
		// with Content attached under a condition):
		// (a) every store to Response.Content happens where the value return type is known non-nil
		// (b) no return is reachable without such a store unless it passed "value return type == nil"
		valueNilFact := func(cnd ssa.Value, pol bool) int { // 1: known nil, -1: known non-nil, 0: says nothing
			cnd, pol = unwrapNot(cnd, pol)
			if bo, ok := cnd.(*ssa.BinOp); ok && (isNilConst(bo.X) || isNilConst(bo.Y)) && sliceOf(cnd).Calls["(definitions.RouteMetadata).GetValueReturnType"] {
				if (bo.Op == token.EQL && pol) || (bo.Op == token.NEQ && !pol) {
					return 1
				}
				return -1
			}
			return 0
		}
		contentField := fieldOf(respT, "Content")
		storeBlocks := map[*ssa.BasicBlock]bool{}
		nStores := 0
		allInstrs(sfi.SSA, false, func(_ *ssa.Function, _ *ssa.BasicBlock, _ int, ins ssa.Instruction) {
			st, ok := ins.(*ssa.Store)
			if !ok {
				return
			}
			fa, ok := st.Addr.(*ssa.FieldAddr)
			if !ok || structFieldVar(fa.X.Type(), fa.Field) != contentField {
				return
			}
			if k, isConst := st.Val.(*ssa.Const); isConst && k.IsNil() {
				return
			}
			// `var content T; if v != nil { content = … }; Response{Content: content}`: one store of a merged
			// value - content is produced on the edges that bring a non-nil value, none on the others
			if phi, isPhi := stripTrivial(st.Val).(*ssa.Phi); isPhi && len(phi.Edges) == len(phi.Block().Preds) {
				okPhi := true
				for i, e := range phi.Edges {
					pred := phi.Block().Preds[i]
					// what is known on the edge pred -> merge
					known := 0
					for _, f := range dominatingFacts(pred) {
						if v := valueNilFact(f.Cond, f.Pol); v != 0 {
							known = v
						}
					}
					if ifi, ok := pred.Instrs[len(pred.Instrs)-1].(*ssa.If); ok && len(pred.Succs) == 2 {
						for si, sc := range pred.Succs {
							if sc == phi.Block() {
								if v := valueNilFact(ifi.Cond, si == 0); v != 0 {
									known = v
								}
							}
						}
					}
					k, isConst := e.(*ssa.Const)
					isNil := isConst && k.IsNil()
					if (isNil && known != 1) || (!isNil && known != -1) {
						okPhi = false
					}
				}
				nStores++
				storeBlocks[st.Block()] = true
				sites = append(sites, w.pos(st.Pos()))
				if !okPhi {
					viol = fmt.Sprintf("%s: the content stored is a merged value whose nil / non-nil sides do not coincide with `GetValueReturnType() == nil` / `!= nil`", w.pos(st.Pos()))
				}
				return
			}
			nStores++
			storeBlocks[st.Block()] = true
			sites = append(sites, w.pos(st.Pos()))
			known := 0
			for _, f := range guardsOf(st) {
				if v := valueNilFact(f.Cond, f.Pol); v != 0 {
					known = v
				}
			}
			if known != -1 {
				viol = fmt.Sprintf("%s: content is produced although no value may be returned (the store is not under `GetValueReturnType() != nil`)", w.pos(st.Pos()))
			}
		})
		if nStores == 0 {
			viol = fmt.Sprintf("%s never sets the success response's content", crs)
		}
		nilEdges := map[edge]bool{}
		for _, b := range sfi.SSA.Blocks {
			if len(b.Instrs) == 0 {
				continue
			}
			if ifi, ok := b.Instrs[len(b.Instrs)-1].(*ssa.If); ok && len(b.Succs) == 2 {
				for i, s := range b.Succs {
					if valueNilFact(ifi.Cond, i == 0) == 1 {
						nilEdges[edge{b, s}] = true
					}
				}
			}
		}
		reach, _ := reachAvoiding(sfi.SSA, storeBlocks, nilEdges)
		for _, ex := range exitsOf(sfi.SSA) {
			if ex.Ret == nil {
				continue
			}
			if reach[ex.Block] && !storeBlocks[ex.Block] {
				viol = fmt.Sprintf("%s: a content-less success response is produced although a value return type may exist", w.pos(retPos(ex)))
			}
		}
		o := r.add("C06.e", "guardedby", crs+":content-iff-value", ver+": the success response has content iff GetValueReturnType() != nil", []string{crs}, sites, viol)
		o.NonTrivial = true
	}
	// error response: schema of the error type, description from the annotation
	cer := pkgRel + ".createErrorResponse"
	ruleFieldFlow(c, r, ffSpec{Clause: "C06.e", Fn: cer, Owner: respT, Field: "Description", Must: []string{"definitions.ErrorResponse.Description"}, AllowedCalls: []string{pkgRel + ".ToResponseDescription"}, Desc: ver + ": error response description comes from the annotation"})
	ruleFieldFlow(c, r, ffSpec{Clause: "C06.e", Fn: cer, Owner: respT, Field: "Content", MustCalls: []string{pkgRel + ".createContentWithSchemaRef", "(definitions.RouteMetadata).GetErrorReturnType"}, Must: []string{"definitions.TypeMetadata.Name"}, AllowedFields: []string{"*"}, Desc: ver + ": error response content is the schema of the method's error type"})
	_ = opT
}

// checkStatusRule: 200 iff a value is returned, 204 otherwise, unless @Response is present.
func checkStatusRule(c *Ctx, r *Report) {
	const fn = "core/metadata.GetResponseStatusCodeAndDescription"
	fi := need(c, r, "C06.e", fn)
	if fi == nil {
		return
	}
	w := c.W
	viol := ""
	var sites []string
	var hasRet *ssa.Parameter
	for _, p := range fi.SSA.Params {
		if paramTyped(p, "bool") {
			hasRet = p
		}
	}
	seen200, seen204, seenConv := false, false, false
	for _, ex := range exitsOf(fi.SSA) {
		if ex.Ret == nil || ex.Kind == exitFailure {
			continue
		}
		sites = append(sites, w.pos(retPos(ex)))
		code := ex.Ret.Results[0]
		attribNil, retKnown := 0, 0
		for _, f := range dominatingFacts(ex.Block) {
			cnd, pol := unwrapNot(f.Cond, f.Pol)
			if bo, ok := cnd.(*ssa.BinOp); ok && (isNilConst(bo.X) || isNilConst(bo.Y)) && sliceOf(cnd).Calls["(core/annotations.AnnotationHolder).GetFirst"] {
				if (bo.Op == token.EQL && pol) || (bo.Op == token.NEQ && !pol) {
					attribNil = 1
				} else {
					attribNil = -1
				}
			}
			if hasRet != nil && cnd == ssa.Value(hasRet) {
				if pol {
					retKnown = 1
				} else {
					retKnown = -1
				}
			}
		}
		if k, ok := code.(*ssa.Const); ok && k.Value != nil {
			switch k.Int64() {
			case 200:
				seen200 = true
				if attribNil != 1 || retKnown != 1 {
					viol = fmt.Sprintf("%s: 200 is returned without (@Response absent ∧ method returns a value)", w.pos(retPos(ex)))
				}
			case 204:
				seen204 = true
				if attribNil != 1 || retKnown != -1 {
					viol = fmt.Sprintf("%s: 204 is returned without (@Response absent ∧ method returns no value)", w.pos(retPos(ex)))
				}
			default:
				viol = fmt.Sprintf("%s: unexpected constant status %d", w.pos(retPos(ex)), k.Int64())
			}
			continue
		}
		// non-constant: must be the converted annotation value, only when @Response exists
		a := sliceOf(code)
		if a.Calls["definitions.ConvertToHttpStatus"] {
			seenConv = true
		}
		if attribNil != -1 {
			viol = fmt.Sprintf("%s: a non-default status is returned on a path where @Response may be absent", w.pos(retPos(ex)))
		}
	}
	if !seen200 || !seen204 || !seenConv {
		viol = fmt.Sprintf("status rule incomplete: 200 arm %v, 204 arm %v, @Response arm %v", seen200, seen204, seenConv)
	}
	o := r.add("C06.e", "guardedby", fn+":200/204/@Response", "success status = 200 if a value is returned, 204 otherwise, or the @Response code when present", []string{fn}, sites, viol)
	o.NonTrivial = true
}

// checkRequiredness (C06.f / C05.e): the implicit-required rule, and agreement between the
// writer of the tag (appendParamRequiredValidation) and its reader (IsFieldRequired).
func checkRequiredness(c *Ctx, r *Report, clause string) {
	w := c.W
	const ap = "core/metadata.appendParamRequiredValidation"
	const isr = "generator/swagen/swagtool.IsFieldRequired"
	exactIdiom := func(fi *FuncInfo) (bool, string, []string) {
		info := fi.Pkg.TypesInfo
		split, eq := false, false
		var sites []string
		bad := ""
		w.inspectRegion(fi, func(n ast.Node) bool {
			switch x := n.(type) {
			case *ast.CallExpr:
				cn := calleeOfCall(info, x)
				switch cn {
				case "strings.Split":
					if len(x.Args) == 2 && litString(x.Args[1]) == "," {
						split = true
						sites = append(sites, w.pos(x.Pos()))
					}
				case "slices.Contains":
					// membership in the split list: == on each element
					if len(x.Args) == 2 && litString(x.Args[1]) == "required" {
						eq = true
						sites = append(sites, w.pos(x.Pos()))
					}
				case "strings.Contains", "strings.Index", "strings.HasPrefix", "strings.HasSuffix", "strings.ContainsAny", "strings.EqualFold", "regexp.MatchString":
					bad = fmt.Sprintf("%s: %s matches the 'required' tag with %s (substring/prefix semantics): rules such as required_with=... would count as 'required' on one side only", w.pos(x.Pos()), fi.Key, cn)
				}
			case *ast.BinaryExpr:
				if x.Op == token.EQL && (litString(x.Y) == "required" || litString(x.X) == "required") {
					eq = true
					sites = append(sites, w.pos(x.Pos()))
				}
			}
			return true
		})
		if bad != "" {
			return false, bad, sites
		}
		if !split || !eq {
			return false, fmt.Sprintf("%s: %s does not match the tag by splitting on ',' and comparing == \"required\"", w.pos(fi.Decl.Pos()), fi.Key), sites
		}
		return true, "", sites
	}
	var sites []string
	viol := ""
	for _, k := range []string{ap, isr} {
		if fi := need(c, r, clause, k); fi != nil {
			ok, why, s := exactIdiom(fi)
			sites = append(sites, s...)
			if !ok {
				viol = why
			}
		}
	}
	o := r.add(clause, "sibling-idiom", "required-tag:writer==reader", "the function that adds the implicit 'required' tag and the function that reads it both match the tag exactly (split on ',' and ==)", []string{ap, isr}, sites, viol)
	o.NonTrivial = true

	// the only return without 'required' is under isPointer && passedIn != Path
	if fi := need(c, r, clause, ap); fi != nil {
		viol := ""
		var sites []string
		var isPtr, passed *ssa.Parameter
		for _, p := range fi.SSA.Params {
			switch {
			case paramTyped(p, "bool"):
				isPtr = p
			case paramTyped(p, "definitions.ParamPassedIn"):
				passed = p
			}
		}
		for _, ex := range exitsOf(fi.SSA) {
			if ex.Ret == nil {
				continue
			}
			sites = append(sites, w.pos(retPos(ex)))
			a := sliceOf(ex.Ret.Results[0])
			if hasConst(a, `"required"`) || hasConst(a, `",required"`) {
				continue // adds the tag
			}
			// returns *validation unchanged: allowed under (isPointer ∧ passedIn != Path) or (tag == "required")
			okPtr, okPath, okTag := false, false, false
			for _, f := range dominatingFacts(ex.Block) {
				cnd, pol := unwrapNot(f.Cond, f.Pol)
				if isPtr != nil && cnd == ssa.Value(isPtr) && pol {
					okPtr = true
					// the decision may have moved to the callers: the flag they pass is
					// `isPointer && passedIn != Path` (written in place or in a split-off helper)
					if passed == nil && w.flagIsPointerAndNotPath(fi, isPtr) {
						okPath = true
					}
				}
				if cl, ok := cnd.(*ssa.Call); ok && pol && strings.HasPrefix(calleeName(cl), "slices.Contains") && hasConst(sliceOf(cnd), `"required"`) {
					okTag = true // membership in the split tag list
				}
				if bo, ok := cnd.(*ssa.BinOp); ok {
					sa := sliceOf(cnd)
					if passed != nil && sa.Params[passed] && hasConst(sa, `"Path"`) && ((bo.Op == token.NEQ && pol) || (bo.Op == token.EQL && !pol)) {
						okPath = true
					}
					if bo.Op == token.EQL && pol && hasConst(sa, `"required"`) {
						okTag = true
					}
				}
			}
			if !((okPtr && okPath) || okTag) {
				viol = fmt.Sprintf("%s: the validator is returned without 'required' on a path that is neither (pointer ∧ not a path parameter) nor (tag already present)", w.pos(retPos(ex)))
			}
		}
		o := r.add(clause, "guardedby", ap+":required-unless-optional-pointer", "required is implied unless the parameter is a pointer that is not a path parameter", []string{ap}, sites, viol)
		o.NonTrivial = true
	}
	// GetParamValidator feeds it with the annotation's validate property, location and pointer-ness
	if fi := need(c, r, clause, "core/metadata.GetParamValidator"); fi != nil {
		viol := ""
		var sites []string
		calls := callsIn(fi.SSA, false, nameIs(ap))
		if len(calls) != 1 {
			viol = "GetParamValidator does not call appendParamRequiredValidation exactly once"
		}
		for _, cl := range calls {
			sites = append(sites, w.pos(cl.Pos()))
			// (wherever a refactoring put them among the operands - also inside `a && b` computed by
			// a split-off helper: what is handed over depends on the parameter's pointer-ness and on
			// its location; read on the syntax, where both operands of a short-circuit count)
			idents := map[string]bool{}
			w.inspectRegion(fi, func(n ast.Node) bool {
				ce, ok := n.(*ast.CallExpr)
				if !ok || ce.Lparen != cl.Pos() {
					return true
				}
				own := w.ownerOf(fi, ce)
				for _, arg := range ce.Args {
					for id := range w.exprAtoms(own, arg).Idents {
						idents[id] = true
					}
				}
				return true
			})
			for _, want := range []string{"bool", "definitions.ParamPassedIn"} {
				if !idents["<"+want+">"] {
					viol = fmt.Sprintf("%s: no operand of appendParamRequiredValidation derives from GetParamValidator's %s parameter", w.pos(cl.Pos()), want)
				}
			}
		}
		// every success return goes through it
		s2, v2 := w.mustPassCall(fi.SSA, nameIs(ap), ap)
		sites = append(sites, s2...)
		if v2 != "" {
			viol = v2
		}
		r.add(clause, "mustcall", fi.Key+"->"+ap, "every parameter's validator passes through the implicit-required rule", []string{fi.Key}, sites, viol)
	}
}

// responseSetSites: where generateControllerSpec (or a new function it uses) registers the
// success response and the error responses.
func (w *World) responseSetSites(fi *FuncInfo, pkgRel string) (succ, errs ssa.Instruction) {
	allInstrs(fi.SSA, false, func(_ *ssa.Function, _ *ssa.BasicBlock, _ int, ins ssa.Instruction) {
		cl, ok := ins.(ssa.CallInstruction)
		if !ok {
			return
		}
		cn := calleeName(cl)
		if !(strings.HasSuffix(cn, "openapi3.Responses).Set") || (strings.Contains(cn, "OrderedMap[") && strings.HasSuffix(cn, ").Set") && strings.Contains(cl.Common().Args[0].Type().String(), "v3.Response]"))) {
			return
		}
		val := sliceOf(cl.Common().Args[2])
		switch {
		case val.Calls[pkgRel+".createResponseSuccess"]:
			succ = ins
		case val.Calls[pkgRel+".createErrorResponse"]:
			errs = ins
		}
	})
	return
}

// checkEveryDeclaredParamKept: every name of every parameter field of the method's declaration
// becomes one FuncParam (shared with C10.d: the link validator reports an unreferenced parameter
// only for parameters that are in ReceiverMeta.Params).
func checkEveryDeclaredParamKept(c *Ctx, r *Report, clause string) {
	w := c.W
	ruleEach(c, r, clause, "(*core/arbitrators.AstArbitrator).GetFuncParametersMeta",
		func(fi *FuncInfo) func(ast.Expr) bool {
			return func(e ast.Expr) bool { return strings.HasSuffix(exprString(e), ".Type.Params.List") }
		}, "funcDecl.Type.Params.List",
		func(fi *FuncInfo) func(ast.Node) bool {
			return w.callPred(fi, "(core/arbitrators.FieldVisitor).VisitField")
		}, "VisitField", nil, true,
		"every declared parameter field is visited (in AST order; only exit: error)")
	ruleEach(c, r, clause, "(*core/arbitrators.AstArbitrator).GetFuncParametersMeta",
		func(fi *FuncInfo) func(ast.Expr) bool { return w.rangeOverType(fi, "[]core/metadata.FieldMeta") }, "fields (names of one parameter field)",
		func(fi *FuncInfo) func(ast.Node) bool { return w.appendTo(fi, w.resultSlice(fi)) }, "append(params)", nil, false,
		"every name of a parameter field yields one FuncParam, in order")
}

// flagIsPointerAndNotPath: every call of fi passes, for the bool parameter p, a value that is
// true only if (a bool parameter of the caller) && (a ParamPassedIn parameter of the caller != "Path").
func (w *World) flagIsPointerAndNotPath(fi *FuncInfo, p *ssa.Parameter) bool {
	idx := -1
	for i, q := range fi.SSA.Params {
		if q == p {
			idx = i
		}
	}
	sites := w.callersOf(nameIs(fi.Key))
	if idx < 0 || len(sites) == 0 {
		return false
	}
	// conj: v is `a && b` as SSA builds it: phi(false from the block that tested a, b)
	var isConj func(v ssa.Value, subst map[*ssa.Parameter]ssa.Value, depth int) bool
	resolve := func(v ssa.Value, subst map[*ssa.Parameter]ssa.Value) ssa.Value {
		v = stripTrivial(v)
		if q, ok := v.(*ssa.Parameter); ok && subst != nil {
			if a, ok := subst[q]; ok {
				return stripTrivial(a)
			}
		}
		return v
	}
	isConj = func(v ssa.Value, subst map[*ssa.Parameter]ssa.Value, depth int) bool {
		v = stripTrivial(v)
		if depth > 3 {
			return false
		}
		switch x := v.(type) {
		case *ssa.Call:
			callee := x.Common().StaticCallee()
			if callee == nil || !w.isNewFn(callee) || len(callee.Params) != len(x.Common().Args) {
				return false
			}
			sub := map[*ssa.Parameter]ssa.Value{}
			for i, q := range callee.Params {
				sub[q] = resolve(x.Common().Args[i], subst)
			}
			for _, ex := range exitsOf(callee) {
				if ex.Ret == nil || len(ex.Ret.Results) != 1 || !isConj(ex.Ret.Results[0], sub, depth+1) {
					return false
				}
			}
			return true
		case *ssa.Phi:
			if len(x.Edges) != 2 {
				return false
			}
			okFalse, okCmp, okTest := false, false, false
			for i, e := range x.Edges {
				if k, ok := e.(*ssa.Const); ok && k.Value != nil && constString(k.Value) == "false" {
					okFalse = true
					// the predecessor that yields false tested the bool
					pred := x.Block().Preds[i]
					if iff, ok := pred.Instrs[len(pred.Instrs)-1].(*ssa.If); ok {
						if q, ok := resolve(iff.Cond, subst).(*ssa.Parameter); ok && paramTyped(q, "bool") {
							okTest = true
						}
					}
					continue
				}
				if bo, ok := stripTrivial(e).(*ssa.BinOp); ok && bo.Op == token.NEQ {
					l, r := resolve(bo.X, subst), resolve(bo.Y, subst)
					isPassed := func(v ssa.Value) bool {
						q, ok := v.(*ssa.Parameter)
						return ok && paramTyped(q, "definitions.ParamPassedIn")
					}
					isPath := func(v ssa.Value) bool {
						k, ok := v.(*ssa.Const)
						return ok && k.Value != nil && constString(k.Value) == "Path"
					}
					if (isPassed(l) && isPath(r)) || (isPassed(r) && isPath(l)) {
						okCmp = true
					}
				}
			}
			return okFalse && okCmp && okTest
		}
		return false
	}
	for _, cs := range sites {
		if idx >= len(cs.Common().Args) || !isConj(cs.Common().Args[idx], nil, 0) {
			return false
		}
	}
	return true
}

// checkSchemaTypeWriters: "schema of the declared type" - the `type` of a schema is set where a
// Go type is mapped to a schema (the type mappers and the model generators), nowhere else: a
// validation rule, an annotation or a parameter location adds keywords to a schema but never
// re-types it.
func checkSchemaTypeWriters(c *Ctx, r *Report, clause string) {
	w := c.W
	allowed := []string{
		"generator/swagen/swagen31.ToOpenApiSchemaV3", "generator/swagen/swagen31.InterfaceToSchemaV3",
		"generator/swagen/swagen31.generateStructsSpec", "generator/swagen/swagen31.generateEnumsSpec", "generator/swagen/swagen31.generateAliasSpec",
		"generator/swagen/swagen30.ToOpenApiSchema", "generator/swagen/swagen30.InterfaceToSchemaRef",
		"generator/swagen/swagen30.generateStructSpec", "generator/swagen/swagen30.generateEnumSpec", "generator/swagen/swagen30.generateAliasSpec",
	}
	if t := w.extType(pkgKin, "Schema"); t != nil {
		ruleWhoStores(c, r, clause, t, "Type", allowed, 0, "3.0: Schema.Type is set by the type mappers and model generators only")
	}
	if t := w.extType("github.com/pb33f/libopenapi/datamodel/high/base", "Schema"); t != nil {
		ruleWhoStores(c, r, clause, t, "Type", allowed, 3, "3.1: Schema.Type is set by the type mappers and model generators only")
	}
}
