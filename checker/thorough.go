package main

import (
	"fmt"
	"go/ast"
	"go/parser"
	"go/token"
	"os"
	"path/filepath"
	"sort"
	"strings"

	"golang.org/x/tools/go/callgraph"
	"golang.org/x/tools/go/callgraph/cha"
	"golang.org/x/tools/go/callgraph/vta"
	"golang.org/x/tools/go/ssa/ssautil"
)

// tierThorough is set by main for -tier thorough. The thorough tier (a) triples every
// interprocedural bound, (b) cross-checks anchor liveness against a VTA call graph (calls
// through function values and interfaces resolved by type propagation), and (c) replays
// the template rules on the routers committed under e2e/<engine>/routes as real Go syntax.
var tierThorough bool

func bound(n int) int {
	if tierThorough {
		return 3 * n
	}
	return n
}

// vtaReachable: gleece functions reachable from the entry points in a VTA call graph.
func (w *World) vtaReachable() map[string]bool {
	all := ssautil.AllFunctions(w.Prog)
	g := vta.CallGraph(all, cha.CallGraph(w.Prog))
	seen := map[*callgraph.Node]bool{}
	var stack []*callgraph.Node
	for _, fi := range w.Funcs {
		if fi.SSA == nil {
			continue
		}
		rel := short(fi.Pkg.PkgPath)
		if rel == modPath {
			rel = ""
		}
		nm := fi.Decl.Name.Name
		if (entryPackages[rel] && (ast.IsExported(nm) || nm == "main")) || nm == "init" {
			if n := g.Nodes[fi.SSA]; n != nil {
				stack = append(stack, n)
			}
		}
	}
	for _, sp := range w.SSAPkg {
		if init := sp.Func("init"); init != nil {
			if n := g.Nodes[init]; n != nil {
				stack = append(stack, n)
			}
		}
	}
	for len(stack) > 0 {
		n := stack[len(stack)-1]
		stack = stack[:len(stack)-1]
		if seen[n] {
			continue
		}
		seen[n] = true
		for _, e := range n.Out {
			if !seen[e.Callee] {
				stack = append(stack, e.Callee)
			}
		}
		// closures defined here are reachable when their parent is (they may be stored and run later)
		if n.Func != nil {
			for _, a := range n.Func.AnonFuncs {
				if an := g.Nodes[a]; an != nil && !seen[an] {
					stack = append(stack, an)
				}
			}
		}
	}
	out := map[string]bool{}
	for n := range seen {
		if n.Func != nil && (n.Func.Pkg != nil || n.Func.Origin() != nil) {
			out[fnReal(n.Func)] = true
		}
	}
	return out
}

// ---------------------------------------------------------------------------------------
// Witness pass over the committed generated routers

type genHandler struct {
	Engine, File string
	Verb, Path   string
	Lit          *ast.FuncLit
	Pos          token.Position
}

// generatedHandlers parses e2e/<engine>/routes/*.go and returns one entry per registration.
func generatedHandlers(repoDir string) ([]genHandler, error) {
	var out []genHandler
	fset := token.NewFileSet()
	for _, en := range []string{"gin", "echo", "mux", "chi", "fiber"} {
		files, _ := filepath.Glob(filepath.Join(repoDir, "e2e", en, "routes", "*.go"))
		if len(files) == 0 {
			return nil, fmt.Errorf("no committed generated router for %s", en)
		}
		for _, f := range files {
			src, err := os.ReadFile(f)
			if err != nil {
				return nil, err
			}
			af, err := parser.ParseFile(fset, f, src, parser.SkipObjectResolution)
			if err != nil {
				return nil, fmt.Errorf("%s does not parse: %v", f, err)
			}
			rel, _ := filepath.Rel(repoDir, f)
			ast.Inspect(af, func(n ast.Node) bool {
				call, ok := n.(*ast.CallExpr)
				if !ok {
					return true
				}
				verb, pathArg, lit := registrationOf(call)
				if lit == nil {
					return true
				}
				p := ""
				ast.Inspect(pathArg, func(m ast.Node) bool {
					if bl, ok := m.(*ast.BasicLit); ok && bl.Kind == token.STRING && p == "" {
						p = strings.Trim(bl.Value, "\"`")
					}
					return true
				})
				out = append(out, genHandler{Engine: en, File: rel, Verb: strings.ToUpper(verb), Path: p, Lit: lit, Pos: fset.Position(call.Pos())})
				return true
			})
		}
	}
	return out, nil
}

// registrationOf recognises engine.VERB(url, func...) and engine.HandleFunc(url, func...).Methods("VERB").
func registrationOf(call *ast.CallExpr) (verb string, path ast.Expr, lit *ast.FuncLit) {
	se, ok := call.Fun.(*ast.SelectorExpr)
	if !ok {
		return
	}
	// mux: engine.HandleFunc(...).Methods("GET")
	if se.Sel.Name == "Methods" && len(call.Args) >= 1 {
		if inner, ok := se.X.(*ast.CallExpr); ok {
			if ise, ok := inner.Fun.(*ast.SelectorExpr); ok && ise.Sel.Name == "HandleFunc" && len(inner.Args) == 2 {
				if fl, ok := inner.Args[1].(*ast.FuncLit); ok {
					if bl, ok := call.Args[0].(*ast.BasicLit); ok {
						return strings.Trim(bl.Value, "\""), inner.Args[0], fl
					}
				}
			}
		}
		return
	}
	if id, ok := se.X.(*ast.Ident); !ok || id.Name != "engine" || len(call.Args) != 2 {
		return
	}
	fl, ok := call.Args[1].(*ast.FuncLit)
	if !ok {
		return
	}
	switch strings.ToUpper(se.Sel.Name) {
	case "GET", "POST", "PUT", "PATCH", "DELETE", "HEAD", "OPTIONS":
		return se.Sel.Name, call.Args[0], fl
	}
	return
}

// witnessGateFirst: in every committed handler that calls authorize, that call comes before
// every call on the controller value, and its result is tested with an early return.
func witnessGateFirst(c *Ctx, r *Report, clause string) {
	hs, err := generatedHandlers(c.W.RepoDir)
	if err != nil {
		r.undecided(clause, "witness", "generated-routers:gate-first", "", err.Error())
		return
	}
	viol := ""
	var sites []string
	nGated := 0
	for _, h := range hs {
		var authPos, ctlPos token.Pos
		ast.Inspect(h.Lit.Body, func(n ast.Node) bool {
			call, ok := n.(*ast.CallExpr)
			if !ok {
				return true
			}
			switch f := call.Fun.(type) {
			case *ast.Ident:
				if f.Name == "authorize" && authPos == 0 {
					authPos = call.Pos()
				}
			case *ast.SelectorExpr:
				if id, ok := f.X.(*ast.Ident); ok && id.Name == "controller" && ctlPos == 0 && f.Sel.Name != "InitController" {
					ctlPos = call.Pos()
				}
			}
			return true
		})
		if authPos != 0 {
			nGated++
			if ctlPos != 0 && ctlPos < authPos {
				viol = fmt.Sprintf("%s:%d: committed %s handler %s %s calls the controller before authorize: the template rule holds but the generated fixture disagrees (stale fixture, or the template model is wrong)", h.File, h.Pos.Line, h.Engine, h.Verb, h.Path)
			}
		}
		if len(sites) < 40 {
			sites = append(sites, fmt.Sprintf("%s:%d", h.File, h.Pos.Line))
		}
	}
	if len(hs) < 50 || nGated < 10 {
		viol = fmt.Sprintf("only %d committed handlers / %d gated ones found (floors 50/10)", len(hs), nGated)
	}
	o := r.add(clause, "witness", "generated-routers:gate-first", fmt.Sprintf("in all %d committed generated handlers (%d with a gate) authorize precedes the first controller call", len(hs), nGated), []string{"e2e/*/routes"}, sites, viol)
	o.NonTrivial = true
	o.Tier = "thorough"
}

// witnessSameRegistrations: the five committed routers register the same (verb, path) set,
// each exactly once.
func witnessSameRegistrations(c *Ctx, r *Report, clause string) {
	hs, err := generatedHandlers(c.W.RepoDir)
	if err != nil {
		r.undecided(clause, "witness", "generated-routers:same-registrations", "", err.Error())
		return
	}
	per := map[string]map[string]int{}
	var sites []string
	for _, h := range hs {
		if per[h.Engine] == nil {
			per[h.Engine] = map[string]int{}
		}
		per[h.Engine][h.Verb+" "+h.Path]++
		if len(sites) < 40 {
			sites = append(sites, fmt.Sprintf("%s:%d", h.File, h.Pos.Line))
		}
	}
	viol := ""
	var engines []string
	for en := range per {
		engines = append(engines, en)
	}
	sort.Strings(engines)
	if len(engines) != 5 {
		viol = fmt.Sprintf("committed routers found for %v only", engines)
	}
	for _, en := range engines {
		for k, n := range per[en] {
			if n != 1 {
				viol = fmt.Sprintf("committed %s router registers %s %d times", en, k, n)
			}
			for _, other := range engines {
				if per[other][k] == 0 {
					viol = fmt.Sprintf("committed routers disagree: %s is registered by %s but not by %s", k, en, other)
				}
			}
		}
	}
	o := r.add(clause, "witness", "generated-routers:same-registrations", fmt.Sprintf("the five committed routers register the same %d (verb, path) pairs, once each", len(per["gin"])), []string{"e2e/*/routes"}, sites, viol)
	o.NonTrivial = true
	o.Tier = "thorough"
}

// thoroughLiveness: anchors reachable by class hierarchy but not by VTA.
func thoroughLiveness(w *World, r *Report) {
	if !tierThorough {
		return
	}
	vr := w.vtaReachable()
	cr := w.reachable()
	n := 0
	for _, o := range r.Obls {
		if o.Status != Discharged || !livenessRules[o.Rule] {
			continue
		}
		for _, a := range o.Anchors {
			if w.Funcs[a] == nil || w.Funcs[a].SSA == nil {
				continue
			}
			n++
			if cr[a] && !vr[a] {
				o.Status = Violated
				o.Message = fmt.Sprintf("thorough tier: %s is reachable from the entry points only in the class-hierarchy call graph, not in the type-propagating (VTA) one: no value of a type that would dispatch to it is ever created, so the mechanism this obligation is about is dead", a)
			}
		}
	}
	r.count("vta_reachable_functions", len(vr))
	r.count("anchors_checked_against_vta", n)
}
