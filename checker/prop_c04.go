package main

import (
	"fmt"
	"go/ast"
	"go/token"
	"go/types"
	"strings"

	"golang.org/x/tools/go/ssa"
)

func init() {
	register("C04", "Static structural obligations for 'documented security equals enforced security; the enforce flag leaves no open route': both emitters build operation.security from RouteMetadata.Security element by element (same field the router's gate iterates, C03.e), scheme names/scopes flow unmodified, insertion is guarded by the scheme-existence test whose failure aborts generation, securitySchemes are copied field by field (per OAuth flow), and validateSecurity can return 'no diagnostic' only through the four legitimate edges. Decides shape on every path; does not interpret scope strings.", checkC04)
}

func checkC04(c *Ctx, r *Report) {
	// "yields no spec" / "is accepted only if": a rejected project is a failed command (shared with C14.d, C20.a)
	defer checkCommandExitStatus(c, r, "C04.d")
	defer checkScopesNeverNil(c, r, "C04.c")
	defer checkProcessWideState(c, r, "C04.b")
	w := c.W
	r.NotDecided = append(r.NotDecided, "meaning of scope strings; ordering inside one AND-list (a JSON object in 3.0)", "the router side of the equation is decided in C03 (gate iterates RouteMetadata.Security)")
	r.Assume = append(r.Assume, "the router enforces RouteMetadata.Security (C03.e); here only the documenting side and the enforce flag are decided")

	secComp := "definitions.SecurityAnnotationComponent"
	for _, e := range emitters {
		gos := e.Pkg + ".generateOperationSecurity"
		bsm := e.Pkg + ".buildSecurityMethod"

		// C04.a same source, every element, once, in order
		if fi := need(c, r, "C04.a", gos); fi != nil {
			// the loop's collection is route.Security (possibly replaced by the configured default when empty)
			loops := w.rangeLoops(fi, func(x ast.Expr) bool {
				at := w.exprAtoms(fi, x)
				return at.Fields["definitions.RouteMetadata.Security"]
			})
			viol := ""
			var sites []string
			if len(loops) != 1 {
				viol = fmt.Sprintf("expected one loop over route.Security in %s, found %d", gos, len(loops))
			} else {
				g := w.cfgOf(fi)
				s, v := w.eachIteration(fi, g, loops[0], w.appendTo(fi, w.resultSlice(fi)), nil, true)
				sites, viol = s, v
				// the collection must not depend on the controller's list or anything else of the route
				at := w.exprAtoms(fi, loops[0].X)
				for f := range at.Fields {
					switch f {
					case "definitions.RouteMetadata.Security", "definitions.OpenAPIGeneratorConfig.DefaultRouteSecurity":
					default:
						viol = fmt.Sprintf("%s: the documented alternatives also depend on %s", w.pos(loops[0].Pos()), f)
					}
				}
				// no reordering
				w.inspectRegion(fi, func(n ast.Node) bool {
					if cl, ok := n.(*ast.CallExpr); ok {
						cn := calleeOfCall(fi.Pkg.TypesInfo, cl)
						if strings.HasPrefix(cn, "sort.") || strings.HasPrefix(cn, "slices.Sort") || cn == "slices.Reverse" {
							viol = fmt.Sprintf("%s: alternatives are re-ordered (%s)", w.pos(cl.Pos()), cn)
						}
					}
					return true
				})
			}
			o := r.add("C04.a", "each-iteration", gos+":range(route.Security)->append(securityRequirements)", e.Ver+": every effective alternative of the route becomes one security requirement, in order; only exit: error", []string{gos}, sites, viol)
			o.NonTrivial = true
		}
		var opT *types.Named
		if e.Ver == "3.0" {
			opT = w.extType(pkgKin, "Operation")
		} else {
			opT = w.extType(pkgV3, "Operation")
		}
		ruleFieldFlow(c, r, ffSpec{Clause: "C04.a", Fn: gos, Owner: opT, Field: "Security", Must: []string{"definitions.RouteMetadata.Security"},
			AllowedFields: []string{"definitions.OpenAPIGeneratorConfig.DefaultRouteSecurity", "definitions.OpenAPIGeneratorConfig.SecuritySchemes", "definitions.RouteSecurity.SecurityAnnotation"},
			AllowedCalls:  []string{bsm, "builtin.append"}, Desc: e.Ver + ": operation.security is built from route.Security through buildSecurityMethod only"})
		// the default fallback inside the emitter is used only when the route list is empty
		if fi := need(c, r, "C04.a", gos); fi != nil {
			viol := ""
			var sites []string
			w.inspectRegion(fi, func(n ast.Node) bool {
				as, ok := n.(*ast.AssignStmt)
				if !ok || len(as.Lhs) != 1 || as.Tok != token.ASSIGN {
					return true
				}
				at := w.exprAtoms(fi, as.Rhs[0])
				if !at.Fields["definitions.OpenAPIGeneratorConfig.DefaultRouteSecurity"] {
					return true
				}
				sites = append(sites, w.pos(as.Pos()))
				return true
			})
			for _, ins := range fieldReadsOf(fi.SSA, "DefaultRouteSecurity") {
				// value read of the default: must be dominated by len(route.Security)==0
				if _, isNilTest := usedOnlyInNilTest(ins); isNilTest {
					continue
				}
				ok := false
				for _, f := range dominatingFacts(ins.Block()) {
					cnd, pol := unwrapNot(f.Cond, f.Pol)
					if e2, arg := lenEmptiness(cnd, pol); e2 == -1 && sliceOf(arg).hasFieldNamed("Security") {
						ok = true
					}
				}
				if !ok {
					viol = fmt.Sprintf("%s: the configured default replaces the route's alternatives on a path where route.Security is not known to be empty", w.pos(ins.Pos()))
				}
			}
			r.add("C04.a", "guardedby", gos+":default-only-when-empty", e.Ver+": the emitter falls back to the configured default only for an empty route list (which Reduce never produces when a default exists)", []string{gos}, sites, viol)
		}

		// scheme name and scopes flow unmodified; insertion guarded by the existence test
		checkSecurityMethod(c, r, e.Ver, bsm, secComp)

		// error propagates
		ruleErrPropagates(c, r, "C04.b", gos, bsm, -1, e.Ver+": a failing buildSecurityMethod (undeclared scheme) makes generateOperationSecurity fail")
		ruleErrPropagates(c, r, "C04.b", e.Pkg+".generateControllerSpec", gos, -1, e.Ver+": a failing generateOperationSecurity makes generateControllerSpec fail")
		ruleErrPropagates(c, r, "C04.b", e.Pkg+".GenerateControllersSpec", e.Pkg+".generateControllerSpec", -1, e.Ver+": a failing controller makes GenerateControllersSpec fail (and GenerateSpec requires its success, C08.c)")

		// C04.c schemes declared as configured
		checkSecuritySchemes(c, r, "C04.c", e.Ver, e.Pkg)
	}
	// same order: the JSON post-processing re-orders object keys and enum arrays only; the
	// `security` arrays (alternatives, in annotation order) are never sorted
	ruleWhoCalls(c, r, "C04.a", nameIs("generator/swagen/swagtool.sortEnumArray"), "swagtool.sortEnumArray",
		[]string{"generator/swagen/swagtool.sortEnumInSchema"}, 1, "only `enum` arrays are sorted by ForceOrderedJSON: every other array of the document (security requirements, parameters, servers, tags) keeps the order the emitters produced")
	ruleWhoCalls(c, r, "C04.a", func(n string) bool {
		return strings.HasPrefix(n, "sort.") || strings.HasPrefix(n, "slices.Sort")
	}, "sort.*/slices.Sort* in generator/swagen/swagtool", swagtoolSorters(c.W), 1, "sorting inside swagtool is confined to the enum sorter (and key ordering)")
	// the router enforces the names and scopes verbatim: they are emitted raw ({{{ }}}), not HTML-escaped
	for _, en := range c.T.Order {
		eng := c.T.Engines[en]
		t := eng.Partials["AuthorizationCall"]
		viol := ""
		var sites []string
		n := 0
		if t == nil {
			viol = en + ": AuthorizationCall partial missing"
		} else {
			for _, em := range eng.Emits {
				if em.Tpl != "AuthorizationCall" {
					continue
				}
				n++
				sites = append(sites, tplSite(t, eng, em.Line))
				if !em.Unescaped {
					viol = fmt.Sprintf("%s: `{{%s}}` in the SecurityCheckList is HTML-escaped by raymond (use {{{ }}}): a scheme name or scope containing & < > ' \" = is enforced by the router as &amp; &lt; ... while the spec documents the raw text", tplSite(t, eng, em.Line), em.Expr)
				}
			}
			if n < 2 {
				viol = fmt.Sprintf("%s: expected the scheme name and the scopes to be emitted in AuthorizationCall, found %d output positions", en, n)
			}
		}
		r.add("C04.c", "tpl-types", en+":AuthorizationCall:raw-names-and-scopes", en+": security scheme names and scopes reach the router exactly as annotated", []string{"generator/templates/" + en + "/partials/authorization.call.hbs"}, sites, viol)
	}

	// neither emitter consults the controller-level list
	ctrl := w.lookupType("definitions", "ControllerMetadata")
	if fld := fieldOf(ctrl, "Security"); fld != nil {
		var sites []string
		viol := ""
		n := 0
		for _, fn := range w.SSAFuncs {
			if fn.Pkg == nil {
				continue
			}
			rel := short(fn.Pkg.Pkg.Path())
			if !strings.HasPrefix(rel, "generator/") {
				continue
			}
			n++
			for _, b := range fn.Blocks {
				for _, ins := range b.Instrs {
					var f *types.Var
					switch x := ins.(type) {
					case *ssa.FieldAddr:
						f = structFieldVar(x.X.Type(), x.Field)
					case *ssa.Field:
						f = structFieldVar(x.X.Type(), x.Field)
					}
					if f == fld {
						sites = append(sites, w.pos(ins.Pos()))
						viol = fmt.Sprintf("%s: generator code reads ControllerMetadata.Security (documentation/enforcement must use the route's effective list)", w.pos(ins.Pos()))
					}
				}
			}
		}
		for _, en := range c.T.Order {
			for _, rd := range c.T.Engines[en].Reads {
				for _, f := range rd.Fields {
					if f == "definitions.ControllerMetadata.Security" {
						viol = fmt.Sprintf("%s template %s reads ControllerMetadata.Security", en, rd.Tpl)
					}
				}
			}
		}
		sites = append(sites, w.pos(fld.Pos()))
		o := r.add("C04.a", "readset", "generator/*:no-read(ControllerMetadata.Security)", "no emitter or template reads the controller-level list", []string{"definitions.ControllerMetadata.Security"}, sites, viol)
		o.NonTrivial = true
		r.count("readset_functions_scanned", n)
	}

	checkSchemeMembership(c, r, "C04.b")

	checkEnforceFlag(c, r)
	// the missing-security diagnostic, once recorded for a receiver, is never replaced or dropped
	checkDiagnosticsAppendOnly(c, r, "C04.d")

	ruleIRWriters(c, r, "C04.a", "definitions.RouteSecurity", "definitions.RouteMetadata", "definitions.SecurityAnnotationComponent")
	// the names and scopes the router enforces and the spec documents are the same strings: nobody rewrites them in place
	checkNoInPlaceWritesToInputs(c, r, "C04.a", "core/metadata", "generator/swagen", "generator/routes")
	checkContainerFields(c, r, "C04.a")
	checkNoDroppedParameters(c, r, "C04.d")
	// every alternative of a route is documented or the generation fails: the functions that turn the
	// effective security into requirements have no "nothing to do" shortcut
	ruleNoNewEarlyExit(c, r, "C04.b", "a route's effective alternatives (or the error for an undeclared scheme) are then silently missing from the document while the router still enforces them", "generator/swagen",
		"generator/swagen/swagen30.generateOperationSecurity", "generator/swagen/swagen31.generateOperationSecurity", "generator/swagen/swagen30.buildSecurityMethod", "generator/swagen/swagen31.buildSecurityMethod")
	// ... the annotation grammar decides what a @Security name / scope may be, and no new pattern re-spells one on the way into the document (a pattern outside the reviewed table is reported wherever it is)
	ruleRegexInventory(c, r, "C04.b", "core/annotations")
}

// fieldReadsOf returns the FieldAddr/Field instructions reading a field named `name`.
func fieldReadsOf(fn *ssa.Function, name string) []ssa.Instruction {
	var out []ssa.Instruction
	allInstrs(fn, true, func(_ *ssa.Function, _ *ssa.BasicBlock, _ int, ins ssa.Instruction) {
		switch x := ins.(type) {
		case *ssa.FieldAddr:
			if f := structFieldVar(x.X.Type(), x.Field); f != nil && f.Name() == name {
				out = append(out, ins)
			}
		case *ssa.Field:
			if f := structFieldVar(x.X.Type(), x.Field); f != nil && f.Name() == name {
				out = append(out, ins)
			}
		}
	})
	return out
}

// usedOnlyInNilTest: the field value is only loaded to be compared with nil.
func usedOnlyInNilTest(ins ssa.Instruction) (ssa.Value, bool) {
	v, ok := ins.(ssa.Value)
	if !ok || v.Referrers() == nil {
		return nil, false
	}
	for _, ref := range *v.Referrers() {
		ld, ok := ref.(*ssa.UnOp)
		if !ok || ld.Op != token.MUL {
			return v, false
		}
		for _, r2 := range *ld.Referrers() {
			bo, ok := r2.(*ssa.BinOp)
			if !ok || !(isNilConst(bo.X) || isNilConst(bo.Y)) {
				return v, false
			}
		}
	}
	return v, true
}

func checkSecurityMethod(c *Ctx, r *Report, ver, bsm, secComp string) {
	fi := need(c, r, "C04.a", bsm)
	if fi == nil {
		return
	}
	w := c.W
	info := fi.Pkg.TypesInfo
	var sites []string
	viol := ""
	nIns := 0
	checkKV := func(pos token.Pos, k, v ast.Expr) {
		nIns++
		sites = append(sites, w.pos(pos))
		ka, va := w.exprAtoms(fi, k), w.exprAtoms(fi, v)
		if !(len(ka.Fields) == 1 && ka.Fields[secComp+".SchemaName"] && len(ka.Calls) == 0) {
			viol = fmt.Sprintf("%s: requirement key is not the annotation's SchemaName unmodified (%s)", w.pos(pos), ka)
		}
		if !(len(va.Fields) == 1 && va.Fields[secComp+".Scopes"] && len(va.Calls) == 0) {
			viol = fmt.Sprintf("%s: requirement scopes are not the annotation's Scopes unmodified (%s)", w.pos(pos), va)
		}
	}
	w.inspectRegion(fi, func(n ast.Node) bool {
		switch x := n.(type) {
		case *ast.AssignStmt:
			if len(x.Lhs) == 1 && len(x.Rhs) == 1 {
				if ix, ok := x.Lhs[0].(*ast.IndexExpr); ok {
					if mt, isMap := info.TypeOf(ix.X).Underlying().(*types.Map); isMap && !isSetMap(mt) {
						checkKV(x.Pos(), ix.Index, x.Rhs[0])
					}
				}
			}
		case *ast.CallExpr:
			cn := calleeOfCall(info, x)
			if strings.Contains(cn, "OrderedMap[") && strings.HasSuffix(cn, ").Set") && len(x.Args) == 2 {
				checkKV(x.Pos(), x.Args[0], x.Args[1])
			}
		}
		return true
	})
	if nIns != 1 {
		viol = fmt.Sprintf("expected exactly one insertion into the security requirement in %s, found %d", bsm, nIns)
	}
	r.add("C04.a", "fieldflow", bsm+":requirement[SchemaName]=Scopes", ver+": each requirement entry is (SchemaName -> Scopes) of the annotation component, unmodified", []string{bsm}, sites, viol)

	// guarded insertion + each iteration
	isInsert := func(ins ssa.Instruction) bool {
		switch x := ins.(type) {
		case *ssa.MapUpdate:
			mt, _ := x.Map.Type().Underlying().(*types.Map)
			return mt == nil || !isSetMap(mt) // (a set of names built for the membership test is not the requirement)
		case ssa.CallInstruction:
			cn := calleeName(x)
			return strings.Contains(cn, "OrderedMap[") && strings.HasSuffix(cn, ").Set")
		}
		return false
	}
	ruleGuarded(c, r, "C04.b", bsm, "insertion guarded by IsSecurityNameInSecuritySchemes", isInsert,
		func(a *sliceAtoms, cnd ssa.Value) bool {
			// the membership test: the helper, or a comma-ok lookup in a set keyed by the declared SecurityName values
			viaSet := false
			if ex, ok := stripTrivial(cnd).(*ssa.Extract); ok && ex.Index == 1 {
				if lk, ok := ex.Tuple.(*ssa.Lookup); ok && lk.CommaOk {
					viaSet = a.hasFieldNamed("SecurityName") || w.setKeyedByField(lk.X, "SecurityName")
				}
			}
			return (a.Calls["generator/swagen/swagtool.IsSecurityNameInSecuritySchemes"] || viaSet) && a.hasFieldNamed("SchemaName")
		}, true, 1, ver+": a scheme name enters the requirement only after IsSecurityNameInSecuritySchemes(config schemes, name) answered true")
	ruleEach(c, r, "C04.b", bsm,
		func(fi *FuncInfo) func(ast.Expr) bool {
			return w.rangeOverType(fi, "[]definitions.SecurityAnnotationComponent")
		}, "securityMethods",
		func(fi *FuncInfo) func(ast.Node) bool {
			return func(n ast.Node) bool {
				switch x := n.(type) {
				case *ast.AssignStmt:
					if len(x.Lhs) == 1 {
						if ix, ok := x.Lhs[0].(*ast.IndexExpr); ok {
							mt, isMap := fi.Pkg.TypesInfo.TypeOf(ix.X).Underlying().(*types.Map)
							return isMap && !isSetMap(mt)
						}
					}
				case *ast.CallExpr:
					cn := calleeOfCall(fi.Pkg.TypesInfo, x)
					return strings.Contains(cn, "OrderedMap[") && strings.HasSuffix(cn, ").Set")
				}
				return false
			}
		}, "requirement insertion", nil, true,
		ver+": every component of an alternative is inserted; an undeclared scheme leaves through an error return (so no spec is produced)")
	// the existence test consults the configured schemes
	if calls := callsIn(fi.SSA, false, nameIs("generator/swagen/swagtool.IsSecurityNameInSecuritySchemes")); len(calls) == 1 {
		a := sliceOf(calls[0].Common().Args[0])
		viol := ""
		if len(a.Params) != 1 || len(a.Calls) != 0 {
			viol = fmt.Sprintf("%s: the existence test is not given buildSecurityMethod's securitySchemes parameter", w.pos(calls[0].Pos()))
		}
		r.add("C04.b", "fieldflow", bsm+":existence-test-arg", ver+": existence is tested against the schemes handed down from the configuration", []string{bsm}, []string{w.pos(calls[0].Pos())}, viol)
	}
	if gfi := need(c, r, "C04.b", strings.Replace(bsm, "buildSecurityMethod", "generateOperationSecurity", 1)); gfi != nil {
		viol := ""
		var sites []string
		for _, cl := range callsIn(gfi.SSA, false, nameIs(bsm)) {
			sites = append(sites, w.pos(cl.Pos()))
			a := sliceOf(cl.Common().Args[0])
			if !a.hasFieldNamed("SecuritySchemes") {
				viol = fmt.Sprintf("%s: buildSecurityMethod is not given config.SecuritySchemes", w.pos(cl.Pos()))
			}
		}
		if len(sites) != 1 {
			viol = "expected one buildSecurityMethod call"
		}
		r.add("C04.b", "fieldflow", gfi.Key+":schemes-arg", ver+": the declared schemes are config.SecuritySchemes", []string{gfi.Key}, sites, viol)
	}
}

func checkSecuritySchemes(c *Ctx, r *Report, clause, ver, pkgRel string) {
	w := c.W
	gss := pkgRel + ".GenerateSecuritySpec"
	fi := need(c, r, clause, gss)
	if fi == nil {
		return
	}
	var schemeT, flowT, flowsT *types.Named
	urlName := func(s string) string { return s }
	if ver == "3.0" {
		schemeT, flowT, flowsT = w.extType(pkgKin, "SecurityScheme"), w.extType(pkgKin, "OAuthFlow"), w.extType(pkgKin, "OAuthFlows")
	} else {
		schemeT, flowT, flowsT = w.extType(pkgV3, "SecurityScheme"), w.extType(pkgV3, "OAuthFlow"), w.extType(pkgV3, "OAuthFlows")
		urlName = func(s string) string { return strings.Replace(s, "URL", "Url", 1) }
	}
	cfgT := "definitions.SecuritySchemeConfig"
	for _, f := range []struct{ sink, src string }{{"Type", "Type"}, {"In", "In"}, {"Name", "FieldName"}, {"Description", "Description"}, {"Scheme", "Scheme"}, {"OpenIdConnectUrl", "OpenIdConnectUrl"}} {
		ruleFieldFlow(c, r, ffSpec{Clause: clause, Fn: gss, Owner: schemeT, Field: f.sink, Must: []string{cfgT + "." + f.src}, AllowedFields: []string{cfgT + ".SecurityName"},
			Desc: ver + ": securityScheme." + f.sink + " is the configured " + f.src})
	}
	// every configured scheme is emitted under its SecurityName
	ruleEach(c, r, clause, gss,
		func(fi *FuncInfo) func(ast.Expr) bool {
			return w.rangeOverType(fi, "[]definitions.SecuritySchemeConfig")
		}, "*securityConfig",
		func(fi *FuncInfo) func(ast.Node) bool {
			return func(n ast.Node) bool {
				switch x := n.(type) {
				case *ast.AssignStmt:
					if len(x.Lhs) == 1 {
						if ix, ok := x.Lhs[0].(*ast.IndexExpr); ok {
							if _, isMap := fi.Pkg.TypesInfo.TypeOf(ix.X).Underlying().(*types.Map); isMap {
								at := w.exprAtoms(fi, ix.Index)
								return at.Fields[cfgT+".SecurityName"] && len(at.Fields) == 1
							}
						}
					}
				case *ast.CallExpr:
					cn := calleeOfCall(fi.Pkg.TypesInfo, x)
					if strings.Contains(cn, "OrderedMap[") && strings.HasSuffix(cn, ").Set") && len(x.Args) == 2 {
						at := w.exprAtoms(fi, x.Args[0])
						if at.Fields[cfgT+".SecurityName"] && len(at.Fields) == 1 {
							// value must be the scheme object, not e.g. a scope string
							t := fi.Pkg.TypesInfo.TypeOf(x.Args[1])
							return t != nil && strings.Contains(t.String(), "SecurityScheme")
						}
					}
				}
				return false
			}
		}, "securitySchemes[scheme.SecurityName] = ...", nil, true,
		ver+": every configured scheme is declared under its own name")
	// the collected schemes are attached to the document
	var compT *types.Named
	if ver == "3.0" {
		compT = w.extType(pkgKin, "Components")
	} else {
		compT = w.extType(pkgV3, "Components")
	}
	ruleFieldFlow(c, r, ffSpec{Clause: clause, Fn: gss, Owner: compT, Field: "SecuritySchemes", AllowedFields: []string{"*"}, AllowedCalls: []string{"*"}, Must: []string{cfgT + ".SecurityName"}, Desc: ver + ": components.securitySchemes is the map built from the configuration"})

	// OAuth flows: each flow literal is fed by ITS OWN configured flow
	info := fi.Pkg.TypesInfo
	for _, flow := range []string{"Implicit", "Password", "ClientCredentials", "AuthorizationCode"} {
		sinks := w.fieldSinks(fi, flowsT, flow)
		var sites []string
		viol := ""
		if len(sinks) != 1 {
			viol = fmt.Sprintf("expected one assignment to OAuthFlows.%s in %s, found %d", flow, gss, len(sinks))
		}
		for _, sk := range sinks {
			sites = append(sites, w.pos(sk.Pos))
			var lit *ast.CompositeLit
			ast.Inspect(sk.Expr, func(n ast.Node) bool {
				if cl, ok := n.(*ast.CompositeLit); ok && lit == nil {
					if nt, ok := derefNamed(info.TypeOf(cl)); ok && nt.Obj() == flowT.Obj() {
						lit = cl
					}
				}
				return true
			})
			if lit == nil {
				viol = fmt.Sprintf("%s: OAuthFlows.%s is not assigned an OAuthFlow literal", w.pos(sk.Pos), flow)
				continue
			}
			seenKeys := map[string]bool{}
			for _, el := range lit.Elts {
				kv, ok := el.(*ast.KeyValueExpr)
				if !ok {
					continue
				}
				key := kv.Key.(*ast.Ident).Name
				seenKeys[key] = true
				at := w.exprAtoms(fi, kv.Value)
				srcField := key
				if ver == "3.1" {
					srcField = strings.Replace(key, "Url", "URL", 1)
				}
				if !at.Fields["definitions.OAuthFlows."+flow] {
					viol = fmt.Sprintf("%s: %s flow's %s is not read from the configured %s flow (%s)", w.pos(kv.Pos()), flow, key, flow, keys(at.Fields))
				}
				if !at.Fields["definitions.OAuthFlow."+srcField] {
					viol = fmt.Sprintf("%s: %s flow's %s is not fed from OAuthFlow.%s", w.pos(kv.Pos()), flow, key, srcField)
				}
				for f := range at.Fields {
					if strings.HasPrefix(f, "definitions.OAuthFlows.") && f != "definitions.OAuthFlows."+flow {
						viol = fmt.Sprintf("%s: %s flow's %s also depends on another flow (%s): flows would advertise each other's data", w.pos(kv.Pos()), flow, key, f)
					}
					if strings.HasPrefix(f, "definitions.OAuthFlow.") && f != "definitions.OAuthFlow."+srcField {
						viol = fmt.Sprintf("%s: %s flow's %s is fed from %s", w.pos(kv.Pos()), flow, key, f)
					}
				}
			}
			if !seenKeys["Scopes"] {
				viol = fmt.Sprintf("%s: %s flow has no Scopes", w.pos(lit.Pos()), flow)
			}
			want := map[string][]string{"Implicit": {"AuthorizationURL", "RefreshURL"}, "Password": {"TokenURL", "RefreshURL"}, "ClientCredentials": {"TokenURL", "RefreshURL"}, "AuthorizationCode": {"AuthorizationURL", "TokenURL", "RefreshURL"}}
			for _, k := range want[flow] {
				if !seenKeys[urlName(k)] {
					viol = fmt.Sprintf("%s: %s flow does not copy %s", w.pos(lit.Pos()), flow, k)
				}
			}
		}
		o := r.add(clause, "fieldflow", gss+":flows."+flow, ver+": the "+flow+" flow's URLs and scopes are those of the configured "+flow+" flow and of no other", []string{gss}, sites, viol)
		o.NonTrivial = true
	}
	ruleFieldFlow(c, r, ffSpec{Clause: clause, Fn: gss, Owner: schemeT, Field: "Flows", AllowedFields: []string{"*"}, AllowedCalls: []string{"*"}, Must: []string{cfgT + ".Flows"}, Desc: ver + ": securityScheme.flows is built from the configured flows"})
}

// checkEnforceFlag implements C04.d.
func checkEnforceFlag(c *Ctx, r *Report) {
	w := c.W
	const vs = "(core/validators.ReceiverValidator).validateSecurity"
	fi := need(c, r, "C04.d", vs)
	if fi == nil {
		return
	}
	fn := fi.SSA
	var sites []string
	reasons := map[string]int{}
	// legitReason: the fact (cnd == pol) is one of the three legitimate reasons to answer "no diagnostic"
	legitReason := func(cnd ssa.Value, pol bool) string {
		a := sliceOf(cnd)
		if bo, isB := cnd.(*ssa.BinOp); isB && a.hasFieldNamed("gleeceConfig") && !a.hasFieldNamed("EnforceSecurityOnAllRoutes") && (isNilConst(bo.X) || isNilConst(bo.Y)) {
			if (bo.Op == token.EQL && pol) || (bo.Op == token.NEQ && !pol) {
				return "no configuration"
			}
		}
		if a.hasFieldNamed("EnforceSecurityOnAllRoutes") {
			// cond is the flag itself (after unwrapping !): flag false is the legit edge
			if _, isLoad := cnd.(*ssa.UnOp); isLoad && !pol {
				return "flag off"
			}
		}
		if e, arg := lenEmptiness(cnd, pol); e == 1 {
			sa := sliceOf(arg)
			// (one list that is the explicit/inherited security or else the configured default
			// stands for both reasons)
			inh, def := sa.Calls["core/metadata.GetRouteSecurityWithInheritance"], sa.Calls["core/metadata.GetDefaultSecurity"]
			switch {
			case inh && def:
				reasons["configured default present"]++
				return "explicit/inherited security present"
			case inh:
				return "explicit/inherited security present"
			case def:
				return "configured default present"
			}
		}
		return ""
	}
	var legit func(cnd ssa.Value, pol bool, depth int) bool
	legit = func(cnd ssa.Value, pol bool, depth int) bool {
		cnd, pol = unwrapNot(cnd, pol)
		if why := legitReason(cnd, pol); why != "" {
			reasons[why]++
			return true
		}
		// a new predicate (bool, or (bool, error)): the fact is legitimate when every way
		// for the predicate to give this answer is
		if depth > 3 {
			return false
		}
		var call *ssa.Call
		idx := 0
		switch x := cnd.(type) {
		case *ssa.Call:
			call = x
		case *ssa.Extract:
			call, _ = x.Tuple.(*ssa.Call)
			idx = x.Index
		}
		if call == nil {
			return false
		}
		h := w.newCallee(call)
		if h == nil {
			return false
		}
		return w.predicateAnswerOnlyVia(h, idx, pol, func(c2 ssa.Value, p2 bool) bool { return legit(c2, p2, depth+1) })
	}
	avoid := map[edge]bool{}
	for _, b := range fn.Blocks {
		if len(b.Instrs) == 0 {
			continue
		}
		ifi, ok := b.Instrs[len(b.Instrs)-1].(*ssa.If)
		if !ok || len(b.Succs) != 2 {
			continue
		}
		for i, s := range b.Succs {
			if legit(ifi.Cond, i == 0, 0) {
				avoid[edge{b, s}] = true
				sites = append(sites, w.pos(instrPos(b)))
			}
		}
	}
	viol := ""
	for _, want := range []string{"flag off", "explicit/inherited security present", "configured default present"} {
		if reasons[want] == 0 {
			viol = fmt.Sprintf("validateSecurity has no branch for %q", want)
		}
	}
	reach, used := reachAvoiding(fn, nil, avoid)
	nDiag := 0
	for _, ex := range exitsOf(fn) {
		if ex.Ret == nil {
			continue
		}
		diag := ex.Ret.Results[0]
		if ex.Kind == exitFailure {
			continue
		}
		isReach := reach[ex.Block]
		if ex.Pred != nil {
			isReach = reach[ex.Pred] && used[edge{ex.Pred, ex.Block}]
		}
		sites = append(sites, w.pos(retPos(ex)))
		if isNilConst(diag) {
			if isReach {
				viol = fmt.Sprintf("%s: validateSecurity can answer 'no diagnostic' on a path where the flag is on and neither the route, its controller nor the configuration provides security (reachable without passing a legitimate edge)", w.pos(retPos(ex)))
			}
			continue
		}
		// non-nil diagnostic: must be error severity with the documented code
		nDiag++
		a := sliceOf(diag)
		if !a.Calls["core/validators/diagnostics.NewErrorDiagnostic"] {
			viol = fmt.Sprintf("%s: the missing-security diagnostic is not created with NewErrorDiagnostic (a lower severity does not block generation)", w.pos(retPos(ex)))
		}
		if !hasConst(a, `"receiver-missing-security"`) && !constNamed(fi, "DiagReceiverMissingSecurity") {
			viol = fmt.Sprintf("%s: the diagnostic does not carry DiagReceiverMissingSecurity", w.pos(retPos(ex)))
		}
	}
	if nDiag != 1 {
		viol = fmt.Sprintf("expected exactly one diagnostic-producing return in validateSecurity, found %d", nDiag)
	}
	o := r.add("C04.d", "guardedby", vs+":nil-only-via-legit-edges", "with enforceSecurityOnAllRoutes the validator yields no diagnostic only if the flag is off, the route has explicit/inherited security, or a default is configured; otherwise an error diagnostic DiagReceiverMissingSecurity", []string{vs}, sites, viol)
	o.NonTrivial = true

	// inputs of the decision
	viol = ""
	sites = nil
	for _, cl := range callsIn(fn, false, nameIs("core/metadata.GetRouteSecurityWithInheritance")) {
		sites = append(sites, w.pos(cl.Pos()))
		a0, a1 := sliceOf(cl.Common().Args[0]), sliceOf(cl.Common().Args[1])
		if !a0.hasFieldNamed("Annotations") || a0.hasFieldNamed("parentController") {
			viol = fmt.Sprintf("%s: the route's own annotations are not the first argument", w.pos(cl.Pos()))
		}
		if !a1.Calls["core/metadata.GetSecurityFromContext"] || !a1.hasFieldNamed("parentController") {
			viol = fmt.Sprintf("%s: the inherited list is not GetSecurityFromContext(parent controller annotations)", w.pos(cl.Pos()))
		}
	}
	if len(sites) != 1 {
		viol = "expected one GetRouteSecurityWithInheritance call in validateSecurity"
	}
	for _, cl := range callsIn(fn, false, nameIs("core/metadata.GetDefaultSecurity")) {
		sites = append(sites, w.pos(cl.Pos()))
		if a := sliceOf(cl.Common().Args[0]); !a.hasFieldNamed("gleeceConfig") {
			viol = fmt.Sprintf("%s: GetDefaultSecurity is not given the validator's configuration", w.pos(cl.Pos()))
		}
	}
	r.add("C04.d", "fieldflow", vs+":same-helpers-as-Reduce", "the validator computes the effective list with the same helpers and precedence as the reduction (route, controller, default)", []string{vs}, sites, viol)

	// the result is added to the receiver's diagnostics
	const rv = "(core/validators.ReceiverValidator).Validate"
	ruleMustCallOK(c, r, "C04.d", rv, vs, -1, "ReceiverValidator.Validate succeeds only after validateSecurity ran without error")
	if vfi := need(c, r, "C04.d", rv); vfi != nil {
		viol := ""
		var sites []string
		ok := false
		for _, cl := range callsIn(vfi.SSA, false, nameIs("(*core/validators/diagnostics.EntityDiagnostic).AddDiagnosticIfNotNil")) {
			sites = append(sites, w.pos(cl.Pos()))
			args := cl.Common().Args
			if ex, isEx := args[len(args)-1].(*ssa.Extract); isEx && ex.Index == 0 {
				if call, isCall := ex.Tuple.(*ssa.Call); isCall && calleeName(call) == vs {
					ok = true
				}
			}
		}
		if !ok {
			viol = "the diagnostic returned by validateSecurity is not added to the receiver's diagnostics"
		}
		r.add("C04.d", "fieldflow", rv+":adds(validateSecurity)", "the missing-security diagnostic reaches the receiver's diagnostic entity", []string{rv}, sites, viol)
	}
}

// constNamed: the function references a constant with that name.
func constNamed(fi *FuncInfo, name string) bool {
	found := false
	curWorld.inspectRegion(fi, func(n ast.Node) bool {
		if id, ok := n.(*ast.Ident); ok {
			if cst, ok := fi.Pkg.TypesInfo.Uses[id].(*types.Const); ok && cst.Name() == name {
				found = true
			}
		}
		return true
	})
	return found
}

// swagtoolSorters: the allowed set for the sort who-calls rule is {sortEnumArray} plus every
// function OUTSIDE swagtool that sorts (the rule is about swagtool only).
func swagtoolSorters(w *World) []string {
	out := []string{"generator/swagen/swagtool.sortEnumArray"}
	for _, cl := range w.callersOf(func(n string) bool { return strings.HasPrefix(n, "sort.") || strings.HasPrefix(n, "slices.Sort") }) {
		fn := fnShort(cl.Parent())
		if !strings.HasPrefix(strings.TrimLeft(fn, "(*"), "generator/swagen/swagtool.") {
			out = append(out, fn)
		}
	}
	return dedupSortedPlain(out)
}

// checkSchemeMembership (C04.b / C08.f): a scheme name counts as declared only on an exact match.
func checkSchemeMembership(c *Ctx, r *Report, clause string) {
	w := c.W
	// IsSecurityNameInSecuritySchemes is a membership test on SecurityName
	if len(w.callersOf(nameIs("generator/swagen/swagtool.IsSecurityNameInSecuritySchemes"))) == 0 {
		// nobody asks the helper any more: membership is then decided where the insertion guard rule
		// (C04.b, buildSecurityMethod) accepts it - a comma-ok lookup in a set keyed by SecurityName
		r.add(clause, "guardedby", "generator/swagen/swagtool.IsSecurityNameInSecuritySchemes:membership", "the helper is unused; membership is decided by the set lookup the insertion guard rule checks", nil, []string{"gleece:0"}, "")
	} else if fi := need(c, r, clause, "generator/swagen/swagtool.IsSecurityNameInSecuritySchemes"); fi != nil {
		viol := ""
		var sites []string
		nTrue := 0
		for _, ex := range exitsOf(fi.SSA) {
			if ex.Ret == nil {
				continue
			}
			sites = append(sites, w.pos(retPos(ex)))
			if isBoolConst(ex.Ret.Results[0], true) {
				nTrue++
				ok := false
				for _, f := range dominatingFacts(ex.Block) {
					cnd, pol := unwrapNot(f.Cond, f.Pol)
					if bo, isB := cnd.(*ssa.BinOp); isB && bo.Op == token.EQL && pol {
						a := sliceOf(cnd)
						if a.hasFieldNamed("SecurityName") && len(a.Params) >= 2 {
							ok = true
						}
					}
				}
				if !ok {
					viol = fmt.Sprintf("%s: returns true without comparing a scheme's SecurityName with the requested name", w.pos(retPos(ex)))
				}
			}
		}
		if nTrue != 1 {
			viol = fmt.Sprintf("expected one `return true`, found %d", nTrue)
			// the library form of the same test: slices.ContainsFunc(schemes, func(s) bool { return s.SecurityName == name })
			if nTrue == 0 {
				nLib := 0
				for _, ex := range exitsOf(fi.SSA) {
					if ex.Ret == nil {
						continue
					}
					cl, ok := stripTrivial(ex.Ret.Results[0]).(*ssa.Call)
					if !ok || !strings.HasPrefix(calleeName(cl), "slices.ContainsFunc") || len(cl.Call.Args) != 2 {
						nLib = -1000
						continue
					}
					mc, ok := cl.Call.Args[1].(*ssa.MakeClosure)
					if !ok {
						nLib = -1000
						continue
					}
					exact := true
					for _, cex := range exitsOf(mc.Fn.(*ssa.Function)) {
						if cex.Ret == nil {
							continue
						}
						bo, isB := stripTrivial(cex.Ret.Results[0]).(*ssa.BinOp)
						if !isB || bo.Op != token.EQL {
							exact = false
							continue
						}
						if a := sliceOf(bo); !a.hasFieldNamed("SecurityName") || len(a.FreeVars) < 1 {
							exact = false
						}
					}
					if exact {
						nLib++
					}
				}
				if nLib >= 1 {
					viol = ""
				}
			}
		}
		r.add(clause, "guardedby", fi.Key+":membership", "a scheme name is 'declared' only if some configured scheme has exactly that SecurityName", []string{fi.Key}, sites, viol)
	}

}

// checkScopesNeverNil: the scope list of a security requirement is a list, possibly empty,
// never nil: the 3.0 emitter marshals a nil slice as `null` where the document needs `[]`
// (the routers spell the same list `[]string{}`), and a nil list that comes from a loaded
// pointer is only handed on when it was seen to be non-empty.
func checkScopesNeverNil(c *Ctx, r *Report, clause string) {
	w := c.W
	fi := need(c, r, clause, "core/metadata.GetSecurityFromContext")
	if fi == nil {
		return
	}
	viol := ""
	var sites []string
	allInstrs(fi.SSA, true, func(_ *ssa.Function, b *ssa.BasicBlock, _ int, ins ssa.Instruction) {
		st, ok := ins.(*ssa.Store)
		if !ok {
			return
		}
		fa, ok := st.Addr.(*ssa.FieldAddr)
		if !ok {
			return
		}
		fv := structFieldVar(fa.X.Type(), fa.Field)
		if fv == nil || fv.Name() != "Scopes" {
			return
		}
		sites = append(sites, w.pos(st.Pos()))
		for _, ov := range w.originValues(st.Val) {
			switch x := ov.(type) {
			case *ssa.Const:
				if x.IsNil() {
					viol = fmt.Sprintf("%s: the Scopes of a security requirement can be nil (a `var scopes []string` default): the 3.0 document then says `\"scheme\": null` while the routers and the 3.1 document say an empty list", w.pos(st.Pos()))
				}
			case *ssa.UnOp:
				// *definedScopes: only under a length test (a decoded empty list may be nil)
				guarded := false
				for _, f := range dominatingFactsOfValue(x, b) {
					cnd, pol := unwrapNot(f.Cond, f.Pol)
					if bo, ok := cnd.(*ssa.BinOp); ok && pol && (bo.Op == token.GTR || bo.Op == token.NEQ) && sliceOf(cnd).Calls["builtin.len"] {
						guarded = true
					}
				}
				if !guarded {
					viol = fmt.Sprintf("%s: the Scopes of a security requirement are taken from the decoded property without a length test: an empty decoded list may be nil, which the 3.0 document renders as `null`", w.pos(st.Pos()))
				}
			}
		}
	})
	if len(sites) == 0 {
		viol = "no store into SecurityAnnotationComponent.Scopes found in GetSecurityFromContext"
		sites = []string{w.pos(fi.Decl.Pos())}
	}
	r.add(clause, "fieldflow", "core/metadata.GetSecurityFromContext:scopes-never-nil", "a security requirement's scope list is never nil", []string{fi.Key}, sites, viol)
}

// dominatingFactsOfValue: the branch facts that hold where v is computed (its own block), or
// at b when v is not an instruction.
func dominatingFactsOfValue(v ssa.Value, b *ssa.BasicBlock) []edgeFact {
	if ins, ok := v.(ssa.Instruction); ok && ins.Block() != nil {
		return dominatingFacts(ins.Block())
	}
	return dominatingFacts(b)
}

// isSetMap: a map used as a set (values carry nothing).
func isSetMap(mt *types.Map) bool {
	switch e := mt.Elem().Underlying().(type) {
	case *types.Struct:
		return e.NumFields() == 0
	case *types.Basic:
		return e.Kind() == types.Bool
	}
	return false
}

// setKeyedByField: m is a map built (in place, or by a split-off helper it is the result of)
// with keys that are the given field of the elements it was built from, and by nothing else.
func (w *World) setKeyedByField(m ssa.Value, field string) bool {
	for _, ov := range w.originValues(m) {
		ov = stripTrivial(ov)
		var mk ssa.Value
		switch x := ov.(type) {
		case *ssa.MakeMap:
			mk = x
		case *ssa.Call:
			callee := x.Common().StaticCallee()
			if callee == nil || !w.isNewFn(callee) {
				return false
			}
			for _, ex := range exitsOf(callee) {
				if ex.Ret != nil && len(ex.Ret.Results) == 1 {
					for _, rv := range w.originValues(ex.Ret.Results[0]) {
						if mm, ok := stripTrivial(rv).(*ssa.MakeMap); ok {
							mk = mm
						}
					}
				}
			}
		}
		if mk == nil || mk.Referrers() == nil {
			return false
		}
		n := 0
		for _, rf := range *mk.Referrers() {
			if mu, ok := rf.(*ssa.MapUpdate); ok && mu.Map == mk {
				n++
				if !sliceOf(mu.Key).hasFieldNamed(field) {
					return false
				}
			}
		}
		if n == 0 {
			return false
		}
	}
	return true
}
