package main

import (
	"fmt"
	"go/ast"
	"golang.org/x/tools/go/ssa"
	"os"
	"strings"
)

func init() {
	register("DBGU", "dump unused parameters", func(c *Ctx, r *Report) {
		for _, fn := range c.W.SSAFuncs {
			if fn.Blocks == nil || fn.Parent() != nil || fn.Synthetic != "" {
				continue
			}
			for i, p := range fn.Params {
				if fn.Signature.Recv() != nil && i == 0 {
					continue
				}
				if p.Name() == "_" || p.Name() == "" {
					continue
				}
				if p.Referrers() == nil || len(*p.Referrers()) == 0 {
					fmt.Println("UNUSED", fnShort(fn), p.Name())
				}
			}
		}
		r.add("DBGU", "debug", "x", "x", nil, nil, "")
	})
	register("DBG", "debug", func(c *Ctx, r *Report) {
		fn := os.Getenv("DBG_FN")
		fi := c.W.fn(fn)
		if fi == nil {
			fmt.Println("no fn", fn)
			return
		}
		g := c.W.cfgOf(fi)
		fmt.Println(g.Format(c.W.Fset))
		for _, b := range g.Blocks {
			fmt.Println(b.Index, b.Kind, b.Stmt != nil, len(b.Succs))
		}
		ast.Inspect(fi.Decl, func(n ast.Node) bool {
			if cl, ok := n.(*ast.CallExpr); ok {
				fmt.Println(c.W.pos(cl.Pos()), calleeOfCall(fi.Pkg.TypesInfo, cl))
				for _, a := range cl.Args {
					fmt.Println("    arg atoms:", c.W.exprAtoms(fi, a))
				}
			}
			return true
		})
		if os.Getenv("DBG_SSA") != "" {
			fi.SSA.WriteTo(os.Stdout)
		}
		r.add("DBG", "debug", "x", "x", nil, nil, "")
	})
}

func init() {
	register("DBGG", "debug globals", func(c *Ctx, r *Report) {
		for _, g := range c.W.globalWrites() {
			fmt.Println(g.Global, "|", g.Fn, "|", g.Pos, "|", g.Kind)
		}
		r.add("DBGG", "debug", "x", "x", nil, nil, "")
	})
}

func init() {
	register("DBGO", "debug order", func(c *Ctx, r *Report) {
		for _, s := range c.W.orderSites(nil) {
			fmt.Printf("%-14s %-60s %s\n      %s  %v\n", s.Class, s.Key, c.W.pos(s.Pos), "", s.Effects)
		}
		r.add("DBGO", "debug", "x", "x", nil, nil, "")
	})
}

func init() {
	register("DBGI", "debug ir mutations", func(c *Ctx, r *Report) {
		for _, m := range c.W.irMutations([]string{"generator/", "core/validators", "cmd"}) {
			fmt.Println(m.Pos, "|", m.Fn, "|", m.Field, "|", m.Root)
		}
		r.add("DBGI", "debug", "x", "x", nil, nil, "")
	})
}

func init() {
	register("DBGC", "debug crash inventory", func(c *Ctx, r *Report) {
		w := c.W
		sites, n, sums := w.nilDerefSites()
		fmt.Println("== may-return-nil summaries:", len(sums), "calls:", n)
		for _, s := range sums {
			fmt.Println("   ", s)
		}
		fmt.Println("== nil deref sites:", len(sites))
		for _, s := range sites {
			fmt.Println("   ", w.pos(s.Pos), s.Key, s.Use)
		}
		ps := w.panicSites()
		fmt.Println("== panic sites:", len(ps))
		for _, s := range ps {
			fmt.Println("   ", w.pos(s.Pos), s.Key)
		}
		fmt.Println("== recursion SCCs")
		for _, s := range w.recursionSCCs() {
			fmt.Println("   ", s)
		}
		fmt.Println("== cond loops")
		for _, s := range w.condLoops() {
			fmt.Println("   ", w.pos(s.Pos), s.Key, s.Desc)
		}
		ed := w.errDropSites()
		fmt.Println("== err drops:", len(ed))
		for _, s := range ed {
			fmt.Println("   ", w.pos(s.Pos), s.Key)
		}
		r.add("DBGC", "debug", "x", "x", nil, nil, "")
	})
}

func init() {
	register("DBGT", "debug template sibling diffs", func(c *Ctx, r *Report) {
		prof := map[string]map[string]map[string]bool{} // tpl -> engine -> element
		for _, en := range c.T.Order {
			eng := c.T.Engines[en]
			add := func(tpl, el string) {
				if prof[tpl] == nil {
					prof[tpl] = map[string]map[string]bool{}
				}
				if prof[tpl][en] == nil {
					prof[tpl][en] = map[string]bool{}
				}
				prof[tpl][en][el] = true
			}
			for _, rd := range eng.Reads {
				add(rd.Tpl, "read:"+rd.Path+"=>"+fmt.Sprint(rd.Fields))
			}
			for _, h := range eng.Helpers {
				add(h.Tpl, "helper:"+h.Helper+fmt.Sprint(h.Args))
			}
			for _, iv := range eng.Invokes {
				add(iv.Tpl, "invoke:"+iv.Partial+"{"+iv.Hash+"}")
			}
		}
		for tpl, pe := range prof {
			all := map[string]bool{}
			for _, s := range pe {
				for k := range s {
					all[k] = true
				}
			}
			for el := range all {
				var missing []string
				for _, en := range c.T.Order {
					if !pe[en][el] {
						missing = append(missing, en)
					}
				}
				if len(missing) > 0 {
					fmt.Println(tpl, "|", el, "| missing in", missing)
				}
			}
		}
		r.add("DBGT", "debug", "x", "x", nil, nil, "")
	})
}

func init() {
	register("DBGF", "debug function decl sibling diffs", func(c *Ctx, r *Report) {
		ref := map[string][]string{}
		for _, en := range c.T.Order {
			gp, err := parseGoPartial(c.T.Engines[en].Partials["FunctionDeclarations"])
			if err != nil {
				fmt.Println(err)
				continue
			}
			fns := normalisedFuncs(gp)
			if en == "gin" {
				ref = fns
			}
			_ = fns
		}
		for _, en := range c.T.Order {
			gp, _ := parseGoPartial(c.T.Engines[en].Partials["FunctionDeclarations"])
			fns := normalisedFuncs(gp)
			for name, toks := range fns {
				rt, ok := ref[name]
				if !ok {
					fmt.Println(en, name, "not in gin")
					continue
				}
				if fmt.Sprint(rt) != fmt.Sprint(toks) {
					// first difference
					i := 0
					for i < len(rt) && i < len(toks) && rt[i] == toks[i] {
						i++
					}
					lo := i - 3
					if lo < 0 {
						lo = 0
					}
					hi1 := i + 6
					if hi1 > len(rt) {
						hi1 = len(rt)
					}
					hi2 := i + 6
					if hi2 > len(toks) {
						hi2 = len(toks)
					}
					fmt.Println(en, name, "differs at", i, "gin:", rt[lo:hi1], en+":", toks[lo:hi2])
				}
			}
		}
		r.add("DBGF", "debug", "x", "x", nil, nil, "")
	})
}

func init() {
	register("DBGV", "debug value receiver field address escapes", func(c *Ctx, r *Report) {
		for _, s := range c.W.valueRecvFieldAddrEscapes() {
			fmt.Println(s)
		}
		r.add("DBGV", "debug", "x", "x", nil, nil, "")
	})
}

func init() {
	register("DBGE", "debug: error chain from NewAnnotationHolder", func(c *Ctx, r *Report) {
		sites, viols, sinks, filters := c.W.errChain("core/annotations.NewAnnotationHolder", 12)
		for _, s := range filters {
			fmt.Println("FILTER", s)
		}
		for _, s := range sites {
			fmt.Println("SITE", s)
		}
		for _, s := range sinks {
			fmt.Println("SINK", s)
		}
		for _, v := range viols {
			fmt.Println("VIOL", v)
		}
	})
}

func init() {
	register("DBGX", "debug: exits", func(c *Ctx, r *Report) {
		fi := c.W.fn("(*core/visitors.ControllerVisitor).createControllerMetadata")
		for _, ex := range exitsOf(fi.SSA) {
			fmt.Println("EXIT", c.W.pos(retPos(ex)), ex.Kind, ex.Ret)
			if ex.Ret != nil {
				ev := ex.Ret.Results[len(ex.Ret.Results)-1]
				if cl, ok := ev.(*ssa.Call); ok {
					callee := cl.Call.StaticCallee()
					fmt.Println("   call", calleeName(cl), callee != nil, callee != nil && len(callee.Blocks) > 0, len(cl.Call.Args))
					for _, a := range cl.Call.Args {
						fmt.Println("   arg", a, knownNonNil(a, ex.Block), provablyNonNil(a, ex.Block))
					}
				}
			}
		}
	})
}

func init() {
	register("DBGD", "debug: diagnostic constructor call sites", func(c *Ctx, r *Report) {
		w := c.W
		for _, cl := range w.callersOf(func(n string) bool {
			return strings.HasPrefix(n, "core/validators/diagnostics.New") && strings.HasSuffix(n, "Diagnostic")
		}) {
			fnk := fnShort(cl.Parent())
			if strings.HasPrefix(fnk, "core/validators/diagnostics.") {
				continue
			}
			fi := w.fn(fnk)
			if fi == nil {
				fmt.Println("DIAG", w.pos(cl.Pos()), fnk, "NOFI")
				continue
			}
			// AST call
			var call *ast.CallExpr
			ast.Inspect(fi.Decl, func(n ast.Node) bool {
				if ce, ok := n.(*ast.CallExpr); ok && ce.Lparen == cl.Pos() {
					call = ce
				}
				return true
			})
			if call == nil {
				fmt.Println("DIAG", w.pos(cl.Pos()), fnk, "NOAST")
				continue
			}
			last := call.Args[len(call.Args)-1]
			fmt.Printf("DIAG %s %s\n   file=%s\n   range=%s\n", w.pos(cl.Pos()), fnk, exprString(call.Args[0]), exprString(last))
		}
	})
}

func init() {
	register("DBGM", "debug: escaped emits of string-typed paths", func(c *Ctx, r *Report) {
		for _, en := range c.T.Order {
			for _, e := range c.T.Engines[en].Emits {
				if !e.Unescaped {
					fmt.Println("EMIT", en, e.Tpl, e.Expr, e.Type, e.Fields)
				}
			}
		}
	})
}

func init() {
	register("DBGN", "debug: nil-arg sites", func(c *Ctx, r *Report) {
		for _, s := range c.W.nilArgSites() {
			fmt.Println("NILARG", c.W.pos(s.Pos), s.Key)
		}
	})
}

func init() {
	register("DBGS", "debug: skip sites", func(c *Ctx, r *Report) {
		for _, s := range c.W.skipSites("core", "generator", "gast", "graphs", "cmd", "common", "definitions") {
			fmt.Println("SKIP", c.W.pos(s.Pos), s.Key)
		}
	})
}

func init() {
	register("DBGR", "debug: early exits", func(c *Ctx, r *Report) {
		for _, s := range c.W.earlyExits("core/visitors", "core/metadata", "core/pipeline", "core/validators", "core/annotations", "generator", "graphs", "core/arbitrators", "gast", "cmd") {
			fmt.Println("EARLY", c.W.pos(s.Pos.Pos()), s.Key)
		}
	})
}

func init() {
	register("DBGW", "debug: IR writers", func(c *Ctx, r *Report) {
		for k, m := range c.W.irWriters() {
			for fn, pos := range m {
				fmt.Println("IRW", k, fn, pos)
			}
		}
	})
}

func init() {
	register("DBGQ", "debug: sorts", func(c *Ctx, r *Report) {
		ruleSortInventory(c, r, "DBGQ")
		for _, o := range r.Obls {
			fmt.Println("SORT", o.Sites, o.Key)
		}
	})
}

func init() {
	register("DBGP", "debug partial groups", func(c *Ctx, r *Report) {
		for _, line := range partialGroups(c) {
			fmt.Println(line)
		}
		r.add("DBGP", "debug", "x", "x", nil, nil, "")
	})
}

func init() {
	register("DBGF", "dump container fields", func(c *Ctx, r *Report) {
		os.Stdout.Write(c.W.dumpContainerFields())
		r.add("DBGF", "debug", "x", "x", nil, nil, "")
	})
}

func init() {
	register("DBGM", "dump graph mutation call sites", func(c *Ctx, r *Report) {
		for _, cl := range c.W.callersOf(func(n string) bool {
			return strings.HasPrefix(n, "(graphs/symboldg.SymbolGraphBuilder).") || strings.HasPrefix(n, "(*graphs/symboldg.SymbolGraph).")
		}) {
			n := calleeName(cl)
			m := n[strings.LastIndex(n, ".")+1:]
			if strings.HasPrefix(m, "Add") || strings.HasPrefix(m, "Remove") || strings.HasPrefix(m, "add") {
				fmt.Println("GM", fnShort(cl.Parent()), "|", n)
			}
		}
		r.add("DBGM", "debug", "x", "x", nil, nil, "")
	})
}

func init() {
	register("DBGRX", "dump regexes", func(c *Ctx, r *Report) {
		os.Stdout.Write(c.W.dumpRegexes())
		r.add("DBGRX", "debug", "x", "x", nil, nil, "")
	})
}

func init() {
	register("DBGMF", "dump mutated fields", func(c *Ctx, r *Report) {
		seen := map[string]bool{}
		for f := range c.W.mutatedFields() {
			if f.Pkg() == nil || !isAnalysedPkg(f.Pkg().Path()) {
				continue
			}
			seen[short(f.Pkg().Path())+" "+f.Name()+" "+short(f.Type().String())] = true
		}
		for k := range seen {
			fmt.Println("MF", k)
		}
		r.add("DBGMF", "debug", "x", "x", nil, nil, "")
	})
}
