package main

import (
	"fmt"
	"go/ast"
	"os"
)

func init() {
	register("DBG", "debug", func(c *Ctx, r *Report) {
		fn := os.Getenv("DBG_FN")
		fi := c.W.fn(fn)
		if fi == nil { fmt.Println("no fn", fn); return }
		g := c.W.cfgOf(fi)
		fmt.Println(g.Format(c.W.Fset))
		for _, b := range g.Blocks { fmt.Println(b.Index, b.Kind, b.Stmt != nil, len(b.Succs)) }
		ast.Inspect(fi.Decl, func(n ast.Node) bool {
			if cl, ok := n.(*ast.CallExpr); ok {
				fmt.Println(c.W.pos(cl.Pos()), calleeOfCall(fi.Pkg.TypesInfo, cl))
				for _, a := range cl.Args { fmt.Println("    arg atoms:", c.W.exprAtoms(fi, a)) }
			}
			return true
		})
		if os.Getenv("DBG_SSA") != "" { fi.SSA.WriteTo(os.Stdout) }
		r.add("DBG", "debug", "x", "x", nil, nil, "")
	})
}

func init() {
	register("DBGG", "debug globals", func(c *Ctx, r *Report) {
		for _, g := range c.W.globalWrites() {
			fmt.Println(g.Global, "|", g.Fn, "|", g.Pos, "|", g.Kind)
		}
		r.add("DBGG", "debug", "x", "x", nil, nil, "")
	})
}
