package main

import "fmt"

func init() {
	register("DBG", "debug", func(c *Ctx, r *Report) {
		for _, e := range c.T.Order {
			eng := c.T.Engines[e]
			fmt.Printf("engine %s: partials=%d ext=%d reads=%d helpers=%d invokes=%d problems=%d unused=%v\n", e, len(eng.Partials), len(eng.Extensions), len(eng.Reads), len(eng.Helpers), len(eng.Invokes), len(eng.Problems), eng.UnusedVars)
			for _, p := range eng.Problems {
				fmt.Println("   ", p)
			}
		}
		seen := map[string]bool{}
		for _, rd := range c.T.Engines["gin"].Reads {
			k := fmt.Sprintf("%v", rd.Fields)
			if !seen[k] { seen[k] = true; fmt.Println("  read", rd.Tpl, rd.Path, rd.Fields, rd.Type) }
		}
		for k, h := range c.T.Helpers { fmt.Println(" helper", k, h.NumIn, h.HasOptions, h.ParamTypes) }
		r.add("DBG", "debug", "x", "x", nil, nil, "")
	})
}
