package main

import (
	"encoding/json"
	"fmt"
	"go/ast"
	"go/types"
	"os"
	"path/filepath"
	"sort"
	"strings"

	"golang.org/x/tools/go/ssa"
)

// irWriters: for every struct type of package definitions that is not part of the
// configuration closure, the functions that build it (composite literal) or assign one
// of its fields.
func (w *World) irWriters() map[string]map[string]string {
	out := map[string]map[string]string{}
	cfg := map[*types.Named]bool{}
	if root := w.lookupType("definitions", "GleeceConfig"); root != nil {
		cfg[root] = true
		for _, f := range configClosure(root) {
			cfg[f.Owner] = true
			if en := elemStruct(f.Var.Type()); en != nil {
				cfg[en] = true
			}
		}
	}
	isIR := func(t types.Type) (*types.Named, bool) {
		nt, ok := derefNamed(t)
		if !ok || nt.Obj().Pkg() == nil || nt.Obj().Pkg().Path() != modPath+"/definitions" || cfg[nt] {
			return nil, false
		}
		if _, isStruct := nt.Underlying().(*types.Struct); !isStruct {
			return nil, false
		}
		return nt, true
	}
	add := func(nt *types.Named, fn, pos string) {
		k := "definitions." + nt.Obj().Name()
		if out[k] == nil {
			out[k] = map[string]string{}
		}
		if _, dup := out[k][fn]; !dup {
			out[k][fn] = pos
		}
	}
	for _, fn := range w.SSAFuncs {
		allInstrsLocal(fn, false, func(f *ssa.Function, _ *ssa.BasicBlock, _ int, ins ssa.Instruction) {
			st, ok := ins.(*ssa.Store)
			if !ok {
				return
			}
			fa, ok := st.Addr.(*ssa.FieldAddr)
			if !ok {
				return
			}
			if nt, ok := isIR(fa.X.Type()); ok {
				for _, h := range hostParts(fnShort(f)) {
					add(nt, h, w.pos(st.Pos()))
				}
			}
		})
	}
	for k, fi := range w.Funcs {
		if fi.Decl.Body == nil {
			continue
		}
		ast.Inspect(fi.Decl.Body, func(n ast.Node) bool {
			if cl, ok := n.(*ast.CompositeLit); ok {
				if nt, ok := isIR(fi.Pkg.TypesInfo.TypeOf(cl)); ok {
					for _, h := range hostParts(w.hostKey(k)) {
						add(nt, h, w.pos(cl.Pos()))
					}
				}
			}
			return true
		})
	}
	return out
}

func ruleIRWriters(c *Ctx, r *Report, clause string, types_ ...string) {
	w := c.W
	table := map[string][]string{}
	if b, err := os.ReadFile(filepath.Join(c.VerifDir, "tables", "irwriters.json")); err == nil {
		var t struct {
			W map[string][]string `json:"writers"`
		}
		if json.Unmarshal(b, &t) == nil {
			table = t.W
		}
	}
	got := w.irWriters()
	want := map[string]bool{}
	for _, t := range types_ {
		want[t] = true
	}
	var names []string
	for k := range got {
		if len(want) == 0 || want[k] {
			names = append(names, k)
		}
	}
	sort.Strings(names)
	for _, k := range names {
		allowed := map[string]bool{}
		for _, a := range table[k] {
			allowed[a] = true
		}
		viol := ""
		var sites []string
		var fns []string
		for fn := range got[k] {
			fns = append(fns, fn)
		}
		sort.Strings(fns)
		for _, fn := range fns {
			sites = append(sites, got[k][fn])
			if !allowed[fn] {
				viol = fmt.Sprintf("%s: %s writes %s outside its reviewed builders %v (tables/irwriters.json): the metadata one stage hands to the next is then also changed behind the builder's back (inherited flags, renamed ids, filtered lists), so consumers that read it earlier or from the original disagree with those that read it later", got[k][fn], fn, k, table[k])
			}
		}
		r.add(clause, "whowrites", "ir:"+k, k+" is built and assigned only by "+strings.Join(table[k], ", "), table[k], sites, viol)
	}
	if len(names) < 1 {
		r.undecided(clause, "whowrites", "ir:coverage", "", "no IR struct writers found")
	}
}
