package main

import (
	"fmt"
	"go/types"
	"sort"
	"strings"

	"golang.org/x/tools/go/ssa"
)

// globalWrite is one write to package-level mutable state.
type globalWrite struct {
	Global string // short qualified name
	Fn     string // function performing the write
	Pos    string
	Kind   string // store | mapupdate | method(<name>)
}

// globalWrites enumerates, over all analysed gleece functions, the writes to package-level
// variables: direct stores, stores through their elements/fields, map updates, and calls
// of pointer-receiver methods on the variable (sync.Map.Store, mutex, Once ...).
// Writes performed by package initialisers (init / var initialisers) are excluded.
func (w *World) globalWrites() []globalWrite {
	var out []globalWrite
	rootGlobal := func(v ssa.Value) *ssa.Global {
		for i := 0; i < 8 && v != nil; i++ {
			switch x := v.(type) {
			case *ssa.Global:
				return x
			case *ssa.FieldAddr:
				v = x.X
			case *ssa.IndexAddr:
				v = x.X
			case *ssa.UnOp:
				v = x.X
			case *ssa.Field:
				v = x.X
			default:
				return nil
			}
		}
		return nil
	}
	for _, fn := range w.SSAFuncs {
		name := fnShort(fn)
		if fn.Name() == "init" || strings.HasSuffix(name, ".init") || strings.Contains(fn.Name(), "init#") {
			continue
		}
		for _, b := range fn.Blocks {
			for _, ins := range b.Instrs {
				switch x := ins.(type) {
				case *ssa.Store:
					if g := rootGlobal(x.Addr); g != nil && g.Pkg != nil && isAnalysedPkg(g.Pkg.Pkg.Path()) {
						out = append(out, globalWrite{short(g.Pkg.Pkg.Path()) + "." + g.Name(), name, w.pos(x.Pos()), "store"})
					}
				case *ssa.MapUpdate:
					if g := rootGlobal(x.Map); g != nil && g.Pkg != nil && isAnalysedPkg(g.Pkg.Pkg.Path()) {
						out = append(out, globalWrite{short(g.Pkg.Pkg.Path()) + "." + g.Name(), name, w.pos(x.Pos()), "mapupdate"})
					}
				case ssa.CallInstruction:
					com := x.Common()
					if com.IsInvoke() || len(com.Args) == 0 {
						continue
					}
					callee := com.StaticCallee()
					if callee == nil || callee.Signature.Recv() == nil {
						continue
					}
					if _, isPtr := callee.Signature.Recv().Type().(*types.Pointer); !isPtr {
						continue
					}
					// receiver is the address of a global (or of a part of it)
					if g := rootGlobal(com.Args[0]); g != nil && g.Pkg != nil && isAnalysedPkg(g.Pkg.Pkg.Path()) {
						if _, isG := com.Args[0].(*ssa.Global); isG || strings.HasPrefix(callee.Pkg.Pkg.Path(), "sync") {
							// only sync.* and direct &global receivers: method sets of ordinary values loaded from a
							// global pointer are reads of the global
							if strings.HasPrefix(callee.Pkg.Pkg.Path(), "sync") {
								out = append(out, globalWrite{short(g.Pkg.Pkg.Path()) + "." + g.Name(), name, w.pos(x.Pos()), "method(" + callee.Name() + ")"})
							}
						}
					}
				}
			}
		}
	}
	sort.Slice(out, func(i, j int) bool {
		if out[i].Global != out[j].Global {
			return out[i].Global < out[j].Global
		}
		return posLess(out[i].Pos, out[j].Pos)
	})
	return out
}

// ruleGlobalState: the set of package-level variables written after initialisation is
// exactly the reviewed table (global -> reason). scope filters by package prefix of the
// variable ("" = all).
func ruleGlobalState(c *Ctx, r *Report, clause string, scope []string, table map[string]string, desc string) {
	w := c.W
	writes := w.globalWrites()
	var sites []string
	viol := ""
	seen := map[string]bool{}
	inScope := func(g string) bool {
		if len(scope) == 0 {
			return true
		}
		for _, s := range scope {
			if strings.HasPrefix(g, s) {
				return true
			}
		}
		return false
	}
	for _, gw := range writes {
		if !inScope(gw.Global) {
			continue
		}
		sites = append(sites, gw.Pos)
		seen[gw.Global] = true
		if _, ok := table[gw.Global]; !ok {
			viol = fmt.Sprintf("%s: package-level variable %s is mutated at run time by %s (%s); it is not in the reviewed table of process-wide state (a memo/cache that outlives one analysis can make answers depend on history and on what was analysed before)", gw.Pos, gw.Global, gw.Fn, gw.Kind)
		}
	}
	key := "globals:" + strings.Join(scope, ",")
	o := r.add(clause, "whowrites", key, desc, keysOf(table), sites, viol)
	o.NonTrivial = true
	r.count("global_write_sites", len(sites))
}

func keysOf(m map[string]string) []string {
	out := make([]string, 0, len(m))
	for k, v := range m {
		out = append(out, k+" — "+v)
	}
	sort.Strings(out)
	return out
}
