package main

import (
	"encoding/json"
	"fmt"
	"go/types"
	"os"
	"path/filepath"
	"sort"
	"strings"

	"golang.org/x/tools/go/ssa"
)

// globalWrite is one write to package-level mutable state.
type globalWrite struct {
	Global string // short qualified name
	Fn     string // function performing the write
	Pos    string
	Kind   string // store | mapupdate | method(<name>)
}

// globalWrites enumerates, over all analysed gleece functions, the writes to package-level
// variables: direct stores, stores through their elements/fields, map updates, and calls
// of pointer-receiver methods on the variable (sync.Map.Store, mutex, Once ...).
// Writes performed by package initialisers (init / var initialisers) are excluded.
func (w *World) globalWrites() []globalWrite {
	var out []globalWrite
	rootGlobal := func(v ssa.Value) *ssa.Global {
		for i := 0; i < 8 && v != nil; i++ {
			switch x := v.(type) {
			case *ssa.Global:
				return x
			case *ssa.FieldAddr:
				v = x.X
			case *ssa.IndexAddr:
				v = x.X
			case *ssa.UnOp:
				v = x.X
			case *ssa.Field:
				v = x.X
			default:
				return nil
			}
		}
		return nil
	}
	for _, fn := range w.SSAFuncs {
		name := fnShort(fn)
		if fn.Name() == "init" || strings.HasSuffix(name, ".init") || strings.Contains(fn.Name(), "init#") {
			continue
		}
		for _, b := range fn.Blocks {
			for _, ins := range b.Instrs {
				switch x := ins.(type) {
				case *ssa.Store:
					if g := rootGlobal(x.Addr); g != nil && g.Pkg != nil && isAnalysedPkg(g.Pkg.Pkg.Path()) {
						out = append(out, globalWrite{short(g.Pkg.Pkg.Path()) + "." + g.Name(), name, w.pos(x.Pos()), "store"})
					}
				case *ssa.MapUpdate:
					if g := rootGlobal(x.Map); g != nil && g.Pkg != nil && isAnalysedPkg(g.Pkg.Pkg.Path()) {
						out = append(out, globalWrite{short(g.Pkg.Pkg.Path()) + "." + g.Name(), name, w.pos(x.Pos()), "mapupdate"})
					}
				case ssa.CallInstruction:
					com := x.Common()
					if com.IsInvoke() || len(com.Args) == 0 {
						continue
					}
					callee := com.StaticCallee()
					if callee == nil || callee.Signature.Recv() == nil {
						continue
					}
					if _, isPtr := callee.Signature.Recv().Type().(*types.Pointer); !isPtr {
						continue
					}
					// receiver is the address of a global (or of a part of it)
					if g := rootGlobal(com.Args[0]); g != nil && g.Pkg != nil && isAnalysedPkg(g.Pkg.Pkg.Path()) {
						if _, isG := com.Args[0].(*ssa.Global); isG || strings.HasPrefix(callee.Pkg.Pkg.Path(), "sync") {
							// only sync.* and direct &global receivers: method sets of ordinary values loaded from a
							// global pointer are reads of the global
							if strings.HasPrefix(callee.Pkg.Pkg.Path(), "sync") {
								out = append(out, globalWrite{short(g.Pkg.Pkg.Path()) + "." + g.Name(), name, w.pos(x.Pos()), "method(" + callee.Name() + ")"})
							}
						}
					}
				}
			}
		}
	}
	sort.Slice(out, func(i, j int) bool {
		if out[i].Global != out[j].Global {
			return out[i].Global < out[j].Global
		}
		return posLess(out[i].Pos, out[j].Pos)
	})
	return out
}

// ruleGlobalState: the set of package-level variables written after initialisation is
// exactly the reviewed table (global -> reason). scope filters by package prefix of the
// variable ("" = all).
func ruleGlobalState(c *Ctx, r *Report, clause string, scope []string, table map[string]string, desc string) {
	w := c.W
	writes := w.globalWrites()
	var sites []string
	viol := ""
	seen := map[string]bool{}
	inScope := func(g string) bool {
		if len(scope) == 0 {
			return true
		}
		for _, s := range scope {
			if strings.HasPrefix(g, s) {
				return true
			}
		}
		return false
	}
	for _, gw := range writes {
		if !inScope(gw.Global) {
			continue
		}
		sites = append(sites, gw.Pos)
		seen[gw.Global] = true
		if _, ok := table[gw.Global]; !ok {
			viol = fmt.Sprintf("%s: package-level variable %s is mutated at run time by %s (%s); it is not in the reviewed table of process-wide state (a memo/cache that outlives one analysis can make answers depend on history and on what was analysed before)", gw.Pos, gw.Global, gw.Fn, gw.Kind)
		}
	}
	key := "globals:" + strings.Join(scope, ",")
	o := r.add(clause, "whowrites", key, desc, keysOf(table), sites, viol)
	o.NonTrivial = true
	r.count("global_write_sites", len(sites))
}

func keysOf(m map[string]string) []string {
	out := make([]string, 0, len(m))
	for k, v := range m {
		out = append(out, k+" — "+v)
	}
	sort.Strings(out)
	return out
}

// processWideState: every package-level variable of gleece that is written after
// initialisation, with what it is and why it cannot carry an answer from one generation (or
// one project) to the next.
var processWideState = map[string]string{
	"cmd.cliArgs":                                 "command-line flags, bound by cobra; Reset() clears them between in-process invocations (tests)",
	"cmd.dumpFormat":                              "flag of `dump`, reset by resetDumpCommand",
	"cmd.dumpOutput":                              "flag of `dump`, reset by resetDumpCommand",
	"cmd.gleeceConfigPath":                        "flag of `dump`, reset by resetDumpCommand",
	"generator/routes.helpersRegistered":          "raymond's helper registry is process-wide and panics on a second registration: a once-flag for registering the same fixed helper set",
	"generator/routes.partialsRegistered":         "as helpersRegistered, for partials; set after the partials of the run's engine were (re-)registered (C14.b guards)",
	"generator/swagen/swagen30.schemaRefMap":      "pending $ref fix-ups of the document being built; reset at the start of every GenerateSpec (C13.c/C08 rules check the reset)",
	"infrastructure/logger.verbosityLevel":        "log verbosity",
	"infrastructure/validation.validatorInstance": "lazily created go-playground validator with gleece's fixed custom rules",
}

// checkProcessWideState: no other package-level variable is written at run time - in
// particular no memo, cache, registry or once-gate that would make a generation depend on
// what the process did before.
func checkProcessWideState(c *Ctx, r *Report, clause string) {
	ruleGlobalState(c, r, clause, nil, processWideState,
		"the package-level variables written at run time are the reviewed ones; nothing else (memo, cache, seen-set, once-gate) carries over from one generation or project to the next in the same process")
}

// ---------------------------------------------------------------------------
// Container state in struct fields
//
// Memos, caches, seen-sets and registries live in map / sync / channel typed fields of the
// long-lived objects (graph, pipeline, caches, facades, visitors, tries). The set of such
// fields is reviewed (tables/statefields.json): a new one is new state that can carry an answer
// from one call, pass or project to the next.

// mutatedFields: struct fields that are written after construction somewhere in gleece - an
// insert/delete/clear on the map held in them, a method call on the sync object in them, or an
// assignment through something that is not a struct being built in place.
func (w *World) mutatedFields() map[*types.Var]bool {
	out := map[*types.Var]bool{}
	markMap := func(m ssa.Value) {
		for f := range sliceOf(m).Fields {
			if _, isMap := f.Type().Underlying().(*types.Map); isMap {
				out[f] = true
			}
		}
	}
	for _, fn := range w.SSAFuncs {
		for _, b := range fn.Blocks {
			for _, ins := range b.Instrs {
				switch x := ins.(type) {
				case *ssa.MapUpdate:
					markMap(x.Map)
				case *ssa.Store:
					if fa, ok := x.Addr.(*ssa.FieldAddr); ok {
						base := fa.X
						for {
							if f2, ok := base.(*ssa.FieldAddr); ok {
								base = f2.X
								continue
							}
							break
						}
						if !w.freshBase(base, 0) {
							if v := structFieldVar(fa.X.Type(), fa.Field); v != nil {
								out[v] = true
							}
						}
					}
				case ssa.CallInstruction:
					nm := calleeName(x)
					if (nm == "builtin.delete" || nm == "builtin.clear") && len(x.Common().Args) > 0 {
						markMap(x.Common().Args[0])
					}
					if strings.HasPrefix(nm, "(*sync.") || strings.HasPrefix(nm, "(*sync/atomic.") {
						if len(x.Common().Args) > 0 {
							if fa, ok := x.Common().Args[0].(*ssa.FieldAddr); ok {
								if v := structFieldVar(fa.X.Type(), fa.Field); v != nil {
									out[v] = true
								}
							}
						}
					}
				}
			}
		}
	}
	return out
}

// freshBase: the struct written through base is still being built by the writer: a local of
// the function, or - in a helper split off a reviewed function - a pointer parameter to which
// every call hands the address of such a local.
func (w *World) freshBase(base ssa.Value, depth int) bool {
	switch b := base.(type) {
	case *ssa.Alloc:
		return true
	case *ssa.Parameter:
		fn := b.Parent()
		if fn == nil || depth > 3 || !w.base.loaded || !w.isNewFn(fn) {
			return false
		}
		idx := -1
		for i, p := range fn.Params {
			if p == b {
				idx = i
			}
		}
		sites := w.callSitesOfNew(fn)
		if idx < 0 || len(sites) == 0 || len(w.newRefs[namedOf(fn)]) > 0 {
			return false
		}
		for _, cs := range sites {
			args := cs.Common().Args
			if idx >= len(args) || !w.freshBase(args[idx], depth+1) {
				return false
			}
		}
		return true
	}
	return false
}

func (w *World) containerFields() map[string]string {
	out := map[string]string{}
	mutated := w.mutatedFields()
	for _, p := range w.Pkgs {
		if !isAnalysedPkg(p.PkgPath) {
			continue
		}
		scope := p.Types.Scope()
		for _, nm := range scope.Names() {
			tn, ok := scope.Lookup(nm).(*types.TypeName)
			if !ok {
				continue
			}
			st, ok := tn.Type().Underlying().(*types.Struct)
			if !ok {
				continue
			}
			if w.isNewTypeName(short(p.PkgPath) + "." + tn.Name()) {
				continue // a new carrier type: state lives where its instances are kept (a field of a reviewed type, a package variable), and those are inventoried
			}
			for i := 0; i < st.NumFields(); i++ {
				f := st.Field(i)
				kind := ""
				switch u := f.Type().Underlying().(type) {
				case *types.Map:
					kind = "map"
				case *types.Chan:
					kind = "chan"
				case *types.Struct, *types.Pointer:
					ts := types.TypeString(f.Type(), nil)
					if strings.HasPrefix(strings.TrimPrefix(ts, "*"), "sync.") || strings.HasPrefix(strings.TrimPrefix(ts, "*"), "sync/atomic.") {
						kind = "sync"
					}
					_ = u
				}
				_ = kind
				if !mutated[f] {
					continue // (a field that is only set while its struct is built is data, not state)
				}
				out[short(p.PkgPath)+"."+tn.Name()+"."+f.Name()] = w.pos(f.Pos())
			}
		}
	}
	return out
}

func checkContainerFields(c *Ctx, r *Report, clause string) {
	w := c.W
	table := map[string]string{}
	if b, err := os.ReadFile(filepath.Join(c.VerifDir, "tables", "statefields.json")); err == nil {
		var doc struct {
			Fields map[string]string `json:"fields"`
		}
		if json.Unmarshal(b, &doc) == nil {
			table = doc.Fields
		}
	}
	got := w.containerFields()
	ks := make([]string, 0, len(got))
	for k := range got {
		ks = append(ks, k)
	}
	sort.Strings(ks)
	viol := ""
	var sites []string
	for _, k := range ks {
		sites = append(sites, got[k])
		if _, ok := table[k]; !ok {
			viol = fmt.Sprintf("%s: %s is written after its struct was constructed and is not in tables/statefields.json: new state that outlives a call - a memo, cache, seen-set, once-gate, a collaborator swapped between passes - can hand an answer computed for one input, pass or project to the next one", got[k], k)
		}
	}
	if len(got) < 10 {
		viol = fmt.Sprintf("only %d container fields found (floor 10): the inventory saw nothing", len(got))
	}
	o := r.add(clause, "whowrites", "container-state-fields", fmt.Sprintf("the %d struct fields of gleece that are written after construction are the reviewed ones", len(got)), []string{"tables/statefields.json"}, sites, viol)
	o.NonTrivial = true
}

func (w *World) dumpContainerFields() []byte {
	got := w.containerFields()
	out := map[string]string{}
	for k := range got {
		out[k] = "reviewed"
	}
	b, _ := json.MarshalIndent(map[string]any{"_comment": "map / sync / channel typed struct fields of gleece (container state), reviewed; see checker/globals.go", "fields": out}, "", " ")
	return append(b, '\n')
}

// checkNoDroppedParameters: a named parameter that its function never uses is an input that was
// handed over and dropped (a configuration that no longer reaches the validators it was passed
// for, a file that is no longer consulted). On the reviewed tree three parameters are unused;
// any other is reported. (Blank `_` parameters and closures - callbacks with a fixed shape -
// are exempt.)
var reviewedUnusedParams = map[string]string{
	"(*core/visitors.EnumVisitor).VisitEnumType file": "kept for symmetry with the other Visit* methods; the enum's file is taken from the package lookup",
	"cmd.ExecuteWithArgs redirectLogs":                 "test hook: the flag is read by the tests' own logger setup",
	"gast.ResolveNamedType file":                       "the lookup is by package and name; the file is not needed",
}

func checkNoDroppedParameters(c *Ctx, r *Report, clause string) {
	w := c.W
	viol := ""
	var sites []string
	n := 0
	for _, fn := range w.SSAFuncs {
		if fn.Blocks == nil || fn.Parent() != nil || fn.Synthetic != "" || fn.Pkg == nil || !isAnalysedPkg(fn.Pkg.Pkg.Path()) {
			continue
		}
		n++
		for i, p := range fn.Params {
			if fn.Signature.Recv() != nil && i == 0 {
				continue
			}
			if p.Name() == "_" || p.Name() == "" {
				continue
			}
			if p.Referrers() != nil && len(*p.Referrers()) > 0 {
				continue
			}
			key := fnShort(fn) + " " + p.Name()
			if _, ok := reviewedUnusedParams[key]; ok {
				continue
			}
			// a renamed function keeps its reviewed exemption by parameter name
			known := false
			for k := range reviewedUnusedParams {
				if strings.HasSuffix(k, " "+p.Name()) && strings.HasPrefix(k, fnShort(fn)+" ") {
					known = true
				}
			}
			if known {
				continue
			}
			sites = append(sites, w.pos(p.Pos()))
			viol = fmt.Sprintf("%s: parameter %s of %s is never used: what its callers hand over (%s) no longer reaches the code it was passed for", w.pos(p.Pos()), p.Name(), fnShort(fn), short(types.TypeString(p.Type(), nil)))
		}
	}
	if n < 300 {
		viol = fmt.Sprintf("only %d functions inspected (floor 300)", n)
	}
	if len(sites) == 0 {
		sites = []string{"gleece:0"}
	}
	r.add(clause, "fieldflow", "no-dropped-parameters", "every named parameter of every gleece function is used (reviewed exceptions: 3)", nil, sites, viol)
}
