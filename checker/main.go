package main

import (
	"flag"
	"fmt"
	"os"
	"path/filepath"
	"runtime/debug"
	"sort"
	"strconv"
	"strings"
	"time"
)

// Ctx is handed to every property checker.
type Ctx struct {
	W        *World
	T        *TplWorld
	Tier     string
	VerifDir string
}

type propFn func(c *Ctx, r *Report)

var props = map[string]propFn{}
var propExplain = map[string]string{}

func register(id string, explain string, fn propFn) {
	props[id] = fn
	propExplain[id] = explain
}

func main() {
	repo := flag.String("repo", "/repo", "path to the gleece working tree")
	verif := flag.String("verif", "/verif", "path to /verif (evidence, known findings, tables)")
	tier := flag.String("tier", "quick", "quick|thorough")
	prop := flag.String("prop", "", "property id (C01..C20), comma list, or 'all'")
	canaryOnly := flag.Bool("canary", false, "run only the canaries")
	dumpFns := flag.Bool("dump-functions", false, "print the function inventory of -repo (tables/functions.json) and exit")
	dumpShapes := flag.Bool("dump-shapes", false, "print the result shapes per function of -repo (tables/resultshapes.json) and exit")
	dumpTS := flag.Bool("dump-typeswitches", false, "print the type-switch arms per function (tables/typeswitches.json) and exit")
	dumpMemo := flag.Bool("dump-memokeys", false, "print the memo keys per (function, map field) of -repo (tables/memokeys.json) and exit")
	dumpCond := flag.Bool("dump-condatoms", false, "print the decision inputs per function of -repo (tables/condatoms.json) and exit")
	flag.Parse()
	if *dumpShapes {
		w, err := loadWorld(*repo)
		if err != nil {
			fmt.Fprintln(os.Stderr, err)
			os.Exit(2)
		}
		os.Stdout.Write(w.dumpResultShapes())
		return
	}
	if *dumpTS {
		w, err := loadWorld(*repo)
		if err != nil {
			fmt.Fprintln(os.Stderr, err)
			os.Exit(2)
		}
		os.Stdout.Write(w.dumpTypeSwitches())
		return
	}
	if *dumpMemo {
		w, err := loadWorld(*repo)
		if err != nil {
			fmt.Fprintln(os.Stderr, err)
			os.Exit(2)
		}
		os.Stdout.Write(w.dumpMemoKeys())
		return
	}
	if *dumpCond {
		w, err := loadWorld(*repo)
		if err != nil {
			fmt.Fprintln(os.Stderr, err)
			os.Exit(2)
		}
		os.Stdout.Write(w.dumpCondAtoms())
		return
	}
	if *dumpFns {
		w, err := loadWorld(*repo)
		if err != nil {
			fmt.Fprintln(os.Stderr, err)
			os.Exit(2)
		}
		os.Stdout.Write(w.dumpFunctions())
		return
	}

	if t := os.Getenv("VERIF_TIER"); t == "quick" || t == "thorough" {
		*tier = t
	}
	seed := 0
	if s := os.Getenv("VERIF_SEED"); s != "" {
		if n, err := strconv.Atoi(s); err == nil {
			seed = n
		}
	}
	started := time.Now()

	ids := []string{}
	if *prop == "all" {
		for id := range props {
			ids = append(ids, id)
		}
		sort.Strings(ids)
	} else {
		for _, id := range strings.Split(*prop, ",") {
			id = strings.TrimSpace(id)
			if id == "" {
				continue
			}
			if props[id] == nil {
				fmt.Fprintf(os.Stderr, "unknown property %q\n", id)
				os.Exit(2)
			}
			ids = append(ids, id)
		}
	}
	if len(ids) == 0 && !*canaryOnly {
		fmt.Fprintln(os.Stderr, "no property given")
		os.Exit(2)
	}

	// Canaries first: every rule kind must fire on its seeded bad example and stay
	// silent on the good one, otherwise nothing this run says can be trusted.
	canaryDir := filepath.Join(*verif, "checker", "testdata", "canary")
	if msg := runCanaries(canaryDir); msg != "" {
		for _, id := range ids {
			fmt.Printf("rule disarmed: %s\n", msg)
			fmt.Printf("VIOLATION property=%s replay=%s\n", id, filepath.Join(*verif, "replay", "canary-failure.txt"))
		}
		os.MkdirAll(filepath.Join(*verif, "replay"), 0o755)
		os.WriteFile(filepath.Join(*verif, "replay", "canary-failure.txt"), []byte(msg), 0o644)
		os.Exit(1)
	}
	os.Remove(filepath.Join(*verif, "replay", "canary-failure.txt"))
	if *canaryOnly {
		fmt.Println("canaries ok")
		return
	}

	tierThorough = *tier == "thorough"
	w, err := loadWorld(*repo)
	if err != nil {
		fail(ids, *verif, "load failure: "+err.Error())
	}
	if err := w.loadBaseline(*verif); err != nil {
		fail(ids, *verif, "tables/functions.json unreadable: "+err.Error())
	}
	// struct fields that were only renamed are analysed under their reviewed names (checker/fieldrename.go)
	if ov := w.fieldRenameOverlay(); len(ov) > 0 {
		nren := w.stats["struct_fields_renamed_since_review"]
		if w2, err2 := loadWorldOverlay(*repo, 30, ov); err2 == nil {
			if err3 := w2.loadBaseline(*verif); err3 == nil {
				w2.stats["struct_fields_renamed_since_review"] = nren
				w = w2
			}
		}
	}
	w.detectRenames()
	nNew := 0
	for k := range w.Funcs {
		if w.isNewName(k) {
			nNew++
		}
	}
	w.stats["functions_new_since_review_inlined"] = nNew
	tw, err := loadTemplates(w)
	if err != nil {
		fail(ids, *verif, "template load failure: "+err.Error())
	}
	known, err := loadKnown(filepath.Join(*verif, "known_findings.json"))
	if err != nil {
		fail(ids, *verif, "known_findings.json unreadable: "+err.Error())
	}

	exit := 0
	for _, id := range ids {
		pStart := time.Now()
		if len(ids) == 1 {
			pStart = started
		}
		r := newReport(id)
		c := &Ctx{W: w, T: tw, Tier: *tier, VerifDir: *verif}
		func() {
			defer func() {
				if rec := recover(); rec != nil {
					r.undecided(id, "internal", "panic", "checker must not panic", fmt.Sprintf("panic in rule: %v\n%s", rec, debug.Stack()))
				}
			}()
			props[id](c, r)
		}()
		// anchor liveness: an obligation about a function nobody can reach holds vacuously
		nLive, nAnch := 0, 0
		for _, o := range r.Obls {
			dead := w.unreachableAnchors(o.Anchors)
			for _, a := range o.Anchors {
				if w.Funcs[a] != nil {
					nAnch++
				}
			}
			nLive += 0
			if len(dead) > 0 && o.Status == Discharged && livenessRules[o.Rule] {
				o.Status = Violated
				o.Message = fmt.Sprintf("the rule holds on %v, but no entry point (CLI, pipeline API, generators) can reach %s any more (static calls, interface dispatch by class hierarchy, function values): the mechanism this obligation is about is no longer part of gleece's behaviour", o.Anchors, strings.Join(dead, ", "))
			}
		}
		thoroughLiveness(w, r)
		r.count("anchor_functions_checked_reachable", nAnch)
		r.count("functions_reachable_from_entry_points", len(w.reachable()))
		stats := map[string]int{}
		for k, v := range w.stats {
			stats[k] = v
		}
		for k, v := range tw.stats {
			stats[k] = v
		}
		code := r.finish(*verif, *tier, seed, pStart, known, stats, propExplain[id])
		if code > exit {
			exit = code
		}
	}
	os.Exit(exit)
}

// livenessRules: rule kinds that assert a mechanism inside their anchor functions (as
// opposed to inventories of sites, for which dead code is harmless).
var livenessRules = map[string]bool{"mustcall": true, "guardedby": true, "errprop": true, "each-iteration": true, "fieldflow": true, "co-mutation": true, "dedupe": true, "api-choice": true}

func fail(ids []string, verif, msg string) {
	os.MkdirAll(filepath.Join(verif, "replay"), 0o755)
	p := filepath.Join(verif, "replay", "load-failure.txt")
	os.WriteFile(p, []byte(msg), 0o644)
	fmt.Println(msg)
	for _, id := range ids {
		fmt.Printf("VIOLATION property=%s replay=%s\n", id, p)
	}
	os.Exit(1)
}
