package main

import (
	"fmt"
	"go/types"
	"sort"

	"golang.org/x/tools/go/ssa"
)

func returnsError(fn *ssa.Function) int {
	res := fn.Signature.Results()
	for i := res.Len() - 1; i >= 0; i-- {
		if types.Identical(res.At(i).Type(), types.Universe.Lookup("error").Type()) {
			return i
		}
	}
	return -1
}

// errorResultOf: the value carrying the error result of call c (nil if none).
func errorResultOf(c ssa.CallInstruction) ssa.Value {
	v := c.Value()
	if v == nil {
		return nil
	}
	sig := c.Common().Signature()
	n := sig.Results().Len()
	errT := types.Universe.Lookup("error").Type()
	if n == 1 {
		if types.Identical(sig.Results().At(0).Type(), errT) {
			return v
		}
		return nil
	}
	for _, ref := range *v.Referrers() {
		if ex, ok := ref.(*ssa.Extract); ok && types.Identical(sig.Results().At(ex.Index).Type(), errT) {
			return ex
		}
	}
	return nil
}

// errChain climbs the static call graph from callee start: at every call site the error
// result must either be tested with all failure paths leaving through a failure exit, or
// be handed on as the caller's own error result. Callers that return an error are
// climbed in turn (up to depth); callers without an error result are reported as sinks.
func (w *World) errChain(start string, depth int) (sites, viols, sinks, filters []string) {
	type item struct {
		fn string
		d  int
	}
	seen := map[string]bool{start: true}
	work := []item{{start, 0}}
	for len(work) > 0 {
		it := work[0]
		work = work[1:]
		calls := w.callersOf(nameIs(it.fn))
		sort.Slice(calls, func(i, j int) bool { return calls[i].Pos() < calls[j].Pos() })
		for _, c := range calls {
			caller := c.Parent()
			ck := fnShort(caller)
			site := fmt.Sprintf("%s: %s -> %s", w.pos(c.Pos()), ck, it.fn)
			sites = append(sites, site)
			ev := errorResultOf(c)
			if ev == nil || len(*ev.Referrers()) == 0 {
				viols = append(viols, fmt.Sprintf("%s: the error result of %s is discarded in %s", w.pos(c.Pos()), it.fn, ck))
				continue
			}
			// (b) handed on as the caller's error result on every use that is a return
			handed := false
			tested := false
			for _, ref := range *ev.Referrers() {
				switch x := ref.(type) {
				case *ssa.Return:
					handed = true
				case *ssa.BinOp:
					tested = true
				case *ssa.Phi, *ssa.Store, *ssa.MakeClosure:
					handed = true // flows on; errPropagates decides below when tested
					_ = x
				case ssa.CallInstruction:
					handed = true // wrapped (fmt.Errorf("%w", err), frozenError(err), ...)
				}
			}
			if tested {
				fl, v := w.errPropagatesAt(caller, c, -1, it.fn)
				filters = append(filters, fl...)
				if v != "" {
					viols = append(viols, v)
					continue
				}
			} else if !handed {
				viols = append(viols, fmt.Sprintf("%s: the error result of %s is neither tested nor handed on in %s", w.pos(c.Pos()), it.fn, ck))
				continue
			}
			named := enclosingNamed(caller)
			if returnsError(named) < 0 {
				sinks = append(sinks, fmt.Sprintf("%s: %s has no error result", w.pos(c.Pos()), ck))
				continue
			}
			if !seen[ck] && it.d+1 <= bound(depth) {
				seen[ck] = true
				work = append(work, item{ck, it.d + 1})
			}
		}
	}
	return
}

// errRecorders: functions through which a visitor without an error result reports a failure.
var errRecorders = map[string]bool{
	"(*core/visitors.BaseVisitor).setLastError": true,
}

// errPropagatesAt: after call c failed, every way onward leaves fn through a failure exit
// (or, for functions without an error result, through a recorder call). Two idioms are
// understood beyond exitsOf's block-level facts: returning the failed error value itself
// (possibly through an error-preserving wrapper) from a block that is also reached on
// other paths, and a type-assertion dispatch on the error (`if _, ok := err.(T); ok`),
// whose true edge is not a swallow of *this* error kind and is reported as a filter site.
func (w *World) errPropagatesAt(fn *ssa.Function, c ssa.CallInstruction, resultIdx int, what string) ([]string, string) {
	exitKind := map[*ssa.BasicBlock][]fnExit{}
	for _, ex := range exitsOf(fn) {
		exitKind[ex.Block] = append(exitKind[ex.Block], ex)
	}
	errVal := errorResultOf(c)
	ei := errResultIndex(fn)
	var filters []string
	var derived func(v ssa.Value, d int) bool
	derived = func(v ssa.Value, d int) bool {
		if v == nil || d > 4 {
			return false
		}
		if v == errVal {
			return true
		}
		switch x := v.(type) {
		case *ssa.Call:
			switch calleeName(x) {
			case "errors.New", "fmt.Errorf", "errors.Join":
				return true
			}
			if callee := x.Call.StaticCallee(); callee != nil && len(callee.Blocks) > 0 {
				for _, a := range x.Call.Args {
					if derived(a, d+1) {
						// the wrapper must hand its parameter on
						return wrapperReturnsParamOrFresh(callee)
					}
				}
			}
		case *ssa.MakeInterface:
			return true
		}
		return false
	}
	oks := okEdgesOfCall(c, resultIdx)
	if len(oks) == 0 {
		return nil, fmt.Sprintf("%s: the result of %s is never tested", w.pos(c.Pos()), what)
	}
	for _, ok := range oks {
		var bad *ssa.BasicBlock
		for _, s := range ok.from.Succs {
			if s != ok.to {
				bad = s
			}
		}
		if bad == nil {
			continue
		}
		seen := map[*ssa.BasicBlock]bool{bad: true}
		stack := []*ssa.BasicBlock{bad}
		for len(stack) > 0 {
			b := stack[len(stack)-1]
			stack = stack[:len(stack)-1]
			// recorder call in this block ends the obligation on this path
			recorded := false
			for _, ins := range b.Instrs {
				if cl, ok := ins.(ssa.CallInstruction); ok && errRecorders[calleeName(cl)] {
					recorded = true
				}
			}
			if recorded {
				continue
			}
			for _, ex := range exitKind[b] {
				if ex.Kind == exitSuccess || ex.Kind == exitUnknown {
					if ex.Pred != nil && !seen[ex.Pred] {
						continue
					}
					if ei >= 0 && ex.Ret != nil && derived(unspill(ex.Ret.Results[ei], b), 0) {
						continue
					}
					return filters, fmt.Sprintf("%s: after %s failed (%s) %s can still return without an error", w.pos(retPos(ex)), what, w.pos(c.Pos()), fnShort(fn))
				}
			}
			skipTrue := false
			if len(b.Instrs) > 0 {
				if ifi, ok := b.Instrs[len(b.Instrs)-1].(*ssa.If); ok {
					if ex, ok := ifi.Cond.(*ssa.Extract); ok && ex.Index == 1 {
						if ta, ok := ex.Tuple.(*ssa.TypeAssert); ok && ta.CommaOk && ta.X == errVal {
							skipTrue = true
							filters = append(filters, fmt.Sprintf("%s: errors of type %s are dispatched, not propagated", w.pos(ta.Pos()), ta.AssertedType.String()))
						}
					}
				}
			}
			for i, s := range b.Succs {
				if skipTrue && i == 0 {
					continue
				}
				if !seen[s] {
					seen[s] = true
					stack = append(stack, s)
				}
			}
		}
	}
	return filters, ""
}

func wrapperReturnsParamOrFresh(callee *ssa.Function) bool {
	ei := errResultIndex(callee)
	if ei < 0 {
		return false
	}
	n := 0
	for _, blk := range callee.Blocks {
		if len(blk.Instrs) == 0 {
			continue
		}
		ret, ok := blk.Instrs[len(blk.Instrs)-1].(*ssa.Return)
		if !ok || len(ret.Results) <= ei {
			continue
		}
		n++
		for _, lv := range phiLeaves(unspill(ret.Results[ei], blk)) {
			switch x := lv.(type) {
			case *ssa.Parameter, *ssa.MakeInterface:
			case *ssa.Call:
				switch calleeName(x) {
				case "errors.New", "fmt.Errorf", "errors.Join":
				default:
					return false
				}
			default:
				return false
			}
		}
	}
	return n > 0
}
