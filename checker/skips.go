package main

import (
	"encoding/json"
	"fmt"
	"go/ast"
	"go/token"
	"go/types"
	"os"
	"path/filepath"
	"sort"
	"strings"
)

type skipSite struct {
	Fn    string
	Key   string
	Cond  string
	Over  string
	Pos   token.Pos
	Atoms *Atoms
}

// skipSites inventories, in the functions of the given package prefixes, every *pure skip*
// inside a range loop over a slice/map of gleece or go/ast element type: an `if` whose
// body does nothing but `continue` (and log). Key: function + loop operand + condition atoms.
func (w *World) skipSites(pkgPrefixes ...string) []skipSite {
	var out []skipSite
	count := map[string]int{}
	var keysFn []string
	for k := range w.Funcs {
		keysFn = append(keysFn, k)
	}
	sort.Strings(keysFn)
	for _, k := range keysFn {
		fi := w.Funcs[k]
		rel := short(fi.Pkg.PkgPath)
		ok := false
		for _, p := range pkgPrefixes {
			if rel == p || strings.HasPrefix(rel, p+"/") {
				ok = true
			}
		}
		if !ok || fi.Decl.Body == nil {
			continue
		}
		info := fi.Pkg.TypesInfo
		var walk func(n ast.Node, loop *ast.RangeStmt)
		walk = func(n ast.Node, loop *ast.RangeStmt) {
			ast.Inspect(n, func(x ast.Node) bool {
				switch s := x.(type) {
				case *ast.FuncLit:
					if x != n {
						walk(s.Body, nil)
						return false
					}
				case *ast.RangeStmt:
					if x != n {
						if interestingElem(info.TypeOf(s.X)) {
							walk(s.Body, s)
						} else {
							walk(s.Body, loop)
						}
						return false
					}
				case *ast.ForStmt:
					if x != n {
						walk(s.Body, nil)
						return false
					}
				case *ast.IfStmt:
					if loop == nil {
						return true
					}
					sk := contSkipOf(info, s.Body, s.Cond)
					if sk == nil {
						return true
					}
					deciding := sk.Deciding
					if vacuousSkip(info, loop, s, deciding) {
						return true
					}
					over := exprString(loop.X)
					if t := info.TypeOf(loop.X); t != nil {
						over = short(types.TypeString(t, nil))
					}
					// a skip inside a new function belongs to the reviewed function(s) it is reached
					// from, and is read with the arguments each of them passes
					for _, host := range hostParts(w.hostKey(fi.Key)) {
						var a *Atoms
						w.withHost(host, func() { a = w.exprAtomsDeep(fi, deciding) })
						// a conjunct that is the constant false for this host (a flag of the options
						// struct this caller builds): the skip is never taken on its behalf
						dead := false
						var conj func(e ast.Expr)
						conj = func(e ast.Expr) {
							e = ast.Unparen(e)
							if b, ok := e.(*ast.BinaryExpr); ok && b.Op == token.LAND {
								conj(b.X)
								conj(b.Y)
								return
							}
							var ca *Atoms
							w.withHost(host, func() { ca = w.exprAtoms(fi, e) })
							if len(ca.Fields) == 0 && len(ca.Calls) == 0 && len(ca.Ops) == 0 && ca.Lits["false"] && !ca.Lits["true"] && len(ca.Lits) == 1 {
								onlyConst := true
								for id := range ca.Idents {
									if !strings.HasPrefix(id, "const:") {
										onlyConst = false
									}
								}
								if onlyConst {
									dead = true
								}
							}
						}
						conj(deciding)
						if dead {
							continue
						}
						cond := skipCondKey(a)
						base := fmt.Sprintf("%s:range(%s):skip[%s]", host, over, cond)
						count[base]++
						key := base
						if count[base] > 1 {
							key = fmt.Sprintf("%s#%d", base, count[base])
						}
						out = append(out, skipSite{Fn: host, Key: key, Cond: cond, Over: over, Pos: s.Pos(), Atoms: a})
					}
				}
				return true
			})
		}
		walk(fi.Decl.Body, nil)
	}
	return out
}

// A skip is a `continue` that ends an iteration with nothing done since the last decision:
// the statements before it in its block are log calls, or conditionals whose untaken side does
// nothing (`if !isErr { append(...) }; continue` skips under isErr exactly like
// `if isErr { continue }`). Deciding is the condition of that last conditional, or else the
// innermost enclosing `if`.
type contSkip struct {
	Br       *ast.BranchStmt
	Deciding ast.Expr   // the condition that decides this skip
	Added    []ast.Expr // conditions of preceding conditionals passed on their do-nothing side (negated when the then-side acts)
}

// passThrough: statement st can be passed without doing anything; cond is the condition under
// which that happens (nil: always).
func passThrough(info *types.Info, st ast.Stmt) (ok bool, cond ast.Expr) {
	switch x := st.(type) {
	case *ast.ExprStmt:
		cl, isCall := x.X.(*ast.CallExpr)
		if !isCall {
			return false, nil
		}
		nm := calleeOfCall(info, cl)
		return strings.HasPrefix(nm, "infrastructure/logger.") || strings.HasPrefix(nm, "log."), nil
	case *ast.IfStmt:
		if x.Init != nil {
			return false, nil
		}
		thenIdle := idleBlock(info, x.Body)
		elseIdle := x.Else == nil
		if eb, isBlock := x.Else.(*ast.BlockStmt); isBlock {
			elseIdle = idleBlock(info, eb)
		}
		switch {
		case thenIdle && elseIdle:
			return true, nil
		case elseIdle:
			return true, &ast.UnaryExpr{Op: token.NOT, X: x.Cond, OpPos: x.Cond.Pos()}
		case thenIdle:
			return true, x.Cond
		}
	}
	return false, nil
}

// idleBlock: every statement of b can be passed doing nothing, unconditionally, and b does
// not leave the iteration.
func idleBlock(info *types.Info, b *ast.BlockStmt) bool {
	for _, st := range b.List {
		if ok, cond := passThrough(info, st); !ok || cond != nil {
			return false
		}
	}
	return true
}

// contSkipOf: br is a `continue` that is the last statement of block b.
func contSkipOf(info *types.Info, b *ast.BlockStmt, enclosing ast.Expr) *contSkip {
	if len(b.List) == 0 {
		return nil
	}
	br, ok := b.List[len(b.List)-1].(*ast.BranchStmt)
	if !ok || br.Tok != token.CONTINUE {
		return nil
	}
	cs := &contSkip{Br: br, Deciding: enclosing}
	for i := len(b.List) - 2; i >= 0; i-- {
		ok, cond := passThrough(info, b.List[i])
		if !ok {
			return nil
		}
		if cond != nil {
			cs.Added = append(cs.Added, cond)
		}
	}
	if len(cs.Added) > 0 {
		cs.Deciding = cs.Added[0] // the conditional closest to the `continue`
	}
	if cs.Deciding == nil {
		return nil
	}
	return cs
}

func pureSkipBlock(info *types.Info, b *ast.BlockStmt) bool {
	if len(b.List) == 0 {
		return false
	}
	br, ok := b.List[len(b.List)-1].(*ast.BranchStmt)
	if !ok || br.Tok != token.CONTINUE {
		return false
	}
	for _, st := range b.List[:len(b.List)-1] {
		es, ok := st.(*ast.ExprStmt)
		if !ok {
			return false
		}
		cl, ok := es.X.(*ast.CallExpr)
		if !ok {
			return false
		}
		nm := calleeOfCall(info, cl)
		if !(strings.HasPrefix(nm, "infrastructure/logger.") || strings.HasPrefix(nm, "log.")) {
			return false
		}
	}
	return true
}

// interestingElem: the loop ranges over gleece data (definitions, metadata, annotations,
// diagnostics, graph) or over go/ast nodes.
func interestingElem(t types.Type) bool {
	if t == nil {
		return false
	}
	var el types.Type
	switch x := t.Underlying().(type) {
	case *types.Slice:
		el = x.Elem()
	case *types.Array:
		el = x.Elem()
	case *types.Map:
		el = x.Elem()
	default:
		return false
	}
	if p, ok := el.(*types.Pointer); ok {
		el = p.Elem()
	}
	switch n := el.(type) {
	case *types.Named:
		if n.Obj().Pkg() == nil {
			return false
		}
		pp := n.Obj().Pkg().Path()
		return isGleecePkg(pp) || pp == "go/ast" || pp == "go/types" || pp == "golang.org/x/tools/go/packages"
	case *types.Basic:
		return n.Kind() == types.String // lists of names/segments
	}
	return false
}

// ruleSkipInventory: every pure skip in the given packages is in the reviewed table.
func skipCondKey(a *Atoms) string { return strings.Join(skipCondParts(a), ",") }

func skipCondParts(a *Atoms) []string {
	var ks []string
	for f := range a.Fields {
		ks = append(ks, f)
	}
	for cl := range a.Calls {
		if cl = normCallName(strings.TrimPrefix(cl, "inlined:")); !isPlumbingCall(cl) {
			ks = append(ks, "call:"+cl)
		}
	}
	for l := range a.Lits {
		ks = append(ks, "lit:"+l)
	}
	for id := range a.Idents {
		if strings.HasPrefix(id, "const:") {
			ks = append(ks, id)
		}
	}
	for op := range a.Ops {
		ks = append(ks, "op:"+op)
	}
	sort.Strings(ks)
	return ks
}

func ruleSkipInventory(c *Ctx, r *Report, clause string, table map[string]string, floor int, pkgPrefixes ...string) {
	w := c.W
	ss := w.skipSites(pkgPrefixes...)
	for _, s := range ss {
		viol := ""
		desc := "loop skip in " + s.Fn + " over " + s.Over
		if reason, ok := table[s.Key]; ok {
			desc += ": " + reason
		} else if w.decidesOnKnownInputs(c.VerifDir, s.Fn, s.Atoms) {
			desc += ": not in the table, but it decides only on what the reviewed skips of this function decide on (a restructured conditional)"
		} else if k := sameSkipModuloIdiom(table, s.Key); k != "" {
			desc += ": the reviewed skip `" + table[k] + "` with the piece of text cut off by another std-lib call (Split / SplitN / Cut)"
		} else {
			viol = fmt.Sprintf("%s: %s leaves elements of %s out under a condition [%s] that is not in the reviewed table (tables/skips.json) and decides on inputs the reviewed function never branched on (%v): whatever that loop produces (operations, parameters, properties, imports, entries, comment lines) silently loses the skipped elements", w.pos(s.Pos), s.Fn, s.Over, s.Cond, w.unknownInputs(c.VerifDir, s.Fn, s.Atoms))
		}
		r.add(clause, "skips", s.Key, desc, []string{s.Fn}, []string{w.pos(s.Pos)}, viol)
	}
	// small floors only guard against a scanner that saw nothing: a restructured conditional may
	// legitimately remove the last explicit skip of a small package
	if floor <= 5 {
		floor = 0
		if len(w.funcsOfPkgPrefixes(pkgPrefixes...)) == 0 {
			floor = 1
		}
	}
	if len(ss) < floor {
		r.undecided(clause, "skips", "coverage:"+strings.Join(pkgPrefixes, ","), "", fmt.Sprintf("only %d loop skips found in %v (floor %d)", len(ss), pkgPrefixes, floor))
	}
	r.count("loop_skips_"+strings.ReplaceAll(strings.Join(pkgPrefixes, "_"), "/", "."), len(ss))
}

func loadSkipTable(verifDir string) map[string]string {
	b, err := os.ReadFile(filepath.Join(verifDir, "tables", "skips.json"))
	if err != nil {
		return map[string]string{}
	}
	var t struct {
		Skips map[string]string `json:"skips"`
	}
	if json.Unmarshal(b, &t) != nil || t.Skips == nil {
		return map[string]string{}
	}
	return t.Skips
}

// restatesTabled: everything the condition decides on (fields, calls, literals, constants) is
// decided on by some tabled entry of the same reviewed function (or of a reviewed helper that
// was inlined into it): merging, splitting, inverting or moving reviewed conditions re-states
// them; a condition on anything else - also on something the function merely looked at for
// another purpose - is a new way to leave elements (or the rest of the function) out.
func (w *World) restatesTabled(table map[string]string, host string, parts []string) bool {
	var keys []string
	for _, h := range hostParts(host) {
		hosts := []string{h}
		if hfi := w.Funcs[h]; hfi != nil {
			for _, g := range w.vanishedFns() {
				if w.absorbedInto(g, hfi) {
					hosts = append(hosts, g)
				}
			}
		}
		for k := range table {
			for _, hh := range hosts {
				if strings.HasPrefix(k, hh+":") {
					keys = append(keys, k)
				}
			}
		}
	}
	if len(keys) == 0 {
		return false
	}
	for _, p := range parts {
		if strings.HasPrefix(p, "op:") || p == "const:.true" || p == "const:.false" || p == "lit:true" || p == "lit:false" || p == "lit:nil" || p == "lit:0" {
			continue
		}
		found := false
		for _, k := range keys {
			if strings.Contains(k, p) {
				found = true
				break
			}
		}
		if !found {
			return false
		}
	}
	return true
}

// vacuousSkip: `if len(xs) == 0 { continue }` as a direct statement of the loop body, where
// everything after it in the body only happens per element of xs (ranges over xs, and
// definitions of values that only those ranges use): for an empty xs nothing would have
// happened anyway - no element's contribution is lost.
func vacuousSkip(info *types.Info, loop *ast.RangeStmt, is *ast.IfStmt, cond ast.Expr) bool {
	be, ok := ast.Unparen(cond).(*ast.BinaryExpr)
	if !ok || is.Else != nil || is.Init != nil {
		return false
	}
	var lenArg ast.Expr
	isLen := func(e ast.Expr) ast.Expr {
		if c, ok := ast.Unparen(e).(*ast.CallExpr); ok && len(c.Args) == 1 {
			if id, ok := c.Fun.(*ast.Ident); ok && id.Name == "len" {
				return c.Args[0]
			}
		}
		return nil
	}
	isInt := func(e ast.Expr, v string) bool {
		bl, ok := ast.Unparen(e).(*ast.BasicLit)
		return ok && bl.Value == v
	}
	switch {
	case be.Op == token.EQL && isLen(be.X) != nil && isInt(be.Y, "0"):
		lenArg = isLen(be.X)
	case be.Op == token.EQL && isLen(be.Y) != nil && isInt(be.X, "0"):
		lenArg = isLen(be.Y)
	case be.Op == token.LSS && isLen(be.X) != nil && isInt(be.Y, "1"):
		lenArg = isLen(be.X)
	default:
		return false
	}
	xs := exprString(lenArg)
	idx := -1
	for i, st := range loop.Body.List {
		if st == ast.Stmt(is) {
			idx = i
		}
	}
	if idx < 0 {
		return false
	}
	defined := map[types.Object]bool{}
	var ranges []*ast.RangeStmt
	for _, st := range loop.Body.List[idx+1:] {
		switch y := st.(type) {
		case *ast.RangeStmt:
			if exprString(y.X) != xs {
				return false
			}
			ranges = append(ranges, y)
		case *ast.AssignStmt:
			if y.Tok != token.DEFINE {
				return false
			}
			for _, l := range y.Lhs {
				if id, ok := l.(*ast.Ident); ok {
					if o := info.Defs[id]; o != nil {
						defined[o] = true
					}
				}
			}
		default:
			return false
		}
	}
	if len(ranges) == 0 {
		return false
	}
	// the defined values are used inside those ranges only
	okUse := true
	for _, st := range loop.Body.List[idx+1:] {
		if _, isRange := st.(*ast.RangeStmt); isRange {
			continue
		}
		ast.Inspect(st, func(n ast.Node) bool {
			if id, ok := n.(*ast.Ident); ok && defined[info.Uses[id]] {
				okUse = false
			}
			return true
		})
	}
	return okUse
}

// sameSkipModuloIdiom: a reviewed skip of the same function over the same collection whose
// condition differs from key's only in how a piece of a string is cut off (strings.Split /
// SplitN / Cut and the integer literals and indexing that go with them). Returns its key.
func sameSkipModuloIdiom(table map[string]string, key string) string {
	norm := func(k string) (head string, parts string) {
		i := strings.Index(k, ":skip[")
		if i < 0 {
			return k, ""
		}
		head = k[:i]
		body := k[i+len(":skip["):]
		if j := strings.LastIndex(body, "]"); j >= 0 {
			body = body[:j]
		}
		set := map[string]bool{}
		for _, p := range strings.Split(body, ",") {
			switch {
			case p == "call:strings.SplitN", p == "call:strings.Cut", p == "call:strings.Split":
				set["call:strings.Split"] = true
			case p == "op:index":
			case strings.HasPrefix(p, "lit:") && len(p) > 4 && p[4] >= '0' && p[4] <= '9':
			case p == "":
			default:
				set[p] = true
			}
		}
		return head, strings.Join(keys(set), ",")
	}
	h, n := norm(key)
	if n == "" || !strings.Contains(n, "call:strings.Split") {
		return ""
	}
	for k := range table {
		if hh, nn := norm(k); hh == h && nn == n {
			return k
		}
	}
	return ""
}
