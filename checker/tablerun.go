package main

import (
	"go/types"

	"golang.org/x/tools/go/ssa"
)

// Stage tables. A refactoring may replace `if err := A(); err != nil {return err}; if err :=
// B(); …` by a literal slice of functions (or of structs carrying one) handed to a new helper
// that runs them in order and stops at the first failure. For the must-call / must-pass rules
// such a call of the helper stands for a call of every function in the table, provided the
// helper really is a runner:
//   - it calls, inside a loop over the slice parameter, a function value taken from the element;
//   - when that call fails, every way on is a failure exit of the helper;
//   - every non-failing exit of the helper lies behind the loop's exit (all elements ran).
// and the table is a literal built at the call site.

// tableFuncsAt: the functions stored (directly, as closures, or in a field of struct elements)
// into the slice literal passed as argument i of call.
func tableFuncsAt(call ssa.CallInstruction, i int) []*ssa.Function {
	if i >= len(call.Common().Args) {
		return nil
	}
	var al *ssa.Alloc
	switch a := call.Common().Args[i].(type) {
	case *ssa.Slice:
		al, _ = a.X.(*ssa.Alloc)
	case *ssa.Alloc:
		al = a
	default:
		switch b := stripTrivial(a).(type) {
		case *ssa.Slice:
			al, _ = b.X.(*ssa.Alloc)
		case *ssa.Alloc:
			al = b
		}
	}
	if al == nil || al.Referrers() == nil {
		return nil
	}
	if pt, ok := al.Type().Underlying().(*types.Pointer); !ok {
		return nil
	} else if _, isArr := pt.Elem().Underlying().(*types.Array); !isArr {
		return nil
	}
	var out []*ssa.Function
	addVal := func(v ssa.Value) {
		switch x := stripTrivial(v).(type) {
		case *ssa.MakeClosure:
			if f, ok := x.Fn.(*ssa.Function); ok {
				out = append(out, f)
			}
		case *ssa.Function:
			out = append(out, x)
		}
	}
	for _, rf := range *al.Referrers() {
		ia, ok := rf.(*ssa.IndexAddr)
		if !ok || ia.Referrers() == nil {
			continue
		}
		for _, r2 := range *ia.Referrers() {
			switch y := r2.(type) {
			case *ssa.Store:
				if y.Addr == ssa.Value(ia) {
					addVal(y.Val)
					// the element built as a local literal and copied into its slot
					if ld, ok := y.Val.(*ssa.UnOp); ok {
						if tmp, ok := ld.X.(*ssa.Alloc); ok && tmp.Referrers() != nil {
							for _, r3 := range *tmp.Referrers() {
								if fa, ok := r3.(*ssa.FieldAddr); ok && fa.Referrers() != nil {
									for _, r4 := range *fa.Referrers() {
										if st, ok := r4.(*ssa.Store); ok && st.Addr == ssa.Value(fa) {
											addVal(st.Val)
										}
									}
								}
							}
						}
					}
				}
			case *ssa.FieldAddr:
				if y.Referrers() == nil {
					continue
				}
				for _, r3 := range *y.Referrers() {
					if st, ok := r3.(*ssa.Store); ok && st.Addr == ssa.Value(y) {
						addVal(st.Val)
					}
				}
			}
		}
	}
	return out
}

// runnerParams: the slice parameters of h whose elements' functions h runs to completion or
// first failure (see above).
func (w *World) runnerParams(h *ssa.Function) []int {
	var out []int
	if h == nil || h.Blocks == nil {
		return out
	}
	for pi, p := range h.Params {
		if _, isSlice := p.Type().Underlying().(*types.Slice); !isSlice {
			continue
		}
		// dynamic calls whose callee derives from this parameter, inside a loop
		var dyn []ssa.CallInstruction
		for _, b := range h.Blocks {
			for _, ins := range b.Instrs {
				c, ok := ins.(ssa.CallInstruction)
				if !ok || c.Common().StaticCallee() != nil || c.Common().IsInvoke() {
					continue
				}
				if elementOf(c.Common().Value, p, 0) && inLoop(b) {
					dyn = append(dyn, c)
				}
			}
		}
		if len(dyn) != 1 {
			continue
		}
		c := dyn[0]
		// a failure of the element's function ends in a failure exit
		okEdges := okEdgesOfCall(c, -1)
		if len(okEdges) == 0 {
			continue
		}
		isOK := map[edge]bool{}
		for _, e := range okEdges {
			isOK[e] = true
		}
		good := true
		for _, e := range okEdges {
			for _, s := range e.from.Succs {
				if isOK[edge{e.from, s}] {
					continue
				}
				// the not-ok side: no non-failing exit reachable from it
				reach := reachableBlocksFrom(s)
				reach[s] = true
				for _, ex := range exitsOf(h) {
					if ex.Kind == exitFailure || ex.Kind == exitPanic {
						continue
					}
					if reach[ex.Block] {
						good = false
					}
				}
			}
		}
		// every non-failing exit lies behind the loop: it is not reachable from the call's block
		// without leaving the loop through its header, i.e. it is outside every cycle through c's
		// block AND c's block cannot reach it except via a block that dominates it and is not in the loop
		loopBlocks := map[*ssa.BasicBlock]bool{}
		fromC := reachableBlocksFrom(c.Block())
		for b := range fromC {
			if reachableBlocksFrom(b)[c.Block()] {
				loopBlocks[b] = true
			}
		}
		loopBlocks[c.Block()] = true
		for _, ex := range exitsOf(h) {
			if ex.Kind == exitFailure || ex.Kind == exitPanic {
				continue
			}
			if loopBlocks[ex.Block] {
				good = false
				continue
			}
			// reached from inside the loop only through the loop's condition block (the block that
			// decides between another element and "done")
			for _, pr := range ex.Block.Preds {
				if loopBlocks[pr] {
					if _, isIf := pr.Instrs[len(pr.Instrs)-1].(*ssa.If); !isIf || !pr.Dominates(c.Block()) {
						good = false
					}
				}
			}
		}
		if good {
			out = append(out, pi)
		}
	}
	return out
}

// tableCallsVia: hc calls a runner with a literal table; returns the functions it thereby runs.
func (w *World) tableCallsVia(hc ssa.CallInstruction) []*ssa.Function {
	h := w.newCallee(hc)
	if h == nil {
		return nil
	}
	var out []*ssa.Function
	for _, pi := range w.runnerParams(h) {
		out = append(out, tableFuncsAt(hc, pi)...)
	}
	return out
}

// elementOf: v is (a field of) an element of the slice parameter p.
func elementOf(v ssa.Value, p *ssa.Parameter, depth int) bool {
	if depth > 8 || v == nil {
		return false
	}
	switch x := stripTrivial(v).(type) {
	case *ssa.Parameter:
		return x == p
	case *ssa.Field:
		return elementOf(x.X, p, depth+1)
	case *ssa.FieldAddr:
		return elementOf(x.X, p, depth+1)
	case *ssa.UnOp:
		return elementOf(x.X, p, depth+1)
	case *ssa.IndexAddr:
		return elementOf(x.X, p, depth+1)
	case *ssa.Index:
		return elementOf(x.X, p, depth+1)
	case *ssa.Extract:
		if nx, ok := x.Tuple.(*ssa.Next); ok {
			if rg, ok := nx.Iter.(*ssa.Range); ok {
				return elementOf(rg.X, p, depth+1)
			}
		}
	case *ssa.Alloc:
		// a range copy spilled to a local
		if x.Referrers() != nil {
			for _, rf := range *x.Referrers() {
				if st, ok := rf.(*ssa.Store); ok && st.Addr == ssa.Value(x) && elementOf(st.Val, p, depth+1) {
					return true
				}
			}
		}
	}
	return false
}
