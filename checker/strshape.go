package main

import (
	"go/ast"
	"go/token"
	"go/types"
	"strings"
)

// String shapes: how a function composes a string, independent of the means -
// fmt.Sprintf with a literal format, a `+` chain, or consecutive WriteString calls on one
// builder all yield a template in Sprintf notation plus the operand expressions.

type strShape struct {
	Tmpl string
	Args []ast.Expr
	Pos  token.Pos
	Fi   *FuncInfo
}

func (w *World) stringShapes(fi *FuncInfo) []strShape {
	var out []strShape
	for _, f := range w.astRegion(fi) {
		if f.Pkg != fi.Pkg || f.Decl.Body == nil {
			continue
		}
		out = append(out, w.stringShapesLocal(f)...)
	}
	return out
}

func (w *World) stringShapesLocal(f *FuncInfo) []strShape {
	var out []strShape
	info := f.Pkg.TypesInfo
	isString := func(e ast.Expr) bool {
		t := info.TypeOf(e)
		if t == nil {
			return false
		}
		b, ok := t.Underlying().(*types.Basic)
		return ok && b.Info()&types.IsString != 0
	}
	// operand -> template piece
	piece := func(e ast.Expr) (string, ast.Expr) {
		e = ast.Unparen(e)
		if tv, ok := info.Types[e]; ok && tv.Value != nil && isString(e) {
			return strings.ReplaceAll(constString(tv.Value), "%", "%%"), nil
		}
		if c, ok := e.(*ast.CallExpr); ok && len(c.Args) >= 1 {
			switch calleeOfCall(info, c) {
			case "strconv.Itoa", "strconv.FormatInt", "strconv.FormatUint":
				arg := ast.Unparen(c.Args[0])
				if cv, ok := arg.(*ast.CallExpr); ok && len(cv.Args) == 1 && strings.HasPrefix(calleeOfCall(info, cv), "conv:") {
					arg = cv.Args[0]
				}
				return "%d", arg
			}
		}
		return "%s", e
	}
	build := func(ops []ast.Expr, pos token.Pos) {
		sh := strShape{Pos: pos, Fi: f}
		nLit := 0
		for _, o := range ops {
			p, arg := piece(o)
			sh.Tmpl += p
			if arg != nil {
				sh.Args = append(sh.Args, arg)
			} else {
				nLit++
			}
		}
		if nLit > 0 && len(ops) > 1 {
			out = append(out, sh)
		}
	}
	var flatten func(e ast.Expr) []ast.Expr
	flatten = func(e ast.Expr) []ast.Expr {
		if be, ok := ast.Unparen(e).(*ast.BinaryExpr); ok && be.Op == token.ADD && isString(be) {
			return append(flatten(be.X), flatten(be.Y)...)
		}
		return []ast.Expr{e}
	}
	inChain := map[ast.Node]bool{}
	ast.Inspect(f.Decl.Body, func(n ast.Node) bool {
		switch x := n.(type) {
		case *ast.CallExpr:
			cn := calleeOfCall(info, x)
			fmtIdx := -1
			switch cn {
			case "fmt.Sprintf":
				fmtIdx = 0
			case "fmt.Fprintf":
				fmtIdx = 1
			}
			if fmtIdx >= 0 && len(x.Args) > fmtIdx {
				if tv, ok := info.Types[x.Args[fmtIdx]]; ok && tv.Value != nil {
					out = append(out, strShape{Tmpl: constString(tv.Value), Args: x.Args[fmtIdx+1:], Pos: x.Pos(), Fi: f})
				}
			}
		case *ast.BinaryExpr:
			if x.Op == token.ADD && isString(x) && !inChain[x] {
				ast.Inspect(x, func(m ast.Node) bool {
					if be, ok := m.(*ast.BinaryExpr); ok && be.Op == token.ADD {
						inChain[be] = true
					}
					return true
				})
				build(flatten(x), x.Pos())
			}
		case *ast.BlockStmt:
			// runs of b.WriteString(…) on one builder
			var run []ast.Expr
			var recv string
			var start token.Pos
			flush := func() {
				if len(run) > 1 {
					var ops []ast.Expr
					for _, r := range run {
						ops = append(ops, flatten(r)...)
					}
					build(ops, start)
				}
				run, recv = nil, ""
			}
			for _, st := range x.List {
				es, ok := st.(*ast.ExprStmt)
				if !ok {
					flush()
					continue
				}
				c, ok := es.X.(*ast.CallExpr)
				if !ok || len(c.Args) != 1 || !strings.HasSuffix(calleeOfCall(info, c), "strings.Builder).WriteString") {
					flush()
					continue
				}
				se, _ := c.Fun.(*ast.SelectorExpr)
				rn := exprString(se.X)
				if recv != "" && rn != recv {
					flush()
				}
				if len(run) == 0 {
					start = c.Pos()
				}
				recv = rn
				run = append(run, c.Args[0])
			}
			flush()
		}
		return true
	})
	return out
}
