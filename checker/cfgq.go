package main

import (
	"fmt"
	"go/ast"
	"go/token"
	"go/types"
	"strings"

	"golang.org/x/tools/go/cfg"
)

// cfgOf builds the go/cfg control-flow graph of a function declaration.
func (w *World) cfgOf(fi *FuncInfo) *cfg.CFG {
	info := fi.Pkg.TypesInfo
	mayReturn := func(call *ast.CallExpr) bool {
		switch calleeOfCall(info, call) {
		case "builtin.panic", "os.Exit", "log.Fatal", "log.Fatalf", "log.Fatalln", "log.Panic", "log.Panicf":
			return false
		}
		return true
	}
	return cfg.New(fi.Decl.Body, mayReturn)
}

// blockCond returns the branch condition of a block that ends in a two-way branch.
func blockCond(b *cfg.Block) ast.Expr {
	if len(b.Succs) != 2 || len(b.Nodes) == 0 {
		return nil
	}
	e, _ := b.Nodes[len(b.Nodes)-1].(ast.Expr)
	return e
}

// containsNode reports whether sub is inside the syntax tree of n.
func containsNode(n ast.Node, pred func(ast.Node) bool) bool {
	found := false
	ast.Inspect(n, func(x ast.Node) bool {
		if found || x == nil {
			return false
		}
		if _, isLit := x.(*ast.FuncLit); isLit {
			return false
		}
		if pred(x) {
			found = true
			return false
		}
		return true
	})
	return found
}

// rangeLoops returns the range statements of fi whose collection expression satisfies pred.
func (w *World) rangeLoops(fi *FuncInfo, pred func(x ast.Expr) bool) []*ast.RangeStmt {
	var out []*ast.RangeStmt
	for i, f := range w.astRegion(fi) {
		f := f
		ast.Inspect(f.Decl, func(n ast.Node) bool {
			// an index loop `for i := 0; i < len(x); i++` visits the elements of x like `range x`
			if fs, isFor := n.(*ast.ForStmt); isFor {
				if x := indexLoopCollection(f.Pkg.TypesInfo, fs); x != nil && pred(x) {
					out = append(out, w.forAsRangeStmt(fs, x))
				}
				return true
			}
			r, ok := n.(*ast.RangeStmt)
			if !ok {
				return true
			}
			// `for i := range len(x)`
			if c, isCall := ast.Unparen(r.X).(*ast.CallExpr); isCall && len(c.Args) == 1 && calleeOfCall(f.Pkg.TypesInfo, c) == "builtin.len" && pred(c.Args[0]) {
				out = append(out, r)
				return true
			}
			if pred(r.X) {
				out = append(out, r)
				return true
			}
			if i == 0 {
				return true
			}
			// inside a new function: the collection may be a parameter - judge what the
			// call sites pass for it
			if id, ok := ast.Unparen(r.X).(*ast.Ident); ok {
				// (a helper shared by several loops - `reduceInOrder(m.RetVals)`, `reduceInOrder(m.Params)` -
				// is this loop for the call from fi's region that passes the collection)
				w.withHost(fi.Key, func() {
					if _, exprs, ok := w.argsBoundTo(f.Pkg.TypesInfo.ObjectOf(id)); ok {
						for _, e := range exprs {
							if pred(e) {
								out = append(out, r)
								break
							}
						}
					}
				})
			}
			return true
		})
	}
	return out
}

// skipSpec describes a branch edge through which an iteration may legitimately leave
// without reaching the target.
type skipSpec struct {
	Cond func(cond ast.Expr) bool // matches the branch condition
	Pol  bool                     // which truth value of the condition is the allowed skip
	Desc string
	// TypeSwitchMiss: the allowed skip is "no case of a type switch matched" (the edge
	// into go/cfg's SwitchNextCase block of a type switch); Cond is ignored.
	TypeSwitchMiss bool
}

// eachIteration checks: in the range loop r of function fi, every path from the start
// of the loop body back to the loop head (next iteration), out of the loop (break) or
// out of the function passes through a node satisfying target, except
//   - paths through an allowed skip edge,
//   - returns that carry a non-nil error when errExitOK is set.
//
// It returns inspected sites and a violation message.
func (w *World) eachIteration(fi *FuncInfo, g *cfg.CFG, r *ast.RangeStmt, target func(ast.Node) bool, skips []skipSpec, errExitOK bool) ([]string, string) {
	if owner := w.ownerOf(fi, r); owner != fi {
		fi, g = owner, w.cfgOf(owner) // the loop was moved into a new function
	}
	// a call of a new function that reaches the target on every path stands for the target
	baseTarget := target
	target = func(n ast.Node) bool {
		if baseTarget(n) {
			return true
		}
		if c, ok := n.(*ast.CallExpr); ok {
			if name := calleeOfCall(fi.Pkg.TypesInfo, c); name != "" && w.isNewName(name) {
				return w.astMustReach(w.Funcs[name], baseTarget, errExitOK, 0)
			}
		}
		return false
	}
	var body, loop, done *cfg.Block
	var loopStmt ast.Stmt = r
	if fs := w.forOfRange[r]; fs != nil {
		loopStmt = fs
	}
	for _, b := range g.Blocks {
		if b.Stmt != loopStmt {
			continue
		}
		switch b.Kind {
		case cfg.KindRangeBody, cfg.KindForBody:
			body = b
		case cfg.KindRangeLoop, cfg.KindForPost:
			loop = b
		case cfg.KindForLoop:
			if loop == nil {
				loop = b
			}
		case cfg.KindRangeDone, cfg.KindForDone:
			done = b
		}
	}
	sites := []string{w.pos(r.Pos())}
	if body == nil || loop == nil {
		return sites, fmt.Sprintf("%s: cannot locate loop blocks", w.pos(r.Pos()))
	}
	targetSeen := false
	type state struct{ b *cfg.Block }
	seen := map[*cfg.Block]bool{}
	var viol string
	var visit func(b *cfg.Block)
	visit = func(b *cfg.Block) {
		if viol != "" || seen[b] {
			return
		}
		seen[b] = true
		// does this block contain the target?
		for _, n := range b.Nodes {
			if containsNode(n, target) {
				targetSeen = true
				sites = append(sites, w.pos(n.Pos()))
				return // this path is fine
			}
		}
		if b == loop {
			viol = fmt.Sprintf("%s: an iteration can reach the next element without %s", w.pos(r.Pos()), "reaching the target")
			return
		}
		if done != nil && b == done {
			viol = fmt.Sprintf("%s: loop can be left (break) before the element reached the target", w.pos(r.Pos()))
			return
		}
		if len(b.Succs) == 0 {
			// function exit
			if len(b.Nodes) > 0 {
				if ret, ok := b.Nodes[len(b.Nodes)-1].(*ast.ReturnStmt); ok {
					sites = append(sites, w.pos(ret.Pos()))
					if errExitOK && returnsNonNilError(fi, ret) {
						return
					}
					viol = fmt.Sprintf("%s: iteration leaves the function before reaching the target", w.pos(ret.Pos()))
					return
				}
			}
			// panic / no-return call: not a silent drop
			return
		}
		cond := blockCond(b)
		for i, s := range b.Succs {
			if cond == nil && len(b.Succs) == 2 && i == 1 && s.Kind == cfg.KindSwitchNextCase && isTypeSwitchHead(b) {
				allowed := false
				for _, sk := range skips {
					if sk.TypeSwitchMiss {
						allowed = true
					}
				}
				if allowed {
					continue
				}
			}
			if cond != nil {
				// what is known on this edge, as atomic facts: negations stripped, the
				// conjuncts of a true `&&` and the disjuncts of a false `||` taken one by one.
				// A skip is allowed when any one of them is an allowed reason (the others
				// only narrow it).
				if skipAllowed(cond, i == 0, skips) {
					sites = append(sites, w.pos(cond.Pos()))
					continue
				}
			}
			visit(s)
		}
	}
	visit(body)
	if viol == "" && !targetSeen {
		viol = fmt.Sprintf("%s: target never reached from loop body", w.pos(r.Pos()))
	}
	return sites, viol
}

// isTypeSwitchHead: the block ends with the `x := y.(type)` guard of a type switch.
func isTypeSwitchHead(b *cfg.Block) bool {
	if len(b.Nodes) == 0 {
		return false
	}
	found := false
	ast.Inspect(b.Nodes[len(b.Nodes)-1], func(n ast.Node) bool {
		if ta, ok := n.(*ast.TypeAssertExpr); ok && ta.Type == nil {
			found = true
		}
		return true
	})
	return found
}

// returnsNonNilError: last result of the return statement is not the literal nil.
func returnsNonNilError(fi *FuncInfo, ret *ast.ReturnStmt) bool {
	if len(ret.Results) == 0 {
		return false
	}
	last := ret.Results[len(ret.Results)-1]
	if id, ok := last.(*ast.Ident); ok && id.Name == "nil" {
		if _, isNil := fi.Pkg.TypesInfo.Uses[id].(*types.Nil); isNil {
			return false
		}
	}
	tv := fi.Pkg.TypesInfo.Types[last]
	if tv.Type == nil {
		return false
	}
	return types.Implements(tv.Type, types.Universe.Lookup("error").Type().Underlying().(*types.Interface)) || types.Identical(tv.Type, types.Universe.Lookup("error").Type())
}

// callPred builds a node predicate: a call whose resolved callee is one of names.
func (w *World) callPred(fi *FuncInfo, names ...string) func(ast.Node) bool {
	info := fi.Pkg.TypesInfo
	return func(n ast.Node) bool {
		c, ok := n.(*ast.CallExpr)
		if !ok {
			return false
		}
		cn := calleeOfCall(info, c)
		for _, x := range names {
			if cn == x {
				return true
			}
		}
		return false
	}
}

// condCalls builds a condition predicate: the condition expression contains a call to
// one of names (possibly under !).
func (w *World) condCalls(fi *FuncInfo, names ...string) func(ast.Expr) bool {
	p := w.callPred(fi, names...)
	return func(e ast.Expr) bool { return containsNode(e, p) }
}

// condReadsField: the condition reads the given qualified field.
func (w *World) condReadsField(fi *FuncInfo, qual string) func(ast.Expr) bool {
	info := fi.Pkg.TypesInfo
	return func(e ast.Expr) bool {
		return containsNode(e, func(n ast.Node) bool {
			se, ok := n.(*ast.SelectorExpr)
			if !ok {
				return false
			}
			if sel := info.Selections[se]; sel != nil && sel.Kind() == types.FieldVal {
				return qualField(info, se) == qual
			}
			return false
		})
	}
}

// appendTo builds a node predicate: `x = append(x, ...)` where x satisfies dst.
func (w *World) appendTo(fi *FuncInfo, dst func(ast.Expr) bool) func(ast.Node) bool {
	info := fi.Pkg.TypesInfo
	return func(n ast.Node) bool {
		as, ok := n.(*ast.AssignStmt)
		if !ok || len(as.Rhs) != 1 {
			return false
		}
		// `dst[i] = v` into a pre-sized slice (i a variable: the position of this element)
		if ix, isIx := as.Lhs[0].(*ast.IndexExpr); isIx && len(as.Lhs) == 1 {
			if _, isSlice := info.TypeOf(ix.X).Underlying().(*types.Slice); isSlice {
				if tv, known := info.Types[ix.Index]; known && tv.Value == nil {
					return dst(ix.X)
				}
			}
			return false
		}
		c, ok := as.Rhs[0].(*ast.CallExpr)
		if !ok || calleeOfCall(info, c) != "builtin.append" {
			return false
		}
		return dst(as.Lhs[0])
	}
}

// resultSlice: an identifier of a slice-typed local of fi that leaves the function - a
// return statement, a composite literal, the right-hand side of an assignment to something
// else, or an argument of a non-builtin call mentions it - or is a named result: the
// function's accumulator, whatever it is called.
func (w *World) resultSlice(fi *FuncInfo) func(ast.Expr) bool {
	info := fi.Pkg.TypesInfo
	acc := map[types.Object]bool{}
	if fi.Decl.Type.Results != nil {
		for _, f := range fi.Decl.Type.Results.List {
			for _, n := range f.Names {
				if o := info.Defs[n]; o != nil {
					acc[o] = true
				}
			}
		}
	}
	mark := func(e ast.Node, except types.Object) {
		ast.Inspect(e, func(m ast.Node) bool {
			if id, ok := m.(*ast.Ident); ok {
				if o, isVar := info.Uses[id].(*types.Var); isVar && !o.IsField() && o != except && o.Pos() > fi.Decl.Pos() && o.Pos() < fi.Decl.End() {
					acc[o] = true
				}
			}
			return true
		})
	}
	if fi.Decl.Body != nil {
		ast.Inspect(fi.Decl.Body, func(n ast.Node) bool {
			switch x := n.(type) {
			case *ast.ReturnStmt:
				// (what only feeds the error operand - a list of collected failures - is not the result)
				sig, _ := fi.Obj.Type().(*types.Signature)
				for i, res := range x.Results {
					if sig != nil && len(x.Results) == sig.Results().Len() && types.Identical(sig.Results().At(i).Type(), types.Universe.Lookup("error").Type()) {
						continue
					}
					mark(res, nil)
				}
			case *ast.CompositeLit:
				mark(x, nil)
			case *ast.AssignStmt:
				for i, rhs := range x.Rhs {
					if cl, ok := rhs.(*ast.CallExpr); ok && calleeOfCall(info, cl) == "builtin.append" {
						continue // x = append(x, …) is the accumulation itself
					}
					var self types.Object
					if i < len(x.Lhs) {
						if id, ok := x.Lhs[i].(*ast.Ident); ok {
							self = info.ObjectOf(id)
						}
					}
					mark(rhs, self)
				}
			case *ast.CallExpr:
				if callee := calleeOfCall(info, x); !strings.HasPrefix(callee, "builtin.") {
					for _, a := range x.Args {
						if id, ok := a.(*ast.Ident); ok {
							mark(id, nil)
						}
					}
				}
			}
			return true
		})
	}
	return func(e ast.Expr) bool {
		id, ok := e.(*ast.Ident)
		if !ok {
			return false
		}
		o := info.ObjectOf(id)
		if o == nil || !acc[o] {
			return false
		}
		sl, isSlice := o.Type().Underlying().(*types.Slice)
		if isSlice && types.Identical(sl.Elem(), types.Universe.Lookup("error").Type()) {
			return false // a list of collected failures is not what the function produces per element
		}
		return isSlice
	}
}

// paramOfType: an identifier naming a parameter of fi whose type prints as typeStr.
func (w *World) paramOfType(fi *FuncInfo, typeStr string) func(ast.Expr) bool {
	info := fi.Pkg.TypesInfo
	params := map[types.Object]bool{}
	for _, f := range fi.Decl.Type.Params.List {
		for _, n := range f.Names {
			if o := info.Defs[n]; o != nil && short(types.TypeString(o.Type(), nil)) == typeStr {
				params[o] = true
			}
		}
	}
	return func(e ast.Expr) bool {
		id, ok := e.(*ast.Ident)
		return ok && params[info.ObjectOf(id)]
	}
}

func identNamed(name string) func(ast.Expr) bool {
	return func(e ast.Expr) bool {
		id, ok := e.(*ast.Ident)
		return ok && id.Name == name
	}
}

// rangeOverField: collection expression is a selector of the given qualified field.
func (w *World) rangeOverField(fi *FuncInfo, qual string) func(ast.Expr) bool {
	info := fi.Pkg.TypesInfo
	return func(e ast.Expr) bool {
		if p, ok := e.(*ast.ParenExpr); ok {
			e = p.X
		}
		if st, ok := e.(*ast.StarExpr); ok {
			e = st.X
		}
		se, ok := e.(*ast.SelectorExpr)
		if !ok {
			return false
		}
		if sel := info.Selections[se]; sel != nil && sel.Kind() == types.FieldVal {
			return qualField(info, se) == qual
		}
		return false
	}
}

// rangeOverParamOfType: collection is an identifier (parameter/local) whose type string matches.
func (w *World) rangeOverType(fi *FuncInfo, typeStr string) func(ast.Expr) bool {
	info := fi.Pkg.TypesInfo
	return func(e ast.Expr) bool {
		t := info.TypeOf(e)
		return t != nil && short(types.TypeString(t, nil)) == typeStr
	}
}

var _ = token.NoPos

// astMustReach: every path through new function h from entry to a return passes a node
// satisfying target (directly or through further new functions); returns carrying an error
// are exempt when errExitOK.
func (w *World) astMustReach(h *FuncInfo, target func(ast.Node) bool, errExitOK bool, depth int) bool {
	if h == nil || h.Decl.Body == nil || depth > 4 {
		return false
	}
	g := w.cfgOf(h)
	if g == nil || len(g.Blocks) == 0 {
		return false
	}
	ext := func(n ast.Node) bool {
		if target(n) {
			return true
		}
		if c, ok := n.(*ast.CallExpr); ok {
			if name := calleeOfCall(h.Pkg.TypesInfo, c); name != "" && name != h.Key && w.isNewName(name) {
				return w.astMustReach(w.Funcs[name], target, errExitOK, depth+1)
			}
		}
		return false
	}
	seen := map[*cfg.Block]bool{}
	ok := true
	var visit func(b *cfg.Block)
	visit = func(b *cfg.Block) {
		if !ok || seen[b] {
			return
		}
		seen[b] = true
		for _, n := range b.Nodes {
			if containsNode(n, ext) {
				return
			}
		}
		if len(b.Succs) == 0 {
			if len(b.Nodes) > 0 {
				if ret, isRet := b.Nodes[len(b.Nodes)-1].(*ast.ReturnStmt); isRet {
					if errExitOK && returnsNonNilError(h, ret) {
						return
					}
					ok = false
					return
				}
			}
			if b == g.Blocks[0] || b.Live {
				// falls off the end of a function without results, or panics
				if len(b.Nodes) > 0 {
					if es, isExpr := b.Nodes[len(b.Nodes)-1].(*ast.ExprStmt); isExpr {
						if c, isCall := es.X.(*ast.CallExpr); isCall {
							if id, isId := c.Fun.(*ast.Ident); isId && id.Name == "panic" {
								return
							}
						}
					}
				}
				ok = false
			}
			return
		}
		for _, s := range b.Succs {
			visit(s)
		}
	}
	visit(g.Blocks[0])
	return ok
}

// skipAllowed: leaving through the edge "cond evaluated to pol" is an allowed skip.
// Negations are stripped; on the true edge of `a && b` (both hold) one allowed reason
// suffices, the other only narrows it; on the true edge of `a || b` (either may be the
// one that holds) each must be an allowed reason by itself; dually for false edges.
func skipAllowed(cond ast.Expr, pol bool, skips []skipSpec) bool {
	switch x := ast.Unparen(cond).(type) {
	case *ast.UnaryExpr:
		if x.Op == token.NOT {
			return skipAllowed(x.X, !pol, skips)
		}
	case *ast.BinaryExpr:
		switch x.Op {
		case token.LAND:
			if pol {
				return skipAllowed(x.X, true, skips) || skipAllowed(x.Y, true, skips)
			}
			return skipAllowed(x.X, false, skips) && skipAllowed(x.Y, false, skips)
		case token.LOR:
			if pol {
				return skipAllowed(x.X, true, skips) && skipAllowed(x.Y, true, skips)
			}
			return skipAllowed(x.X, false, skips) || skipAllowed(x.Y, false, skips)
		}
	}
	for _, f := range edgeFactsAST(cond, pol) {
		for _, sk := range skips {
			if !sk.TypeSwitchMiss && sk.Pol == f.Pol && sk.Cond(f.Expr) {
				return true
			}
		}
	}
	return false
}

type astFact struct {
	Expr ast.Expr
	Pol  bool
}

// edgeFactsAST decomposes "cond evaluated to pol" into atomic facts. `x != y` is reported as
// the equality x == y with the polarity flipped (see eqOperands).
func edgeFactsAST(cond ast.Expr, pol bool) []astFact {
	switch x := ast.Unparen(cond).(type) {
	case *ast.UnaryExpr:
		if x.Op == token.NOT {
			return edgeFactsAST(x.X, !pol)
		}
	case *ast.BinaryExpr:
		switch {
		case x.Op == token.LAND && pol, x.Op == token.LOR && !pol:
			return append(edgeFactsAST(x.X, pol), edgeFactsAST(x.Y, pol)...)
		case x.Op == token.LAND || x.Op == token.LOR:
			return nil // one of the operands failed / held: nothing certain about either
		case x.Op == token.NEQ:
			return []astFact{{x, !pol}}
		}
	}
	return []astFact{{ast.Unparen(cond), pol}}
}

// eqOperands: the operands of an equality fact (written == or !=; the fact's polarity says
// whether they are equal).
func eqOperands(e ast.Expr) (ast.Expr, ast.Expr, bool) {
	be, ok := ast.Unparen(e).(*ast.BinaryExpr)
	if !ok || (be.Op != token.EQL && be.Op != token.NEQ) {
		return nil, nil, false
	}
	return be.X, be.Y, true
}

// isNilIdent: e is the predeclared nil.
func isNilIdent(info *types.Info, e ast.Expr) bool {
	id, ok := ast.Unparen(e).(*ast.Ident)
	if !ok {
		return false
	}
	_, isNil := info.Uses[id].(*types.Nil)
	return isNil
}

// nilTestOf: the fact compares with nil an expression whose type prints as typeStr
// (module-relative); the fact's polarity says whether it is nil.
func (w *World) nilTestOf(fi *FuncInfo, typeStr string) func(ast.Expr) bool {
	info := fi.Pkg.TypesInfo
	return func(e ast.Expr) bool {
		x, y, ok := eqOperands(e)
		if !ok {
			return false
		}
		if isNilIdent(info, x) {
			x, y = y, x
		}
		if !isNilIdent(info, y) {
			return false
		}
		t := info.TypeOf(x)
		return t != nil && short(types.TypeString(t, nil)) == typeStr
	}
}

// commaOkOf: the fact is the `ok` of `v, ok := x.(T)` (kind "assert") or `v, ok := m[k]`
// (kind "lookup"), whatever the variable is called; typeStr, when not empty, is T / the
// map's type.
func (w *World) commaOkOf(fi *FuncInfo, kind, typeStr string) func(ast.Expr) bool {
	info := fi.Pkg.TypesInfo
	return func(e ast.Expr) bool {
		id, ok := ast.Unparen(e).(*ast.Ident)
		if !ok {
			return false
		}
		obj := info.ObjectOf(id)
		fd := w.defsOf(w.ownerOf(fi, e))
		src, isTuple := fd.tupleOf[obj]
		if !isTuple || fd.tupleIx[obj] != 1 {
			return false
		}
		switch x := ast.Unparen(src).(type) {
		case *ast.TypeAssertExpr:
			if kind != "assert" {
				return false
			}
			return typeStr == "" || short(types.TypeString(info.TypeOf(x.Type), nil)) == typeStr
		case *ast.IndexExpr:
			if kind != "lookup" {
				return false
			}
			t := info.TypeOf(x.X)
			return typeStr == "" || (t != nil && short(types.TypeString(t, nil)) == typeStr)
		}
		return false
	}
}

// indexLoopCollection: for `for i := …; i < len(x); i++ { … }` the collection x, else nil.
func indexLoopCollection(info *types.Info, fs *ast.ForStmt) ast.Expr {
	be, ok := ast.Unparen(fs.Cond).(*ast.BinaryExpr)
	if !ok || fs.Post == nil {
		return nil
	}
	var lenSide ast.Expr
	switch be.Op {
	case token.LSS, token.NEQ:
		lenSide = be.Y
	case token.GTR:
		lenSide = be.X
	default:
		return nil
	}
	c, ok := ast.Unparen(lenSide).(*ast.CallExpr)
	if !ok || len(c.Args) != 1 || calleeOfCall(info, c) != "builtin.len" {
		return nil
	}
	if _, isInc := fs.Post.(*ast.IncDecStmt); !isInc {
		return nil
	}
	return c.Args[0]
}

// forAsRangeStmt presents an index loop as a range statement over its collection (the
// each-iteration engine maps it back to the for statement's blocks).
func (w *World) forAsRangeStmt(fs *ast.ForStmt, x ast.Expr) *ast.RangeStmt {
	if r, ok := w.rangeOfFor[fs]; ok {
		return r
	}
	r := &ast.RangeStmt{For: fs.For, X: x, Body: fs.Body}
	if w.rangeOfFor == nil {
		w.rangeOfFor = map[*ast.ForStmt]*ast.RangeStmt{}
		w.forOfRange = map[*ast.RangeStmt]*ast.ForStmt{}
	}
	w.rangeOfFor[fs] = r
	w.forOfRange[r] = fs
	return r
}

// bodyMustReach: in the control-flow graph of one function body, every path from the entry
// to an exit passes a node containing target - except paths that leave through a branch
// edge accepted by skip. Range statements are matched at their loop head (the range
// expression is evaluated whatever the collection holds).
func bodyMustReach(g *cfg.CFG, target func(ast.Node) bool, skip func(cond ast.Expr, pol bool) bool) bool {
	if g == nil || len(g.Blocks) == 0 {
		return false
	}
	seen := map[*cfg.Block]bool{}
	ok := true
	var visit func(b *cfg.Block)
	visit = func(b *cfg.Block) {
		if !ok || seen[b] {
			return
		}
		seen[b] = true
		if rs, isRange := b.Stmt.(*ast.RangeStmt); isRange && (b.Kind == cfg.KindRangeLoop || b.Kind == cfg.KindRangeBody) && target(rs) {
			return
		}
		for _, n := range b.Nodes {
			if containsNode(n, target) {
				return
			}
		}
		if len(b.Succs) == 0 {
			ok = false
			return
		}
		cond := blockCond(b)
		for i, s := range b.Succs {
			if cond != nil && skip != nil && skip(cond, i == 0) {
				continue
			}
			visit(s)
		}
	}
	visit(g.Blocks[0])
	return ok
}
