package main

import (
	"fmt"
	"go/ast"
	"go/token"
	"go/types"
	"os"
	"path/filepath"
	"sort"
	"strings"

	"golang.org/x/tools/go/packages"
	"golang.org/x/tools/go/ssa"
	"golang.org/x/tools/go/ssa/ssautil"
)

const modPath = "github.com/gopher-fleece/gleece/v2"

// World is the resolved program: typed ASTs + SSA of every non-test gleece package.
type World struct {
	analysedShort map[string]bool
	RepoDir       string
	Fset          *token.FileSet
	Pkgs          []*packages.Package          // gleece packages analysed (roots)
	ByPath        map[string]*packages.Package // import path -> package (incl. deps)
	Prog          *ssa.Program
	SSAPkg        map[string]*ssa.Package

	// FuncDecls of gleece, keyed by short name (see shortFuncName)
	Funcs map[string]*FuncInfo
	// all SSA functions that belong to gleece packages (incl. anonymous)
	SSAFuncs []*ssa.Function

	stats       map[string]int
	reach       map[string]bool
	cfgOptional map[*types.Var]string
	derefSum    map[*ssa.Function]map[int]bool

	// new-function inlining (inline.go)
	base          baselineFns
	newMemo       map[*ssa.Function]bool
	newSites      map[*ssa.Function][]ssa.CallInstruction
	newRefs       map[*ssa.Function][]*ssa.Function
	sumMemo       map[sumKey]int
	defsMemo      map[*FuncInfo]*funcDefs
	condAtoms     map[string]map[string]bool
	condSets      map[string][][]string
	deep          deepState
	newCallBusy   map[string]bool
	vanished      []string
	printsPosMemo map[string]bool
	shapes        map[string]map[string]bool
	rangeOfFor    map[*ast.ForStmt]*ast.RangeStmt
	forOfRange    map[*ast.RangeStmt]*ast.ForStmt
	astSites      map[string][]astCallSite
	newParams     map[types.Object]newParam
	constTbl      map[*types.Var]*constTable
	astCtx        []astFrame
	neighbours    map[string][]string
	curHost       string
}

type FuncInfo struct {
	Key  string
	Pkg  *packages.Package
	Decl *ast.FuncDecl
	Obj  *types.Func
	SSA  *ssa.Function
}

func short(s string) string {
	// `interface{}` and its alias `any` are one type
	s = strings.ReplaceAll(s, "interface{}", "any")
	s = strings.ReplaceAll(s, "interface {}", "any")
	return strings.ReplaceAll(s, modPath+"/", "")
}

// shortFuncName: "generator/swagen/swagen30.GenerateSpec", "(*core/pipeline.GleecePipeline).Run"
func shortFuncName(f *types.Func) string {
	return fnName(f.FullName())
}

func isGleecePkg(path string) bool {
	return path == modPath || strings.HasPrefix(path, modPath+"/")
}

func isAnalysedPkg(path string) bool {
	if !isGleecePkg(path) {
		return false
	}
	rel := strings.TrimPrefix(strings.TrimPrefix(path, modPath), "/")
	if rel == "test" || strings.HasPrefix(rel, "test/") || rel == "e2e" || strings.HasPrefix(rel, "e2e/") {
		return false
	}
	return true
}

func loadWorld(repoDir string) (*World, error) { return loadWorldMin(repoDir, 30) }

func loadWorldMin(repoDir string, minPkgs int) (*World, error) {
	return loadWorldOverlay(repoDir, minPkgs, nil)
}

func loadWorldOverlay(repoDir string, minPkgs int, overlay map[string][]byte) (*World, error) {
	w := &World{RepoDir: repoDir, Fset: token.NewFileSet(), ByPath: map[string]*packages.Package{}, SSAPkg: map[string]*ssa.Package{}, Funcs: map[string]*FuncInfo{}, stats: map[string]int{}}

	// 1. enumerate packages (cheap), filter out test/ and e2e/
	listCfg := &packages.Config{Mode: packages.NeedName | packages.NeedFiles, Dir: repoDir, Env: os.Environ()}
	listed, err := packages.Load(listCfg, "./...")
	if err != nil {
		return nil, fmt.Errorf("go list failed: %w", err)
	}
	var patterns []string
	for _, p := range listed {
		if isAnalysedPkg(p.PkgPath) && len(p.GoFiles) > 0 {
			patterns = append(patterns, p.PkgPath)
		}
	}
	sort.Strings(patterns)
	if len(patterns) < minPkgs {
		return nil, fmt.Errorf("only %d gleece packages found under %s (expected >= %d): build not covered", len(patterns), repoDir, minPkgs)
	}

	cfg := &packages.Config{Mode: packages.LoadAllSyntax, Dir: repoDir, Fset: w.Fset, Env: os.Environ(), Tests: false, Overlay: overlay}
	pkgs, err := packages.Load(cfg, patterns...)
	if err != nil {
		return nil, fmt.Errorf("load failed: %w", err)
	}
	var loadErrs []string
	packages.Visit(pkgs, nil, func(p *packages.Package) {
		w.ByPath[p.PkgPath] = p
		if isGleecePkg(p.PkgPath) {
			for _, e := range p.Errors {
				loadErrs = append(loadErrs, e.Error())
			}
		}
	})
	if len(loadErrs) > 0 {
		return nil, fmt.Errorf("gleece does not type-check: %s", strings.Join(loadErrs, "; "))
	}
	sort.Slice(pkgs, func(i, j int) bool { return pkgs[i].PkgPath < pkgs[j].PkgPath })
	w.Pkgs = pkgs
	w.stats["packages_analysed"] = len(pkgs)

	// 2. SSA for everything (deps included so that calls into libraries have callees)
	prog, _ := ssautil.AllPackages(pkgs, ssa.InstantiateGenerics)
	prog.Build()
	w.Prog = prog
	// One view of the type information for all analysed packages: syntax nodes are unique, so
	// the per-package maps can be united. Rules resolve names with "the" package's TypesInfo;
	// with the union they can follow a new helper into another package of gleece.
	{
		merged := &types.Info{
			Types: map[ast.Expr]types.TypeAndValue{}, Defs: map[*ast.Ident]types.Object{}, Uses: map[*ast.Ident]types.Object{},
			Implicits: map[ast.Node]types.Object{}, Selections: map[*ast.SelectorExpr]*types.Selection{}, Scopes: map[ast.Node]*types.Scope{},
			Instances: map[*ast.Ident]types.Instance{},
		}
		for _, p := range pkgs {
			ti := p.TypesInfo
			if ti == nil {
				continue
			}
			for k, v := range ti.Types {
				merged.Types[k] = v
			}
			for k, v := range ti.Defs {
				merged.Defs[k] = v
			}
			for k, v := range ti.Uses {
				merged.Uses[k] = v
			}
			for k, v := range ti.Implicits {
				merged.Implicits[k] = v
			}
			for k, v := range ti.Selections {
				merged.Selections[k] = v
			}
			for k, v := range ti.Scopes {
				merged.Scopes[k] = v
			}
			for k, v := range ti.Instances {
				merged.Instances[k] = v
			}
		}
		for _, p := range pkgs {
			if p.TypesInfo != nil {
				p.TypesInfo.Types, p.TypesInfo.Defs, p.TypesInfo.Uses = merged.Types, merged.Defs, merged.Uses
				p.TypesInfo.Implicits, p.TypesInfo.Selections, p.TypesInfo.Scopes, p.TypesInfo.Instances = merged.Implicits, merged.Selections, merged.Scopes, merged.Instances
			}
		}
	}
	for _, p := range pkgs {
		sp := prog.Package(p.Types)
		if sp == nil {
			return nil, fmt.Errorf("no SSA for %s", p.PkgPath)
		}
		w.SSAPkg[p.PkgPath] = sp
	}

	// 3. index function declarations
	nfiles := 0
	for _, p := range pkgs {
		for _, f := range p.Syntax {
			nfiles++
			for _, d := range f.Decls {
				fd, ok := d.(*ast.FuncDecl)
				if !ok {
					continue
				}
				obj, _ := p.TypesInfo.Defs[fd.Name].(*types.Func)
				if obj == nil {
					continue
				}
				fi := &FuncInfo{Key: shortFuncName(obj), Pkg: p, Decl: fd, Obj: obj, SSA: prog.FuncValue(obj)}
				w.Funcs[fi.Key] = fi
			}
		}
	}
	w.stats["files_analysed"] = nfiles
	w.stats["functions_analysed"] = len(w.Funcs)

	// class-hierarchy index for interface calls
	implIndex = nil
	implCache = map[*types.Func][]string{}
	for _, p := range pkgs {
		sc := p.Types.Scope()
		for _, n := range sc.Names() {
			if tn, ok := sc.Lookup(n).(*types.TypeName); ok && !tn.IsAlias() {
				if nt, ok := tn.Type().(*types.Named); ok && nt.TypeParams() == nil {
					if _, isIface := nt.Underlying().(*types.Interface); !isIface {
						implIndex = append(implIndex, nt)
					}
				}
			}
		}
	}

	// 4. all SSA functions of gleece (named + anonymous + instantiations)
	for fn := range ssautil.AllFunctions(prog) {
		if fn.Pkg != nil && isAnalysedPkg(fn.Pkg.Pkg.Path()) && fn.Blocks != nil {
			w.SSAFuncs = append(w.SSAFuncs, fn)
		} else if fn.Pkg == nil && fn.Origin() != nil && fn.Origin().Pkg != nil && isAnalysedPkg(fn.Origin().Pkg.Pkg.Path()) && fn.Blocks != nil {
			w.SSAFuncs = append(w.SSAFuncs, fn)
		}
	}
	// ssautil.AllFunctions visits methods of exported named types only (plus whatever is
	// referenced); add every declared function/method and its closures so that methods of
	// unexported types are analysed as well
	have := map[*ssa.Function]bool{}
	for _, f := range w.SSAFuncs {
		have[f] = true
	}
	var addFn func(f *ssa.Function)
	addFn = func(f *ssa.Function) {
		if f == nil || have[f] || f.Blocks == nil {
			return
		}
		have[f] = true
		w.SSAFuncs = append(w.SSAFuncs, f)
		w.stats["ssa_functions_added_from_decls"]++
		for _, a := range f.AnonFuncs {
			addFn(a)
		}
	}
	for _, fi := range w.Funcs {
		addFn(fi.SSA)
	}
	sort.Slice(w.SSAFuncs, func(i, j int) bool {
		a, b := w.SSAFuncs[i], w.SSAFuncs[j]
		if a.String() != b.String() {
			return a.String() < b.String()
		}
		return a.Pos() < b.Pos()
	})
	nb := 0
	for _, f := range w.SSAFuncs {
		nb += len(f.Blocks)
	}
	curWorld = w
	w.stats["ssa_functions"] = len(w.SSAFuncs)
	w.stats["ssa_blocks"] = nb
	return w, nil
}

// pos renders a token.Pos as repo-relative file:line.
func (w *World) pos(p token.Pos) string {
	if !p.IsValid() {
		return ""
	}
	pp := w.Fset.Position(p)
	rel, err := filepath.Rel(w.RepoDir, pp.Filename)
	if err != nil || strings.HasPrefix(rel, "..") {
		rel = pp.Filename
	}
	return fmt.Sprintf("%s:%d", rel, pp.Line)
}

// fn: the function of that name; for the joined name of a new helper shared by several
// reviewed functions ("a|b"), the first of them.
func (w *World) fn(key string) *FuncInfo {
	if fi := w.Funcs[key]; fi != nil || !strings.Contains(key, "|") {
		return fi
	}
	return w.Funcs[hostParts(key)[0]]
}

// pkg returns a gleece package by its path relative to the module root ("" for root).
func (w *World) pkg(rel string) *packages.Package {
	if rel == "" {
		return w.ByPath[modPath]
	}
	return w.ByPath[modPath+"/"+rel]
}

// lookupType finds a named type in a gleece package.
func (w *World) lookupType(relPkg, name string) *types.Named {
	p := w.pkg(relPkg)
	if p == nil {
		return nil
	}
	o := p.Types.Scope().Lookup(name)
	if o == nil {
		return nil
	}
	n, _ := o.Type().(*types.Named)
	return n
}

// extType finds a named type in any loaded package by full import path.
func (w *World) extType(path, name string) *types.Named {
	p := w.ByPath[path]
	if p == nil {
		return nil
	}
	o := p.Types.Scope().Lookup(name)
	if o == nil {
		return nil
	}
	n, _ := o.Type().(*types.Named)
	return n
}

// field returns the *types.Var for a (possibly promoted) field of a struct type.
func fieldOf(t types.Type, name string) *types.Var {
	if t == nil {
		return nil
	}
	obj, _, _ := types.LookupFieldOrMethod(t, true, nil, name)
	v, _ := obj.(*types.Var)
	if v != nil && v.IsField() {
		return v
	}
	// unexported fields need the package
	if n, ok := derefNamed(t); ok {
		obj, _, _ = types.LookupFieldOrMethod(t, true, n.Obj().Pkg(), name)
		v, _ = obj.(*types.Var)
		if v != nil && v.IsField() {
			return v
		}
	}
	return nil
}

func derefNamed(t types.Type) (*types.Named, bool) {
	if p, ok := t.Underlying().(*types.Pointer); ok {
		t = p.Elem()
	}
	if p, ok := t.(*types.Pointer); ok {
		t = p.Elem()
	}
	n, ok := t.(*types.Named)
	return n, ok
}

// ownerOfField: "definitions.RouteMetadata.OperationId"
func fieldName(owner *types.Named, v *types.Var) string {
	if owner == nil {
		return v.Name()
	}
	return short(owner.Obj().Pkg().Path()) + "." + owner.Obj().Name() + "." + v.Name()
}
