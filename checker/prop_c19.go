package main

import (
	"encoding/json"
	"fmt"
	"go/token"
	"go/types"
	"os"
	"path/filepath"
	"sort"
	"strings"

	"golang.org/x/tools/go/ssa"
)

func init() {
	register("C19", "Static structural obligations for 're-running analysis on one pipeline is idempotent': the memo state that makes a second pass a no-op is written only by its owners and never reset (import-serial map and counter, metadata cache maps, pipeline fields, facade file tables); each memoisation point is guarded by a miss test (serial allocation, receiver/enum cache, materialisation claim, parsed-file registration, graph node/edge insertion); serials are handed out by the pipeline's one provider; an 'already cached' error from MetadataCache.Add* can never fail a repeated visit (it is discarded/logged, or the call sits behind a checked miss guard); the files walked are the glob-matched set on every pass; no package-level variable is written during analysis. Equality of results across call histories is not decided.", checkC19)
}

const pkgCache = "core/arbitrators/caching"

func checkC19(c *Ctx, r *Report) {
	defer checkMemoKeys(c, r, "C19.e")
	defer ruleDecisionInputs(c, r, "C19.e", "core/pipeline", "graphs/symboldg")
	defer checkNoInPlaceWritesToInputs(c, r, "C19.b", "core/metadata", "core/validators", "graphs/symboldg", "generator/swagen", "generator/routes")
	defer checkGraphMutationSites(c, r, "C19.a")
	defer checkContainerFields(c, r, "C19.e")
	w := c.W
	r.NotDecided = append(r.NotDecided, "equality of the results of successive Run() calls and of a fresh session over all projects (a property of call histories on shared mutable state)", "that cached entities are indistinguishable from freshly computed ones (cache transparency as a value property)")
	r.Assume = append(r.Assume, "source files do not change between passes (the property's premise); file versions are therefore equal and the version-aware guards take their `same version` arm")

	// ---- C19.a memo state: owners, never reset
	type own struct {
		pkg, typ string
		fields   []string
		allowed  []string
		reason   string
	}
	owners := []own{
		{"core/visitors/providers", "SyncedProvider", []string{"keyToImportId", "nextImportId"},
			[]string{"core/visitors/providers.NewSyncedProvider", "(*core/visitors/providers.SyncedProvider).GetIdForKey", "(*core/visitors/providers.SyncedProvider).GetNextImportId"},
			"serials already handed out must survive a second pass: clearing the map (with or without the counter) makes the re-run allocate different serials than the first run / a fresh session"},
		{pkgCache, "MetadataCache", []string{"controllers", "receivers", "structs", "enums", "aliases", "visited", "inProgress", "fileVersions"},
			[]string{pkgCache + ".NewMetadataCache", pkgCache + ".addEntity", "(*" + pkgCache + ".MetadataCache).StartMaterializing", "(*" + pkgCache + ".MetadataCache).FinishMaterializing", "(*" + pkgCache + ".MetadataCache).GetFileVersion",
				"(*" + pkgCache + ".MetadataCache).AddController", "(*" + pkgCache + ".MetadataCache).AddReceiver", "(*" + pkgCache + ".MetadataCache).AddStruct", "(*" + pkgCache + ".MetadataCache).AddEnum", "(*" + pkgCache + ".MetadataCache).AddAlias"},
			"the cache is what makes a repeated visit cheap and identical"},
		{"core/pipeline", "GleecePipeline", []string{"gleeceConfig", "metadataCache", "arbitrationProvider", "syncedProvider", "symGraph", "visitorOrchestrator"},
			[]string{"core/pipeline.NewGleecePipeline"},
			"a pass must not swap the session's graph, caches or provider"},
		{"core/arbitrators", "PackagesFacade", []string{"files", "fileToPackage", "packagesCache", "packageToFiles", "globbedFiles", "fileSet"},
			[]string{"core/arbitrators.NewPackagesFacade", "(*core/arbitrators.PackagesFacade).registerParsedFile", "(*core/arbitrators.PackagesFacade).cachePackage", "(*core/arbitrators.PackagesFacade).initWithGlobs"},
			"file tables are filled on load and read afterwards"},
	}
	for _, o := range owners {
		nt := w.lookupType(o.pkg, o.typ)
		allowed := map[string]bool{}
		for _, a := range o.allowed {
			allowed[a] = true
		}
		for _, f := range o.fields {
			ws := w.structStateWrites(nt, f)
			viol := ""
			var sites []string
			for _, x := range ws {
				sites = append(sites, w.pos(x.Pos))
				if !allowed[x.Fn] {
					viol = fmt.Sprintf("%s: %s %ss %s.%s outside its owners %v (%s)", w.pos(x.Pos), x.Fn, x.Kind, o.typ, f, o.allowed, o.reason)
				}
				// no owner may delete from / re-make an entity cache after construction
				if x.Kind == "delete" && !(o.typ == "MetadataCache" && f == "inProgress") {
					viol = fmt.Sprintf("%s: %s deletes from %s.%s: memoised state is dropped (%s)", w.pos(x.Pos), x.Fn, o.typ, f, o.reason)
				}
				if x.Kind == "assign" && !strings.Contains(x.Fn, ".New") && !(o.typ == "PackagesFacade" && f == "globbedFiles") && !(x.Ins != nil && lazyInitStore(x.Ins)) {
					viol = fmt.Sprintf("%s: %s re-assigns %s.%s after construction (%s)", w.pos(x.Pos), x.Fn, o.typ, f, o.reason)
				}
			}
			if len(ws) == 0 {
				viol = fmt.Sprintf("no write of %s.%s recognised (rule would pass vacuously)", o.typ, f)
			}
			r.add("C19.a", "whowrites", o.typ+"."+f, o.typ+"."+f+" is written only by its owners and never reset ("+o.reason+")", o.allowed, sites, viol)
		}
	}

	// ---- C19.b memoisation guards
	ruleGuarded(c, r, "C19.b", "(*core/visitors/providers.SyncedProvider).GetIdForKey", "allocation-only-when-absent",
		func(ins ssa.Instruction) bool {
			_, ok := ins.(*ssa.MapUpdate)
			return ok
		},
		func(a *sliceAtoms, cnd ssa.Value) bool { return a.hasFieldNamed("keyToImportId") }, false, 1,
		"the same key gets the same serial on every pass")
	checkSharedProvider(c, r, "C19.b")
	// visitors answer from the cache
	for _, g := range []struct{ fn, get, build string }{
		{"(*core/visitors.RouteVisitor).VisitMethod", "(*" + pkgCache + ".MetadataCache).GetReceiver", "(*core/visitors.RouteVisitor).constructRouteMetadata"},
		{"(*core/visitors.EnumVisitor).VisitEnumType", "(*" + pkgCache + ".MetadataCache).GetEnum", "(*core/visitors.EnumVisitor).extractEnumAliasType"},
	} {
		get := g.get
		ruleGuarded(c, r, "C19.b", g.fn, "build-only-on-cache-miss",
			func(ins ssa.Instruction) bool {
				cl, ok := ins.(ssa.CallInstruction)
				return ok && calleeName(cl) == g.build
			},
			func(a *sliceAtoms, cnd ssa.Value) bool {
				for k := range a.Calls {
					if k == get || strings.HasSuffix(k, strings.TrimPrefix(get, "(*"+pkgCache+".MetadataCache)")) {
						return true
					}
				}
				return false
			}, false, 1,
			"an entity already in the metadata cache is returned, not rebuilt")
	}
	ruleGuarded(c, r, "C19.b", "(*core/visitors.TypeDeclVisitor).EnsureDeclMaterialized", "materialise-only-unvisited",
		func(ins ssa.Instruction) bool {
			cl, ok := ins.(ssa.CallInstruction)
			return ok && calleeName(cl) == "(*core/visitors.TypeDeclVisitor).VisitTypeDecl"
		},
		func(a *sliceAtoms, cnd ssa.Value) bool {
			for k := range a.Calls {
				if strings.HasSuffix(k, ".HasVisited") {
					return true
				}
			}
			return false
		}, false, 1,
		"a declaration already visited in this session is not visited again")
	ruleGuarded(c, r, "C19.b", "(*core/arbitrators.PackagesFacade).registerParsedFile", "register-only-once",
		func(ins ssa.Instruction) bool {
			mu, ok := ins.(*ssa.MapUpdate)
			return ok && sliceOf(mu.Map).hasFieldNamed("files")
		},
		func(a *sliceAtoms, cnd ssa.Value) bool { return a.hasFieldNamed("files") }, false, 1,
		"a parsed file is registered once (packageToFiles and the file set do not grow on reload)")
	checkGraphIdempotency(c, r, "C19.b")

	// eviction happens only for a changed file version: RemoveNode has no other caller
	ruleWhoCalls(c, r, "C19.b", nameIs("(*"+pkgSdg+".SymbolGraph).RemoveNode"), "(*graphs/symboldg.SymbolGraph).RemoveNode",
		[]string{"(*" + pkgSdg + ".SymbolGraph).idempotencyGuard", "(*" + pkgSdg + ".SymbolGraph).RemoveNode"}, 2,
		"a node is evicted only by the version-aware guard (and its cascade): an unconditional eviction on re-analysis drops edges that cached visitors never re-create")
	// the session's controllers come from the graph (idempotent), not from a visitor-held list that grows with every visit
	{
		viol := ""
		var sites []string
		for _, cl := range w.callersOf(nameIs("(core/visitors.ControllerVisitor).GetControllers")) {
			fn := fnShort(cl.Parent())
			sites = append(sites, w.pos(cl.Pos()))
			viol = fmt.Sprintf("%s: %s reads ControllerVisitor.GetControllers(): that slice is appended on every visit of a controller, so from the second GenerateGraph of a session on every controller (and its routes) appears once per pass", w.pos(cl.Pos()), fn)
		}
		if fi := need(c, r, "C19.b", "(*core/pipeline.GleecePipeline).getControllers"); fi != nil {
			sites = append(sites, w.pos(fi.Decl.Pos()))
			a := newAtoms()
			for _, ex := range exitsOf(fi.SSA) {
				if ex.Ret != nil && len(ex.Ret.Results) == 1 {
					backSlice(ex.Ret.Results[0], a, map[ssa.Value]bool{}, 0)
				}
			}
			fromGraph := false
			for k := range a.Calls {
				if strings.HasSuffix(k, ".FindByKind") {
					fromGraph = true
				}
			}
			if !fromGraph && viol == "" {
				viol = fmt.Sprintf("%s: the controllers a pass works on are not taken from the symbol graph (FindByKind), the one store that re-analysis leaves unchanged", w.pos(fi.Decl.Pos()))
			}
		}
		r.add("C19.b", "fieldflow", "pipeline.getControllers:from-graph", "the controllers of a pass are the graph's controller nodes, not an accumulating visitor list", []string{"(*core/pipeline.GleecePipeline).getControllers"}, sites, viol)
	}

	// validation and reduction read the session's metadata, they never reorder it in place
	ruleSortInventory(c, r, "C19.b", "core/validators", "core/metadata", "core/pipeline", "core/visitors", "graphs")

	// ---- C19.c an `already cached` error never fails a repeated visit
	checkCacheAddErrors(c, r)

	// ---- C19.d the same files are walked on every pass
	if fi, matched := findMatchedSet(w); fi != nil && matched != nil {
		checkGlobSources(c, r, "C19.d", fi, matched)
	} else {
		r.add("C19.d", "guardedby", "packages-facade:only-glob-matched-files-are-sources", "GetAllSourceFiles yields only glob-matched files on every pass", nil, nil, "the glob-matched set was not found in initWithGlobs")
	}

	// ---- C19.e no package-level state is written during analysis
	ruleGlobalState(c, r, "C19.e", []string{"core/", "common", "gast", "graphs", "definitions"}, map[string]string{},
		"analysis packages keep no package-level mutable state, so a second pass (or a second session in the same process) starts from the session objects only")
}

type stateWrite struct {
	Fn, Kind string
	Pos      token.Pos
	Ins      ssa.Instruction
}

// structStateWrites: assignments to owner.field, and inserts/deletes on the map (or
// appends stored back) held in it, anywhere in the repository.
func (w *World) structStateWrites(owner *types.Named, field string) []stateWrite {
	var out []stateWrite
	if owner == nil {
		return nil
	}
	isField := func(v *types.Var) bool {
		if v == nil || v.Name() != field {
			return false
		}
		own, ok := derefNamedOwner(v, owner)
		return ok && own
	}
	mapOf := func(m ssa.Value) bool {
		for f := range sliceOf(m).Fields {
			if isField(f) {
				return true
			}
		}
		return false
	}
	for _, fn := range w.SSAFuncs {
		if fn.Pkg == nil || !strings.HasPrefix(fn.Pkg.Pkg.Path(), modPath) {
			continue
		}
		allInstrs(fn, false, func(f *ssa.Function, _ *ssa.BasicBlock, _ int, ins ssa.Instruction) {
			switch x := ins.(type) {
			case *ssa.Store:
				if fa, ok := x.Addr.(*ssa.FieldAddr); ok && isField(structFieldVar(fa.X.Type(), fa.Field)) {
					out = append(out, stateWrite{fnShort(f), "assign", x.Pos(), x})
				}
			case *ssa.MapUpdate:
				if mapOf(x.Map) {
					out = append(out, stateWrite{Fn: fnShort(f), Kind: "insert", Pos: x.Pos()})
				}
			case *ssa.Call:
				nm := calleeName(x)
				if nm == "builtin.delete" && len(x.Call.Args) == 2 && mapOf(x.Call.Args[0]) {
					out = append(out, stateWrite{Fn: fnShort(f), Kind: "delete", Pos: x.Pos()})
				}
				if nm == "builtin.clear" && len(x.Call.Args) == 1 && mapOf(x.Call.Args[0]) {
					out = append(out, stateWrite{Fn: fnShort(f), Kind: "delete", Pos: x.Pos()})
				}
				if strings.HasPrefix(nm, "sync/atomic.Add") && len(x.Call.Args) > 0 {
					if fa, ok := x.Call.Args[0].(*ssa.FieldAddr); ok && isField(structFieldVar(fa.X.Type(), fa.Field)) {
						out = append(out, stateWrite{Fn: fnShort(f), Kind: "insert", Pos: x.Pos()})
					}
				}
				if strings.HasPrefix(nm, "sync/atomic.Store") && len(x.Call.Args) > 0 {
					if fa, ok := x.Call.Args[0].(*ssa.FieldAddr); ok && isField(structFieldVar(fa.X.Type(), fa.Field)) {
						out = append(out, stateWrite{Fn: fnShort(f), Kind: "assign", Pos: x.Pos()})
					}
				}
			}
		})
	}
	// composite literals that set the field (constructors) appear as stores too; generic
	// helpers receive the map as a parameter: attribute their inserts through call sites
	for _, fn := range w.SSAFuncs {
		if fn.Pkg == nil || !strings.HasPrefix(fn.Pkg.Pkg.Path(), modPath) {
			continue
		}
		allInstrs(fn, false, func(f *ssa.Function, _ *ssa.BasicBlock, _ int, ins ssa.Instruction) {
			cl, ok := ins.(*ssa.Call)
			if !ok {
				return
			}
			callee := cl.Call.StaticCallee()
			if callee == nil || callee.Pkg == nil || !strings.HasPrefix(callee.Pkg.Pkg.Path(), modPath) {
				return
			}
			for i, a := range cl.Call.Args {
				if _, isMap := a.Type().Underlying().(*types.Map); !isMap || !mapOf(a) || i >= len(callee.Params) {
					continue
				}
				p := callee.Params[i]
				allInstrs(callee, false, func(_ *ssa.Function, _ *ssa.BasicBlock, _ int, in2 ssa.Instruction) {
					switch y := in2.(type) {
					case *ssa.MapUpdate:
						if y.Map == ssa.Value(p) {
							out = append(out, stateWrite{Fn: fnShort(callee), Kind: "insert", Pos: y.Pos()})
						}
					case *ssa.Call:
						if calleeName(y) == "builtin.delete" && y.Call.Args[0] == ssa.Value(p) {
							out = append(out, stateWrite{Fn: fnShort(callee), Kind: "delete", Pos: y.Pos()})
						}
					}
				})
			}
		})
	}
	sort.Slice(out, func(i, j int) bool { return out[i].Pos < out[j].Pos })
	// de-duplicate
	var ded []stateWrite
	for i, x := range out {
		if i > 0 && out[i-1] == x {
			continue
		}
		ded = append(ded, x)
	}
	return ded
}

// findMatchedSet locates the glob-matched file set in initWithGlobs (see checkGlobs).
func findMatchedSet(w *World) (*FuncInfo, ssa.Value) {
	fi := w.fn("(*core/arbitrators.PackagesFacade).initWithGlobs")
	if fi == nil {
		return nil, nil
	}
	var matched ssa.Value
	allInstrs(fi.SSA, false, func(_ *ssa.Function, _ *ssa.BasicBlock, _ int, ins ssa.Instruction) {
		if mu, ok := ins.(*ssa.MapUpdate); ok && sliceOf(mu.Key).Calls["github.com/bmatcuk/doublestar/v4.FilepathGlob"] {
			matched = mu.Map
		}
	})
	return fi, matched
}

// checkCacheAddErrors: MetadataCache.Add* fails with "already exists" for a cached key.
// On a second pass every key is cached, so at each call site that error must not be able
// to fail the visit: it is discarded or only logged, or the call is behind a miss guard.
func checkCacheAddErrors(c *Ctx, r *Report) {
	w := c.W
	// sites whose miss guard lies in a caller: reviewed table
	upstream := map[string]string{
		"(*core/visitors.AliasVisitor).VisitAlias|AddAlias": "reached only through TypeDeclVisitor.EnsureDeclMaterialized after HasVisited == false and StartMaterializing == true (obligation materialise-only-unvisited)",
	}
	var sites []string
	viol := ""
	n := 0
	for _, cl := range w.callersOf(func(nm string) bool {
		return strings.HasPrefix(nm, "(*"+pkgCache+".MetadataCache).Add") || strings.HasPrefix(nm, "(core/metadata.MetaCache).Add")
	}) {
		fn := cl.Parent()
		if fn.Pkg == nil || short(fn.Pkg.Pkg.Path()) == pkgCache {
			continue
		}
		n++
		sites = append(sites, w.pos(cl.Pos()))
		nm := calleeName(cl)
		method := nm[strings.LastIndex(nm, ".")+1:]
		ev := errorResultOf(cl)
		if ev == nil || ev.Referrers() == nil || len(*ev.Referrers()) == 0 {
			continue // discarded
		}
		// does a failure of this call reach a failure exit?
		fails := false
		if okEdges := okEdgesOfCall(cl, -1); len(okEdges) > 0 {
			_, v := w.errPropagatesAt(fn, cl, -1, nm)
			fails = v == "" && errResultIndex(enclosingNamed(fn)) >= 0
			// errPropagatesAt == "" means every failure path fails the function
		} else {
			// handed on untested (returned / wrapped)
			for _, ref := range *ev.Referrers() {
				switch ref.(type) {
				case *ssa.Return, ssa.CallInstruction, *ssa.Phi, *ssa.Store:
					fails = true
				}
			}
		}
		if !fails {
			continue // logged only
		}
		// miss guard inside the function?
		guarded := false
		for _, f := range guardsOf(cl) {
			cnd, _ := unwrapNot(f.Cond, f.Pol)
			for k := range sliceOf(cnd).Calls {
				if strings.Contains(k, "MetadataCache).Get") || strings.Contains(k, "MetadataCache).Has") || strings.Contains(k, "MetaCache).Get") || strings.Contains(k, "MetaCache).Has") {
					guarded = true
				}
			}
		}
		key := fnShort(fn) + "|" + method
		if !guarded {
			if _, ok := upstream[key]; ok {
				sites = append(sites, "table:"+key)
				continue
			}
			viol = fmt.Sprintf("%s: %s turns the metadata cache's `already exists` answer from %s into a failure of the visit, with no cache-miss test in front of it: the second GenerateGraph of a session (every entity is cached by then) fails where the first succeeded", w.pos(cl.Pos()), fnShort(fn), method)
		}
	}
	if n < 5 {
		viol = fmt.Sprintf("only %d MetadataCache.Add* call sites found (floor 5)", n)
	}
	o := r.add("C19.c", "errdrop", "MetadataCache.Add*:already-cached-is-not-a-failure", "an entity that is already cached never fails a repeated visit", keysOf(upstream), sites, viol)
	o.NonTrivial = true
	// the upstream guard of the tabled site is still the only way in
	ruleWhoCalls(c, r, "C19.c", nameIs("(*core/visitors.AliasVisitor).VisitAlias"), "(*core/visitors.AliasVisitor).VisitAlias",
		[]string{"(*core/visitors.TypeDeclVisitor).visitAssignedType", "(*core/visitors.TypeDeclVisitor).VisitTypeDecl"}, 1, "VisitAlias is reached only through the type-declaration visitor")
	ruleWhoCalls(c, r, "C19.c", nameIs("(*core/visitors.TypeDeclVisitor).VisitTypeDecl"), "(*core/visitors.TypeDeclVisitor).VisitTypeDecl",
		[]string{"(*core/visitors.TypeDeclVisitor).EnsureDeclMaterialized"}, 1, "type declarations are visited only behind the materialisation claim")
}

// checkGraphMutationSites: the (function, graph-mutating method) pairs are the reviewed ones.
func checkGraphMutationSites(c *Ctx, r *Report, clause string) {
	w := c.W
	var doc struct {
		Pairs map[string]string `json:"pairs"`
	}
	if b, err := os.ReadFile(filepath.Join(c.VerifDir, "tables", "graphmutations.json")); err != nil || json.Unmarshal(b, &doc) != nil || len(doc.Pairs) < 20 {
		r.undecided(clause, "whocalls", "graph-mutation-sites", "", "tables/graphmutations.json unreadable or too small")
		return
	}
	viol := ""
	var sites []string
	n := 0
	for _, cl := range w.callersOf(func(n string) bool {
		return strings.HasPrefix(n, "(graphs/symboldg.SymbolGraphBuilder).") || strings.HasPrefix(n, "(*graphs/symboldg.SymbolGraph).")
	}) {
		name := calleeName(cl)
		m := name[strings.LastIndex(name, ".")+1:]
		if !(strings.HasPrefix(m, "Add") || strings.HasPrefix(m, "Remove") || strings.HasPrefix(m, "add")) {
			continue
		}
		n++
		sites = append(sites, w.pos(cl.Pos()))
		for _, h := range hostParts(fnShort(cl.Parent())) {
			_, ok := doc.Pairs[h+" -> "+name]
			if !ok {
				// a reviewed helper that made this call and was inlined into h brought its pair with it
				if hfi := w.Funcs[h]; hfi != nil {
					for _, g := range w.vanishedFns() {
						if _, tabled := doc.Pairs[g+" -> "+name]; tabled && w.absorbedInto(g, hfi) {
							ok = true
						}
					}
				}
			}
			if !ok {
				viol = fmt.Sprintf("%s: %s now calls %s: a new place from which the symbol graph is changed (tables/graphmutations.json). Inserting from a path that also runs when the entity is served from the cache makes a second pass add nodes and edges the first pass did not, and removal from a new place can drop what another pass still needs", w.pos(cl.Pos()), h, name)
			}
		}
	}
	if n < 20 {
		viol = fmt.Sprintf("only %d graph-mutating call sites found (floor 20)", n)
	}
	o := r.add(clause, "whocalls", "graph-mutation-sites", "the symbol graph is added to and removed from at the reviewed (function, method) pairs only", []string{"tables/graphmutations.json"}, sites, viol)
	o.NonTrivial = true
}

// checkNoInPlaceWritesToInputs: the metadata the visitors produce is kept in the cache and the
// graph and handed to every later reduction / validation pass by value - but a copied struct
// still shares its slices' backing arrays. Code of the reducing and validating packages must not
// write into a slice it received (through a receiver, a parameter or a field of one): neither
// by index (`in.F[i] = v`) nor by appending to a shortened view of it (`append(in.F[:k], ...)`
// stores into in.F's array). In-place sorts are inventoried separately (sorts.json).
func checkNoInPlaceWritesToInputs(c *Ctx, r *Report, clause string, pkgPrefixes ...string) {
	w := c.W
	viol := ""
	var sites []string
	nFns := 0
	// what is kept between passes: metadata, IR and annotation values (an accumulator of
	// diagnostics or conflicts that is passed in and handed back is the callee's to fill)
	kept := func(t types.Type) bool {
		sl, ok := t.Underlying().(*types.Slice)
		if !ok {
			return false
		}
		et := sl.Elem()
		if p, ok := et.(*types.Pointer); ok {
			et = p.Elem()
		}
		if n, ok := et.(*types.Named); ok && n.Obj().Pkg() != nil {
			switch short(n.Obj().Pkg().Path()) {
			case "core/metadata", "definitions", "core/annotations", "graphs", "gast":
				return true
			}
			return false
		}
		_, basic := et.Underlying().(*types.Basic)
		return basic
	}
	fromInput := func(v ssa.Value) (bool, string) {
		if !kept(v.Type()) {
			return false, ""
		}
		for _, ov := range w.originValues(v) {
			ov = stripTrivial(ov)
			var base ssa.Value
			switch x := ov.(type) {
			case *ssa.UnOp: // load of a field
				if fa, ok := x.X.(*ssa.FieldAddr); ok {
					base = fa.X
				}
			case *ssa.Field:
				base = x.X
			case *ssa.Parameter:
				if _, isSlice := x.Type().Underlying().(*types.Slice); isSlice {
					return true, "parameter " + x.Name()
				}
			}
			for i := 0; base != nil && i < 16; i++ {
				switch b := base.(type) {
				case *ssa.Parameter:
					return true, "a field of " + b.Name()
				case *ssa.FieldAddr:
					base = b.X
				case *ssa.Field:
					base = b.X
				case *ssa.UnOp:
					base = b.X
				case *ssa.IndexAddr: // an element of a slice that was handed in (a range copy shares its slices)
					base = b.X
				case *ssa.Index:
					base = b.X
				case *ssa.Alloc:
					// the spilled receiver / parameter copy
					var src ssa.Value
					if refs := b.Referrers(); refs != nil {
						for _, rf := range *refs {
							if st, ok := rf.(*ssa.Store); ok && st.Addr == ssa.Value(b) {
								src = st.Val
							}
						}
					}
					base = src
				default:
					base = nil
				}
			}
		}
		return false, ""
	}
	for _, fi := range w.funcsOfPkgPrefixes(pkgPrefixes...) {
		if fi.SSA == nil {
			continue
		}
		nFns++
		allInstrsLocal(fi.SSA, true, func(_ *ssa.Function, _ *ssa.BasicBlock, _ int, ins ssa.Instruction) {
			switch x := ins.(type) {
			case *ssa.Store:
				ia, ok := x.Addr.(*ssa.IndexAddr)
				if !ok {
					return
				}
				if _, isSlice := ia.X.Type().Underlying().(*types.Slice); !isSlice {
					return
				}
				if in, what := fromInput(ia.X); in {
					sites = append(sites, w.pos(x.Pos()))
					viol = fmt.Sprintf("%s: %s stores into an element of a slice it was given (%s): the caller's copy - the metadata kept in the cache and the graph - changes with it, so the next pass starts from different data", w.pos(x.Pos()), fi.Key, what)
				}
			case *ssa.Call:
				if calleeName(x) != "builtin.append" || len(x.Call.Args) == 0 {
					return
				}
				// the destination: through the loop phi of `dst = append(dst, ...)` back to where dst started
				var sl *ssa.Slice
				seen := map[ssa.Value]bool{}
				var find func(v ssa.Value, d int)
				find = func(v ssa.Value, d int) {
					v = stripTrivial(v)
					if v == nil || seen[v] || d > 8 || sl != nil {
						return
					}
					seen[v] = true
					switch y := v.(type) {
					case *ssa.Slice:
						sl = y
					case *ssa.Phi:
						for _, e := range y.Edges {
							find(e, d+1)
						}
					case *ssa.Call:
						if calleeName(y) == "builtin.append" && len(y.Call.Args) > 0 {
							find(y.Call.Args[0], d+1)
						}
					}
				}
				find(x.Call.Args[0], 0)
				if sl == nil {
					return
				}
				if _, isSlice := sl.X.Type().Underlying().(*types.Slice); !isSlice {
					return
				}
				if in, what := fromInput(sl.X); in && sl.Max == nil {
					sites = append(sites, w.pos(x.Pos()))
					viol = fmt.Sprintf("%s: %s appends to a shortened view of a slice it was given (%s): append writes into that slice's own array, so the caller's copy - the metadata kept in the cache and the graph - is compacted / overwritten in place and the next pass starts from different data", w.pos(x.Pos()), fi.Key, what)
				}
			}
		})
	}
	if nFns < 50 {
		viol = fmt.Sprintf("only %d functions inspected (floor 50)", nFns)
	}
	if len(sites) == 0 {
		sites = []string{"gleece:0"}
	}
	r.add(clause, "alias-write", "no-in-place-write-to-input-slices:"+strings.Join(pkgPrefixes, ","), "reducers and validators never write into a slice they were handed", pkgPrefixes, sites, viol)
}

// lazyInitStore: `if x.f == nil { x.f = make(...) }` - the field receives a fresh, empty map only
// where a dominating branch found it nil: nothing that was there is dropped.
func lazyInitStore(ins ssa.Instruction) bool {
	st, ok := ins.(*ssa.Store)
	if !ok {
		return false
	}
	fa, ok := st.Addr.(*ssa.FieldAddr)
	if !ok {
		return false
	}
	if _, fresh := stripTrivial(st.Val).(*ssa.MakeMap); !fresh {
		return false
	}
	fld := structFieldVar(fa.X.Type(), fa.Field)
	for _, f := range dominatingFacts(st.Block()) {
		cnd, pol := unwrapNot(f.Cond, f.Pol)
		bo, ok := cnd.(*ssa.BinOp)
		if !ok || !((bo.Op == token.EQL && pol) || (bo.Op == token.NEQ && !pol)) {
			continue
		}
		for _, side := range [][2]ssa.Value{{bo.X, bo.Y}, {bo.Y, bo.X}} {
			if !isNilConst(side[1]) {
				continue
			}
			if ld, ok := stripTrivial(side[0]).(*ssa.UnOp); ok && ld.Op == token.MUL {
				if fa2, ok := ld.X.(*ssa.FieldAddr); ok && structFieldVar(fa2.X.Type(), fa2.Field) == fld && fld != nil {
					return true
				}
			}
		}
	}
	return false
}
