package main

import (
	"encoding/json"
	"fmt"
	"go/ast"
	"go/token"
	"go/types"
	"os"
	"path/filepath"
	"sort"
	"strings"

	"golang.org/x/tools/go/ssa"
)

func init() {
	register("C11", "Static sibling cross-check of the OpenAPI 3.0 and 3.1 emitters (two implementations of one interface): equal read-sets over the IR/config structs, pairwise agreement of every same-named (or mapped) function on the IR fields read and the shared helpers called, arm-by-arm agreement of the two validation converters (rule labels, the schema types each rule applies to, the parse helper and the kind of constraint written), equal guards on where usage-site validation is applied, the shared path rule, and the same inputs handed to both. Differences must be in the reviewed dialect table. Decides agreement of structure, not equality of the serialised documents.", checkC11)
}

var emitterFuncPairs = [][2]string{
	{"createOperation", "createOperation"}, {"createErrorResponse", "createErrorResponse"}, {"createContentWithSchemaRef", "createContentWithSchemaRef"},
	{"createResponseSuccess", "createResponseSuccess"}, {"buildSecurityMethod", "buildSecurityMethod"}, {"generateOperationSecurity", "generateOperationSecurity"},
	{"setNewRouteOperation", "setNewRouteOperation"}, {"handleRouteParamDeprecation", "handleRouteParamDeprecation"}, {"createRouteParam", "createRouteParam"},
	{"createRequestBodyParam", "createRequestBodyParam"}, {"createRequestFormParam", "createRequestFormParam"}, {"generateParams", "generateParams"},
	{"generateControllerSpec", "generateControllerSpec"}, {"GenerateControllersSpec", "GenerateControllersSpec"}, {"GenerateSpec", "GenerateSpec"},
	{"GenerateSecuritySpec", "GenerateSecuritySpec"}, {"GenerateModelsSpec", "GenerateModelsSpec"}, {"generateAliasSpec", "generateAliasSpec"},
	{"generateStructSpec", "generateStructsSpec"}, {"generateEnumSpec", "generateEnumsSpec"}, {"InterfaceToSchemaRef", "InterfaceToSchemaV3"},
}

type dialectTable struct {
	// per function pair key ("createErrorResponse"): elements allowed to appear on one side only
	Only30 map[string]map[string]string `json:"only30"`
	Only31 map[string]map[string]string `json:"only31"`
}

func loadDialect(verifDir string) (*dialectTable, error) {
	b, err := os.ReadFile(filepath.Join(verifDir, "tables", "dialect.json"))
	if err != nil {
		return nil, err
	}
	t := &dialectTable{}
	return t, json.Unmarshal(b, t)
}

// irProfile: the definitions.* fields a function reads and the gleece helpers it calls.
func (w *World) irProfile(fi *FuncInfo, ownPkg string) (fields, calls map[string]string) {
	fields, calls = map[string]string{}, map[string]string{}
	w.irProfileInto(fi.SSA, ownPkg, fields, calls, map[*ssa.Function]bool{}, 0)
	return
}

// siblingPkg: the other emitter's package.
func siblingPkg(ownPkg string) string {
	if strings.HasSuffix(ownPkg, "swagen30") {
		return strings.TrimSuffix(ownPkg, "swagen30") + "swagen31"
	}
	return strings.TrimSuffix(ownPkg, "swagen31") + "swagen30"
}

// hasSiblingFn: the other emitter has a function of that (mapped) name.
func (w *World) hasSiblingFn(ownPkg, name string) bool {
	other := siblingPkg(ownPkg)
	if w.Funcs[other+"."+name] != nil {
		return true
	}
	for a, b := range emitterNameMap {
		if (a == name && w.Funcs[other+"."+b] != nil) || (b == name && w.Funcs[other+"."+a] != nil) {
			return true
		}
	}
	return false
}

func (w *World) irProfileInto(fn *ssa.Function, ownPkg string, fields, calls map[string]string, seen map[*ssa.Function]bool, depth int) {
	if seen[fn] || depth > 4 {
		return
	}
	seen[fn] = true
	allInstrs(fn, true, func(_ *ssa.Function, _ *ssa.BasicBlock, _ int, ins ssa.Instruction) {
		var xt types.Type
		var idx int
		switch x := ins.(type) {
		case *ssa.FieldAddr:
			xt, idx = x.X.Type(), x.Field
		case *ssa.Field:
			xt, idx = x.X.Type(), x.Field
		case ssa.CallInstruction:
			n := calleeName(x)
			if n == "" || !isGleeceCallee(n) {
				return
			}
			if w.newCallee(x) != nil {
				return // a new function: its body is part of this profile already
			}
			// an own helper that the other emitter does not have (there it is written in
			// line): profiled as part of its caller, so that the two shapes compare equal
			if callee := x.Common().StaticCallee(); callee != nil && callee.Blocks != nil && callee.Pkg != nil && short(callee.Pkg.Pkg.Path()) == ownPkg && callee.Signature.Recv() == nil {
				if own := n[strings.LastIndex(n, ".")+1:]; !w.hasSiblingFn(ownPkg, own) {
					w.irProfileInto(callee, ownPkg, fields, calls, seen, depth+1)
					return
				}
			}
			// calls inside the emitter's own package are normalised by bare function name
			base := strings.TrimLeft(n, "(*")
			if strings.HasPrefix(base, ownPkg+".") {
				n = "<emitter>." + strings.TrimPrefix(base, ownPkg+".")
			}
			if strings.HasPrefix(base, "infrastructure/logger.") {
				return
			}
			calls[n] = w.pos(ins.Pos())
			return
		default:
			return
		}
		if nt, ok := derefNamed(xt); ok && nt.Obj().Pkg() != nil && nt.Obj().Pkg().Path() == modPath+"/definitions" {
			if f := structFieldVar(xt, idx); f != nil {
				fields["definitions."+nt.Obj().Name()+"."+f.Name()] = w.pos(ins.Pos())
			}
		}
	})
	return
}

var emitterNameMap = map[string]string{
	"generateStructsSpec": "generateStructSpec", "generateEnumsSpec": "generateEnumSpec", "InterfaceToSchemaV3": "InterfaceToSchemaRef",
	"BuildSchemaValidationV31": "BuildSchemaValidation", "ToOpenApiSchemaV3": "ToOpenApiSchema", "ToOpenApiSchemaRef": "ToOpenApiSchema",
}

func normEmitterCall(n string) string {
	if strings.HasPrefix(n, "<emitter>.") {
		b := strings.TrimPrefix(n, "<emitter>.")
		if m, ok := emitterNameMap[b]; ok {
			b = m
		}
		return "<emitter>." + b
	}
	return n
}

func checkC11(c *Ctx, r *Report) {
	// a scope-less requirement is `[]` in both documents: the two libraries spell a nil list differently (null vs []) (shared with C04.c)
	defer checkScopesNeverNil(c, r, "C11.e")
	defer checkEmbeddingDecision(c, r, "C11.c")
	defer checkSpecTypeSource(c, r, "C11.b")
	w := c.W
	r.NotDecided = append(r.NotDecided, "equality of the serialised documents (two third-party object models marshal them)", "value-level agreement of the type-string to schema mapping")
	r.Assume = append(r.Assume, "functions are paired by name (plus the five renamed pairs listed in the checker); a new emitter function without a sibling is reported")
	dt, err := loadDialect(c.VerifDir)
	if err != nil {
		r.undecided("C11.a", "table", "dialect.json", "", "tables/dialect.json unreadable: "+err.Error())
		return
	}
	p30, p31 := "generator/swagen/swagen30", "generator/swagen/swagen31"

	// ---- C11.c pairwise profiles
	paired30, paired31 := map[string]bool{}, map[string]bool{}
	for _, pr := range emitterFuncPairs {
		f30, f31 := w.fn(p30+"."+pr[0]), w.fn(p31+"."+pr[1])
		key := pr[0]
		if f30 == nil || f31 == nil || f30.SSA == nil || f31.SSA == nil {
			// written in line in one or both emitters: what it did is compared as part of its callers' profiles
			continue
		}
		paired30[pr[0]], paired31[pr[1]] = true, true
		fl30, cl30 := w.irProfile(f30, p30)
		fl31, cl31 := w.irProfile(f31, p31)
		var sites []string
		viol := ""
		cmp := func(kind string, a, b map[string]string, norm func(string) string) {
			na, nb := map[string]string{}, map[string]string{}
			for k, v := range a {
				na[norm(k)] = v
			}
			for k, v := range b {
				nb[norm(k)] = v
			}
			for k, pos := range na {
				sites = append(sites, pos)
				if _, ok := nb[k]; !ok {
					if _, tabled := dt.Only30[key][k]; !tabled {
						viol = fmt.Sprintf("%s: 3.0 %s %s %s but the 3.1 sibling %s does not (not a tabled dialect difference)", pos, pr[0], kind, k, pr[1])
					}
				}
			}
			for k, pos := range nb {
				sites = append(sites, pos)
				if _, ok := na[k]; !ok {
					if _, tabled := dt.Only31[key][k]; !tabled {
						viol = fmt.Sprintf("%s: 3.1 %s %s %s but the 3.0 sibling %s does not (not a tabled dialect difference)", pos, pr[1], kind, k, pr[0])
					}
				}
			}
		}
		cmp("reads", fl30, fl31, func(s string) string { return s })
		cmp("calls", cl30, cl31, normEmitterCall)
		// the siblings set the same schema keywords: a keyword one emitter writes in a function
		// whose sibling does not (a bound added at another layer, a description set on one side
		// only) gives the two documents different constraints for the same declaration
		{
			w30, w31 := w.schemaKeywordWrites(f30), w.schemaKeywordWrites(f31)
			for k, pos := range w30 {
				if _, ok := w31[k]; !ok {
					if _, tabled := dt.Only30[key]["write:"+k]; !tabled {
						viol = fmt.Sprintf("%s: 3.0 %s sets the schema keyword %s, the 3.1 sibling %s does not: the two documents constrain the same declaration differently", pos, pr[0], k, pr[1])
					}
				}
			}
			for k, pos := range w31 {
				if _, ok := w30[k]; !ok {
					if _, tabled := dt.Only31[key]["write:"+k]; !tabled {
						viol = fmt.Sprintf("%s: 3.1 %s sets the schema keyword %s, the 3.0 sibling %s does not: the two documents constrain the same declaration differently", pos, pr[1], k, pr[0])
					}
				}
			}
		}
		// the siblings do their common steps in the same order: where two steps write the same
		// place (components keyed by bare type name, responses keyed by status code) the later
		// one wins, so a different order is a different document
		{
			o30, o31 := w.emitterStepOrder(f30, p30), w.emitterStepOrder(f31, p31)
			pos31 := map[string]int{}
			for i, n := range o31 {
				pos31[n] = i
			}
			// only steps that write the same keyed place are ordered against each other
			sameTarget := map[string]string{
				"<emitter>.generateEnumSpec": "components.schemas", "<emitter>.generateStructSpec": "components.schemas", "<emitter>.generateAliasSpec": "components.schemas",
				"<emitter>.createErrorResponse": "responses", "<emitter>.createResponseSuccess": "responses",
			}
			last, lastName := -1, ""
			for _, n := range o30 {
				j, common := pos31[n]
				if !common || sameTarget[n] == "" {
					continue
				}
				if lastName != "" && sameTarget[lastName] != sameTarget[n] {
					last, lastName = -1, ""
				}
				if j < last {
					if _, tabled := dt.Only30[key]["order:"+lastName+">"+n]; !tabled {
						viol = fmt.Sprintf("%s: 3.0 %s runs %s before %s, the 3.1 sibling %s the other way round: when both write the same entry (a component name, a status code) the documents keep different ones", w.pos(f30.Decl.Pos()), pr[0], lastName, n, pr[1])
					}
				}
				if j > last {
					last, lastName = j, n
				}
			}
		}
		// the siblings skip the same elements: conditions that guard a `continue`/early
		// `return` inside their loops over IR collections, compared as atom sets
		sk30, sk31 := w.loopSkipProfile(f30, p30), w.loopSkipProfile(f31, p31)
		for k, pos := range sk30 {
			sites = append(sites, pos)
			if _, ok := sk31[k]; !ok {
				if _, tabled := dt.Only30[key]["skip:"+k]; !tabled {
					viol = fmt.Sprintf("%s: 3.0 %s skips loop elements under [%s] but the 3.1 sibling %s has no such skip: the two documents then list different members (properties, parameters, routes) for the same project", pos, pr[0], k, pr[1])
				}
			}
		}
		for k, pos := range sk31 {
			sites = append(sites, pos)
			if _, ok := sk30[k]; !ok {
				if _, tabled := dt.Only31[key]["skip:"+k]; !tabled {
					viol = fmt.Sprintf("%s: 3.1 %s skips loop elements under [%s] but the 3.0 sibling %s has no such skip: the two documents then list different members (properties, parameters, routes) for the same project", pos, pr[1], k, pr[0])
				}
			}
		}
		// the siblings decide on the same IR fields: an emitter that makes part of its output
		// conditional on a field the other emits unconditionally (or vice versa) describes the
		// same project differently
		irConds := func(fi *FuncInfo, ownPkg string) map[string]bool {
			out := map[string]bool{}
			// the function, the new functions it uses, and own helpers the other emitter does not
			// have (written in line there)
			fns := w.astRegion(fi)
			seenFn := map[string]bool{}
			for _, f := range fns {
				seenFn[f.Key] = true
			}
			for i := 0; i < len(fns) && i < 12; i++ {
				cur := fns[i]
				if cur.Decl.Body == nil {
					continue
				}
				ast.Inspect(cur.Decl.Body, func(n ast.Node) bool {
					if cl, ok := n.(*ast.CallExpr); ok {
						if name := calleeOfCall(cur.Pkg.TypesInfo, cl); strings.HasPrefix(name, ownPkg+".") && !seenFn[name] {
							if tgt := w.Funcs[name]; tgt != nil && !w.hasSiblingFn(ownPkg, strings.TrimPrefix(name, ownPkg+".")) {
								seenFn[name] = true
								fns = append(fns, tgt)
							}
						}
					}
					return true
				})
			}
			// (the fields written in the conditions themselves, not everything the tested values derive from)
			for _, rf := range fns {
				info := rf.Pkg.TypesInfo
				fd := w.defsOf(rf)
				var collect func(e ast.Expr, depth int)
				collect = func(e ast.Expr, depth int) {
					ast.Inspect(e, func(n ast.Node) bool {
						switch x := n.(type) {
						case *ast.CallExpr:
							// what is handed to a helper is the helper's business (and the same whether
							// its answer is tested directly or through a local that caches it)
							if name := calleeOfCall(info, x); name != "" && !strings.HasPrefix(name, "builtin.") && isGleeceCallee(name) {
								collect(x.Fun, depth)
								return false
							}
						case *ast.SelectorExpr:
							if sel := info.Selections[x]; sel != nil && sel.Kind() == types.FieldVal {
								if q := qualField(info, x); strings.HasPrefix(q, "definitions.") {
									out[q] = true
								}
							}
						case *ast.Ident:
							// a local that merely caches a field read (`contact := config.Info.Contact`)
							if depth < 2 {
								if o, ok := info.ObjectOf(x).(*types.Var); ok && !o.IsField() {
									if ds := fd.defs[o]; len(ds) == 1 {
										if _, isCall := ast.Unparen(ds[0]).(*ast.CallExpr); !isCall {
											collect(ds[0], depth+1)
										}
									}
								}
							}
						}
						return true
					})
				}
				for _, ce := range branchConds(rf) {
					collect(ce, 0)
				}
			}
			return out
		}
		c30, c31 := irConds(f30, p30), irConds(f31, p31)
		for k := range c30 {
			if !c31[k] {
				if _, tabled := dt.Only30[key]["cond:"+k]; !tabled {
					viol = fmt.Sprintf("%s: 3.0 %s branches on %s, the 3.1 sibling %s does not: part of one document is conditional on it while the other emits it unconditionally", w.pos(f30.Decl.Pos()), pr[0], k, pr[1])
				}
			}
		}
		for k := range c31 {
			if !c30[k] {
				if _, tabled := dt.Only31[key]["cond:"+k]; !tabled {
					viol = fmt.Sprintf("%s: 3.1 %s branches on %s, the 3.0 sibling %s does not: part of one document is conditional on it while the other emits it unconditionally", w.pos(f31.Decl.Pos()), pr[1], k, pr[0])
				}
			}
		}
		o := r.add("C11.c", "sibling", "pair:"+key, "3.0 "+pr[0]+" and 3.1 "+pr[1]+" read the same IR fields, branch on the same IR fields and call the same shared helpers (modulo tables/dialect.json)", []string{f30.Key, f31.Key}, sites, viol)
		o.NonTrivial = true
	}
	// no unpaired emitter function that touches the IR
	{
		var sites []string
		viol := ""
		for _, side := range []struct {
			pkg    string
			paired map[string]bool
		}{{p30, paired30}, {p31, paired31}} {
			for _, fi := range w.funcsOfPkg(side.pkg) {
				name := fi.Decl.Name.Name
				if side.paired[name] || fi.Decl.Recv != nil || w.isNewName(fi.Key) {
					continue // (a new function is profiled as part of the functions that call it)
				}
				fl, _ := w.irProfile(fi, side.pkg)
				if len(fl) == 0 {
					continue
				}
				// a helper only one emitter has is profiled as part of the paired functions that call it
				calledFromPaired := false
				for _, cl := range w.callersOf(nameIs(fi.Key)) {
					caller := namedOf(cl.Parent())
					if caller.Pkg != nil && short(caller.Pkg.Pkg.Path()) == side.pkg && (side.paired[caller.Name()] || w.isNewFn(caller)) {
						calledFromPaired = true
					}
				}
				if calledFromPaired && !w.hasSiblingFn(side.pkg, name) {
					continue
				}
				switch name {
				case "BuildSchemaValidation", "BuildSchemaValidationV31", "fillSchemaRef":
					continue
				}
				sites = append(sites, w.pos(fi.Decl.Pos()))
				viol = fmt.Sprintf("%s: emitter function %s reads IR fields but has no sibling in the other emitter (not cross-checked)", w.pos(fi.Decl.Pos()), fi.Key)
			}
		}
		sites = append(sites, p30+":0", p31+":0")
		r.add("C11.c", "sibling", "unpaired-functions", "every emitter function that reads the IR has a cross-checked sibling", []string{p30, p31}, sites, viol)
	}

	// the two emitters resolve a status-code collision between the success response and an
	// @ErrorResponse the same way (registrations overwrite by code: the later one wins)
	{
		f30, f31 := w.fn(p30+".generateControllerSpec"), w.fn(p31+".generateControllerSpec")
		if f30 != nil && f31 != nil && f30.SSA != nil && f31.SSA != nil {
			v := ""
			var ss []string
			order := map[string]string{}
			for _, e := range []struct {
				ver, pkg string
				fi       *FuncInfo
			}{{"3.0", p30, f30}, {"3.1", p31, f31}} {
				s, er := w.responseSetSites(e.fi, e.pkg)
				if s == nil || er == nil {
					v = e.ver + ": success / error response registrations not found"
					continue
				}
				ss = append(ss, w.pos(s.Pos()), w.pos(er.Pos()))
				if before, decided := w.takesEffectBefore(e.fi, s, er); !decided {
					v = e.ver + ": cannot order the success and error response registrations"
				} else if before {
					order[e.ver] = "success first (an error response with the same code replaces it)"
				} else {
					order[e.ver] = "success last (it replaces an error response with the same code)"
				}
			}
			if v == "" && order["3.0"] != order["3.1"] {
				v = fmt.Sprintf("%s: the 3.0 emitter registers %s, the 3.1 emitter %s: for a route whose @ErrorResponse repeats the success code the two documents describe different responses", ss[0], order["3.0"], order["3.1"])
			}
			r.add("C11.c", "sibling", "response-collision-order", "both emitters let the same response win when an error response repeats the success status code", []string{f30.Key, f31.Key}, ss, v)
		}
	}

	// ---- C11.a package-level read-set
	{
		rs := func(pkg string) map[string]string {
			out := map[string]string{}
			for _, fi := range w.funcsOfPkg(pkg) {
				if fi.SSA == nil {
					continue
				}
				fl, _ := w.irProfile(fi, pkg)
				for k, v := range fl {
					out[k] = v
				}
			}
			return out
		}
		a, b := rs(p30), rs(p31)
		var sites []string
		viol := ""
		for k, pos := range a {
			sites = append(sites, pos)
			if _, ok := b[k]; !ok {
				if _, tabled := dt.Only30["<package>"][k]; !tabled {
					viol = fmt.Sprintf("%s: field %s is consulted by the 3.0 emitter only", pos, k)
				}
			}
		}
		for k, pos := range b {
			sites = append(sites, pos)
			if _, ok := a[k]; !ok {
				if _, tabled := dt.Only31["<package>"][k]; !tabled {
					viol = fmt.Sprintf("%s: field %s is consulted by the 3.1 emitter only", pos, k)
				}
			}
		}
		o := r.add("C11.a", "readset", "swagen30==swagen31", "the two emitters consult the same fields of the IR and of the configuration", []string{p30, p31}, sites, viol)
		o.NonTrivial = true
		r.count("ir_fields_read_30", len(a))
		r.count("ir_fields_read_31", len(b))
	}

	// ---- C11.b converters arm by arm
	checkConverters(c, r)

	// ---- C11.d where usage-site validation is applied
	checkValidationSites(c, r)

	// ---- shared path rule (same key for lookup and insertion in both emitters)
	for _, e := range emitters {
		checkPathRule(c, r, "C11.e", e.Ver, e.Pkg+".setNewRouteOperation")
		checkPathItemOwnership(c, r, "C11.e", e.Ver, e.Pkg, e.Pkg+".setNewRouteOperation")
	}

	// ---- C11.f both emitters get the same inputs
	if fi := need(c, r, "C11.f", "generator/swagen.GenerateSpec"); fi != nil {
		viol := ""
		var sites []string
		c30 := callsIn(fi.SSA, false, nameIs(p30+".GenerateSpec"))
		c31 := callsIn(fi.SSA, false, nameIs(p31+".GenerateSpec"))
		if len(c30) != 1 || len(c31) != 1 {
			viol = "expected exactly one call to each emitter's GenerateSpec"
		} else {
			sites = append(sites, w.pos(c30[0].Pos()), w.pos(c31[0].Pos()))
			for i := range c30[0].Common().Args {
				if !sameValue(c30[0].Common().Args[i], c31[0].Common().Args[i]) {
					viol = fmt.Sprintf("%s: argument %d differs between the 3.0 and 3.1 generation calls", w.pos(c31[0].Pos()), i)
				}
			}
		}
		r.add("C11.f", "fieldflow", fi.Key+":same-args", "both emitters receive the same (config, controllers, models)", []string{fi.Key}, sites, viol)
	}

	// every element filter in the emitters is a reviewed one
	ruleSkipInventory(c, r, "C11.c", loadSkipTable(c.VerifDir), 6, "generator/swagen")
}

// ---------------------------------------------------------------------------
// converters

type convArm struct {
	Label  string
	Branch string // sorted specType literals of the guarding condition, "" = unguarded part of the case
	Parse  []string
	Target []string
	Pos    token.Pos
}

var targetKind = map[string]string{
	"Format": "format", "Min": "minimum", "Minimum": "minimum", "ExclusiveMin": "minimum", "ExclusiveMinimum": "minimum",
	"Max": "maximum", "Maximum": "maximum", "ExclusiveMax": "maximum", "ExclusiveMaximum": "maximum",
	"MinLength": "minLength", "MaxLength": "maxLength", "Pattern": "pattern", "MinItems": "minItems", "MaxItems": "maxItems",
	"UniqueItems": "uniqueItems", "Enum": "enum",
}

var parseKind = map[string]string{
	"generator/swagen/swagtool.ParseNumber": "number", "generator/swagen/swagtool.ParseInteger": "length-int", "generator/swagen/swagtool.ParseUInteger": "length-int",
	"generator/swagen/swagtool.ParseBool": "bool", "strconv.ParseInt": "int-literal", "strconv.ParseFloat": "float-literal",
}

func (w *World) converterArms(fi *FuncInfo) []convArm {
	info := fi.Pkg.TypesInfo
	var out []convArm
	var sw *ast.SwitchStmt
	// isSpecType: the expression is the OpenAPI type of the validated value (ToOpenApiType(...)), whatever it is called
	isSpecType := func(e ast.Expr) bool {
		id, ok := ast.Unparen(e).(*ast.Ident)
		if !ok {
			return false
		}
		// (exprAtoms looks through the parameters of new functions to what their call sites pass)
		return id.Name == "specType" || w.exprAtoms(fi, id).Calls["generator/swagen/swagtool.ToOpenApiType"]
	}
	w.inspectRegion(fi, func(n ast.Node) bool {
		if s, ok := n.(*ast.SwitchStmt); ok && sw == nil && s.Tag != nil {
			// the dispatch on the rule name: the first switch whose case labels are validator rule names
			if exprString(s.Tag) == "ruleName" {
				sw = s
			} else if t := info.TypeOf(s.Tag); t != nil && t.String() == "string" && !isSpecType(s.Tag) && len(s.Body.List) >= 10 {
				sw = s
			}
		}
		return true
	})
	if sw == nil {
		return nil
	}
	var collectIn func(info *types.Info, n ast.Node, arm *convArm, busy map[string]bool)
	collect := func(n ast.Node, arm *convArm) { collectIn(info, n, arm, map[string]bool{}) }
	collectIn = func(info *types.Info, n ast.Node, arm *convArm, busy map[string]bool) {
		ast.Inspect(n, func(m ast.Node) bool {
			switch x := m.(type) {
			case *ast.CallExpr:
				cn := calleeOfCall(info, x)
				if k, ok := parseKind[cn]; ok {
					arm.Parse = append(arm.Parse, k)
				} else if w.isNewName(cn) {
					// a new helper: what it parses and sets is what the arm does
					if h := w.Funcs[cn]; h != nil && h.Decl.Body != nil && !busy[cn] {
						busy[cn] = true
						collectIn(h.Pkg.TypesInfo, h.Decl.Body, arm, busy)
					}
				} else if isGleeceCallee(cn) && !strings.Contains(cn, "logger") {
					arm.Parse = append(arm.Parse, "call:"+cn)
				}
				// a new function handed over as a value (the accept-predicate of a shared loop): what it
				// parses is what the arm parses
				for _, a := range x.Args {
					if id, ok := ast.Unparen(a).(*ast.Ident); ok {
						if f, ok := info.Uses[id].(*types.Func); ok {
							if nm := shortFuncName(f); w.isNewName(nm) && !busy[nm] {
								if h := w.Funcs[nm]; h != nil && h.Decl.Body != nil {
									busy[nm] = true
									collectIn(h.Pkg.TypesInfo, h.Decl.Body, arm, busy)
								}
							}
						}
					}
				}
			case *ast.AssignStmt:
				for _, l := range x.Lhs {
					if se, ok := l.(*ast.SelectorExpr); ok {
						if k, ok := targetKind[se.Sel.Name]; ok {
							arm.Target = append(arm.Target, k)
						} else if strings.HasPrefix(exprString(se), "schema") {
							arm.Target = append(arm.Target, "field:"+se.Sel.Name)
						}
					}
				}
			}
			return true
		})
	}
	fdefs := w.defsOf(fi)
	var specLitsRec func(cond ast.Expr, depth int) []string
	specLitsRec = func(cond ast.Expr, depth int) []string {
		var lits []string
		ast.Inspect(cond, func(m ast.Node) bool {
			switch x := m.(type) {
			case *ast.BinaryExpr:
				if x.Op == token.EQL && isSpecType(x.X) {
					lits = append(lits, litString(x.Y))
				}
			case *ast.CallExpr:
				// a new predicate over the spec type, asked directly in the condition
				if depth < 2 {
					if name := calleeOfCall(info, x); name != "" && w.isNewName(name) {
						for _, re := range resultExprs(w.Funcs[name], 0) {
							lits = append(lits, specLitsRec(re, depth+1)...)
						}
						return false
					}
				}
			case *ast.Ident:
				// a boolean local computed once from the spec type (`isNumeric := specType == … || …`)
				if depth < 2 {
					if o, ok := info.ObjectOf(x).(*types.Var); ok && !o.IsField() {
						if b, isB := o.Type().Underlying().(*types.Basic); isB && b.Kind() == types.Bool {
							if ds := fdefs.defs[o]; len(ds) == 1 {
								if call, isCall := ast.Unparen(ds[0]).(*ast.CallExpr); isCall {
									// ... or by a new predicate over the spec type
									if name := calleeOfCall(info, call); name != "" && w.isNewName(name) {
										for _, re := range resultExprs(w.Funcs[name], 0) {
											lits = append(lits, specLitsRec(re, depth+1)...)
										}
									}
								} else {
									lits = append(lits, specLitsRec(ds[0], depth+1)...)
								}
							}
						}
					}
				}
			}
			return true
		})
		return lits
	}
	specLits := func(cond ast.Expr) []string {
		lits := dedupSortedPlain(specLitsRec(cond, 0))
		sort.Strings(lits)
		return lits
	}
	for _, cc := range sw.Body.List {
		cl := cc.(*ast.CaseClause)
		var labels []string
		for _, l := range cl.List {
			if tv := info.Types[l]; tv.Value != nil {
				labels = append(labels, constString(tv.Value))
			}
		}
		// walk the statements of the case: if-chains on specType define branches
		var arms []convArm
		unguarded := convArm{Branch: "", Pos: cl.Pos()}
		var walkStmts func(stmts []ast.Stmt)
		walkStmts = func(stmts []ast.Stmt) {
			for _, st := range stmts {
				switch s := st.(type) {
				case *ast.IfStmt:
					lits := specLits(s.Cond)
					if len(lits) == 0 {
						collect(s, &unguarded)
						continue
					}
					cur := s
					for cur != nil {
						lits := specLits(cur.Cond)
						a := convArm{Branch: strings.Join(lits, "|"), Pos: cur.Pos()}
						collect(cur.Body, &a)
						arms = append(arms, a)
						switch e := cur.Else.(type) {
						case *ast.IfStmt:
							cur = e
						default:
							cur = nil
						}
					}
				case *ast.SwitchStmt:
					if s.Tag != nil && isSpecType(s.Tag) {
						for _, icc := range s.Body.List {
							icl := icc.(*ast.CaseClause)
							var ls []string
							for _, l := range icl.List {
								ls = append(ls, litString(l))
							}
							sort.Strings(ls)
							a := convArm{Branch: strings.Join(ls, "|"), Pos: icl.Pos()}
							if icl.List == nil {
								a.Branch = "<default>"
							}
							for _, b := range icl.Body {
								collect(b, &a)
							}
							arms = append(arms, a)
						}
					} else if s.Tag == nil {
						// tagless switch: an if / else-if chain written as cases
						for _, icc := range s.Body.List {
							icl := icc.(*ast.CaseClause)
							if icl.List == nil {
								continue // (like the final else of a chain)
							}
							var ls []string
							for _, ce := range icl.List {
								ls = append(ls, specLits(ce)...)
							}
							ls = dedupSortedPlain(ls)
							sort.Strings(ls)
							if len(ls) == 0 {
								for _, b := range icl.Body {
									collect(b, &unguarded)
								}
								continue
							}
							a := convArm{Branch: strings.Join(ls, "|"), Pos: icl.Pos()}
							for _, b := range icl.Body {
								collect(b, &a)
							}
							arms = append(arms, a)
						}
					} else {
						collect(s, &unguarded)
					}
				default:
					collect(st, &unguarded)
				}
			}
		}
		walkStmts(cl.Body)
		for _, lab := range labels {
			for _, a := range arms {
				a2 := a
				a2.Label = lab
				a2.Parse = dedupSortedPlain(append(append([]string{}, a.Parse...), unguarded.Parse...))
				a2.Target = dedupSortedPlain(append(append([]string{}, a.Target...), unguarded.Target...))
				out = append(out, a2)
			}
			if len(arms) == 0 {
				u := unguarded
				u.Label = lab
				u.Parse, u.Target = dedupSortedPlain(u.Parse), dedupSortedPlain(u.Target)
				out = append(out, u)
			}
		}
	}
	return out
}

func dedupSortedPlain(in []string) []string {
	m := map[string]bool{}
	var out []string
	for _, s := range in {
		if !m[s] {
			m[s] = true
			out = append(out, s)
		}
	}
	sort.Strings(out)
	return out
}

func checkConverters(c *Ctx, r *Report) {
	w := c.W
	f30 := need(c, r, "C11.b", "generator/swagen/swagen30.BuildSchemaValidation")
	f31 := need(c, r, "C11.b", "generator/swagen/swagen31.BuildSchemaValidationV31")
	if f30 == nil || f31 == nil {
		return
	}
	a30, a31 := w.converterArms(f30), w.converterArms(f31)
	idx := func(arms []convArm) map[string]convArm {
		m := map[string]convArm{}
		for _, a := range arms {
			m[a.Label+"@"+a.Branch] = a
		}
		return m
	}
	m30, m31 := idx(a30), idx(a31)
	if len(m30) < 20 || len(m31) < 20 {
		r.undecided("C11.b", "sibling", "converters", "", fmt.Sprintf("converter arms not recognised (3.0: %d, 3.1: %d)", len(m30), len(m31)))
		return
	}
	labels := func(m map[string]convArm) []string {
		s := map[string]bool{}
		for _, a := range m {
			s[a.Label] = true
		}
		var out []string
		for k := range s {
			out = append(out, k)
		}
		sort.Strings(out)
		return out
	}
	ruleSetEqual(c, r, "C11.b", "converter-rule-labels", "both converters understand the same validator rule names", "BuildSchemaValidation cases", labels(m30), "BuildSchemaValidationV31 cases", labels(m31), []string{w.pos(f30.Decl.Pos()), w.pos(f31.Decl.Pos())})
	keysU := map[string]bool{}
	for k := range m30 {
		keysU[k] = true
	}
	for k := range m31 {
		keysU[k] = true
	}
	var ks []string
	for k := range keysU {
		ks = append(ks, k)
	}
	sort.Strings(ks)
	for _, k := range ks {
		x, ok30 := m30[k]
		y, ok31 := m31[k]
		viol := ""
		var sites []string
		switch {
		case !ok30:
			sites = append(sites, w.pos(y.Pos))
			viol = fmt.Sprintf("%s: rule/type arm %s exists only in the 3.1 converter", w.pos(y.Pos), k)
		case !ok31:
			sites = append(sites, w.pos(x.Pos))
			viol = fmt.Sprintf("%s: rule/type arm %s exists only in the 3.0 converter", w.pos(x.Pos), k)
		default:
			sites = append(sites, w.pos(x.Pos), w.pos(y.Pos))
			if strings.Join(x.Parse, ",") != strings.Join(y.Parse, ",") {
				viol = fmt.Sprintf("%s: arm %s parses its value differently: 3.0 %v vs 3.1 %v (bounds accepted by one dialect are dropped by the other)", w.pos(y.Pos), k, x.Parse, y.Parse)
			}
			if strings.Join(x.Target, ",") != strings.Join(y.Target, ",") {
				viol = fmt.Sprintf("%s: arm %s writes a different kind of constraint: 3.0 %v vs 3.1 %v", w.pos(y.Pos), k, x.Target, y.Target)
			}
		}
		o := r.add("C11.b", "sibling", "converter-arm:"+k, "rule "+k+": same schema types, same parse helper, same kind of constraint in both dialects", []string{f30.Key, f31.Key}, sites, viol)
		o.NonTrivial = true
	}
	r.count("converter_arms_30", len(m30))
	r.count("converter_arms_31", len(m31))
	checkParseHelpersAgree(c, r, "C11.b")
}

// checkParseHelpersAgree: the shared helpers the two converters parse rule values with read
// numbers the same way - plain decimal, 64 bit. The 3.0 converter reads lengths with
// ParseUInteger, the 3.1 one with ParseInteger: a helper that starts to accept other notations
// (base 0: hex, octal, underscores) makes one dialect keep a bound the other drops.
func checkParseHelpersAgree(c *Ctx, r *Report, clause string) {
	w := c.W
	viol := ""
	var sites []string
	n := 0
	for _, name := range []string{"ParseNumber", "ParseInteger", "ParseUInteger", "ParseBool"} {
		fi := need(c, r, clause, "generator/swagen/swagtool."+name)
		if fi == nil {
			continue
		}
		for _, cl := range callsIn(fi.SSA, true, func(n string) bool { return strings.HasPrefix(n, "strconv.Parse") }) {
			n++
			sites = append(sites, w.pos(cl.Pos()))
			args := cl.Common().Args
			want := map[string][]string{"strconv.ParseInt": {"", "10", "64"}, "strconv.ParseUint": {"", "10", "64"}, "strconv.ParseFloat": {"", "64"}, "strconv.ParseBool": {""}}[calleeName(cl)]
			if want == nil {
				viol = fmt.Sprintf("%s: %s parses with %s, which the sibling comparison does not know", w.pos(cl.Pos()), fi.Key, calleeName(cl))
				continue
			}
			for i, wv := range want {
				if wv == "" || i >= len(args) {
					continue
				}
				k, isK := args[i].(*ssa.Const)
				if !isK || k.Value == nil || k.Value.ExactString() != wv {
					viol = fmt.Sprintf("%s: %s calls %s with argument #%d = %s instead of %s: it accepts other notations (or another width) than the helper the other dialect uses for the same rule, so a bound is kept in one document and dropped in the other", w.pos(cl.Pos()), fi.Key, calleeName(cl), i, args[i], wv)
				}
			}
		}
	}
	if n < 4 {
		viol = fmt.Sprintf("expected the four strconv calls of the swagtool parse helpers, found %d", n)
	}
	r.add(clause, "sibling", "parse-helpers:decimal-64bit", "ParseNumber / ParseInteger / ParseUInteger / ParseBool read rule values in plain decimal, 64 bit: interchangeable between the dialects", []string{"generator/swagen/swagtool"}, sites, viol)
}

// checkValidationSites (C11.d): the usage-site converter is applied under the same guards
// in both emitters; in particular "not to $ref schemas".
func checkValidationSites(c *Ctx, r *Report) {
	w := c.W
	type siteInfo struct {
		fn      string
		guarded bool
		pos     string
	}
	collect := func(pkg, conv string, refGuard func(a *sliceAtoms, cnd ssa.Value, pol bool) bool) map[string]siteInfo {
		out := map[string]siteInfo{}
		for _, fi := range w.funcsOfPkg(pkg) {
			if fi.SSA == nil || w.isNewName(fi.Key) {
				continue // (a new function's sites are seen from the functions that call it)
			}
			for _, cl := range callsIn(fi.SSA, true, nameIs(pkg+"."+conv)) {
				g := false
				for _, f := range guardsOf(cl.(ssa.Instruction)) {
					cnd, pol := unwrapNot(f.Cond, f.Pol)
					if refGuard(sliceOf(cnd), cnd, pol) {
						g = true
					}
				}
				name := fi.Decl.Name.Name
				if m, ok := emitterNameMap[name]; ok {
					name = m
				}
				out[name] = siteInfo{fn: fi.Key, guarded: g, pos: w.pos(cl.Pos())}
			}
		}
		return out
	}
	refEmpty := func(a *sliceAtoms, cnd ssa.Value, pol bool) bool {
		// <ref>.Ref == "" holds
		bo, ok := cnd.(*ssa.BinOp)
		return ok && a.hasFieldNamed("Ref") && ((bo.Op == token.EQL && pol) || (bo.Op == token.NEQ && !pol))
	}
	s30 := collect("generator/swagen/swagen30", "BuildSchemaValidation", refEmpty)
	// "guard lives in the callee": if every write through the schema parameter inside
	// BuildSchemaValidation is dominated by schema.Ref == "", all its call sites are guarded.
	if fi := w.fn("generator/swagen/swagen30.BuildSchemaValidation"); fi != nil && fi.SSA != nil {
		all, n := true, 0
		allInstrs(fi.SSA, true, func(_ *ssa.Function, _ *ssa.BasicBlock, _ int, ins ssa.Instruction) {
			st, ok := ins.(*ssa.Store)
			if !ok {
				return
			}
			if _, isFA := st.Addr.(*ssa.FieldAddr); !isFA {
				return
			}
			root, _ := addrRoot(st.Addr)
			if a := sliceOf(root); len(a.Params) == 0 {
				return
			}
			n++
			g := false
			for _, f := range dominatingFacts(st.Block()) {
				cnd, pol := unwrapNot(f.Cond, f.Pol)
				if refEmpty(sliceOf(cnd), cnd, pol) {
					g = true
				}
			}
			if !g {
				all = false
			}
		})
		if all && n > 0 {
			for k, v := range s30 {
				v.guarded = true
				s30[k] = v
			}
		}
	}
	s31 := collect("generator/swagen/swagen31", "BuildSchemaValidationV31", func(a *sliceAtoms, cnd ssa.Value, pol bool) bool {
		if a.Calls["(*"+pkgHBase+".SchemaProxy).IsReference"] && !pol {
			return true
		}
		// proxy.Schema() != nil: libopenapi's CreateSchemaProxyRef proxies have no inline schema
		// (SchemaProxy.Schema() returns nil for them), so this is the same 'not a $ref' guard
		if bo, ok := cnd.(*ssa.BinOp); ok && a.Calls["(*"+pkgHBase+".SchemaProxy).Schema"] && (isNilConst(bo.X) || isNilConst(bo.Y)) {
			return (bo.Op == token.NEQ && pol) || (bo.Op == token.EQL && !pol)
		}
		return false
	})
	// guard in the callee: every write through the schema parameter of the 3.1 converter is
	// dominated by schema != nil, and a $ref proxy hands in nil
	if fi := w.fn("generator/swagen/swagen31.BuildSchemaValidationV31"); fi != nil && fi.SSA != nil && len(fi.SSA.Params) > 0 {
		sp := fi.SSA.Params[0]
		all, n := true, 0
		allInstrs(fi.SSA, true, func(_ *ssa.Function, _ *ssa.BasicBlock, _ int, ins ssa.Instruction) {
			st, ok := ins.(*ssa.Store)
			if !ok {
				return
			}
			root, _ := addrRoot(st.Addr)
			if root != ssa.Value(sp) {
				return
			}
			n++
			if !knownNonNil(sp, st.Block()) {
				all = false
			}
		})
		if all && n > 0 {
			for k, v := range s31 {
				v.guarded = true
				s31[k] = v
			}
		}
	}
	names := map[string]bool{}
	for k := range s30 {
		names[k] = true
	}
	for k := range s31 {
		names[k] = true
	}
	var ks []string
	for k := range names {
		ks = append(ks, k)
	}
	sort.Strings(ks)
	for _, k := range ks {
		a, ok30 := s30[k]
		b, ok31 := s31[k]
		viol := ""
		var sites []string
		switch {
		case !ok30:
			sites = append(sites, b.pos)
			viol = fmt.Sprintf("%s: only the 3.1 emitter applies the validation converter in %s", b.pos, k)
		case !ok31:
			sites = append(sites, a.pos)
			viol = fmt.Sprintf("%s: only the 3.0 emitter applies the validation converter in %s", a.pos, k)
		default:
			sites = append(sites, a.pos, b.pos)
			if a.guarded != b.guarded {
				viol = fmt.Sprintf("%s: in %s the 3.0 emitter applies usage-site validators %s and the 3.1 emitter %s: a validator on a field/parameter of a named (referenced) type constrains the documents differently", a.pos, k, guardWord(a.guarded), guardWord(b.guarded))
			}
		}
		o := r.add("C11.d", "sibling", "validation-site:"+k, "usage-site validation in "+k+" is applied under the same 'is a $ref' guard in both emitters", []string{a.fn, b.fn}, sites, viol)
		o.NonTrivial = true
	}
}

func guardWord(g bool) string {
	if g {
		return "only to inline (non-$ref) schemas"
	}
	return "also to $ref schemas"
}

// loopSkipProfile: for every `continue` inside a range loop of fi, the condition of the
// innermost enclosing if, rendered as a sorted atom list (IR fields, helper calls with the
// emitter package normalised, literals, operators). Key -> position.
func (w *World) loopSkipProfile(fi *FuncInfo, ownPkg string) map[string]string {
	out := map[string]string{}
	for _, f := range w.astRegion(fi) {
		for k, v := range w.loopSkipProfileLocal(f, ownPkg) {
			out[k] = v
		}
	}
	return out
}

func (w *World) loopSkipProfileLocal(fi *FuncInfo, ownPkg string) map[string]string {
	out := map[string]string{}
	// a skip is a block that does nothing but `continue` (and log): a `continue` that ends a
	// block with other effects is a dispatch (the element was handled another way), not a skip
	pure := map[*ast.BranchStmt]bool{}
	added := map[*ast.BranchStmt][]ast.Expr{}
	w.inspectRegion(fi, func(n ast.Node) bool {
		b, ok := n.(*ast.BlockStmt)
		if !ok || len(b.List) == 0 {
			return true
		}
		// (a dummy enclosing condition: the walk below supplies the real ones)
		if sk := contSkipOf(fi.Pkg.TypesInfo, b, &ast.Ident{Name: "_"}); sk != nil {
			pure[sk.Br] = true
			added[sk.Br] = sk.Added
		}
		return true
	})
	var walk func(n ast.Node, inLoop bool, conds []ast.Expr)
	walk = func(n ast.Node, inLoop bool, conds []ast.Expr) {
		switch x := n.(type) {
		case nil:
			return
		case *ast.FuncLit:
			return
		case *ast.RangeStmt:
			walk(x.Body, true, nil)
			return
		case *ast.ForStmt:
			walk(x.Body, true, nil)
			return
		case *ast.IfStmt:
			if x.Init != nil {
				walk(x.Init, inLoop, conds)
			}
			walk(x.Body, inLoop, append(append([]ast.Expr{}, conds...), x.Cond))
			if x.Else != nil {
				walk(x.Else, inLoop, append(append([]ast.Expr{}, conds...), &ast.UnaryExpr{Op: token.NOT, X: x.Cond}))
			}
			return
		case *ast.BranchStmt:
			if x.Tok == token.CONTINUE && inLoop && len(conds)+len(added[x]) > 0 && pure[x] {
				var parts []string
				for _, cnd := range append(append([]ast.Expr{}, conds...), added[x]...) {
					a := w.exprAtoms(fi, cnd)
					var ks []string
					for f := range a.Fields {
						ks = append(ks, f)
					}
					for cl := range a.Calls {
						base := strings.TrimLeft(strings.TrimPrefix(cl, "inlined:"), "(*")
						if strings.HasPrefix(base, "infrastructure/logger.") {
							continue
						}
						if strings.HasPrefix(base, ownPkg+".") {
							base = normEmitterCall("<emitter>." + strings.TrimPrefix(base, ownPkg+"."))
						}
						ks = append(ks, "call:"+base)
					}
					for l := range a.Lits {
						ks = append(ks, "lit:"+l)
					}
					sort.Strings(ks)
					parts = append(parts, ks...)
				}
				// (`if a { if b { continue } }` and `if a && b { continue }` are one skip: the atoms of the
				// whole conjunction, as a set)
				parts = dedupSortedPlain(parts)
				sort.Strings(parts)
				out[strings.Join(parts, ",")] = w.pos(x.Pos())
			}
			return
		case *ast.BlockStmt:
			for _, st := range x.List {
				walk(st, inLoop, conds)
			}
			return
		case *ast.SwitchStmt:
			walk(x.Body, inLoop, conds)
			return
		case *ast.TypeSwitchStmt:
			walk(x.Body, inLoop, conds)
			return
		case *ast.CaseClause:
			for _, st := range x.Body {
				walk(st, inLoop, conds)
			}
			return
		case *ast.LabeledStmt:
			walk(x.Stmt, inLoop, conds)
			return
		}
	}
	walk(fi.Decl.Body, false, nil)
	return out
}

// emitterStepOrder: the emitter-package functions fi calls (by sibling-normalised name), in
// source order of their first call; calls inside new helpers count where the helper is called.
func (w *World) emitterStepOrder(fi *FuncInfo, ownPkg string) []string {
	type step struct {
		pos  token.Pos
		name string
	}
	var steps []step
	seen := map[string]bool{}
	for _, rf := range w.astRegion(fi) {
		rf := rf
		if rf.Decl.Body == nil {
			continue
		}
		ast.Inspect(rf.Decl.Body, func(n ast.Node) bool {
			cl, ok := n.(*ast.CallExpr)
			if !ok {
				return true
			}
			name := calleeOfCall(rf.Pkg.TypesInfo, cl)
			if !strings.HasPrefix(name, ownPkg+".") || w.isNewName(name) {
				return true
			}
			nn := normEmitterCall("<emitter>." + strings.TrimPrefix(name, ownPkg+"."))
			if seen[nn] {
				return true
			}
			seen[nn] = true
			p := w.hostPos(fi, cl)
			if !p.IsValid() {
				p = cl.Pos()
			}
			steps = append(steps, step{p, nn})
			return true
		})
	}
	sort.Slice(steps, func(i, j int) bool { return steps[i].pos < steps[j].pos })
	out := make([]string, len(steps))
	for i, st := range steps {
		out[i] = st.name
	}
	return out
}

// schemaKeywordWrites: the keywords of an OpenAPI schema object (kin-openapi Schema, libopenapi
// base.Schema) that fi - with the new helpers it calls - assigns, by dialect-neutral name.
func (w *World) schemaKeywordWrites(fi *FuncInfo) map[string]string {
	out := map[string]string{}
	for _, rf := range w.astRegion(fi) {
		rf := rf
		if rf.Decl.Body == nil {
			continue
		}
		info := rf.Pkg.TypesInfo
		isSchema := func(e ast.Expr) bool {
			t := info.TypeOf(e)
			if t == nil {
				return false
			}
			ts := types.TypeString(t, nil)
			return strings.HasSuffix(ts, "openapi3.Schema") || strings.HasSuffix(ts, "high/base.Schema")
		}
		record := func(name string, pos token.Pos) {
			// constraint and annotation keywords only: containers (properties, allOf, items, required)
			// are built differently by the two object models
			k := ""
			if m, ok := targetKind[name]; ok {
				k = m
			} else if name == "Description" || name == "Deprecated" || name == "Nullable" || name == "Default" || name == "Example" || name == "ReadOnly" || name == "WriteOnly" {
				k = strings.ToLower(name)
			} else {
				return
			}
			if _, seen := out[k]; !seen {
				out[k] = w.pos(pos)
			}
		}
		ast.Inspect(rf.Decl.Body, func(n ast.Node) bool {
			switch x := n.(type) {
			case *ast.AssignStmt:
				for _, l := range x.Lhs {
					if se, ok := l.(*ast.SelectorExpr); ok && isSchema(se.X) {
						record(se.Sel.Name, se.Pos())
					}
				}
			case *ast.CompositeLit:
				if isSchema(x) || (func() bool {
					t := info.TypeOf(x)
					return t != nil && (strings.HasSuffix(types.TypeString(t, nil), "openapi3.Schema") || strings.HasSuffix(types.TypeString(t, nil), "high/base.Schema"))
				})() {
					for _, el := range x.Elts {
						if kv, ok := el.(*ast.KeyValueExpr); ok {
							if id, ok := kv.Key.(*ast.Ident); ok {
								record(id.Name, kv.Pos())
							}
						}
					}
				}
			}
			return true
		})
	}
	return out
}

// checkSpecTypeSource: both validation converters decide which keywords a rule may set by the
// OpenAPI type of the *Go type* (swagtool.ToOpenApiType(fieldInterface)) - the same question,
// asked the same way, in both dialects. Asking the schema under construction instead (its `type`
// may be "string" for []byte or time.Time, or absent behind a $ref) makes the two documents apply
// different keywords to the same field.
func checkSpecTypeSource(c *Ctx, r *Report, clause string) {
	w := c.W
	specLits := map[string]bool{"\"string\"": true, "\"integer\"": true, "\"number\"": true, "\"boolean\"": true, "\"array\"": true, "\"object\"": true}
	for _, fk := range []string{"generator/swagen/swagen30.BuildSchemaValidation", "generator/swagen/swagen31.BuildSchemaValidationV31"} {
		fi := need(c, r, clause, fk)
		if fi == nil {
			continue
		}
		viol := ""
		var sites []string
		n := 0
		for _, rf := range w.astRegion(fi) {
			info := rf.Pkg.TypesInfo
			ast.Inspect(rf.Decl, func(nd ast.Node) bool {
				be, ok := nd.(*ast.BinaryExpr)
				if !ok || (be.Op != token.EQL && be.Op != token.NEQ) {
					return true
				}
				var subj ast.Expr
				if bl, ok := ast.Unparen(be.Y).(*ast.BasicLit); ok && specLits[bl.Value] {
					subj = be.X
				} else if bl, ok := ast.Unparen(be.X).(*ast.BasicLit); ok && specLits[bl.Value] {
					subj = be.Y
				}
				if subj == nil {
					return true
				}
				if t := info.TypeOf(subj); t == nil || t.String() != "string" {
					return true
				}
				var a *Atoms
				w.withHost(fi.Key, func() { a = w.exprAtoms(rf, subj) })
				if !a.hasCall("generator/swagen/swagtool.ToOpenApiType") && len(a.Fields) == 0 && len(a.Calls) == 0 {
					return true // a plain string parameter compared with a literal elsewhere (rule names etc.)
				}
				n++
				sites = append(sites, w.pos(be.Pos()))
				if !a.hasCall("generator/swagen/swagtool.ToOpenApiType") || len(a.Fields) > 0 {
					viol = fmt.Sprintf("%s: %s matches a validation rule against a type that is not (only) swagtool.ToOpenApiType(<Go type>) (%s): the other dialect asks the Go type, so the same field gets different keywords in the two documents", w.pos(be.Pos()), fk, a)
				}
				return true
			})
		}
		if n < 3 {
			viol = fmt.Sprintf("only %d comparisons of the spec type with a type literal found in %s (floor 3)", n, fk)
		}
		r.add(clause, "sibling", fk+":spec-type-source", "the type a rule is matched against is ToOpenApiType(Go type) in both dialects", []string{fk}, sites, viol)
	}
}
