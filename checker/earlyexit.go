package main

import (
	"encoding/json"
	"fmt"
	"go/ast"
	"go/constant"
	"go/token"
	"go/types"
	"os"
	"path/filepath"
	"sort"
	"strings"

	"golang.org/x/tools/go/ssa"
)

type earlyExit struct {
	Fn, Key, Cond string
	Pos           ast.Node
	Atoms         *Atoms
}

// earlyExits inventories, in functions whose last result is an error, every `return …, nil`
// that sits inside an if/switch arm and is not the function's final statement: a silent
// success that ends the work on this element early. Key: function + condition atoms of
// the innermost enclosing if (or the case values).
func (w *World) earlyExits(pkgPrefixes ...string) []earlyExit {
	var out []earlyExit
	count := map[string]int{}
	var ks []string
	for k := range w.Funcs {
		ks = append(ks, k)
	}
	sort.Strings(ks)
	for _, k := range ks {
		fi := w.Funcs[k]
		rel := short(fi.Pkg.PkgPath)
		ok := false
		for _, p := range pkgPrefixes {
			if rel == p || strings.HasPrefix(rel, p+"/") {
				ok = true
			}
		}
		if !ok || fi.Decl.Body == nil || fi.Decl.Type.Results == nil {
			continue
		}
		res := fi.Decl.Type.Results.List
		if len(res) == 0 || exprString(res[len(res)-1].Type) != "error" {
			continue
		}
		var stack []ast.Node
		ast.Inspect(fi.Decl.Body, func(n ast.Node) bool {
			if n == nil {
				stack = stack[:len(stack)-1]
				return true
			}
			stack = append(stack, n)
			if _, isLit := n.(*ast.FuncLit); isLit {
				return true
			}
			rs, ok := n.(*ast.ReturnStmt)
			if !ok || len(rs.Results) < 1 {
				return true
			}
			if id, ok := rs.Results[len(rs.Results)-1].(*ast.Ident); !ok || id.Name != "nil" {
				return true
			}
			// innermost enclosing if / case; none => the function's normal end
			var cond ast.Expr
			caseKey := ""
			inLit := false
			for i := len(stack) - 2; i >= 0; i-- {
				switch x := stack[i].(type) {
				case *ast.FuncLit:
					inLit = true
				case *ast.IfStmt:
					if cond == nil {
						cond = x.Cond
					}
				case *ast.CaseClause:
					if cond == nil && caseKey == "" && len(x.List) > 0 {
						var cs []string
						for _, e := range x.List {
							cs = append(cs, exprString(e))
						}
						caseKey = "case:" + strings.Join(cs, "|")
					}
				}
				if cond != nil || caseKey != "" || inLit {
					break
				}
			}
			if (cond == nil && caseKey == "") || inLit {
				return true
			}
			for _, host := range hostParts(w.hostKey(fi.Key)) {
				var parts []string
				if caseKey != "" {
					parts = append(parts, caseKey)
				}
				a := newAstAtoms()
				if cond != nil {
					w.withHost(host, func() { a = w.exprAtomsDeep(fi, cond) })
				}
				parts = append(parts, skipCondParts(a)...)
				sort.Strings(parts)
				c := strings.Join(parts, ",")
				base := fmt.Sprintf("%s:return-nil-error[%s]", host, c)
				count[base]++
				key := base
				if count[base] > 1 {
					key = fmt.Sprintf("%s#%d", base, count[base])
				}
				out = append(out, earlyExit{Fn: host, Key: key, Cond: c, Pos: rs, Atoms: a})
			}
			return true
		})
	}
	return out
}

func loadEarlyExitTable(verifDir string) map[string]string {
	b, err := os.ReadFile(filepath.Join(verifDir, "tables", "earlyexits.json"))
	if err != nil {
		return map[string]string{}
	}
	var t struct {
		E map[string]string `json:"early_exits"`
	}
	if json.Unmarshal(b, &t) != nil || t.E == nil {
		return map[string]string{}
	}
	return t.E
}

// ruleEarlyExitInventory: every guarded `return ..., nil` in the given packages is reviewed.
func ruleEarlyExitInventory(c *Ctx, r *Report, clause string, floor int, pkgPrefixes ...string) {
	ruleResultShapes(c, r, clause, pkgPrefixes...)
	ruleDecisionInputs(c, r, clause, pkgPrefixes...)
	w := c.W
	table := loadEarlyExitTable(c.VerifDir)
	n := 0
	for _, s := range w.earlyExits(pkgPrefixes...) {
		if strings.Contains(s.Key, ":return-nil-error[case:") {
			continue // value tables written as switch arms
		}
		n++
		viol := ""
		desc := "early success exit in " + s.Fn
		if reason, ok := table[s.Key]; ok {
			desc += ": " + reason
		} else if w.decidesOnKnownInputs(c.VerifDir, s.Fn, s.Atoms) {
			desc += ": not in the table, but it decides only on inputs this function's reviewed branches already decide on (a restructured conditional)"
		} else {
			viol = fmt.Sprintf("%s: %s returns early without an error under a condition [%s] that is not in the reviewed table (tables/earlyexits.json) and decides on inputs the reviewed function never branched on (%v): whatever the rest of the function contributes for this element (metadata, graph nodes and edges, diagnostics) silently does not happen", w.pos(s.Pos.Pos()), s.Fn, s.Cond, w.unknownInputs(c.VerifDir, s.Fn, s.Atoms))
		}
		r.add(clause, "early-exit", s.Key, desc, []string{s.Fn}, []string{w.pos(s.Pos.Pos())}, viol)
	}
	if floor <= 5 {
		floor = 0
		if len(w.funcsOfPkgPrefixes(pkgPrefixes...)) == 0 {
			floor = 1
		}
	}
	if n < floor {
		r.undecided(clause, "early-exit", "coverage:"+strings.Join(pkgPrefixes, ","), "", fmt.Sprintf("only %d early exits found in %v (floor %d)", n, pkgPrefixes, floor))
	}
}

// ruleNoCompaction: no library call that drops elements from a list (compaction, deletion,
// filtering) in the given packages, except reviewed ones. Today there is none.
func ruleNoCompaction(c *Ctx, r *Report, clause string, pkgPrefixes ...string) {
	w := c.W
	viol := ""
	var sites []string
	for _, cl := range w.callersOf(func(n string) bool {
		switch {
		case strings.HasPrefix(n, "slices.Compact"), strings.HasPrefix(n, "slices.Delete"), n == "common/linq.Filter", n == "common/linq.Where", n == "common/linq.Distinct":
			return true
		}
		return false
	}) {
		fn := fnShort(cl.Parent())
		rel := strings.TrimLeft(fn, "(*")
		in := false
		for _, p := range pkgPrefixes {
			if strings.HasPrefix(rel, p+".") || strings.HasPrefix(rel, p+"/") {
				in = true
			}
		}
		if !in {
			continue
		}
		sites = append(sites, w.pos(cl.Pos()))
		viol = fmt.Sprintf("%s: %s removes elements from a list with %s: results that were established element by element (conflicts, diagnostics, routes, fields) can be dropped afterwards; adjacent-only compaction additionally makes what is dropped depend on order", w.pos(cl.Pos()), fn, calleeName(cl))
	}
	if len(sites) == 0 {
		sites = append(sites, "gleece:0")
	}
	r.add(clause, "no-compaction", strings.Join(pkgPrefixes, ","), "no list in these packages is compacted, de-duplicated or filtered by a library call after it was built", pkgPrefixes, sites, viol)
}

// ---------------------------------------------------------------------------
// Result shapes
//
// What a function can answer when it does not fail: for each non-error result whether it
// is nil, a particular constant, or a value. `tables/resultshapes.json` records the set per
// reviewed function. Restructuring a function (guard clauses, helpers) keeps the set; a new
// early `return nil, nil` in a function that never answered "absent" before adds a shape.

func resultShapesOf(fn *ssa.Function) []string {
	set := map[string]bool{}
	ei := errResultIndex(fn)
	classify := func(v ssa.Value) string {
		cls := map[string]bool{}
		var leaves []ssa.Value
		if curWorld != nil {
			leaves = curWorld.originValues(v)
		} else {
			leaves = phiLeaves(v)
		}
		for _, lv := range leaves {
			switch x := stripTrivial(lv).(type) {
			case *ssa.Const:
				switch {
				case x.IsNil():
					cls["nil"] = true
				case x.Value != nil && x.Value.Kind() == constant.Bool:
					cls[x.Value.String()] = true
				case isZeroConst(x):
					cls["zero"] = true
				default:
					cls["const"] = true
				}
			default:
				if curWorld != nil && curWorld.isConstTableRead(x) {
					cls["const"] = true // an entry of a read-only table of constants
				} else {
					cls["val"] = true
				}
			}
		}
		return strings.Join(keys(cls), "/")
	}
	for _, ex := range exitsOf(fn) {
		if ex.Ret == nil || ex.Kind == exitFailure {
			continue
		}
		var parts []string
		for i, r := range ex.Ret.Results {
			if i == ei {
				continue
			}
			parts = append(parts, classify(unspill(r, ex.Block)))
		}
		if len(parts) > 0 {
			set["("+strings.Join(parts, ", ")+")"] = true
		}
	}
	return keys(set)
}

func (w *World) dumpResultShapes() []byte {
	out := map[string][]string{}
	for k, fi := range w.Funcs {
		if fi.SSA == nil || fi.SSA.Blocks == nil || errResultIndex(fi.SSA) < 0 {
			continue
		}
		if s := resultShapesOf(fi.SSA); len(s) > 0 {
			out[k] = s
		}
	}
	b, _ := json.MarshalIndent(map[string]any{
		"_comment":      "per reviewed function with an error result: the shapes of its non-failing answers (nil / zero / true / false / const / val per non-error result), see checker/earlyexit.go",
		"result_shapes": out,
	}, "", " ")
	return append(b, '\n')
}

func (w *World) loadResultShapes(verifDir string) map[string]map[string]bool {
	if w.shapes != nil {
		return w.shapes
	}
	w.shapes = map[string]map[string]bool{}
	b, err := os.ReadFile(filepath.Join(verifDir, "tables", "resultshapes.json"))
	if err != nil {
		return w.shapes
	}
	var doc struct {
		S map[string][]string `json:"result_shapes"`
	}
	if json.Unmarshal(b, &doc) != nil {
		return w.shapes
	}
	for k, ss := range doc.S {
		m := map[string]bool{}
		for _, s := range ss {
			m[s] = true
		}
		w.shapes[k] = m
	}
	return w.shapes
}

// ruleResultShapes: no reviewed function of the given packages gives a kind of non-failing
// answer it did not give before.
func ruleResultShapes(c *Ctx, r *Report, clause string, pkgPrefixes ...string) {
	w := c.W
	tbl := w.loadResultShapes(c.VerifDir)
	viol := ""
	var sites []string
	n := 0
	fis := w.funcsOfPkgPrefixes(pkgPrefixes...)
	sort.Slice(fis, func(i, j int) bool { return fis[i].Key < fis[j].Key })
	for _, fi := range fis {
		if fi.SSA == nil || fi.SSA.Blocks == nil || errResultIndex(fi.SSA) < 0 || w.isNewName(fi.Key) {
			continue
		}
		known, reviewed := tbl[fi.Key]
		if !reviewed {
			continue
		}
		n++
		for _, s := range resultShapesOf(fi.SSA) {
			if !known[s] {
				sites = append(sites, w.pos(fi.Decl.Pos()))
				viol = fmt.Sprintf("%s: %s can now succeed with an answer of shape %s; its reviewed answers are %v. A new `nil`/zero answer without an error is read by the callers as \"absent\" (an empty list as no list, a missing declaration as nothing to do) and silently drops what the rest of the function contributes", w.pos(fi.Decl.Pos()), fi.Key, s, keys(known))
			}
		}
	}
	if len(sites) == 0 {
		sites = []string{strings.Join(pkgPrefixes, ",") + ":0"}
	}
	r.add(clause, "result-shape", strings.Join(pkgPrefixes, ","), fmt.Sprintf("the %d reviewed error-returning functions of these packages answer only in the shapes recorded for them", n), pkgPrefixes, sites, viol)
}

// ---------------------------------------------------------------------------
// Decision inputs
//
// What a function's branches look at: the struct fields they read and the gleece functions
// they ask. `tables/condatoms.json` records them per reviewed function. Restructuring
// conditionals, guard clauses, library idioms and helpers keep the set; a branch that starts
// to depend on a field or an answer the function never consulted (a tag's presence, a name
// being set, another entity's version) changes for which inputs the function does its work.
// Library calls and literals are not judged here (an idiom swap changes them freely); the
// skip / early-exit inventories judge those where an element or the rest of a function is lost.

// ruleDecisionInputsOf: the same for named functions.
func ruleDecisionInputsOf(c *Ctx, r *Report, clause string, fns ...string) {
	var fis []*FuncInfo
	for _, k := range fns {
		if fi := c.W.fn(k); fi != nil {
			fis = append(fis, fi)
		}
	}
	decisionInputsOf(c, r, clause, fis)
}

func ruleDecisionInputs(c *Ctx, r *Report, clause string, pkgPrefixes ...string) {
	decisionInputsOf(c, r, clause, c.W.funcsOfPkgPrefixes(pkgPrefixes...))
}

func decisionInputsOf(c *Ctx, r *Report, clause string, fis []*FuncInfo) {
	w := c.W
	type agg struct {
		fns, sites []string
		viol       string
	}
	per := map[string]*agg{}
	sort.Slice(fis, func(i, j int) bool { return fis[i].Key < fis[j].Key })
	for _, fi := range fis {
		if w.isNewName(fi.Key) || fi.Decl.Body == nil {
			continue // judged as part of the reviewed functions that reach it
		}
		pkg := short(fi.Pkg.PkgPath)
		if per[pkg] == nil {
			per[pkg] = &agg{}
		}
		g := per[pkg]
		g.fns = append(g.fns, fi.Key)
		for _, rf := range w.astRegion(fi) {
			for _, ce := range branchConds(rf) {
				if isErrNilTest(rf.Pkg.TypesInfo, ce) {
					continue // error handling (judged by the error-propagation and error-drop rules)
				}
				var a *Atoms
				w.withHost(fi.Key, func() { a = w.exprAtomsDeep(rf, ce) })
				data := newAstAtoms()
				for f := range a.Fields {
					if i := strings.LastIndex(f, "."); i > 0 && w.isNewTypeName(f[:i]) {
						continue // a field of a new carrier type
					}
					data.Fields[f] = true
				}
				for cl := range a.Calls {
					if n := strings.TrimLeft(strings.TrimPrefix(strings.TrimPrefix(cl, "inlined:"), "func:"), "(*"); isGleeceCallee(n) && !strings.HasPrefix(n, "infrastructure/logger") && !strings.HasPrefix(n, "common.") && !strings.HasPrefix(n, "common/") {
						data.Calls[cl] = true
					}
				}
				if len(data.Fields)+len(data.Calls) == 0 {
					continue
				}
				if un := w.newToNeighbourhood(c.VerifDir, fi, w.unknownInputs(c.VerifDir, fi.Key, data)); len(un) > 0 {
					pos := w.pos(ce.Pos())
					g.sites = append(g.sites, pos)
					g.viol = fmt.Sprintf("%s: a branch of %s now depends on %v, which none of the function's reviewed branches consulted (tables/condatoms.json): for some inputs it now does, skips or answers something else than the reviewed function did", pos, fi.Key, un)
				}
			}
		}
	}
	pkgs := make([]string, 0, len(per))
	for p := range per {
		pkgs = append(pkgs, p)
	}
	sort.Strings(pkgs)
	for _, p := range pkgs {
		g := per[p]
		sites := g.sites
		if len(sites) == 0 {
			sites = []string{p + ":0"}
		}
		r.add(clause, "decision-inputs", p, fmt.Sprintf("the branches of the %d reviewed functions of %s read only the fields and ask only the gleece functions their reviewed branches did", len(g.fns), p), []string{p}, sites, g.viol)
	}
}

// newToNeighbourhood filters decision inputs down to those that are new not only to the
// function's own reviewed branches but to its surroundings: a field the reviewed function
// already mentioned anywhere in its body (it had the value in hand), and anything the reviewed
// branches of its direct callers and callees decide on (a condition moved across a call
// boundary) are not new inputs.
func (w *World) newToNeighbourhood(verifDir string, fi *FuncInfo, unknown []string) []string {
	if len(unknown) == 0 {
		return nil
	}
	w.loadCondAtoms(verifDir)
	w.buildNeighbours()
	hood := append([]string{fi.Key}, w.neighbours[fi.Key]...)
	// reviewed helpers that no longer exist and whose body now lives in fi (inlined, or turned from
	// a method into a plain function): what they mentioned, fi had in hand
	for _, g := range w.vanishedFns() {
		if w.absorbedInto(g, fi) {
			hood = append(hood, g)
		}
	}
	var out []string
	for _, u := range unknown {
		known := false
		for _, h := range hood {
			if strings.HasPrefix(u, "call:") {
				callee := strings.TrimLeft(strings.TrimPrefix(strings.TrimPrefix(u, "call:"), "func:"), "")
				for _, p := range w.base.prints[h] {
					if p == "gcall:"+callee || p == "call:"+callee {
						known = true
					}
				}
				if known {
					break
				}
			}
			if w.condAtoms[h][u] {
				known = true
				break
			}
			if !strings.HasPrefix(u, "call:") && !strings.HasPrefix(u, "lit:") && !strings.HasPrefix(u, "const:") && !strings.HasPrefix(u, "input:") && !strings.HasPrefix(u, "global:") {
				// a field, qualified: pkg.Type.Field
				name := u[strings.LastIndex(u, ".")+1:]
				fp := w.base.prints[h]
				if len(fp) >= 300 {
					known = true // fingerprint truncated: cannot tell
					break
				}
				for _, p := range fp {
					if p == "field:"+name {
						known = true
					}
				}
				if known {
					break
				}
			}
		}
		if !known {
			out = append(out, u)
		}
	}
	return out
}

// buildNeighbours: per function, the gleece functions it called and was called by on the
// reviewed tree (the `gcall:` entries of tables/functions.json): the functions a condition can
// have moved from or to without changing what is decided. A callee that is consulted only now
// is not a neighbour - asking it is the new decision.
func (w *World) buildNeighbours() {
	if w.neighbours != nil {
		return
	}
	w.neighbours = map[string][]string{}
	add := func(a, b string) {
		for _, x := range w.neighbours[a] {
			if x == b {
				return
			}
		}
		w.neighbours[a] = append(w.neighbours[a], b)
	}
	for fn, fp := range w.base.prints {
		for _, p := range fp {
			if strings.HasPrefix(p, "gcall:") {
				callee := strings.TrimPrefix(p, "gcall:")
				if w.base.fns[callee] && callee != fn {
					add(fn, callee)
					add(callee, fn)
				}
			}
		}
	}
}

// isErrNilTest: `err != nil` / `err == nil` on a value of type error.
func isErrNilTest(info *types.Info, e ast.Expr) bool {
	be, ok := ast.Unparen(e).(*ast.BinaryExpr)
	if !ok || (be.Op != token.NEQ && be.Op != token.EQL) {
		return false
	}
	errT := types.Universe.Lookup("error").Type()
	isErr := func(x ast.Expr) bool { t := info.TypeOf(x); return t != nil && types.Identical(t, errT) }
	isNil := func(x ast.Expr) bool { id, ok := ast.Unparen(x).(*ast.Ident); return ok && id.Name == "nil" }
	return (isErr(be.X) && isNil(be.Y)) || (isErr(be.Y) && isNil(be.X))
}

// ruleBranchConsultsOnly: wherever a branch of the given packages decides on `anchor` (a
// qualified struct field), it decides on nothing else than the allowed fields - looked at
// through predicates and split-off helpers. A second input (a tag, a name) next to the anchor
// makes the decision differ for some values of it; that is a change of behaviour to review, not
// a restructuring.
func ruleBranchConsultsOnly(c *Ctx, r *Report, clause, anchor string, allowedFields []string, floor int, desc string, pkgPrefixes ...string) {
	w := c.W
	allowed := map[string]bool{anchor: true}
	for _, a := range allowedFields {
		allowed[a] = true
	}
	viol := ""
	var sites []string
	n := 0
	for _, fi := range w.funcsOfPkgPrefixes(pkgPrefixes...) {
		if w.isNewName(fi.Key) || fi.Decl.Body == nil {
			continue
		}
		for _, rf := range w.astRegion(fi) {
			for _, ce := range branchConds(rf) {
				var a *Atoms
				w.withHost(fi.Key, func() { a = w.exprAtomsDeep(rf, ce) })
				if !a.Fields[anchor] {
					continue
				}
				n++
				sites = append(sites, w.pos(ce.Pos()))
				for f := range a.Fields {
					if !allowed[f] {
						viol = fmt.Sprintf("%s: a branch of %s that decides on %s now also consults %s: %s", w.pos(ce.Pos()), fi.Key, anchor, f, desc)
					}
				}
				for cl := range a.Calls {
					if nm := strings.TrimLeft(strings.TrimPrefix(strings.TrimPrefix(cl, "inlined:"), "func:"), "(*"); isGleeceCallee(nm) && !strings.HasPrefix(nm, "infrastructure/logger") {
						viol = fmt.Sprintf("%s: a branch of %s that decides on %s now also consults %s: %s", w.pos(ce.Pos()), fi.Key, anchor, cl, desc)
					}
				}
			}
		}
	}
	if n < floor {
		viol = fmt.Sprintf("only %d branches deciding on %s found (floor %d)", n, anchor, floor)
	}
	r.add(clause, "decision-inputs", "consults-only:"+anchor, desc, pkgPrefixes, sites, viol)
}

// ruleNoNewEarlyExit: the strict form of the early-exit inventory for functions whose every
// success exit matters: an early `return ..., nil` that is not in the reviewed table is reported
// even when it decides on inputs the function already consults (for these functions "nothing to
// do here" is exactly the kind of shortcut that drops what the property is about).
func ruleNoNewEarlyExit(c *Ctx, r *Report, clause string, why string, pkgPrefix string, fns ...string) {
	w := c.W
	table := loadEarlyExitTable(c.VerifDir)
	want := map[string]bool{}
	for _, f := range fns {
		want[f] = true
	}
	per := map[string][]string{}
	viols := map[string]string{}
	for _, s := range w.earlyExits(pkgPrefix) {
		for _, h := range hostParts(s.Fn) {
			if !want[h] {
				continue
			}
			per[h] = append(per[h], w.pos(s.Pos.Pos()))
			if _, ok := table[s.Key]; !ok && !strings.Contains(s.Key, ":return-nil-error[case:") {
				viols[h] = fmt.Sprintf("%s: %s now has an early success exit under [%s] that the reviewed function did not have: %s", w.pos(s.Pos.Pos()), h, s.Cond, why)
			}
		}
	}
	for _, f := range fns {
		fi := need(c, r, clause, f)
		if fi == nil {
			continue
		}
		sites := per[f]
		if len(sites) == 0 {
			sites = []string{w.pos(fi.Decl.Pos())}
		}
		r.add(clause, "early-exit", "strict:"+f, f+" has no early success exit beyond the reviewed ones", []string{f}, sites, viols[f])
	}
}
