package main

// runCanaries is filled in by canary_impl.go (per-rule seeded examples).
func runCanaries(dir string) string { return runCanariesImpl(dir) }
