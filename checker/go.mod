module gleecheck

go 1.26.8

require (
	github.com/aymerick/raymond v2.0.3-0.20180322193309-b565731e1464+incompatible
	golang.org/x/tools v0.50.0
)

require (
	golang.org/x/mod v0.41.0 // indirect
	golang.org/x/sync v0.23.0 // indirect
)
