package main

import (
	"fmt"
	"go/ast"
	"go/token"
	"go/types"
	"strings"

	hast "github.com/aymerick/raymond/ast"
	"golang.org/x/tools/go/cfg"
	"golang.org/x/tools/go/ssa"
)

func init() {
	register("C03", "Static structural obligations for 'no controller code runs unless the route's effective security approved it': on each engine's routes template the authorization gate is the first thing a handler does and its failure arm ends in return (document-order rule on the Handlebars statement stream), authorize() approves only when a full list passed (path exploration with constant propagation on the Go text of the template), the refusal reply carries the refusal's status/payload, the effective security list is explicit-else-controller-else-default (dominance rules on the reduction code) and the gate iterates exactly RouteMetadata.Security. Decides shape, not the user's callback or the HTTP frameworks.", checkC03)
}

// routesProgram returns the program of {{#each Controllers}}{{#each Routes}} of an engine.
func routesProgram(eng *TplEngine) (*hast.BlockStatement, *hast.BlockStatement) {
	ctl := findEach(eng.Routes.Prog, "Controllers")
	if ctl == nil {
		return nil, nil
	}
	return ctl, findEach(ctl.Program, "Routes")
}

func checkC03(c *Ctx, r *Report) {
	w := c.W
	r.NotDecided = append(r.NotDecided,
		"behaviour of the user's GleeceRequestAuthorization callback and of the engines' own middleware",
		"that `return` inside echo/fiber handlers stops request processing inside the framework",
		"template overrides/extensions supplied by the user at generation time (only the built-in templates are analysed)")
	r.Assume = append(r.Assume,
		"Handlebars output is the document-order concatenation of statement outputs (raymond evalProgram), so a statement at block depth 0 of a program is emitted exactly once per evaluation and before everything that follows it in the program",
		"Go text inside templates is analysed untyped (identifiers by spelling)")

	for _, en := range c.T.Order {
		eng := c.T.Engines[en]
		checkGateFirst(c, r, eng)

		fdT := eng.Partials["FunctionDeclarations"]
		if fdT == nil {
			r.undecided("C03.b", "tplgo", en+":FunctionDeclarations", "", "partial FunctionDeclarations missing")
			continue
		}
		gp, err := parseGoPartial(fdT)
		if err != nil {
			r.undecided("C03.b", "tplgo", en+":FunctionDeclarations", "function.declarations must be parseable Go", err.Error())
			continue
		}
		ar := checkAuthorize(gp)
		o := r.add("C03.b", "tplgo-paths", en+":authorize", en+": authorize() returns nil only after every check of one list was approved; otherwise it returns the callback's last error", []string{fdT.File + "#authorize"}, ar.Sites, ar.Violation)
		o.NonTrivial = true
		r.count("authorize_states_explored", ar.Paths)

		checkHandleAuthError(r, en, gp)
	}

	// C03.d effective alternatives
	checkInheritance(c, r)

	// C03.e the gate enforces RouteMetadata.Security
	for _, en := range c.T.Order {
		eng := c.T.Engines[en]
		want := map[string]string{
			"Security":           "definitions.RouteMetadata.Security",
			"SecurityAnnotation": "definitions.RouteSecurity.SecurityAnnotation",
			"SchemaName":         "definitions.SecurityAnnotationComponent.SchemaName",
			"Scopes":             "definitions.SecurityAnnotationComponent.Scopes",
		}
		got := map[string]string{}
		var sites []string
		t := eng.Partials["AuthorizationCall"]
		for _, rd := range eng.Reads {
			if rd.Tpl != "AuthorizationCall" {
				continue
			}
			sites = append(sites, tplSite(t, eng, rd.Line))
			got[rd.Path] = strings.Join(rd.Fields, ">")
		}
		viol := ""
		for p, f := range want {
			if got[p] != f {
				viol = fmt.Sprintf("%s: {{%s}} in the AuthorizationCall partial resolves to %q, expected %s (the gate must enforce the route's effective list)", en, p, got[p], f)
			}
		}
		for p := range got {
			if _, ok := want[p]; !ok && p != "." && p != "this" {
				viol = fmt.Sprintf("%s: AuthorizationCall reads unexpected path %q (%s)", en, p, got[p])
			}
		}
		// invoked exactly once, in route scope
		n := 0
		for _, iv := range eng.Invokes {
			if iv.Partial == "AuthorizationCall" {
				n++
				if iv.Scope != "definitions.RouteMetadata" {
					viol = fmt.Sprintf("%s: AuthorizationCall is invoked in scope %s, not the route", en, iv.Scope)
				}
			}
		}
		if n != 1 {
			viol = fmt.Sprintf("%s: AuthorizationCall invoked %d times, expected once per handler", en, n)
		}
		// nesting: each Security > each SecurityAnnotation > (SchemaName, each Scopes)
		if t != nil {
			if es := findEach(t.Prog, "Security"); es == nil {
				viol = en + ": AuthorizationCall has no {{#each Security}} at top level"
			} else if ea := findEach(es.Program, "SecurityAnnotation"); ea == nil {
				viol = en + ": {{#each Security}} does not iterate SecurityAnnotation"
			} else if findEach(ea.Program, "Scopes") == nil {
				viol = en + ": {{#each SecurityAnnotation}} does not iterate Scopes"
			} else {
				// one SecurityCheckList literal per Security element: the literal opener '{' right after #each Security
				toks := []gtok{}
				for _, st := range es.Program.Body {
					if cs, ok := st.(*hast.ContentStatement); ok {
						toks = append(toks, goToks(cs.Value)...)
						break
					}
				}
				if !startsWithToks(toks, "{") {
					viol = en + ": each Security element does not open its own SecurityCheckList literal"
				}
			}
		} else {
			viol = en + ": AuthorizationCall partial missing"
		}
		o := r.add("C03.e", "tpl-types", en+":AuthorizationCall-reads", en+": the gate iterates RouteMetadata.Security > SecurityAnnotation > (SchemaName, Scopes), one check list per alternative", []string{"AuthorizationCall"}, sites, viol)
		o.NonTrivial = true
	}
	_ = w

	if tierThorough {
		witnessGateFirst(c, r, "C03.a")
	}
}

// checkGateFirst implements C03.a on one engine.
func checkGateFirst(c *Ctx, r *Report, eng *TplEngine) {
	en := eng.Name
	key := en + ":routes.hbs:gate-first"
	desc := en + ": in every handler `authErr := <AuthorizationCall>` comes first; its failure arm calls handleAuthorizationError and returns; controller init, argument parsing, middlewares and the controller call all come later"
	_, routes := routesProgram(eng)
	if routes == nil {
		r.add("C03.a", "tpl-order", key, desc, nil, []string{eng.Routes.File + ":1"}, "{{#each Controllers}}{{#each Routes}} not found in routes.hbs")
		return
	}
	body := routes.Program.Body
	var sites []string
	viol := ""
	iA := -1
	for i, st := range body {
		if partialName(st) == "AuthorizationCall" {
			if iA >= 0 {
				viol = "AuthorizationCall appears twice in the handler"
			}
			iA = i
		}
	}
	if iA < 0 {
		r.add("C03.a", "tpl-order", key, desc, nil, []string{tplSite(eng.Routes, eng, routes.Line)}, "the {{> AuthorizationCall}} partial is not a direct statement of the {{#each Routes}} program (missing, or nested inside a conditional block)")
		return
	}
	sites = append(sites, tplSite(eng.Routes, eng, body[iA].Location().Line))
	// 1. before the gate: only content, mustaches and the RouteStart extension; no use of `controller`
	var beforeSrc strings.Builder
	for i := 0; i < iA; i++ {
		switch n := body[i].(type) {
		case *hast.ContentStatement:
			beforeSrc.WriteString(n.Value)
		case *hast.MustacheStatement:
			beforeSrc.WriteString(mustachePlaceholder(n))
		case *hast.PartialStatement:
			if pn := partialName(n); pn != "RouteStartRoutesExtension" {
				viol = fmt.Sprintf("%s:%d: partial %s runs before the authorization gate", eng.Routes.File, n.Line, pn)
			}
			sites = append(sites, tplSite(eng.Routes, eng, n.Line))
			beforeSrc.WriteString("\n")
		case *hast.BlockStatement:
			viol = fmt.Sprintf("%s:%d: block {{#%s}} precedes the authorization gate", eng.Routes.File, n.Line, n.Expression.Canonical())
		}
	}
	before := goToks(beforeSrc.String())
	if !endsWithToks(before, "authErr", ":=") {
		viol = fmt.Sprintf("%s:%d: AuthorizationCall's result is not bound by `authErr :=`", eng.Routes.File, body[iA].Location().Line)
	}
	for i, t := range before {
		if t.Lit == "controller" || (t.Lit == "InitController") || (t.Lit == "opError") {
			viol = fmt.Sprintf("%s: controller code (%s) appears before the authorization gate (token #%d)", eng.Routes.File, t.Lit, i)
		}
	}
	// exactly one closure header precedes the gate
	if n := strings.Count(strings.Join(tokStrings(before), " "), "func ("); n != 1 {
		viol = fmt.Sprintf("%s: expected exactly one handler closure before the gate, found %d", eng.Routes.File, n)
	}
	// 2. after the gate: failure arm. Content and mustaches up to the next partial/block
	// statement are joined; the arm must close within them.
	var afterSrc strings.Builder
	afterLine := 0
	for i := iA + 1; i < len(body); i++ {
		stop := false
		switch n := body[i].(type) {
		case *hast.ContentStatement:
			if afterLine == 0 {
				afterLine = n.Line
			}
			afterSrc.WriteString(n.Value)
		case *hast.MustacheStatement:
			afterSrc.WriteString(mustachePlaceholder(n))
		case *hast.CommentStatement:
		default:
			stop = true
		}
		if stop {
			break
		}
	}
	{
		toks := goToks(afterSrc.String())
		sites = append(sites, tplSite(eng.Routes, eng, afterLine))
		if !startsWithToks(toks, "if", "authErr", "!=", "nil", "{") {
			viol = fmt.Sprintf("%s:%d: the gate is not immediately followed by `if authErr != nil {`", eng.Routes.File, afterLine)
		} else {
			depth := 0
			closeIdx := -1
			for i := 4; i < len(toks); i++ {
				if toks[i].Tok == token.LBRACE {
					depth++
				} else if toks[i].Tok == token.RBRACE {
					depth--
					if depth == 0 {
						closeIdx = i
						break
					}
				}
			}
			if closeIdx < 0 {
				viol = fmt.Sprintf("%s:%d: the failure arm of the gate is not closed before the next partial/block statement (a conditional block could skip its return)", eng.Routes.File, afterLine)
			} else {
				arm := toks[5:closeIdx]
				if tokSeqIndex(arm, "handleAuthorizationError", "(") < 0 {
					viol = fmt.Sprintf("%s:%d: the failure arm does not call handleAuthorizationError", eng.Routes.File, afterLine)
				}
				okRet := false
				if len(arm) > 0 && arm[0].Tok == token.RETURN && strings.Count(strings.Join(tokStrings(arm), " "), "return") == 1 {
					okRet = true // `return handleAuthorizationError(...)`
				}
				if len(arm) > 0 && arm[len(arm)-1].Tok == token.RETURN {
					okRet = true // `...; return`
				}
				if !okRet {
					viol = fmt.Sprintf("%s:%d: the failure arm of the gate does not end in return: a refused request would fall through to the controller", eng.Routes.File, afterLine)
				}
				rest := toks[closeIdx+1:]
				if tokSeqIndex(rest, "controller", ":=") != 0 {
					viol = fmt.Sprintf("%s:%d: controller instantiation does not directly follow the gate", eng.Routes.File, afterLine)
				}
				for _, t := range toks[:closeIdx] {
					if t.Lit == "controller" {
						viol = fmt.Sprintf("%s:%d: controller is referenced inside/before the failure arm", eng.Routes.File, afterLine)
					}
				}
			}
		}
	}
	// 3. everything else comes later in document order (direct children after the gate)
	needLater := map[string]bool{"RequestArgsParsing": false, "Middleware": false, "MethodParameterList": false, "ReplyResponse": false}
	var markLater func(p *hast.Program)
	markLater = func(p *hast.Program) {
		if p == nil {
			return
		}
		for _, st := range p.Body {
			if pn := partialName(st); pn != "" {
				if _, ok := needLater[pn]; ok {
					needLater[pn] = true
				}
			}
			if b, ok := st.(*hast.BlockStatement); ok {
				markLater(b.Program)
				markLater(b.Inverse)
			}
		}
	}
	for i := iA + 1; i < len(body); i++ {
		if pn := partialName(body[i]); pn != "" {
			if _, ok := needLater[pn]; ok {
				needLater[pn] = true
			}
		}
		if b, ok := body[i].(*hast.BlockStatement); ok {
			markLater(b.Program)
			markLater(b.Inverse)
		}
		sites = append(sites, tplSite(eng.Routes, eng, body[i].Location().Line))
	}
	for pn, ok := range needLater {
		if !ok {
			viol = fmt.Sprintf("%s: partial %s is not emitted after the authorization gate", eng.Routes.File, pn)
		}
	}
	// the controller call `controller.«OperationId»(` occurs after the gate
	callSeen := false
	for i := iA + 1; i < len(body); i++ {
		if cs, ok := body[i].(*hast.ContentStatement); ok {
			toks := goToks(cs.Value)
			if endsWithToks(toks, "controller", ".") && i+1 < len(body) {
				if m, ok := body[i+1].(*hast.MustacheStatement); ok && strings.Contains(m.Expression.Canonical(), "OperationId") {
					callSeen = true
				}
			}
		}
	}
	if !callSeen {
		viol = fmt.Sprintf("%s: controller.{{{OperationId}}}( not found after the gate", eng.Routes.File)
	}
	o := r.add("C03.a", "tpl-order", key, desc, []string{eng.Routes.File}, sites, viol)
	o.NonTrivial = true
}

func mustachePlaceholder(n *hast.MustacheStatement) string {
	c := n.Expression.Canonical()
	for _, prm := range n.Expression.Params {
		if pe, ok := prm.(*hast.PathExpression); ok {
			c += " " + pe.Original
		} else {
			c += " " + prm.String()
		}
	}
	var sb strings.Builder
	sb.WriteString("M_")
	for _, ch := range c {
		if (ch >= 'a' && ch <= 'z') || (ch >= 'A' && ch <= 'Z') || (ch >= '0' && ch <= '9') {
			sb.WriteRune(ch)
		} else {
			sb.WriteRune('_')
		}
	}
	return sb.String()
}

// checkHandleAuthError implements C03.c.
func checkHandleAuthError(r *Report, en string, gp *goPartial) {
	key := en + ":handleAuthorizationError"
	desc := en + ": the refusal reply uses authErr.StatusCode as status and authErr.CustomError.Payload under CustomError != nil"
	fd := gp.fn("handleAuthorizationError")
	if fd == nil {
		r.add("C03.c", "tplgo", key, desc, nil, []string{gp.Tpl.File + ":1"}, "func handleAuthorizationError not found")
		return
	}
	var sites []string
	sites = append(sites, gp.site(fd.Pos()))
	viol := ""
	// the *runtime.SecurityError parameter
	errParam := ""
	for _, p := range fd.Type.Params.List {
		if exprString(p.Type) == "*runtime.SecurityError" && len(p.Names) == 1 {
			errParam = p.Names[0].Name
		}
	}
	if errParam == "" {
		r.add("C03.c", "tplgo", key, desc, nil, sites, "no *runtime.SecurityError parameter")
		return
	}
	// local single-assignment resolution
	defs := map[string]ast.Expr{}
	ast.Inspect(fd, func(n ast.Node) bool {
		if as, ok := n.(*ast.AssignStmt); ok && as.Tok == token.DEFINE && len(as.Lhs) == len(as.Rhs) {
			for i, l := range as.Lhs {
				if id, ok := l.(*ast.Ident); ok {
					defs[id.Name] = as.Rhs[i]
				}
			}
		}
		return true
	})
	var derives func(e ast.Expr, sel string, depth int) bool
	derives = func(e ast.Expr, sel string, depth int) bool {
		if depth > 5 {
			return false
		}
		found := false
		ast.Inspect(e, func(n ast.Node) bool {
			switch x := n.(type) {
			case *ast.SelectorExpr:
				if exprString(x) == sel {
					found = true
				}
			case *ast.Ident:
				if d, ok := defs[x.Name]; ok && derives(d, sel, depth+1) {
					found = true
				}
			}
			return !found
		})
		return found
	}
	statusCalls := 0
	ast.Inspect(fd, func(n ast.Node) bool {
		call, ok := n.(*ast.CallExpr)
		if !ok {
			return true
		}
		se, ok := call.Fun.(*ast.SelectorExpr)
		if !ok {
			return true
		}
		switch se.Sel.Name {
		case "JSON", "WriteHeader", "Status", "SendStatus", "AbortWithStatusJSON", "AbortWithStatus", "NoContent", "String":
			if len(call.Args) == 0 {
				return true
			}
			// fiber: Status(code).JSON(payload) -> JSON has no status argument
			if se.Sel.Name == "JSON" && len(call.Args) == 1 {
				return true
			}
			statusCalls++
			sites = append(sites, gp.site(call.Pos()))
			if !derives(call.Args[0], errParam+".StatusCode", 0) {
				viol = fmt.Sprintf("%s: response status %s does not derive from %s.StatusCode", gp.site(call.Pos()), exprString(call.Args[0]), errParam)
			}
		}
		return true
	})
	if statusCalls < 2 {
		viol = fmt.Sprintf("%s: expected >= 2 status-writing calls (custom + standard reply) in handleAuthorizationError, found %d", gp.site(fd.Pos()), statusCalls)
	}
	// ... and it is the callback's status as given: a local that carries it is not overwritten
	// (clamped, defaulted, mapped) on the way to the reply
	ast.Inspect(fd, func(n ast.Node) bool {
		as, ok := n.(*ast.AssignStmt)
		if !ok || as.Tok == token.DEFINE {
			return true
		}
		for _, l := range as.Lhs {
			if id, ok := l.(*ast.Ident); ok {
				if d, has := defs[id.Name]; has && derives(d, errParam+".StatusCode", 0) {
					viol = fmt.Sprintf("%s: %s, which carries %s.StatusCode to the reply, is overwritten: for some refusals the client sees another status than the callback's", gp.site(as.Pos()), id.Name, errParam)
					sites = append(sites, gp.site(as.Pos()))
				}
			}
		}
		return true
	})
	// custom payload under CustomError != nil
	customOK := false
	ast.Inspect(fd, func(n ast.Node) bool {
		ifs, ok := n.(*ast.IfStmt)
		if !ok {
			return true
		}
		be, ok := stripParens(ifs.Cond).(*ast.BinaryExpr)
		if !ok || be.Op != token.NEQ || exprString(be.X) != errParam+".CustomError" || exprString(be.Y) != "nil" {
			return true
		}
		sites = append(sites, gp.site(ifs.Pos()))
		usesPayload := false
		endsReturn := false
		ast.Inspect(ifs.Body, func(m ast.Node) bool {
			if se, ok := m.(*ast.SelectorExpr); ok && exprString(se) == errParam+".CustomError.Payload" {
				usesPayload = true
			}
			return true
		})
		if len(ifs.Body.List) > 0 {
			_, endsReturn = ifs.Body.List[len(ifs.Body.List)-1].(*ast.ReturnStmt)
		}
		if usesPayload && endsReturn {
			customOK = true
		}
		return true
	})
	if !customOK {
		viol = fmt.Sprintf("%s: no `if %s.CustomError != nil { reply(%s.CustomError.Payload); return }` arm", gp.site(fd.Pos()), errParam, errParam)
	}
	// net/http engines: the status must be written before any body byte (an earlier body
	// write freezes the status at 200)
	wName := ""
	for _, prm := range fd.Type.Params.List {
		if exprString(prm.Type) == "http.ResponseWriter" && len(prm.Names) == 1 {
			wName = prm.Names[0].Name
		}
	}
	if wName != "" {
		g := cfg.New(fd.Body, func(*ast.CallExpr) bool { return true })
		isBodyWrite := func(n ast.Node) bool {
			return containsNode(n, func(m ast.Node) bool {
				c, ok := m.(*ast.CallExpr)
				if !ok {
					return false
				}
				s := exprString(c.Fun)
				if s == wName+".Write" || s == "io.WriteString" || s == "fmt.Fprint" || s == "fmt.Fprintf" || s == "fmt.Fprintln" {
					return true
				}
				// json.NewEncoder(w).Encode(...)
				if se, ok := c.Fun.(*ast.SelectorExpr); ok && se.Sel.Name == "Encode" {
					if inner, ok := se.X.(*ast.CallExpr); ok && len(inner.Args) == 1 && exprString(inner.Args[0]) == wName {
						return true
					}
				}
				return false
			})
		}
		isHeader := func(n ast.Node) bool {
			return containsNode(n, func(m ast.Node) bool {
				c, ok := m.(*ast.CallExpr)
				return ok && exprString(c.Fun) == wName+".WriteHeader"
			})
		}
		seen := map[*cfg.Block]bool{}
		var walk func(b *cfg.Block)
		walk = func(b *cfg.Block) {
			if seen[b] || viol != "" {
				return
			}
			seen[b] = true
			for _, n := range b.Nodes {
				if isHeader(n) {
					return
				}
				if isBodyWrite(n) {
					viol = fmt.Sprintf("%s: the response body is written before %s.WriteHeader(status): the refusal would be sent with status 200", gp.site(n.Pos()), wName)
					return
				}
			}
			for _, s := range b.Succs {
				walk(s)
			}
		}
		if len(g.Blocks) > 0 {
			walk(g.Blocks[0])
		}
	}
	r.add("C03.c", "tplgo", key, desc, []string{gp.Tpl.File + "#handleAuthorizationError"}, sites, viol)
}

// lenEmptiness classifies (cond, polarity): +1 => len(x) > 0 holds, -1 => len(x) == 0 holds, 0 unknown.
func lenEmptiness(cond ssa.Value, pol bool) (int, ssa.Value) {
	bo, ok := cond.(*ssa.BinOp)
	if !ok {
		return 0, nil
	}
	var lenArg ssa.Value
	isLen := func(v ssa.Value) bool {
		if cl, ok := v.(*ssa.Call); ok {
			if b, ok := cl.Call.Value.(*ssa.Builtin); ok && b.Name() == "len" {
				lenArg = cl.Call.Args[0]
				return true
			}
		}
		return false
	}
	constInt := func(v ssa.Value) (int64, bool) {
		if k, ok := v.(*ssa.Const); ok && k.Value != nil {
			return k.Int64(), true
		}
		return 0, false
	}
	if !isLen(bo.X) {
		return 0, nil
	}
	k, ok := constInt(bo.Y)
	if !ok {
		return 0, nil
	}
	res := 0
	switch {
	case bo.Op == token.GTR && k == 0, bo.Op == token.GEQ && k == 1, bo.Op == token.NEQ && k == 0:
		res = 1
	case bo.Op == token.LEQ && k == 0, bo.Op == token.LSS && k == 1, bo.Op == token.EQL && k == 0:
		res = -1
	}
	if !pol {
		res = -res
	}
	return res, lenArg
}

func checkInheritance(c *Ctx, r *Report) {
	w := c.W
	const inh = "core/metadata.GetRouteSecurityWithInheritance"
	if fi := need(c, r, "C03.d", inh); fi != nil {
		viol := ""
		var sites []string
		nExplicit, nParent := 0, 0
		var parentParam *ssa.Parameter
		for _, p := range fi.SSA.Params {
			if paramTyped(p, "[]definitions.RouteSecurity") {
				parentParam = p
			}
		}
		type answer struct {
			v     ssa.Value
			b     *ssa.BasicBlock
			pos   string
			extra []edgeFact
		}
		var answers []answer
		// (a single exit with a result variable returns a phi: each incoming value is an answer,
		// given under the facts of the block it comes from)
		var expand func(v ssa.Value, b *ssa.BasicBlock, pos string, depth int, extra []edgeFact)
		expand = func(v ssa.Value, b *ssa.BasicBlock, pos string, depth int, extra []edgeFact) {
			if phi, ok := v.(*ssa.Phi); ok && depth < 5 {
				for i, e := range phi.Edges {
					pred := phi.Block().Preds[i]
					ex2 := extra
					// the value comes in over a branch edge: what that branch tested holds for it
					if ifi, isIf := pred.Instrs[len(pred.Instrs)-1].(*ssa.If); isIf {
						ex2 = append(append([]edgeFact{}, extra...), edgeFact{From: pred, To: phi.Block(), Cond: ifi.Cond, Pol: pred.Succs[0] == phi.Block()})
					}
					expand(e, pred, pos, depth+1, ex2)
				}
				return
			}
			if k, ok := v.(*ssa.Const); ok && k.IsNil() {
				return // the zero value of a failure path merged into the single exit
			}
			answers = append(answers, answer{v, b, pos, extra})
		}
		for _, ex := range exitsOf(fi.SSA) {
			if ex.Ret == nil || ex.Kind == exitFailure {
				continue
			}
			expand(unspill(ex.Ret.Results[0], ex.Block), ex.Block, w.pos(retPos(ex)), 0, nil)
		}
		for _, an := range answers {
			v := an.v
			ex := struct{ Block *ssa.BasicBlock }{an.b}
			retPosStr := an.pos
			sites = append(sites, retPosStr)
			a := sliceOf(v)
			facts := append(dominatingFacts(ex.Block), an.extra...)
			emptiness := 0
			for _, f := range facts {
				cnd, pol := unwrapNot(f.Cond, f.Pol)
				e, arg := lenEmptiness(cnd, pol)
				if e != 0 && sliceOf(arg).Calls["core/metadata.GetSecurityFromContext"] {
					emptiness = e
				}
			}
			switch {
			case parentParam != nil && a.Params[parentParam]:
				nParent++
				if emptiness != -1 {
					viol = fmt.Sprintf("%s: the parent's security is returned on a path where the explicit list is not known to be empty", retPosStr)
				}
			case a.Calls["core/metadata.GetSecurityFromContext"]:
				nExplicit++
				if emptiness != 1 {
					viol = fmt.Sprintf("%s: the explicit list is returned on a path where it is not known to be non-empty", retPosStr)
				}
			default:
				viol = fmt.Sprintf("%s: success return yields neither the explicit nor the parent list", retPosStr)
			}
		}
		if nExplicit < 1 || nParent < 1 {
			viol = fmt.Sprintf("expected an explicit and an inherited success answer in %s, found %d/%d", inh, nExplicit, nParent)
		}
		o := r.add("C03.d", "guardedby", inh+":explicit-iff-nonempty", "GetRouteSecurityWithInheritance returns the method's own list iff it is non-empty, else the parent's", []string{inh}, sites, viol)
		o.NonTrivial = true
	}

	const cred = "(core/metadata.ControllerMeta).Reduce"
	if fi := need(c, r, "C03.d", cred); fi != nil {
		viol := ""
		var sites []string
		// GetDefaultSecurity is consulted only when the controller's explicit list is empty
		defCalls := callsIn(fi.SSA, false, nameIs("core/metadata.GetDefaultSecurity"))
		if len(defCalls) != 1 {
			viol = fmt.Sprintf("expected one GetDefaultSecurity call in %s, found %d", cred, len(defCalls))
		}
		for _, dc := range defCalls {
			sites = append(sites, w.pos(dc.Pos()))
			ok := false
			for _, f := range guardsOf(dc.(ssa.Instruction)) {
				cnd, pol := unwrapNot(f.Cond, f.Pol)
				e, arg := lenEmptiness(cnd, pol)
				if e == -1 && sliceOf(arg).Calls["core/metadata.GetSecurityFromContext"] {
					ok = true
				}
			}
			if !ok {
				viol = fmt.Sprintf("%s: the configured default security is applied on a path where the controller's own @Security list is not known to be empty", w.pos(dc.Pos()))
			}
			// ... and whenever it is empty: nothing else decides whether the default applies
			// (an error test or a nil test of the configuration aside)
			for _, f := range guardsOf(dc.(ssa.Instruction)) {
				cnd, pol := unwrapNot(f.Cond, f.Pol)
				if e, arg := lenEmptiness(cnd, pol); e != 0 && sliceOf(arg).Calls["core/metadata.GetSecurityFromContext"] {
					continue
				}
				if bo, isB := cnd.(*ssa.BinOp); isB && (isNilConst(bo.X) || isNilConst(bo.Y)) {
					other := bo.X
					if isNilConst(other) {
						other = bo.Y
					}
					if types.Identical(other.Type(), types.Universe.Lookup("error").Type()) {
						continue
					}
					if a := sliceOf(other); a.hasFieldNamed("GleeceConfig") && len(a.Calls) == 0 && len(a.Fields) == 1 {
						continue
					}
				}
				viol = fmt.Sprintf("%s: whether the configured default security applies to a controller without @Security also depends on another condition (%s): such controllers and their methods are served without the default although it is configured (and documented)", w.pos(dc.Pos()), w.pos(instrPos(f.From)))
			}
			if a := sliceOf(dc.Common().Args[0]); !a.hasFieldNamed("GleeceConfig") {
				viol = fmt.Sprintf("%s: GetDefaultSecurity is not given ctx.GleeceConfig", w.pos(dc.Pos()))
			}
		}
		// the list handed to every receiver is phi(explicit, default)
		red := callsIn(fi.SSA, false, nameIs("(core/metadata.ReceiverMeta).Reduce"))
		if len(red) != 1 {
			viol = fmt.Sprintf("expected one rec.Reduce call in %s, found %d", cred, len(red))
		}
		for _, rc := range red {
			sites = append(sites, w.pos(rc.Pos()))
			args := rc.Common().Args
			a := sliceOf(args[len(args)-1])
			if !a.Calls["core/metadata.GetSecurityFromContext"] || !a.Calls["core/metadata.GetDefaultSecurity"] {
				viol = fmt.Sprintf("%s: the parent security handed to receivers is not {controller's explicit list, else configured default}", w.pos(rc.Pos()))
			}
			if !a.hasFieldNamed("Annotations") || !a.hasFieldNamed("Struct") {
				viol = fmt.Sprintf("%s: the controller list is not read from the controller's own annotations", w.pos(rc.Pos()))
			}
		}
		o := r.add("C03.d", "guardedby", cred+":controller-else-default", "ControllerMeta.Reduce hands each receiver the controller's @Security list if non-empty, else the configured default", []string{cred}, sites, viol)
		o.NonTrivial = true
	}

	routeMeta := w.lookupType("definitions", "RouteMetadata")
	const rred = "(core/metadata.ReceiverMeta).Reduce"
	ruleWhoStores(c, r, "C03.d", routeMeta, "Security", []string{rred}, 1, "RouteMetadata.Security has a single writer (ReceiverMeta.Reduce)")
	ruleFieldFlow(c, r, ffSpec{Clause: "C03.d", Fn: rred, Owner: routeMeta, Field: "Security", MustCalls: []string{"core/metadata.GetRouteSecurityWithInheritance"},
		AllowedFields: []string{"core/metadata.SymNodeMeta.Annotations", "core/metadata.ReceiverMeta.SymNodeMeta"}, Must: []string{"core/metadata.SymNodeMeta.Annotations"},
		Desc: "RouteMetadata.Security = GetRouteSecurityWithInheritance(method annotations, parent list)"})
	if fi := need(c, r, "C03.d", rred); fi != nil {
		viol := ""
		var sites []string
		for _, cl := range callsIn(fi.SSA, false, nameIs("core/metadata.GetRouteSecurityWithInheritance")) {
			sites = append(sites, w.pos(cl.Pos()))
			a := sliceOf(cl.Common().Args[1])
			isParam := false
			for p := range a.Params {
				if paramTyped(p, "[]definitions.RouteSecurity") {
					isParam = true
				}
			}
			if !isParam || len(a.Calls) > 0 {
				viol = fmt.Sprintf("%s: the parent argument is not Reduce's parentSecurity parameter", w.pos(cl.Pos()))
			}
		}
		if len(sites) != 1 {
			viol = "expected exactly one GetRouteSecurityWithInheritance call in " + rred
		}
		r.add("C03.d", "fieldflow", rred+":parent-arg", "the inherited list is the one ControllerMeta.Reduce passed down", []string{rred}, sites, viol)
	}

	// GetSecurityFromContext reads the @Security annotations, and keeps every one of them
	checkAnnotationConst(c, r, "C03.d", "core/metadata.GetSecurityFromContext", "GleeceAnnotationSecurity")
	ruleEach(c, r, "C03.d", "core/metadata.GetSecurityFromContext",
		func(fi *FuncInfo) func(ast.Expr) bool { return w.rangeOverType(fi, "[]*core/annotations.Attribute") }, "@Security attributes",
		func(fi *FuncInfo) func(ast.Node) bool { return w.appendTo(fi, w.resultSlice(fi)) }, "append(securities)",
		nil, true,
		"every @Security annotation (with or without scopes) becomes one alternative; the only other exit is an error")
	// what decides which checks a route gets: the security resolution consults what it was reviewed to consult
	// ... and where a controller's / receiver's annotations are read from
	ruleDecisionInputsOf(c, r, "C03.d", "gast.GetCommentsFromTypeSpec", "gast.GetCommentsFromNode", "gast.MapDocListToCommentBlock", "(*core/visitors.ControllerVisitor).createControllerMetadata", "(*core/visitors.RouteVisitor).getExecutionContext")
	// ... for every route: hidden routes are served like the others, so their gate is the same
	if fi := need(c, r, "C03.d", rred); fi != nil {
		viol := ""
		var sites []string
		n := 0
		secF := fieldOf(routeMeta, "Security")
		allInstrs(fi.SSA, true, func(_ *ssa.Function, _ *ssa.BasicBlock, _ int, ins ssa.Instruction) {
			st, ok := ins.(*ssa.Store)
			if !ok {
				return
			}
			fa, ok := st.Addr.(*ssa.FieldAddr)
			if !ok || secF == nil || structFieldVar(fa.X.Type(), fa.Field) != secF {
				return
			}
			n++
			sites = append(sites, w.pos(st.Pos()))
			for _, f := range dominatingFacts(st.Block()) {
				a := sliceOf(f.Cond)
				if a.hasFieldNamed("Hiding") || a.hasFieldNamed("Type") && a.Calls["core/metadata.GetMethodHideOpts"] || a.Calls["core/metadata.GetMethodHideOpts"] || a.Calls["generator/swagen/swagtool.IsHiddenAsset"] {
					viol = fmt.Sprintf("%s: RouteMetadata.Security is filled in only on a path that looked at the route's @Hidden state: a hidden route is still registered and served, and would be served without its checks", w.pos(st.Pos()))
				}
			}
		})
		if n == 0 {
			viol = "no store to RouteMetadata.Security found in ReceiverMeta.Reduce"
		}
		r.add("C03.d", "guardedby", rred+":security-regardless-of-hiding", "the effective security is attached to every route, hidden or not", []string{rred}, sites, viol)
	}
	ruleDecisionInputsOf(c, r, "C03.d", "core/metadata.GetDefaultSecurity", "core/metadata.GetSecurityFromContext", "core/metadata.GetRouteSecurityWithInheritance", "(core/metadata.ControllerMeta).Reduce", "(core/metadata.ReceiverMeta).Reduce")
	// GetDefaultSecurity yields the configured component
	if fi := need(c, r, "C03.d", "core/metadata.GetDefaultSecurity"); fi != nil {
		viol := ""
		var sites []string
		found := false
		w.inspectRegion(fi, func(n ast.Node) bool {
			if se, ok := n.(*ast.SelectorExpr); ok {
				if qualField(fi.Pkg.TypesInfo, se) == "definitions.OpenAPIGeneratorConfig.DefaultRouteSecurity" {
					found = true
					sites = append(sites, w.pos(se.Pos()))
				}
			}
			return true
		})
		if !found {
			viol = "GetDefaultSecurity does not read OpenAPIGeneratorConfig.DefaultRouteSecurity"
		}
		r.add("C03.d", "fieldflow", "core/metadata.GetDefaultSecurity:source", "the default list is built from openapiGeneratorConfig.defaultSecurity", []string{fi.Key}, sites, viol)
	}
}
