package main

import (
	"go/ast"
	"sort"
	"strings"

	"golang.org/x/tools/go/ssa"
)

// entryPackages: packages whose exported functions and methods are gleece's public
// surface (the CLI, the pipeline API used by editor integrations, the two generators).
var entryPackages = map[string]bool{
	"":                          true, // module root: main
	"cmd":                       true,
	"core/pipeline":             true,
	"generator/routes":          true,
	"generator/swagen":          true,
	"infrastructure/validation": true,
}

// callEdgesOf: static callees, class-hierarchy targets of interface calls, functions
// taken as values, closures.
func (w *World) calleesOf(fn *ssa.Function, byName map[string]*ssa.Function) []*ssa.Function {
	var out []*ssa.Function
	add := func(f *ssa.Function) {
		if f == nil {
			return
		}
		if f.Origin() != nil {
			out = append(out, f.Origin())
		}
		out = append(out, f)
	}
	var buf [10]*ssa.Value
	for _, b := range fn.Blocks {
		for _, ins := range b.Instrs {
			if c, ok := ins.(ssa.CallInstruction); ok {
				if sc := c.Common().StaticCallee(); sc != nil {
					add(sc)
				}
				for _, n := range implNames(c) {
					add(byName[n])
				}
			}
			for _, op := range ins.Operands(buf[:0]) {
				if f, ok := (*op).(*ssa.Function); ok {
					add(f) // function value / closure / bound method wrapper
				}
			}
		}
	}
	for _, a := range fn.AnonFuncs {
		add(a)
	}
	return out
}

// reachable computes (once) the set of gleece functions reachable from the entry points.
func (w *World) reachable() map[string]bool {
	if w.reach != nil {
		return w.reach
	}
	byName := map[string]*ssa.Function{}
	for _, f := range w.SSAFuncs {
		if f.Parent() == nil {
			byName[fnReal(f)] = f
		}
	}
	seen := map[*ssa.Function]bool{}
	var stack []*ssa.Function
	for k, fi := range w.Funcs {
		if fi.SSA == nil {
			continue
		}
		rel := short(fi.Pkg.PkgPath)
		if rel == modPath {
			rel = ""
		}
		isEntry := entryPackages[rel] && (ast.IsExported(fi.Decl.Name.Name) || fi.Decl.Name.Name == "main" || fi.Decl.Name.Name == "init")
		// cobra command closures and package initialisers
		if fi.Decl.Name.Name == "init" {
			isEntry = true
		}
		_ = k
		if isEntry {
			stack = append(stack, fi.SSA)
		}
	}
	// package-level initialisers (var x = f()) run at start-up
	for _, sp := range w.SSAPkg {
		if init := sp.Func("init"); init != nil {
			stack = append(stack, init)
		}
	}
	for len(stack) > 0 {
		f := stack[len(stack)-1]
		stack = stack[:len(stack)-1]
		if f == nil || seen[f] {
			continue
		}
		seen[f] = true
		// wrappers ($bound, $thunk) have no blocks of interest but point at the real function
		for _, c := range w.calleesOf(f, byName) {
			if !seen[c] {
				stack = append(stack, c)
			}
		}
		if strings.Contains(f.Name(), "$bound") || strings.Contains(f.Name(), "$thunk") {
			if obj := f.Object(); obj != nil {
				if g := byName[fnName(obj.(interface{ FullName() string }).FullName())]; g != nil && !seen[g] {
					stack = append(stack, g)
				}
			}
		}
	}
	w.reach = map[string]bool{}
	for f := range seen {
		if f.Pkg != nil || f.Origin() != nil {
			w.reach[fnReal(f)] = true
		}
	}
	return w.reach
}

// unreachableAnchors: anchors of obligations that name a declared gleece function which
// no entry point can reach.
func (w *World) unreachableAnchors(anchors []string) []string {
	reach := w.reachable()
	var out []string
	for _, a := range anchors {
		if fi := w.Funcs[a]; fi != nil && fi.SSA != nil && !reach[a] {
			out = append(out, a)
		}
	}
	sort.Strings(out)
	return out
}
