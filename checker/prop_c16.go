package main

import (
	"fmt"
	"go/ast"
	"go/constant"
	"go/token"
	"go/types"
	"regexp/syntax"
	"sort"
	"strings"

	"golang.org/x/tools/go/ssa"
)

func init() {
	register("C16", "Static structural obligations on the annotation parser: an error from the JSON5 decoder makes parseCommentNode, NewAnnotationHolder and every transitive caller fail (error chain climbed over the static call graph up to the visitor's recorder; the only filter is the UnexpectedEntityError dispatch, which cannot carry a parse error); the whole property text is decoded (json5.Unmarshal, not a streaming Decode without a trailing-data check); the regular expression has exactly the capture groups its consumer reads and each Attribute field is fed from its own group; a non-matching line never yields an attribute and every line lands in exactly one of the two lists; lists are appended in comment order with no sort and no map; GetDescription returns the @Description text when present and otherwise compares each free comment's index with a position counter (leading, contiguous run). The language accepted by the regular expression and offset arithmetic over all inputs are not decided.", checkC16)
}

const pkgAnn = "core/annotations"

func checkC16(c *Ctx, r *Report) {
	defer func() { ruleRegexInventory(c, r, "C16.a", "core/annotations", "gast") }()
	defer checkProcessWideState(c, r, "C16.c")
	w := c.W
	r.NotDecided = append(r.NotDecided, "the language accepted by parsingRegex (greedy `{.*}`, braces or `)` inside strings), i.e. that every well-formed line parses back to what was written", "byte/rune offset arithmetic with multibyte text", "json5 library semantics", "GetCastProperty conversions over all value shapes")
	const pcn = pkgAnn + ".parseCommentNode"
	const nah = pkgAnn + ".NewAnnotationHolder"
	const unm = "github.com/titanous/json5.Unmarshal"

	// ---- C16.a malformed JSON5 is never dropped
	if fi := need(c, r, "C16.a", pcn); fi != nil {
		sites, v := w.errPropagates(fi.SSA, func(n string) bool { return n == unm || strings.HasSuffix(n, "json5.Decoder).Decode") }, -1, "the JSON5 decoder")
		r.add("C16.a", "errprop", pcn+"<-json5", "a JSON5 decoding failure makes parseCommentNode fail", []string{pcn}, append(sites, w.pos(fi.Decl.Pos())), v)
	}
	ruleErrPropagates(c, r, "C16.a", nah, pcn, -1, "a failing comment makes NewAnnotationHolder fail")
	{
		sites, viols, sinks, filters := w.errChain(nah, 14)
		viol := ""
		if len(viols) > 0 {
			viol = fmt.Sprintf("%d place(s) where a malformed annotation's error can be lost, first: %s", len(viols), viols[0])
		}
		if len(sites) < 40 {
			viol = fmt.Sprintf("error chain from NewAnnotationHolder has only %d call sites (floor 40)", len(sites))
		}
		var ss []string
		for _, s := range sites {
			ss = append(ss, strings.SplitN(s, ": ", 2)[0])
		}
		o := r.add("C16.a", "errprop-chain", nah+":callers*", fmt.Sprintf("at each of the %d call sites on the static call chain above NewAnnotationHolder the error is tested with all failure paths failing, or handed on; chain ends at %d recorder sink(s)", len(sites), len(sinks)), []string{nah}, ss, viol)
		o.NonTrivial = true
		// sinks: only the ast.Visitor entry point, which records through setLastError
		v2 := ""
		var s2 []string
		for _, s := range sinks {
			s2 = append(s2, strings.SplitN(s, ": ", 2)[0])
			if !strings.Contains(s, "(*core/visitors.ControllerVisitor).Visit ") {
				v2 = "unexpected end of the error chain (function without an error result): " + s
			}
		}
		if len(sinks) == 0 {
			v2 = "the error chain never reaches the visitor entry point"
		}
		r.add("C16.a", "errprop-chain", nah+":sinks", "the chain ends only in ControllerVisitor.Visit, which records the error (setLastError) on every failure path", []string{"(*core/visitors.ControllerVisitor).Visit"}, s2, v2)
		// filters
		v3 := ""
		var s3 []string
		for _, f := range filters {
			s3 = append(s3, strings.SplitN(f, ": ", 2)[0])
			if !strings.Contains(f, "visitors.UnexpectedEntityError") {
				v3 = "an error-type dispatch other than the reviewed UnexpectedEntityError one sits on the chain: " + f
			}
		}
		// the dispatched kind cannot carry an annotation error: its constructor is never fed from one
		for _, cl := range w.callersOf(nameIs("core/visitors.NewUnexpectedEntityError")) {
			s3 = append(s3, w.pos(cl.Pos()))
			for _, a := range cl.Common().Args {
				sa := sliceOf(a)
				for k := range sa.Calls {
					if strings.HasSuffix(k, ".getAnnotations") || k == nah {
						v3 = fmt.Sprintf("%s: an UnexpectedEntityError is built from an annotation error: the enum/alias dispatch would swallow it", w.pos(cl.Pos()))
					}
				}
			}
		}
		r.add("C16.a", "errprop-chain", nah+":filters", "the only error-kind dispatch on the chain (enum-or-alias) cannot swallow an annotation error", []string{"core/visitors.UnexpectedEntityError"}, s3, v3)
	}
	ruleMustCall(c, r, "C16.a", "(*core/pipeline.GleecePipeline).GenerateGraph", "(*core/visitors.VisitorOrchestrator).GetLastError", "GenerateGraph consults the recorded visitor error")
	// whole-document decoding
	{
		viol := ""
		var sites []string
		n := 0
		for _, fn := range w.SSAFuncs {
			if fn.Pkg == nil || short(fn.Pkg.Pkg.Path()) != pkgAnn {
				continue
			}
			hasEOFCheck := false
			var decs []ssa.CallInstruction
			allInstrs(fn, true, func(_ *ssa.Function, _ *ssa.BasicBlock, _ int, ins ssa.Instruction) {
				cl, ok := ins.(ssa.CallInstruction)
				if !ok {
					return
				}
				switch nm := calleeName(cl); {
				case nm == unm:
					n++
					sites = append(sites, w.pos(cl.Pos()))
				case strings.HasSuffix(nm, "json5.Decoder).Decode"):
					decs = append(decs, cl)
				case strings.HasSuffix(nm, "json5.Decoder).More") || strings.HasSuffix(nm, "json5.Decoder).Buffered"):
					hasEOFCheck = true
				}
			})
			for _, d := range decs {
				sites = append(sites, w.pos(d.Pos()))
				if !hasEOFCheck {
					viol = fmt.Sprintf("%s: annotation properties are decoded with a streaming Decoder.Decode and no trailing-data check: Decode stops after the first JSON5 value, so `{a:1} garbage}` or `{a:1}, {b:2}` (both captured by the greedy `{.*}` group) parse 'successfully' and the rest is silently dropped", w.pos(d.Pos()))
				}
			}
		}
		if n == 0 && viol == "" {
			viol = "no whole-document JSON5 decoding (json5.Unmarshal) found in core/annotations"
		}
		o := r.add("C16.a", "api-choice", pkgAnn+":whole-document-json5", "the property object is decoded as a whole document (trailing text is an error)", []string{pcn}, sites, viol)
		o.NonTrivial = true
	}

	// ---- C16.b regex <-> consumers
	checkAnnotationRegex(c, r, "C16.b")

	// ---- C16.c every line lands in exactly one list; order is source order
	if fi := need(c, r, "C16.c", pcn); fi != nil {
		// no match => (zero, false, nil)
		viol := "no `if matchIndices == nil { return Attribute{}, false, nil }` found"
		var sites []string
		for _, ex := range exitsOf(fi.SSA) {
			if ex.Ret == nil || len(ex.Ret.Results) != 3 {
				continue
			}
			isAttr, ok := stripTrivial(unspill(ex.Ret.Results[1], ex.Block)).(*ssa.Const)
			if !ok {
				viol = fmt.Sprintf("%s: the isAttribute result is not a constant", w.pos(retPos(ex)))
				continue
			}
			guardedNil := false
			for _, f := range guardsOfBlock(ex.Block) {
				cnd, p := unwrapNot(f.Cond, f.Pol)
				if b, ok := cnd.(*ssa.BinOp); ok && (isNilConst(b.X) || isNilConst(b.Y)) {
					sa := sliceOf(cnd)
					if sa.Calls["(*regexp.Regexp).FindStringSubmatchIndex"] && ((b.Op == token.EQL && p) || (b.Op == token.NEQ && !p)) {
						guardedNil = true
					}
				}
			}
			if !constant.BoolVal(isAttr.Value) {
				sites = append(sites, w.pos(retPos(ex)))
				if guardedNil {
					viol = ""
				} else {
					viol = fmt.Sprintf("%s: `not an attribute` is returned although the line matched the annotation grammar", w.pos(retPos(ex)))
				}
			} else if guardedNil {
				viol = fmt.Sprintf("%s: a line that does not match the annotation grammar is reported as an attribute", w.pos(retPos(ex)))
			}
		}
		r.add("C16.c", "guardedby", pcn+":no-match=>not-attribute", "a line yields an attribute iff it matched the annotation grammar", []string{pcn}, sites, viol)
	}
	ruleEach(c, r, "C16.c", nah,
		func(fi *FuncInfo) func(ast.Expr) bool { return w.rangeOverField(fi, "gast.CommentBlock.Comments") }, "commentBlock.Comments",
		func(fi *FuncInfo) func(ast.Node) bool {
			return func(n ast.Node) bool {
				as, ok := n.(*ast.AssignStmt)
				if !ok || len(as.Lhs) != 1 || len(as.Rhs) != 1 {
					return false
				}
				cl, ok := as.Rhs[0].(*ast.CallExpr)
				if !ok {
					return false
				}
				if id, ok := cl.Fun.(*ast.Ident); !ok || id.Name != "append" {
					return false
				}
				l := exprString(as.Lhs[0])
				return l == "holder.attributes" || l == "holder.nonAttributeComments"
			}
		}, "append(holder.attributes|holder.nonAttributeComments)", nil, true, "every comment line is kept: as an attribute or as free text (only a parse error leaves the loop)")
	checkHolderDispatch(c, r, "C16.c")
	{
		// order: no sort / map iteration in the functions between the doc list and Attributes()
		viol := ""
		var sites []string
		fns := []string{nah, "(" + pkgAnn + ".AnnotationHolder).Attributes", "(" + pkgAnn + ".AnnotationHolder).NonAttributeComments", "(" + pkgAnn + ".AnnotationHolder).GetAll", "(" + pkgAnn + ".AnnotationHolder).GetFirst", "gast.MapDocListToCommentBlock"}
		for _, k := range fns {
			fi := need(c, r, "C16.c", k)
			if fi == nil {
				continue
			}
			sites = append(sites, w.pos(fi.Decl.Pos()))
			allInstrs(fi.SSA, true, func(_ *ssa.Function, _ *ssa.BasicBlock, _ int, ins ssa.Instruction) {
				switch x := ins.(type) {
				case *ssa.Range:
					if _, isMap := x.X.Type().Underlying().(*types.Map); isMap {
						viol = fmt.Sprintf("%s: %s iterates a map on the way from the doc list to the attribute list", w.pos(x.Pos()), k)
					}
				case ssa.CallInstruction:
					if nm := calleeName(x); strings.HasPrefix(nm, "sort.") || strings.HasPrefix(nm, "slices.Sort") || nm == "slices.Reverse" {
						viol = fmt.Sprintf("%s: %s reorders (%s)", w.pos(x.Pos()), k, nm)
					}
				}
			})
		}
		r.add("C16.c", "no-reorder", "annotations:source-order", "attribute order is source order: comments are appended in doc-list order and never sorted or passed through a map", fns, sites, viol)
	}
	ruleEach(c, r, "C16.c", "gast.MapDocListToCommentBlock",
		func(fi *FuncInfo) func(ast.Expr) bool { return w.paramOfType(fi, "[]*go/ast.Comment") }, "docList",
		func(fi *FuncInfo) func(ast.Node) bool { return w.appendTo(fi, w.resultSlice(fi)) }, "append(comments, …)", nil, false,
		"every line of the doc comment becomes a comment node (a skipped line leaves a gap in the indices, which GetDescription reads as the end of the leading free text, and disappears from NonAttributeComments)")
	if fi := need(c, r, "C16.c", nah); fi != nil {
		// free text is the line without the comment marker and surrounding blanks - nothing else is stripped
		nac := w.lookupType(pkgAnn, "NonAttributeComment")
		viol := ""
		var sites []string
		for _, sk := range w.fieldSinks(fi, nac, "Value") {
			sites = append(sites, w.pos(sk.Pos))
			ast.Inspect(sk.Expr, func(n ast.Node) bool {
				cl, ok := n.(*ast.CallExpr)
				if !ok {
					return true
				}
				switch nm := calleeOfCall(fi.Pkg.TypesInfo, cl); nm {
				case "strings.Trim", "strings.TrimLeft", "strings.TrimRight", "strings.TrimPrefix", "strings.TrimSuffix":
					if len(cl.Args) == 2 {
						if l := litString(cl.Args[1]); l != "//" && l != " " {
							viol = fmt.Sprintf("%s: free text is stripped of %q", w.pos(cl.Pos()), l)
						}
					}
				default:
					viol = fmt.Sprintf("%s: the free text of a comment line passes through %s: anything beyond removing the `//` marker and surrounding spaces changes what was written (tab-indented code blocks, non-ASCII spacing)", w.pos(cl.Pos()), nm)
				}
				return true
			})
		}
		if len(sites) == 0 {
			viol = "no NonAttributeComment.Value sink"
		}
		r.add("C16.c", "fieldflow", nah+":free-text-verbatim", "free text is kept as written (only the comment marker and surrounding spaces are removed)", []string{nah}, sites, viol)
	}
	if fi := need(c, r, "C16.c", "gast.MapDocListToCommentBlock"); fi != nil {
		cn := w.lookupType("gast", "CommentNode")
		viol := ""
		var sites []string
		for _, f := range []string{"Text", "Index"} {
			sk := w.fieldSinks(fi, cn, f)
			if len(sk) != 1 {
				viol = fmt.Sprintf("expected one CommentNode.%s sink, found %d", f, len(sk))
			}
			for _, s := range sk {
				sites = append(sites, w.pos(s.Pos))
				e := exprString(s.Expr)
				if f == "Text" && e != "c.Text" {
					viol = fmt.Sprintf("%s: CommentNode.Text is not the comment's raw text (%s)", w.pos(s.Pos), e)
				}
				if f == "Index" && e != "i" {
					viol = fmt.Sprintf("%s: CommentNode.Index is not the comment's position in the doc list (%s)", w.pos(s.Pos), e)
				}
			}
		}
		r.add("C16.c", "fieldflow", fi.Key+":Text+Index", "each comment node carries the raw text and its position in the doc list", []string{fi.Key}, sites, viol)
	}

	// ---- C16.d description rule
	const gd = "(" + pkgAnn + ".AnnotationHolder).GetDescription"
	if fi := need(c, r, "C16.d", gd); fi != nil {
		// @Description present => its Description
		viol := "no `return descriptionAttr.Description` under `descriptionAttr != nil`"
		var sites []string
		for _, ex := range exitsOf(fi.SSA) {
			if ex.Ret == nil || len(ex.Ret.Results) != 1 {
				continue
			}
			a := sliceOf(ex.Ret.Results[0])
			if a.hasFieldNamed("Description") && !a.Calls["strings.Join"] {
				sites = append(sites, w.pos(retPos(ex)))
				ok := false
				for k := range a.Calls {
					if strings.HasSuffix(k, ".GetFirst") {
						ok = true
					}
				}
				constOK := false
				for _, k := range a.Consts {
					if strings.Contains(k, "Description") {
						constOK = true
					}
				}
				if ok && constOK {
					viol = ""
				} else {
					viol = fmt.Sprintf("%s: the description attribute is not GetFirst(@Description)", w.pos(retPos(ex)))
				}
			}
		}
		r.add("C16.d", "fieldflow", gd+":@Description-wins", "with a @Description attribute present its text is the description", []string{gd}, sites, viol)

		// leading contiguous run: the append is guarded by a comparison of the comment's own Index with a position counter
		v2 := ""
		var s2 []string
		n := 0
		allInstrs(fi.SSA, false, func(_ *ssa.Function, _ *ssa.BasicBlock, _ int, ins ssa.Instruction) {
			cl, ok := ins.(*ssa.Call)
			if !ok || calleeName(cl) != "builtin.append" {
				return
			}
			if sl, ok := cl.Type().Underlying().(*types.Slice); !ok || !types.Identical(sl.Elem(), types.Typ[types.String]) {
				return
			}
			n++
			s2 = append(s2, w.pos(cl.Pos()))
			ok = false
			for _, f := range guardsOf(cl) {
				cnd, _ := unwrapNot(f.Cond, f.Pol)
				b, isBin := cnd.(*ssa.BinOp)
				if !isBin {
					continue
				}
				xa, ya := sliceOf(b.X), sliceOf(b.Y)
				var idx, other *sliceAtoms
				if xa.hasFieldNamed("Index") {
					idx, other = xa, ya
				} else if ya.hasFieldNamed("Index") {
					idx, other = ya, xa
				}
				if idx == nil {
					continue
				}
				s2 = append(s2, w.pos(instrPos(f.From)))
				// the other side is a position counter: constants, a counter phi, len(...) - no data of another comment
				if len(other.Fields) == 0 {
					ok = true
				} else {
					v2 = fmt.Sprintf("%s: a free comment's index is compared with data of another comment (%v) instead of a position counter starting at 0: free text that follows an annotation is then taken as the entity description", w.pos(instrPos(f.From)), other.fieldNames())
				}
			}
			if !ok && v2 == "" {
				v2 = fmt.Sprintf("%s: free comments are collected without a dominating test of their index against the run position (leading, contiguous)", w.pos(cl.Pos()))
			}
		})
		if n != 1 {
			v2 = fmt.Sprintf("expected one append of free-comment text in GetDescription, found %d", n)
		}
		o := r.add("C16.d", "guardedby", gd+":leading-contiguous-run", "without @Description the description is the run of free-text lines that starts at line 0 and has no gap", []string{gd}, s2, v2)
		o.NonTrivial = true
	}

	ruleEarlyExitInventory(c, r, "C16.c", 3, "core/annotations")
	ruleDecisionInputs(c, r, "C16.c", "gast")
	ruleErrDrops(c, r, "C16.c", "core/annotations", "gast")
	ruleHelperShape(c, r, "C16.b", helperShape{Fn: "(core/annotations.Attribute).GetProperty", MustFields: []string{"Properties"}, MustCommaOk: true,
		Why: "a property is present iff its key is in the parsed JSON5 object - whatever its value, `null` included"})
	// every element filter in these packages is a reviewed one
	ruleSkipInventory(c, r, "C16.c", loadSkipTable(c.VerifDir), 5, "core/annotations", "gast")
}

func exprListString(n ast.Node) string {
	var sb strings.Builder
	ast.Inspect(n, func(x ast.Node) bool {
		if st, ok := x.(ast.Stmt); ok {
			if as, ok := st.(*ast.AssignStmt); ok && len(as.Lhs) == 1 && len(as.Rhs) == 1 {
				r := as.Rhs[0]
				if cl, ok := r.(*ast.CallExpr); ok && len(cl.Args) >= 2 {
					sb.WriteString(exprString(as.Lhs[0]) + " = " + exprString(cl.Fun) + "(" + exprString(cl.Args[0]) + ", " + exprString(cl.Args[1]) + ")\n")
				}
			}
		}
		return true
	})
	return sb.String()
}

// guardsOfBlock: dominating branch facts of a block (through its first instruction).
func guardsOfBlock(b *ssa.BasicBlock) []edgeFact {
	if len(b.Instrs) == 0 {
		return nil
	}
	return guardsOf(b.Instrs[0])
}

// checkAnnotationRegex: the capture groups of parsingRegex and their consumers.
func checkAnnotationRegex(c *Ctx, r *Report, clause string) {
	w := c.W
	const pcn = pkgAnn + ".parseCommentNode"
	pat := ""
	var sites []string
	if p := w.pkg(pkgAnn); p != nil {
		if v, ok := p.Types.Scope().Lookup("parsingRegex").(*types.Var); ok {
			pat, _ = w.globalRegexPattern(v)
			sites = append(sites, w.pos(v.Pos()))
		}
	}
	viol := ""
	ncap := 0
	var caps []*syntax.Regexp
	if pat == "" {
		viol = "parsingRegex literal not found"
	} else {
		re, err := syntax.Parse(pat, syntax.Perl)
		if err != nil {
			viol = "parsingRegex does not parse: " + err.Error()
		} else {
			ncap = re.MaxCap()
			var walk func(x *syntax.Regexp)
			walk = func(x *syntax.Regexp) {
				if x.Op == syntax.OpCapture {
					caps = append(caps, x)
				}
				for _, s := range x.Sub {
					walk(s)
				}
			}
			walk(re)
			sort.Slice(caps, func(i, j int) bool { return caps[i].Cap < caps[j].Cap })
			if !strings.HasPrefix(pat, "^// @") || !strings.HasSuffix(pat, "$") {
				viol = "parsingRegex is not anchored as `^// @...$`"
			}
			if ncap == 4 {
				// group 1: the name, \w+ ; group 3: an object literal {...}
				if g1 := caps[0].Sub[0]; !(g1.Op == syntax.OpPlus && g1.Sub[0].Op == syntax.OpCharClass) {
					viol = "group 1 (annotation name) is not `\\w+`"
				}
				g3 := caps[2].Sub[0]
				isLit := func(x *syntax.Regexp, ch rune) bool {
					return x.Op == syntax.OpLiteral && len(x.Rune) >= 1 && x.Rune[0] == ch
				}
				if g3.Op != syntax.OpConcat || len(g3.Sub) < 2 || !isLit(g3.Sub[0], '{') || !isLit(g3.Sub[len(g3.Sub)-1], '}') {
					viol = fmt.Sprintf("group 3 (JSON5 object) does not start with `{` and end with `}`: %s", g3.String())
				}
			}
		}
	}
	// consumers
	fi := need(c, r, clause, pcn)
	groupOf := map[string]string{}
	if fi != nil {
		info := fi.Pkg.TypesInfo
		w.inspectRegion(fi, func(n ast.Node) bool {
			as, ok := n.(*ast.AssignStmt)
			if !ok || len(as.Rhs) != 1 {
				return true
			}
			cl, ok := as.Rhs[0].(*ast.CallExpr)
			// a group is read as its text (getGroupString) or as its offsets (getGroupOffsets): the
			// group number is the last operand of either
			if !ok || len(cl.Args) < 2 {
				return true
			}
			if cn := calleeOfCall(info, cl); cn != pkgAnn+".getGroupString" && cn != pkgAnn+".getGroupOffsets" {
				return true
			}
			sites = append(sites, w.pos(cl.Pos()))
			if tv, ok := info.Types[cl.Args[len(cl.Args)-1]]; ok && tv.Value != nil {
				if id, ok := as.Lhs[0].(*ast.Ident); ok {
					groupOf[id.Name] = tv.Value.ExactString()
				}
			}
			return true
		})
		used := map[string]bool{}
		for _, g := range groupOf {
			used[g] = true
		}
		if ncap != 4 || len(used) != 4 || !used["1"] || !used["2"] || !used["3"] || !used["4"] {
			viol = fmt.Sprintf("parsingRegex has %d capture groups but parseCommentNode reads groups %v: writer and reader of the match disagree", ncap, groupOf)
		}
		// group -> Attribute field
		at := w.lookupType(pkgAnn, "Attribute")
		want := map[string]string{"Name": "1", "Value": "2", "Description": "4"}
		for f, g := range want {
			sk := w.fieldSinks(fi, at, f)
			okf := false
			for _, s := range sk {
				if id, ok := s.Expr.(*ast.Ident); ok && groupOf[id.Name] == g {
					okf = true
					sites = append(sites, w.pos(s.Pos))
				}
			}
			if !okf && viol == "" {
				viol = fmt.Sprintf("Attribute.%s is not fed from capture group %s", f, g)
			}
		}
		// Properties <- json5.Unmarshal(group 3)
		for _, cl := range callsIn(fi.SSA, false, nameIs("github.com/titanous/json5.Unmarshal")) {
			sites = append(sites, w.pos(cl.Pos()))
			a := sliceOf(cl.Common().Args[0])
			has3 := false
			for _, k := range a.Consts {
				if k == "3" {
					has3 = true
				}
			}
			if !(a.Calls[pkgAnn+".getGroupString"] || a.Calls[pkgAnn+".getGroupOffsets"]) || !has3 {
				if viol == "" {
					viol = fmt.Sprintf("%s: the text handed to the JSON5 decoder is not capture group 3", w.pos(cl.Pos()))
				}
			}
			// target is what becomes Attribute.Properties
			tgt := rootAlloc(cl.Common().Args[1])
			okP := false
			for _, sk := range w.fieldSinks(fi, at, "Properties") {
				if id, ok := sk.Expr.(*ast.Ident); ok && tgt != nil && strings.Contains(tgt.(*ssa.Alloc).Comment, id.Name) {
					okP = true
				}
			}
			if !okP && viol == "" {
				viol = "Attribute.Properties is not the object the JSON5 text was decoded into"
			}
		}
	}
	o := r.add(clause, "setagree", "parsingRegex:groups==consumers", "the regular expression has exactly the four capture groups parseCommentNode reads, and Name/Value/Properties/Description are each fed from their own group", []string{pkgAnn + ".parsingRegex", pcn}, sites, viol)
	o.NonTrivial = true

	// the regex is applied to the line's own text and the groups are cut from the same text
	if fi != nil {
		v2 := ""
		var s2 []string
		for _, cl := range callsIn(fi.SSA, false, nameIs("(*regexp.Regexp).FindStringSubmatchIndex")) {
			s2 = append(s2, w.pos(cl.Pos()))
			a := sliceOf(cl.Common().Args[1])
			if !a.hasFieldNamed("Text") {
				v2 = fmt.Sprintf("%s: the grammar is not matched against the comment's text", w.pos(cl.Pos()))
			}
		}
		if len(s2) != 1 {
			v2 = "expected one FindStringSubmatchIndex call"
		}
		r.add(clause, "fieldflow", pcn+":matched-text", "the grammar is applied to the comment line itself", []string{pcn}, s2, v2)
	}
}

// checkHolderDispatch: a comment line becomes an attribute only if parseCommentNode says it is one,
// free text otherwise; each line is appended once (shared with C01.d: deprecation, hiding, tags and
// routes of an operation are what its annotations say - not what its prose resembles).
func checkHolderDispatch(c *Ctx, r *Report, clause string) {
	w := c.W
	nah := pkgAnn + ".NewAnnotationHolder"
	if fi := need(c, r, clause, nah); fi != nil {
		// attributes appended only under isAnAttribute, free text only under !isAnAttribute; the free text is the line's own text
		viol := ""
		var sites []string
		// (decided on dominating branch facts: `if is {a} else {b}`, `if is {a; continue}; b` and
		// `if !is {b; continue}; a` are the same dispatch)
		isAttr := func(v ssa.Value) bool {
			ex, ok := stripTrivial(v).(*ssa.Extract)
			if !ok || ex.Index != 1 {
				return false
			}
			cl, ok := ex.Tuple.(*ssa.Call)
			return ok && calleeName(cl) == pkgAnn+".parseCommentNode"
		}
		counts := map[string]int{}
		allInstrs(fi.SSA, true, func(_ *ssa.Function, _ *ssa.BasicBlock, _ int, ins ssa.Instruction) {
			st, ok := ins.(*ssa.Store)
			if !ok {
				return
			}
			fa, ok := st.Addr.(*ssa.FieldAddr)
			if !ok {
				return
			}
			fv := structFieldVar(fa.X.Type(), fa.Field)
			if fv == nil || (fv.Name() != "attributes" && fv.Name() != "nonAttributeComments") {
				return
			}
			if cl, ok := stripTrivial(st.Val).(*ssa.Call); !ok || calleeName(cl) != "builtin.append" {
				return // the initialisation of the holder
			}
			counts[fv.Name()]++
			sites = append(sites, w.pos(st.Pos()))
			want := fv.Name() == "attributes"
			guarded := false
			for _, f := range guardsOf(st) {
				cnd, pol := unwrapNot(f.Cond, f.Pol)
				if isAttr(cnd) && pol == want {
					guarded = true
				}
			}
			if !guarded {
				if want {
					viol = fmt.Sprintf("%s: a line is appended to the attributes although parseCommentNode did not say it is one", w.pos(st.Pos()))
				} else {
					viol = fmt.Sprintf("%s: a line is appended to the free text although parseCommentNode said it is an attribute (or without asking)", w.pos(st.Pos()))
				}
			}
		})
		if counts["attributes"] != 1 || counts["nonAttributeComments"] != 1 {
			viol = fmt.Sprintf("expected one append to each of holder.attributes and holder.nonAttributeComments in NewAnnotationHolder, found %v", counts)
		}
		nac := w.lookupType(pkgAnn, "NonAttributeComment")
		for _, f := range []struct{ field, must string }{{"Value", "gast.CommentNode.Text"}, {"Index", "gast.CommentNode.Index"}} {
			for _, sk := range w.fieldSinks(fi, nac, f.field) {
				sites = append(sites, w.pos(sk.Pos))
				if a := w.exprAtoms(fi, sk.Expr); !a.Fields[f.must] {
					viol = fmt.Sprintf("%s: NonAttributeComment.%s is not the line's own %s", w.pos(sk.Pos), f.field, f.must)
				}
			}
		}
		r.add(clause, "fieldflow", nah+":dispatch", "attributes and free text go to their own list, built from the line itself", []string{nah}, sites, viol)
	}
}
