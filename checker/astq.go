package main

import (
	"fmt"
	"go/ast"
	"go/constant"
	"go/token"
	"go/types"
	"reflect"
	"sort"
	"strconv"
	"strings"

	"golang.org/x/tools/go/packages"
	"golang.org/x/tools/go/types/typeutil"
)

// ---------------------------------------------------------------------------
// Resolution helpers on the typed AST

func calleeOfCall(info *types.Info, call *ast.CallExpr) string {
	obj := typeutil.Callee(info, call)
	switch f := obj.(type) {
	case *types.Func:
		if o := f.Origin(); o != nil {
			f = o
		}
		return fnName(f.FullName())
	case *types.Builtin:
		return "builtin." + f.Name()
	}
	// conversion?
	if tv, ok := info.Types[call.Fun]; ok && tv.IsType() {
		return "conv:" + short(types.TypeString(tv.Type, nil))
	}
	return ""
}

// selField returns the field object if e is a selector that denotes a struct field.
func selField(info *types.Info, e ast.Expr) *types.Var {
	se, ok := e.(*ast.SelectorExpr)
	if !ok {
		return nil
	}
	if sel := info.Selections[se]; sel != nil && sel.Kind() == types.FieldVal {
		v, _ := sel.Obj().(*types.Var)
		return v
	}
	return nil
}

// qualField: "definitions.RouteMetadata.OperationId" for a field selection.
func qualField(info *types.Info, se *ast.SelectorExpr) string {
	sel := info.Selections[se]
	if sel == nil {
		return ""
	}
	recv := sel.Recv()
	// walk the embedding path to find the struct that really declares the field
	t := recv
	idx := sel.Index()
	for i := 0; i < len(idx)-1; i++ {
		st := structOf(t)
		if st == nil {
			break
		}
		t = st.Field(idx[i]).Type()
	}
	name := "?"
	if n, ok := derefNamed(t); ok {
		name = short(n.Obj().Pkg().Path()) + "." + n.Obj().Name()
	} else {
		name = short(types.TypeString(t, nil))
	}
	return name + "." + sel.Obj().Name()
}

func structOf(t types.Type) *types.Struct {
	if p, ok := t.Underlying().(*types.Pointer); ok {
		t = p.Elem()
	}
	st, _ := t.Underlying().(*types.Struct)
	return st
}

// ---------------------------------------------------------------------------
// Atoms of an expression (AST-level dataflow, flow-insensitive over locals)

type Atoms struct {
	Fields map[string]bool // qualified field names read
	Calls  map[string]bool // callee short names (incl. "conv:T", "builtin.x")
	Lits   map[string]bool // literal values
	Idents map[string]bool // params / globals / consts by qualified name or "<type>"
	Ops    map[string]bool
}

func newAstAtoms() *Atoms {
	return &Atoms{Fields: map[string]bool{}, Calls: map[string]bool{}, Lits: map[string]bool{}, Idents: map[string]bool{}, Ops: map[string]bool{}}
}

func keys(m map[string]bool) []string {
	out := make([]string, 0, len(m))
	for k := range m {
		out = append(out, k)
	}
	sort.Strings(out)
	return out
}

// hasCall: the expression passes through callee name (directly or inlined).
func (a *Atoms) hasCall(name string) bool { return a.Calls[name] || a.Calls["inlined:"+name] }

func (a *Atoms) String() string {
	return fmt.Sprintf("fields=%v calls=%v lits=%v idents=%v", keys(a.Fields), keys(a.Calls), keys(a.Lits), keys(a.Idents))
}

// funcDefs records, for each local variable of a function, the expressions assigned.
type funcDefs struct {
	defs    map[types.Object][]ast.Expr
	rangeOf map[types.Object]ast.Expr // variable is the value var of range over expr
	tupleOf map[types.Object]ast.Expr // variable defined from a multi-value call
	tupleIx map[types.Object]int      // ... as its i-th result
	// field writes x.F = v on a local x: per field, and the set of such right-hand sides
	fieldDefs map[types.Object]map[string][]ast.Expr
	fromField map[ast.Expr]bool
}

func (w *World) defsOf(fi *FuncInfo) *funcDefs {
	if fd, ok := w.defsMemo[fi]; ok {
		return fd
	}
	fd := w.defsOfUncached(fi)
	if w.defsMemo == nil {
		w.defsMemo = map[*FuncInfo]*funcDefs{}
	}
	w.defsMemo[fi] = fd
	return fd
}

func (w *World) defsOfUncached(fi *FuncInfo) *funcDefs {
	fd := &funcDefs{defs: map[types.Object][]ast.Expr{}, rangeOf: map[types.Object]ast.Expr{}, tupleOf: map[types.Object]ast.Expr{}, tupleIx: map[types.Object]int{}, fieldDefs: map[types.Object]map[string][]ast.Expr{}, fromField: map[ast.Expr]bool{}}
	info := fi.Pkg.TypesInfo
	objOf := func(e ast.Expr) types.Object {
		id, ok := e.(*ast.Ident)
		if !ok {
			return nil
		}
		if o := info.Defs[id]; o != nil {
			return o
		}
		return info.Uses[id]
	}
	ast.Inspect(fi.Decl, func(n ast.Node) bool {
		switch s := n.(type) {
		case *ast.AssignStmt:
			if len(s.Lhs) == len(s.Rhs) {
				for i, l := range s.Lhs {
					if o := objOf(l); o != nil {
						fd.defs[o] = append(fd.defs[o], s.Rhs[i])
					}
					// x[k] = v and x.F = v feed k, v into the local x (flow-insensitive)
					switch lx := l.(type) {
					case *ast.IndexExpr:
						if o := objOf(lx.X); o != nil {
							fd.defs[o] = append(fd.defs[o], lx.Index, s.Rhs[i])
						}
					case *ast.SelectorExpr:
						if o := objOf(lx.X); o != nil {
							if _, isVar := o.(*types.Var); isVar {
								fd.defs[o] = append(fd.defs[o], s.Rhs[i])
								if fd.fieldDefs[o] == nil {
									fd.fieldDefs[o] = map[string][]ast.Expr{}
								}
								fd.fieldDefs[o][lx.Sel.Name] = append(fd.fieldDefs[o][lx.Sel.Name], s.Rhs[i])
								fd.fromField[s.Rhs[i]] = true
							}
						}
					}
				}
			} else if len(s.Rhs) == 1 {
				for i, l := range s.Lhs {
					if o := objOf(l); o != nil {
						fd.defs[o] = append(fd.defs[o], s.Rhs[0])
						fd.tupleOf[o] = s.Rhs[0]
						fd.tupleIx[o] = i
					}
				}
			}
		case *ast.ValueSpec:
			for i, nm := range s.Names {
				if o := info.Defs[nm]; o != nil {
					if len(s.Values) == len(s.Names) {
						fd.defs[o] = append(fd.defs[o], s.Values[i])
					} else if len(s.Values) == 1 {
						fd.defs[o] = append(fd.defs[o], s.Values[0])
					}
				}
			}
		case *ast.ExprStmt:
			// a method call on a local (x.Set(k, v), x.Add(v), ...) feeds its arguments into x
			if call, ok := s.X.(*ast.CallExpr); ok {
				if se, ok := call.Fun.(*ast.SelectorExpr); ok {
					if o := objOf(se.X); o != nil {
						// only locals: a builder or collection made here. What is logged or
						// recorded through the receiver / a parameter does not become part of it.
						if _, isVar := o.(*types.Var); isVar && fi.Decl.Body != nil && o.Pos() > fi.Decl.Body.Pos() && o.Pos() < fi.Decl.Body.End() {
							for _, arg := range call.Args {
								fd.defs[o] = append(fd.defs[o], arg)
							}
						}
					}
				}
			}
		case *ast.RangeStmt:
			if s.Value != nil {
				if o := objOf(s.Value); o != nil {
					fd.rangeOf[o] = s.X
				}
			}
			if s.Key != nil {
				if o := objOf(s.Key); o != nil {
					fd.rangeOf[o] = s.X
				}
			}
		}
		return true
	})
	return fd
}

// exprAtoms computes the atoms of e inside function fi. Single-return repo helpers
// are inlined up to depth 2.
func (w *World) exprAtoms(fi *FuncInfo, e ast.Expr) *Atoms {
	fi = w.ownerOf(fi, e)
	a := newAstAtoms()
	w.atomsInto(fi, w.defsOf(fi), e, a, map[ast.Node]bool{}, 0)
	return a
}

func typeLabel(t types.Type) string {
	return "<" + short(types.TypeString(t, nil)) + ">"
}

func (w *World) atomsInto(fi *FuncInfo, fd *funcDefs, e ast.Expr, a *Atoms, seen map[ast.Node]bool, depth int) {
	if e == nil || seen[e] || depth > 40 {
		return
	}
	seen[e] = true
	info := fi.Pkg.TypesInfo
	switch x := e.(type) {
	case *ast.ParenExpr:
		w.atomsInto(fi, fd, x.X, a, seen, depth+1)
	case *ast.BasicLit:
		a.Lits[x.Value] = true
	case *ast.Ident:
		obj := info.Uses[x]
		if obj == nil {
			obj = info.Defs[x]
		}
		switch o := obj.(type) {
		case *types.Const:
			a.Idents["const:"+short(objPkgPath(o))+"."+o.Name()] = true
			if o.Val() != nil {
				a.Lits[o.Val().ExactString()] = true
			}
		case *types.Nil:
			a.Lits["nil"] = true
		case *types.Var:
			if o.IsField() {
				return
			}
			if o.Pkg() != nil && o.Parent() == o.Pkg().Scope() {
				if t := w.constTableOf(o); t != nil {
					w.tableAtoms(t, a, false)
					return
				}
				a.Idents["global:"+short(objPkgPath(o))+"."+o.Name()] = true
				return
			}
			if rx, ok := fd.rangeOf[o]; ok {
				a.Ops["range"] = true
				w.atomsInto(fi, fd, rx, a, seen, depth+1)
				return
			}
			if ds := fd.defs[o]; len(ds) > 0 {
				for _, d := range ds {
					if tc, isTuple := fd.tupleOf[o]; isTuple && tc == d {
						if call, ok := d.(*ast.CallExpr); ok {
							if name := calleeOfCall(info, call); name != "" && w.isNewName(name) {
								// i-th result of a new function: that result only
								w.atomsOfNewCall(astCallSite{fi, call}, w.Funcs[name], fd.tupleIx[o], a, depth)
								continue
							}
						}
					}
					if tc, isTuple := fd.tupleOf[o]; isTuple && tc == d && fd.tupleIx[o] == 1 {
						if ix, ok := d.(*ast.IndexExpr); ok {
							if t := w.constTableExpr(info, ix.X); t != nil {
								// `_, ok := table[k]`: membership decides on the keys only
								w.tableAtoms(t, a, true)
								a.Ops["index"] = true
								w.atomsInto(fi, fd, ix.Index, a, seen, depth+1)
								continue
							}
						}
					}
					w.atomsInto(fi, fd, d, a, seen, depth+1)
				}
				return
			}
			// parameter of a new function: what its call sites pass
			if sites, exprs, ok := w.argsBoundTo(o); ok && depth < 30 {
				if np := w.newParams[o]; w.astCtxIndex(np.Key) >= 0 {
					// reached through a particular call: that call's argument, in its caller's context
					i := w.astCtxIndex(np.Key)
					saved := w.astCtx
					fr := saved[i]
					w.astCtx = saved[:i]
					if ex := argOfSite(fr.Site, np.Idx); ex != nil {
						w.atomsInto(fr.Site.Fi, w.defsOf(fr.Site.Fi), ex, a, map[ast.Node]bool{}, depth+3)
					}
					w.astCtx = saved
					return
				}
				for i, s := range sites {
					w.atomsInto(s.Fi, w.defsOf(s.Fi), exprs[i], a, seen, depth+3)
				}
				return
			}
			// parameter / receiver / result
			a.Idents[typeLabel(o.Type())] = true
		case *types.Func:
			a.Calls["func:"+fnName(o.FullName())] = true
		case *types.TypeName:
			// type used as value in conversion
		}
	case *ast.SelectorExpr:
		if sel := info.Selections[x]; sel != nil {
			switch sel.Kind() {
			case types.FieldVal:
				// x.F where x is (only ever) built from struct literals and field writes in
				// view: the value of F, not everything that went into x
				if vals, ok := w.projectField(fi, fd, x.X, x.Sel.Name, 0); ok {
					for _, v := range vals {
						w.atomsInto(v.Fi, w.defsOf(v.Fi), v.Expr, a, seen, depth+1)
					}
					return
				}
				if w.standsForDroppedParam(fi, x, info) {
					// a reviewed function that lost a parameter of this type and now reads it from
					// a field of its receiver: the field stands for that parameter
					a.Idents[typeLabel(info.TypeOf(x))] = true
					return
				}
				a.Fields[qualField(info, x)] = true
				w.atomsInto(fi, fd, x.X, a, seen, depth+1)
			case types.MethodVal, types.MethodExpr:
				if f, ok := sel.Obj().(*types.Func); ok {
					a.Calls["func:"+fnName(f.FullName())] = true
				}
				w.atomsInto(fi, fd, x.X, a, seen, depth+1)
			}
			return
		}
		// qualified identifier pkg.Name
		switch o := info.Uses[x.Sel].(type) {
		case *types.Const:
			a.Idents["const:"+short(objPkgPath(o))+"."+o.Name()] = true
			if o.Val() != nil {
				a.Lits[o.Val().ExactString()] = true
			}
		case *types.Var:
			if t := w.constTableOf(o); t != nil {
				w.tableAtoms(t, a, false)
				return
			}
			a.Idents["global:"+short(objPkgPath(o))+"."+o.Name()] = true
		case *types.Func:
			a.Calls["func:"+fnName(o.FullName())] = true
		}
	case *ast.CallExpr:
		name := calleeOfCall(info, x)
		if name == "" {
			// dynamic call through a value
			a.Ops["dyncall"] = true
			w.atomsInto(fi, fd, x.Fun, a, seen, depth+1)
		} else if w.isNewName(name) && depth < 30 {
			// a new function: looked through (results; parameters are bound to call-site
			// arguments when reached), not recorded as a call
			w.atomsOfNewCall(astCallSite{fi, x}, w.Funcs[name], -1, a, depth)
			return // (its arguments matter only where its parameters are used)
		} else if tgt := w.Funcs[name]; w.deep.on && tgt != nil && tgt.Decl.Body != nil && isPredicateFn(tgt) && !w.deep.busy[name] && w.deep.depth < 2 {
			// deep mode (decision fingerprints): what a gleece predicate returns and what it
			// branches on are what the caller decides on; the predicate's own name and shape
			// do not matter
			w.deep.busy[name] = true
			w.deep.depth++
			sub := newAstAtoms()
			tfd := w.defsOf(tgt)
			for _, e := range resultExprs(tgt, -1) {
				w.atomsInto(tgt, tfd, e, sub, map[ast.Node]bool{}, depth+5)
			}
			for _, ce := range branchConds(tgt) {
				w.atomsInto(tgt, tfd, ce, sub, map[ast.Node]bool{}, depth+5)
			}
			w.deep.depth--
			delete(w.deep.busy, name)
			for k := range sub.Fields {
				a.Fields[k] = true
			}
			for k := range sub.Calls {
				a.Calls[k] = true
			}
			for k := range sub.Lits {
				a.Lits[k] = true
			}
			for k := range sub.Idents {
				if strings.HasPrefix(k, "global:") || strings.HasPrefix(k, "const:") {
					a.Idents[k] = true
				}
			}
			if se, ok := x.Fun.(*ast.SelectorExpr); ok && info.Selections[se] != nil {
				w.atomsInto(fi, fd, se.X, a, seen, depth+1)
			}
		} else if tgt := w.inlinable(name); tgt != nil && depth < 20 {
			// inline: atoms of the single returned expression, with params as idents
			// then the arguments' atoms (flow through parameters is over-approximated
			// by union).
			ret := tgt.Decl.Body.List[0].(*ast.ReturnStmt)
			sub := newAstAtoms()
			w.atomsInto(tgt, w.defsOf(tgt), ret.Results[0], sub, map[ast.Node]bool{}, depth+10)
			for k := range sub.Fields {
				a.Fields[k] = true
			}
			for k := range sub.Calls {
				a.Calls[k] = true
			}
			for k := range sub.Lits {
				a.Lits[k] = true
			}
			for k := range sub.Idents {
				if strings.HasPrefix(k, "global:") || strings.HasPrefix(k, "const:") {
					a.Idents[k] = true
				}
			}
			a.Calls["inlined:"+name] = true
			if se, ok := x.Fun.(*ast.SelectorExpr); ok && info.Selections[se] != nil {
				w.atomsInto(fi, fd, se.X, a, seen, depth+1)
			}
		} else {
			a.Calls[name] = true
			if se, ok := x.Fun.(*ast.SelectorExpr); ok && info.Selections[se] != nil {
				// method call: receiver is data too
				w.atomsInto(fi, fd, se.X, a, seen, depth+1)
			}
		}
		if t := info.TypeOf(x); t != nil && types.Identical(t, types.Universe.Lookup("error").Type()) {
			// an error is being built: what goes into it is data, but its message text decides nothing
			sub := newAstAtoms()
			for _, arg := range x.Args {
				w.atomsInto(fi, fd, arg, sub, seen, depth+1)
			}
			for k := range sub.Fields {
				a.Fields[k] = true
			}
			for k := range sub.Calls {
				a.Calls[k] = true
			}
			for k := range sub.Idents {
				a.Idents[k] = true
			}
			for k := range sub.Ops {
				a.Ops[k] = true
			}
			return
		}
		for _, arg := range x.Args {
			w.atomsInto(fi, fd, arg, a, seen, depth+1)
		}
	case *ast.UnaryExpr:
		if x.Op != token.AND {
			a.Ops[x.Op.String()] = true
		}
		w.atomsInto(fi, fd, x.X, a, seen, depth+1)
	case *ast.StarExpr:
		w.atomsInto(fi, fd, x.X, a, seen, depth+1)
	case *ast.BinaryExpr:
		a.Ops[x.Op.String()] = true
		w.atomsInto(fi, fd, x.X, a, seen, depth+1)
		w.atomsInto(fi, fd, x.Y, a, seen, depth+1)
	case *ast.IndexExpr:
		a.Ops["index"] = true
		w.atomsInto(fi, fd, x.X, a, seen, depth+1)
		w.atomsInto(fi, fd, x.Index, a, seen, depth+1)
	case *ast.SliceExpr:
		a.Ops["slice"] = true
		w.atomsInto(fi, fd, x.X, a, seen, depth+1)
	case *ast.TypeAssertExpr:
		a.Ops["assert"] = true
		w.atomsInto(fi, fd, x.X, a, seen, depth+1)
	case *ast.CompositeLit:
		a.Ops["lit:"+short(types.TypeString(info.TypeOf(x), nil))] = true
		for _, el := range x.Elts {
			if kv, ok := el.(*ast.KeyValueExpr); ok {
				w.atomsInto(fi, fd, kv.Value, a, seen, depth+1)
			} else {
				w.atomsInto(fi, fd, el, a, seen, depth+1)
			}
		}
	case *ast.FuncLit:
		a.Ops["closure"] = true
	case *ast.KeyValueExpr:
		w.atomsInto(fi, fd, x.Value, a, seen, depth+1)
	}
}

type boundExprAt struct {
	Fi   *FuncInfo
	Expr ast.Expr
}

// projectField resolves x.field when x is a local (or the result of a new function) that
// is only ever defined by struct literals, zero declarations and field writes: the
// expressions that can be the value of that field. ok is false when x has any other origin.
func (w *World) projectField(fi *FuncInfo, fd *funcDefs, x ast.Expr, field string, depth int) ([]boundExprAt, bool) {
	if depth > 6 {
		return nil, false
	}
	info := fi.Pkg.TypesInfo
	var out []boundExprAt
	fromLit := func(f *FuncInfo, lit *ast.CompositeLit) bool {
		st := structOf(f.Pkg.TypesInfo.TypeOf(lit))
		if st == nil {
			return false
		}
		for i, el := range lit.Elts {
			if kv, ok := el.(*ast.KeyValueExpr); ok {
				if id, ok := kv.Key.(*ast.Ident); ok && id.Name == field {
					out = append(out, boundExprAt{f, kv.Value})
				}
			} else if i < st.NumFields() && st.Field(i).Name() == field {
				out = append(out, boundExprAt{f, el})
			}
		}
		return true
	}
	var resolve func(f *FuncInfo, ffd *funcDefs, e ast.Expr, d int) bool
	resolve = func(f *FuncInfo, ffd *funcDefs, e ast.Expr, d int) bool {
		if d > 6 {
			return false
		}
		finfo := f.Pkg.TypesInfo
		switch v := ast.Unparen(e).(type) {
		case *ast.UnaryExpr:
			if v.Op == token.AND {
				return resolve(f, ffd, v.X, d+1)
			}
		case *ast.CompositeLit:
			return fromLit(f, v)
		case *ast.CallExpr:
			if name := calleeOfCall(finfo, v); name != "" && w.isNewName(name) {
				tgt := w.Funcs[name]
				for _, r := range resultExprs(tgt, 0) {
					if !resolve(tgt, w.defsOf(tgt), r, d+1) {
						return false
					}
				}
				return true
			}
		case *ast.Ident:
			o, isVar := finfo.ObjectOf(v).(*types.Var)
			if !isVar || o.IsField() || (o.Pkg() != nil && o.Parent() == o.Pkg().Scope()) {
				return false
			}
			if _, isRange := ffd.rangeOf[o]; isRange {
				return false
			}
			if sites, exprs, isParam := w.argsBoundTo(o); isParam {
				// the parameter struct of a split-off helper: the literal each (relevant) caller builds
				if len(sites) == 0 {
					return false
				}
				for i, s := range sites {
					if !resolve(s.Fi, w.defsOf(s.Fi), exprs[i], d+1) {
						return false
					}
				}
				return true
			}
			ds := ffd.defs[o]
			if len(ds) == 0 && len(ffd.fieldDefs[o]) == 0 {
				// declared without value inside the function: zero value; a parameter: unknown
				if o.Pos() > f.Decl.Body.Pos() && o.Pos() < f.Decl.Body.End() {
					return true
				}
				return false
			}
			for _, dexp := range ds {
				if ffd.fromField[dexp] {
					continue
				}
				if tc, isTuple := ffd.tupleOf[o]; isTuple && tc == dexp {
					call, ok := dexp.(*ast.CallExpr)
					if !ok {
						return false
					}
					name := calleeOfCall(finfo, call)
					if name == "" || !w.isNewName(name) {
						return false
					}
					tgt := w.Funcs[name]
					for _, r := range resultExprs(tgt, ffd.tupleIx[o]) {
						if !resolve(tgt, w.defsOf(tgt), r, d+1) {
							return false
						}
					}
					continue
				}
				if !resolve(f, ffd, dexp, d+1) {
					return false
				}
			}
			for _, fv := range ffd.fieldDefs[o][field] {
				out = append(out, boundExprAt{f, fv})
			}
			return true
		}
		return false
	}
	_ = info
	if !resolve(fi, fd, x, depth) {
		return nil, false
	}
	return out, true
}

type deepState struct {
	on    bool
	depth int
	busy  map[string]bool
}

// exprAtomsDeep: the atoms of e with the gleece predicates (functions whose only result is
// a bool) it calls looked through, two levels: the fingerprint of a decision, independent
// of how its predicates are factored. Other callees stay opaque - what they compute is
// the business of the rules about them.
func (w *World) exprAtomsDeep(fi *FuncInfo, e ast.Expr) *Atoms {
	prev := w.deep
	w.deep = deepState{on: true, busy: map[string]bool{}}
	defer func() { w.deep = prev }()
	return w.exprAtoms(fi, e)
}

// isPredicateFn: the function answers one yes/no question (its only result is a bool).
func isPredicateFn(fi *FuncInfo) bool {
	res := fi.Obj.Type().(*types.Signature).Results()
	if res.Len() != 1 {
		return false
	}
	b, ok := res.At(0).Type().Underlying().(*types.Basic)
	return ok && b.Kind() == types.Bool
}

// branchConds: the conditions a function branches on (if, for, switch tags and case values).
func branchConds(fi *FuncInfo) []ast.Expr {
	var out []ast.Expr
	if fi.Decl.Body == nil {
		return out
	}
	ast.Inspect(fi.Decl.Body, func(n ast.Node) bool {
		switch x := n.(type) {
		case *ast.IfStmt:
			out = append(out, x.Cond)
		case *ast.ForStmt:
			if x.Cond != nil {
				out = append(out, x.Cond)
			}
		case *ast.SwitchStmt:
			if x.Tag != nil {
				out = append(out, x.Tag)
			}
		case *ast.CaseClause:
			for _, e := range x.List {
				if tv, ok := fi.Pkg.TypesInfo.Types[e]; ok && tv.IsType() {
					continue
				}
				out = append(out, e)
			}
		case *ast.TypeSwitchStmt:
			if as, ok := x.Assign.(*ast.AssignStmt); ok && len(as.Rhs) == 1 {
				out = append(out, as.Rhs[0])
			} else if es, ok := x.Assign.(*ast.ExprStmt); ok {
				out = append(out, es.X)
			}
		}
		return true
	})
	return out
}

// atomsOfNewCall adds the atoms of what a new function returns (result idx, or all).
func (w *World) atomsOfNewCall(via astCallSite, tgt *FuncInfo, idx int, a *Atoms, depth int) {
	if tgt == nil || w.newCallBusy[tgt.Key] {
		return // (a new function that calls itself: already being looked through)
	}
	if w.newCallBusy == nil {
		w.newCallBusy = map[string]bool{}
	}
	w.newCallBusy[tgt.Key] = true
	defer delete(w.newCallBusy, tgt.Key)
	// its parameters stand for the arguments of *this* call while it is looked through
	w.astCtx = append(w.astCtx, astFrame{Site: via, Callee: tgt.Key})
	defer func() { w.astCtx = w.astCtx[:len(w.astCtx)-1] }()
	tfd := w.defsOf(tgt)
	for _, e := range resultExprs(tgt, idx) {
		w.atomsInto(tgt, tfd, e, a, map[ast.Node]bool{}, depth+5)
	}
}

// inlinable: a gleece function whose body is exactly `return <expr>`.
func (w *World) inlinable(name string) *FuncInfo {
	fi := w.Funcs[name]
	if fi == nil || !singleReturn(fi) {
		return nil
	}
	// a reviewed function that has only now become a single `return f(...)` (its body moved
	// into a helper) stays the call it was when the inventories were reviewed
	if w.base.loaded && w.base.fns[name] && !w.base.inl[name] {
		return nil
	}
	return fi
}

func singleReturn(fi *FuncInfo) bool {
	if fi == nil || fi.Decl.Body == nil || len(fi.Decl.Body.List) != 1 {
		return false
	}
	ret, ok := fi.Decl.Body.List[0].(*ast.ReturnStmt)
	return ok && len(ret.Results) == 1
}

// ---------------------------------------------------------------------------
// Sinks: expressions assigned to field F of struct type T inside a function

type sinkExpr struct {
	Expr ast.Expr
	Pos  token.Pos
}

// fieldSinks finds all expressions stored into field `field` of named type tname
// (types.Named) in function fi: composite-literal elements and assignments x.F = e
// (also x.F = append(x.F, e): the appended values).
func (w *World) fieldSinks(fi *FuncInfo, owner *types.Named, field string) []sinkExpr {
	var out []sinkExpr
	for _, f := range w.astRegion(fi) {
		out = append(out, w.fieldSinksLocal(f, owner, field)...)
	}
	if len(out) == 0 && w.sigChanged(fi.Key) {
		out = w.returnedSinks(fi, owner, field)
	}
	return out
}

// returnedSinks: a reviewed function that used to store into owner.field and now - with a new
// signature - hands the value back for its caller to store: where a caller assigns the call's
// result to that field, the value expressions are the function's own return operands.
func (w *World) returnedSinks(fi *FuncInfo, owner *types.Named, field string) []sinkExpr {
	w.buildASTNewIndex()
	var out []sinkExpr
	for _, site := range w.astSites[fi.Key] {
		for _, sk := range w.fieldSinksLocal(site.Fi, owner, field) {
			idx := -1
			switch x := ast.Unparen(sk.Expr).(type) {
			case *ast.CallExpr:
				if x == site.Call {
					idx = 0
				}
			case *ast.Ident:
				fd := w.defsOf(site.Fi)
				if o := site.Fi.Pkg.TypesInfo.Uses[x]; o != nil {
					for _, d := range fd.defs[o] {
						if d == ast.Expr(site.Call) {
							idx = 0
							if tc, ok := fd.tupleOf[o]; ok && tc == d {
								idx = fd.tupleIx[o]
							}
						}
					}
				}
			}
			if idx < 0 {
				continue
			}
			ast.Inspect(fi.Decl.Body, func(n ast.Node) bool {
				switch y := n.(type) {
				case *ast.FuncLit:
					return false
				case *ast.ReturnStmt:
					if idx < len(y.Results) {
						if id, isId := y.Results[idx].(*ast.Ident); !isId || id.Name != "nil" {
							out = append(out, sinkExpr{y.Results[idx], y.Pos()})
						}
					}
				}
				return true
			})
			return out
		}
	}
	return out
}

func (w *World) fieldSinksLocal(fi *FuncInfo, owner *types.Named, field string) []sinkExpr {
	var out []sinkExpr
	info := fi.Pkg.TypesInfo
	isOwner := func(t types.Type) bool {
		if t == nil {
			return false
		}
		n, ok := derefNamed(t)
		return ok && n.Obj() == owner.Obj()
	}
	ast.Inspect(fi.Decl, func(n ast.Node) bool {
		switch x := n.(type) {
		case *ast.CompositeLit:
			if !isOwner(info.TypeOf(x)) {
				return true
			}
			for _, el := range x.Elts {
				if kv, ok := el.(*ast.KeyValueExpr); ok {
					if id, ok := kv.Key.(*ast.Ident); ok && id.Name == field {
						out = append(out, sinkExpr{kv.Value, kv.Pos()})
					}
				}
			}
		case *ast.AssignStmt:
			for i, l := range x.Lhs {
				se, ok := l.(*ast.SelectorExpr)
				if !ok || se.Sel.Name != field {
					continue
				}
				sel := info.Selections[se]
				if sel == nil || sel.Kind() != types.FieldVal || !isOwner(sel.Recv()) {
					// promoted through embedding: check declaring struct
					if sel == nil || sel.Kind() != types.FieldVal {
						continue
					}
					q := qualField(info, se)
					if q != short(owner.Obj().Pkg().Path())+"."+owner.Obj().Name()+"."+field {
						continue
					}
				}
				if len(x.Lhs) == len(x.Rhs) {
					out = append(out, sinkExpr{x.Rhs[i], x.Pos()})
				} else if len(x.Rhs) == 1 {
					out = append(out, sinkExpr{x.Rhs[0], x.Pos()})
				}
			}
		}
		return true
	})
	return out
}

// ---------------------------------------------------------------------------
// Constant groups, switch labels, map-literal keys, struct tags

// constsOfType returns name -> value for every package-level constant of the named
// type in its declaring package.
func (w *World) constsOfType(t *types.Named) map[string]string {
	out := map[string]string{}
	if t == nil {
		return out
	}
	scope := t.Obj().Pkg().Scope()
	for _, n := range scope.Names() {
		c, ok := scope.Lookup(n).(*types.Const)
		if !ok || !types.Identical(c.Type(), t) {
			continue
		}
		out[n] = constString(c.Val())
	}
	return out
}

func constString(v constant.Value) string {
	if v == nil {
		return ""
	}
	if v.Kind() == constant.String {
		return constant.StringVal(v)
	}
	return v.ExactString()
}

func values(m map[string]string) []string {
	out := make([]string, 0, len(m))
	for _, v := range m {
		out = append(out, v)
	}
	sort.Strings(out)
	return out
}

// switchLabels returns, for each switch statement in fi whose tag satisfies tagPred,
// the constant values of its case labels and whether it has a default clause.
type switchInfo struct {
	Stmt       *ast.SwitchStmt
	Labels     []string
	HasDefault bool
	Pos        token.Pos
}

func (w *World) switches(fi *FuncInfo, tagPred func(tag ast.Expr) bool) []switchInfo {
	var out []switchInfo
	for _, f := range w.astRegion(fi) {
		out = append(out, w.switchesLocal(f, tagPred)...)
	}
	return out
}

func (w *World) switchesLocal(fi *FuncInfo, tagPred func(tag ast.Expr) bool) []switchInfo {
	var out []switchInfo
	info := fi.Pkg.TypesInfo
	ast.Inspect(fi.Decl, func(n ast.Node) bool {
		sw, ok := n.(*ast.SwitchStmt)
		if !ok || sw.Tag == nil || !tagPred(sw.Tag) {
			return true
		}
		si := switchInfo{Stmt: sw, Pos: sw.Pos()}
		for _, cc := range sw.Body.List {
			c := cc.(*ast.CaseClause)
			if c.List == nil {
				si.HasDefault = true
			}
			for _, e := range c.List {
				if tv, ok := info.Types[e]; ok && tv.Value != nil {
					si.Labels = append(si.Labels, constString(tv.Value))
				} else {
					si.Labels = append(si.Labels, "<non-const>")
				}
			}
		}
		sort.Strings(si.Labels)
		out = append(out, si)
		return true
	})
	return out
}

// globalMapKeys returns the constant keys of a package-level map literal variable.
func (w *World) globalMapKeys(relPkg, varName string) ([]string, token.Pos) {
	p := w.pkg(relPkg)
	if p == nil {
		return nil, token.NoPos
	}
	for _, f := range p.Syntax {
		for _, d := range f.Decls {
			gd, ok := d.(*ast.GenDecl)
			if !ok || gd.Tok != token.VAR {
				continue
			}
			for _, s := range gd.Specs {
				vs := s.(*ast.ValueSpec)
				for i, nm := range vs.Names {
					if nm.Name != varName || i >= len(vs.Values) {
						continue
					}
					cl, ok := vs.Values[i].(*ast.CompositeLit)
					if !ok {
						return nil, vs.Pos()
					}
					var ks []string
					for _, el := range cl.Elts {
						kv, ok := el.(*ast.KeyValueExpr)
						if !ok {
							continue
						}
						if tv, ok := p.TypesInfo.Types[kv.Key]; ok && tv.Value != nil {
							ks = append(ks, constString(tv.Value))
						} else {
							ks = append(ks, "<non-const>")
						}
					}
					sort.Strings(ks)
					return ks, vs.Pos()
				}
			}
		}
	}
	return nil, token.NoPos
}

// tagOf returns the value of struct tag key on a field.
func tagOf(t *types.Named, field, key string) (string, bool) {
	st, ok := t.Underlying().(*types.Struct)
	if !ok {
		return "", false
	}
	for i := 0; i < st.NumFields(); i++ {
		if st.Field(i).Name() == field {
			return reflect.StructTag(st.Tag(i)).Lookup(key)
		}
	}
	return "", false
}

// oneofValues extracts the values of the `oneof=` rule of a validate tag.
func oneofValues(validateTag string) []string {
	for _, r := range strings.Split(validateTag, ",") {
		if strings.HasPrefix(r, "oneof=") {
			v := strings.Fields(strings.TrimPrefix(r, "oneof="))
			sort.Strings(v)
			return v
		}
	}
	return nil
}

func setDiff(a, b []string) (onlyA, onlyB []string) {
	ma, mb := map[string]bool{}, map[string]bool{}
	for _, x := range a {
		ma[x] = true
	}
	for _, x := range b {
		mb[x] = true
	}
	for x := range ma {
		if !mb[x] {
			onlyA = append(onlyA, x)
		}
	}
	for x := range mb {
		if !ma[x] {
			onlyB = append(onlyB, x)
		}
	}
	sort.Strings(onlyA)
	sort.Strings(onlyB)
	return
}

func unquote(s string) string {
	if u, err := strconv.Unquote(s); err == nil {
		return u
	}
	return s
}

// funcsOfPkg lists the FuncInfos declared in a gleece package (relative path).
func (w *World) funcsOfPkg(rel string) []*FuncInfo {
	var out []*FuncInfo
	p := w.pkg(rel)
	for _, fi := range w.Funcs {
		if fi.Pkg == p {
			out = append(out, fi)
		}
	}
	sort.Slice(out, func(i, j int) bool { return out[i].Key < out[j].Key })
	return out
}

var _ = packages.NeedName

// objPkgPath: package path of an object, "" for universe objects (true, false, nil, iota).
func objPkgPath(o types.Object) string {
	if o == nil || o.Pkg() == nil {
		return ""
	}
	return o.Pkg().Path()
}

// helperBody: the body of a function value given as a function literal or as the name of
// a declared gleece function of the same package.
func (w *World) helperBody(fi *FuncInfo, e ast.Expr) ast.Node {
	switch x := ast.Unparen(e).(type) {
	case *ast.FuncLit:
		return x
	case *ast.Ident:
		if f, ok := fi.Pkg.TypesInfo.Uses[x].(*types.Func); ok {
			if tgt := w.Funcs[shortFuncName(f)]; tgt != nil && tgt.Decl.Body != nil {
				return tgt.Decl
			}
		}
	case *ast.SelectorExpr:
		if f, ok := fi.Pkg.TypesInfo.Uses[x.Sel].(*types.Func); ok {
			if tgt := w.Funcs[shortFuncName(f)]; tgt != nil && tgt.Decl.Body != nil {
				return tgt.Decl
			}
		}
	}
	return nil
}

// exprIsJustField: the expression is the given field and nothing else - the selector
// itself, or (inside a new function) a parameter to which every call site passes it;
// conversions are allowed, no other field or call takes part.
func (w *World) exprIsJustField(fi *FuncInfo, qual string) func(ast.Expr) bool {
	return func(e ast.Expr) bool {
		at := w.exprAtoms(fi, e)
		if !at.Fields[qual] || len(at.Fields) != 1 {
			return false
		}
		for k := range at.Calls {
			if !strings.HasPrefix(k, "conv:") {
				return false
			}
		}
		return true
	}
}

// funcsOfPkgPrefixes: the declared functions (with bodies) of the packages under the given prefixes.
func (w *World) funcsOfPkgPrefixes(pkgPrefixes ...string) []*FuncInfo {
	var out []*FuncInfo
	for _, fi := range w.Funcs {
		rel := short(fi.Pkg.PkgPath)
		for _, p := range pkgPrefixes {
			if (rel == p || strings.HasPrefix(rel, p+"/")) && fi.Decl.Body != nil {
				out = append(out, fi)
				break
			}
		}
	}
	return out
}

// dispatchLabels: the constants a function distinguishes a value by - the case labels of
// switches on it, the constants it is compared with (==, !=) in conditions, and the constant
// keys of a map literal it indexes: the three ways of writing a dispatch.
func (w *World) dispatchLabels(fi *FuncInfo, tagPred func(ast.Expr) bool) (labels []string, sites []token.Pos) {
	set := map[string]bool{}
	for _, sw := range w.switches(fi, tagPred) {
		for _, l := range sw.Labels {
			set[l] = true
		}
		sites = append(sites, sw.Pos)
	}
	for _, f := range w.astRegion(fi) {
		if f.Pkg != fi.Pkg {
			continue
		}
		info := f.Pkg.TypesInfo
		constOf := func(e ast.Expr) (string, bool) {
			if tv, ok := info.Types[e]; ok && tv.Value != nil {
				return constString(tv.Value), true
			}
			return "", false
		}
		ast.Inspect(f.Decl, func(n ast.Node) bool {
			switch x := n.(type) {
			case *ast.BinaryExpr:
				if x.Op != token.EQL && x.Op != token.NEQ {
					return true
				}
				if k, ok := constOf(x.Y); ok && tagPred(ast.Unparen(x.X)) {
					set[k] = true
					sites = append(sites, x.Pos())
				} else if k, ok := constOf(x.X); ok && tagPred(ast.Unparen(x.Y)) {
					set[k] = true
					sites = append(sites, x.Pos())
				}
			case *ast.IndexExpr:
				if !tagPred(ast.Unparen(x.Index)) {
					return true
				}
				// the indexed map: a composite literal in place, a local or a package-level variable initialised with one
				var lit *ast.CompositeLit
				switch m := ast.Unparen(x.X).(type) {
				case *ast.CompositeLit:
					lit = m
				case *ast.Ident:
					if v, ok := info.ObjectOf(m).(*types.Var); ok {
						lit = w.mapLiteralOf(f, v)
					}
				}
				if lit == nil {
					return true
				}
				for _, el := range lit.Elts {
					if kv, ok := el.(*ast.KeyValueExpr); ok {
						if k, ok := constOf(kv.Key); ok {
							set[k] = true
						}
					}
				}
				sites = append(sites, x.Pos())
			}
			return true
		})
	}
	return keys(set), sites
}

// mapLiteralOf: the composite literal a map variable (local of f, or package-level in f's
// package) is initialised with, if it is never reassigned in f.
func (w *World) mapLiteralOf(f *FuncInfo, v *types.Var) *ast.CompositeLit {
	if v.Pkg() != nil && v.Parent() == v.Pkg().Scope() {
		for _, file := range f.Pkg.Syntax {
			for _, d := range file.Decls {
				gd, ok := d.(*ast.GenDecl)
				if !ok || gd.Tok != token.VAR {
					continue
				}
				for _, sp := range gd.Specs {
					vs := sp.(*ast.ValueSpec)
					for i, nm := range vs.Names {
						if f.Pkg.TypesInfo.Defs[nm] == v && i < len(vs.Values) {
							if cl, ok := vs.Values[i].(*ast.CompositeLit); ok {
								return cl
							}
						}
					}
				}
			}
		}
		return nil
	}
	ds := w.defsOf(f).defs[v]
	if len(ds) == 1 {
		if cl, ok := ast.Unparen(ds[0]).(*ast.CompositeLit); ok {
			return cl
		}
	}
	return nil
}

// identOf: the identifier a function expression names (f, pkg.f, recv.f), or nil.
func identOf(e ast.Expr) *ast.Ident {
	switch x := ast.Unparen(e).(type) {
	case *ast.Ident:
		return x
	case *ast.SelectorExpr:
		return x.Sel
	}
	return nil
}

// standsForDroppedParam: sel is `recv.f` in a reviewed method whose signature lost a parameter of
// f's type (the reviewed signature lists that type, the present one does not): the callers all
// handed over what the receiver already holds.
func (w *World) standsForDroppedParam(fi *FuncInfo, sel *ast.SelectorExpr, info *types.Info) bool {
	if fi == nil || fi.Decl.Recv == nil || !w.sigChanged(fi.Key) {
		return false
	}
	id, ok := ast.Unparen(sel.X).(*ast.Ident)
	if !ok || len(fi.Decl.Recv.List) == 0 || len(fi.Decl.Recv.List[0].Names) == 0 || fi.Decl.Recv.List[0].Names[0].Name != id.Name {
		return false
	}
	t := info.TypeOf(sel)
	if t == nil {
		return false
	}
	ts := short(types.TypeString(t, nil))
	old := sigParamTypes(w.base.sigs[fi.Key])
	if old[ts] == 0 {
		return false
	}
	if sg, ok := fi.Obj.Type().(*types.Signature); ok {
		n := 0
		for i := 0; i < sg.Params().Len(); i++ {
			if short(types.TypeString(sg.Params().At(i).Type(), nil)) == ts {
				n++
			}
		}
		return n < old[ts]
	}
	return false
}
