// Package canary holds, for every rule engine of the checker, one construct on which the
// rule must stay silent (…Good) and one on which it must fire (…Bad). The checker analyses
// this package before every run; a wrong verdict on any of them disarms the run.
package canary

import (
	"errors"
	"fmt"
	"slices"
	"strconv"
	"strings"
)

func validate(x int) error {
	if x < 0 {
		return errors.New("negative")
	}
	return nil
}

func emit(x int) []byte { return []byte(fmt.Sprint(x)) }

// ---- must-pass-through ------------------------------------------------------------

func MustGood(x int) ([]byte, error) {
	if err := validate(x); err != nil {
		return nil, err
	}
	return emit(x), nil
}

// success is reachable although validate failed (error only logged)
func MustBad(x int) ([]byte, error) {
	if err := validate(x); err != nil {
		fmt.Println("warning:", err)
	}
	return emit(x), nil
}

// success is reachable without validate having been called at all
func MustBadSkipped(x int, fast bool) ([]byte, error) {
	if !fast {
		if err := validate(x); err != nil {
			return nil, err
		}
	}
	return emit(x), nil
}

// ---- error propagation -------------------------------------------------------------

type visitor struct{ frozen bool }

func (v *visitor) frozenError(err error) error {
	v.frozen = true
	return err
}

func (v *visitor) enter() {}
func (v *visitor) exit()  {}

// error handed on through a wrapper, in a function whose results are spilled by a defer
func (v *visitor) ErrGoodWrappedSpilled(x int) (int, error) {
	v.enter()
	defer v.exit()
	err := validate(x)
	if err != nil {
		return 0, v.frozenError(err)
	}
	return x, nil
}

// the tested error itself is returned from a block that is also reached on another path
func ErrGoodSharedReturn(x int, also bool) (int, error) {
	err := validate(x)
	if err != nil || also {
		return 0, err
	}
	return x, nil
}

func ErrBadSwallowed(x int) (int, error) {
	err := validate(x)
	if err != nil {
		x = 0
	}
	return x, nil
}

func ErrBadDiscarded(x int) (int, error) {
	_ = validate(x)
	return x, nil
}

// chain: ChainTop -> chainMid -> validate ; chainMidBad drops it
func chainMid(x int) error {
	if err := validate(x); err != nil {
		return fmt.Errorf("mid: %w", err)
	}
	return nil
}

func ChainTop(x int) error { return chainMid(x) }

func chainMidBad(x int) error {
	validate(x)
	return nil
}

func ChainTopBad(x int) error { return chainMidBad(x) }

// ---- each-iteration ------------------------------------------------------------------

type item struct {
	Hidden bool
	Name   string
}

func EachGood(items []item) []string {
	var out []string
	for _, it := range items {
		if it.Hidden {
			continue // the one allowed skip
		}
		out = append(out, it.Name)
	}
	return out
}

func EachBad(items []item) []string {
	var out []string
	for _, it := range items {
		if it.Hidden {
			continue
		}
		if strings.HasPrefix(it.Name, "_") {
			continue // a second, unlisted skip
		}
		out = append(out, it.Name)
	}
	return out
}

// ---- dominating guards -----------------------------------------------------------------

type registry struct {
	byKey map[string]int
	next  int
}

func (r *registry) IdGood(k string) int {
	if id, ok := r.byKey[k]; ok {
		return id
	}
	r.next++
	r.byKey[k] = r.next
	return r.next
}

func (r *registry) IdBad(k string) int {
	r.next++
	r.byKey[k] = r.next
	return r.next
}

// owner-only state
func (r *registry) Reset() { r.byKey = map[string]int{} }

func newRegistry() *registry { return &registry{byKey: map[string]int{}} }

func insertInto(m map[string]int, k string) { m[k] = 1 }

func (r *registry) viaHelper(k string) { insertInto(r.byKey, k) }

// ---- value receivers ---------------------------------------------------------------------

type counter struct{ n int }

type holder struct {
	c   counter
	tag string
}

type ctxt struct{ C *counter }

func (h holder) LeakBad() ctxt   { return ctxt{C: &h.c} }
func (h *holder) LeakGood() ctxt { return ctxt{C: &h.c} }
func (h holder) TagGood() string { return h.tag }

// ---- slash collapsing ----------------------------------------------------------------------

func CollapseGood(p string) string {
	for strings.Contains(p, "//") {
		p = strings.ReplaceAll(p, "//", "/")
	}
	return p
}

func CollapseBad(p string) string {
	return strings.ReplaceAll(p, "//", "/")
}

// ---- loop phi (termination of value normalisation) -------------------------------------------

func LoopPhi(xs []int) int {
	acc := 0
	for _, x := range xs {
		if x > 0 {
			acc = acc + x
		}
	}
	return acc
}

// ---- calls through interfaces ----------------------------------------------------------------

type sink interface{ Put(k string) }

type memSink struct{ m map[string]bool }

func (s *memSink) Put(k string) { s.m[k] = true }

func ViaInterface(s sink, k string) { s.Put(k) }

// ---- goroutines -------------------------------------------------------------------------------

func Spawns(f func()) { go f() }

// ---- compaction ------------------------------------------------------------------------------

func Compacts(xs []string) []string { return slices.Compact(xs) }

// ---- new functions are looked through ----------------------------------------------------
// (functions whose name starts with inl play the part of functions the reviewed tree did
// not have: the checker must analyse them as part of their callers)

func inlValidateThenEmit(x int) ([]byte, error) {
	if err := validate(x); err != nil {
		return nil, err
	}
	return emit(x), nil
}

// the validation moved into a new helper: still validated
func MustViaNewGood(x int) ([]byte, error) {
	out, err := inlValidateThenEmit(x)
	if err != nil {
		return nil, err
	}
	return out, nil
}

func inlEmitUnchecked(x int) ([]byte, error) { return emit(x), nil }

// the new helper does not validate: not validated
func MustViaNewBad(x int) ([]byte, error) {
	out, err := inlEmitUnchecked(x)
	if err != nil {
		return nil, err
	}
	return out, nil
}

func inlCollect(items []item) []string {
	var out []string
	for _, it := range items {
		if it.Hidden {
			continue
		}
		out = append(out, it.Name)
	}
	return out
}

// the loop moved into a new helper
func EachViaNewGood(items []item) []string { return inlCollect(items) }

func inlCollectLossy(items []item) []string {
	var out []string
	for _, it := range items {
		if it.Hidden || strings.HasPrefix(it.Name, "_") {
			continue // the second reason is not an allowed one
		}
		out = append(out, it.Name)
	}
	return out
}

func EachViaNewBad(items []item) []string { return inlCollectLossy(items) }

type pair struct {
	left, right string
}

func inlMakePair(a, b item) pair { return pair{left: a.Name, right: b.Name} }

// field-sensitive look-through: only a.Name reaches the result
func SliceViaNew(a, b item) string { return inlMakePair(a, b).left }

// a condition written as !(x || y) must be read as !x && !y
func EachNegatedGood(items []item) []string {
	var out []string
	for _, it := range items {
		if !(it.Hidden) {
			out = append(out, it.Name)
		}
	}
	return out
}

// ---- one dispatch, three ways of writing it -------------------------------------------------

func DispatchSwitch(k string) int {
	switch k {
	case "a":
		return 1
	case "b":
		return 2
	}
	return 0
}

func DispatchIf(k string) int {
	if k == "a" {
		return 1
	}
	if k != "b" {
		return 0
	}
	return 2
}

var dispatchTable = map[string]int{"a": 1, "b": 2}

func DispatchMap(k string) int { return dispatchTable[k] }

// ---- one string shape, three ways of composing it -----------------------------------------------

func ShapeSprintf(n int, s string) string { return fmt.Sprintf("P%d%s", n, s) }

func ShapeConcat(n int, s string) string { return "P" + strconv.Itoa(n) + s }

func ShapeBuilder(n int, s string) string {
	var b strings.Builder
	b.WriteString("P")
	b.WriteString(strconv.Itoa(n))
	b.WriteString(s)
	return b.String()
}

// ---- index loops are range loops ---------------------------------------------------------------------

func EachIndexGood(items []item) []string {
	var out []string
	for i := 0; i < len(items); i++ {
		if items[i].Hidden {
			continue
		}
		out = append(out, items[i].Name)
	}
	return out
}

// ---- one new helper, two uses: each use sees its own argument --------------------------------

type two struct{ A, B string }

func inlUpper(s string) string { return strings.ToUpper(s) }

func CtxTwoUses(t two) (string, string) {
	a := inlUpper(t.A)
	b := inlUpper(t.B)
	return a, b
}

// ---- `if !c { act }; continue` is the skip `if c { continue }` --------------------------------

func EachElseSkip(items []item) []string {
	var out []string
	for _, it := range items {
		if !it.Hidden {
			out = append(out, it.Name)
		}
		continue
	}
	return out
}

// ---- length facts: the default arm of `switch len(x)`, and same-length copies ---------------

func LenSwitchGood(xs []string) string {
	switch len(xs) {
	case 0:
		return ""
	case 1:
		return xs[0]
	default:
		ys := slices.Clone(xs)
		return ys[1]
	}
}

func LenSwitchBad(xs []string) string {
	ys := slices.Clone(xs)
	return ys[1]
}
