module github.com/gopher-fleece/gleece/v2/canarymod

go 1.24
