package main

import (
	"encoding/json"
	"fmt"
	"go/ast"
	"go/token"
	"os"
	"path/filepath"
	"regexp/syntax"
	"sort"
	"strings"
)

// Regular expressions are grammar: the annotation syntax, what counts as a URL parameter,
// which characters a value may contain. `tables/regexes.json` holds, for every regexp that
// gleece compiles from a constant, the *parsed* form of the reviewed pattern (regexp/syntax
// normalises character classes to sorted ranges and drops redundant grouping, so re-ordering
// a class or re-spelling an escape keeps it; a class that gains or loses a character, a
// quantifier that becomes lazy, an anchor that moves, do not). A regexp that is not in the
// table is new grammar.

type regexSite struct {
	Key, Pattern, Canon string
	Pos                 token.Pos
	Dynamic             bool
}

func canonRegex(p string) string {
	re, err := syntax.Parse(p, syntax.Perl)
	if err != nil {
		return "unparsable: " + err.Error()
	}
	return re.String()
}

func (w *World) regexSites() []regexSite {
	var out []regexSite
	count := map[string]int{}
	for _, p := range w.Pkgs {
		if !isAnalysedPkg(p.PkgPath) {
			continue
		}
		for _, f := range p.Syntax {
			// package-level `var x = regexp.MustCompile(...)`: keyed by the variable
			varOf := map[*ast.CallExpr]string{}
			for _, d := range f.Decls {
				gd, ok := d.(*ast.GenDecl)
				if !ok || gd.Tok != token.VAR {
					continue
				}
				for _, sp := range gd.Specs {
					vs := sp.(*ast.ValueSpec)
					for i, v := range vs.Values {
						ast.Inspect(v, func(n ast.Node) bool {
							if ce, ok := n.(*ast.CallExpr); ok && i < len(vs.Names) {
								varOf[ce] = short(p.PkgPath) + "." + vs.Names[i].Name
							}
							return true
						})
					}
				}
			}
			var enclosing string
			ast.Inspect(f, func(n ast.Node) bool {
				if fd, ok := n.(*ast.FuncDecl); ok {
					if obj := p.TypesInfo.Defs[fd.Name]; obj != nil {
						enclosing = w.hostKey(fnName(obj.(interface{ FullName() string }).FullName()))
					}
				}
				ce, ok := n.(*ast.CallExpr)
				if !ok {
					return true
				}
				name := calleeOfCall(p.TypesInfo, ce)
				if name != "regexp.MustCompile" && name != "regexp.Compile" && name != "regexp.MustCompilePOSIX" && name != "regexp.CompilePOSIX" && name != "regexp.MatchString" && name != "regexp.Match" {
					return true
				}
				key := varOf[ce]
				if key == "" {
					key = enclosing
					count[key]++
					if count[key] > 1 {
						key = fmt.Sprintf("%s#%d", key, count[key])
					}
				}
				s := regexSite{Key: key, Pos: ce.Pos()}
				if tv, ok := p.TypesInfo.Types[ce.Args[0]]; ok && tv.Value != nil {
					s.Pattern = constString(tv.Value)
					s.Canon = canonRegex(s.Pattern)
				} else {
					s.Dynamic = true
					s.Canon = "<dynamic>"
				}
				out = append(out, s)
				return true
			})
		}
	}
	sort.Slice(out, func(i, j int) bool { return out[i].Key < out[j].Key })
	return out
}

func loadRegexTable(verifDir string) map[string]string {
	var doc struct {
		Regexes map[string]string `json:"regexes"`
	}
	b, err := os.ReadFile(filepath.Join(verifDir, "tables", "regexes.json"))
	if err != nil || json.Unmarshal(b, &doc) != nil {
		return nil
	}
	return doc.Regexes
}

// ruleRegexInventory: the regexps whose key has one of the given prefixes (all when none)
// parse to their reviewed form, and there is no regexp outside the table.
func ruleRegexInventory(c *Ctx, r *Report, clause string, prefixes ...string) {
	w := c.W
	table := loadRegexTable(c.VerifDir)
	if len(table) == 0 {
		r.undecided(clause, "vocabulary", "regexes", "", "tables/regexes.json unreadable or empty")
		return
	}
	n := 0
	for _, s := range w.regexSites() {
		in := len(prefixes) == 0
		for _, p := range prefixes {
			if strings.HasPrefix(strings.TrimLeft(s.Key, "(*"), p) {
				in = true
			}
		}
		want, tabled := table[s.Key]
		if !in && tabled {
			continue // a reviewed regexp of another area; a regexp nobody reviewed is everybody's concern
		}
		n++
		viol := ""
		switch {
		case !tabled:
			viol = fmt.Sprintf("%s: %s compiles a regular expression (%q) that is not in the reviewed table (tables/regexes.json): a new pattern decides what is accepted, extracted or matched, and its corner cases (empty match, one-character names, characters outside the class) are not covered by the rules written for the code it replaces", w.pos(s.Pos), s.Key, s.Pattern)
		case want != s.Canon:
			viol = fmt.Sprintf("%s: the regular expression of %s changed its language: reviewed %s, now %s (%q). The annotation syntax, the URL-parameter syntax and the character set of values are defined by these patterns; what is parsed, documented and routed follows them", w.pos(s.Pos), s.Key, want, s.Canon, s.Pattern)
		}
		r.add(clause, "vocabulary", "regex:"+s.Key, "the pattern of "+s.Key+" accepts the reviewed language", []string{s.Key}, []string{w.pos(s.Pos)}, viol)
	}
	if n == 0 && len(prefixes) > 0 {
		r.add(clause, "vocabulary", "regex:"+strings.Join(prefixes, ","), "", prefixes, []string{"gleece:0"}, "no regular expression found under "+strings.Join(prefixes, ", ")+" (rule would pass vacuously)")
	}
}

func (w *World) dumpRegexes() []byte {
	out := map[string]string{}
	for _, s := range w.regexSites() {
		out[s.Key] = s.Canon
	}
	b, _ := json.MarshalIndent(map[string]any{"_comment": "parsed form (regexp/syntax, Perl flags) of every regular expression gleece compiles from a constant, keyed by the package variable or the enclosing function; see checker/regexinv.go", "regexes": out}, "", " ")
	return append(b, '\n')
}
