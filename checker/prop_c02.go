package main

import (
	"fmt"
	"go/ast"
	"go/scanner"
	"go/token"
	"go/types"
	"os"
	"strings"

	hast "github.com/aymerick/raymond/ast"
	"golang.org/x/tools/go/packages"
)

func init() {
	register("C02", "Static structural obligations for 'the generated router serves exactly the annotated routes and dispatches correctly': document-order rules on each engine's routes.hbs (one registration statement directly inside {{#each Controllers}}{{#each Routes}}, no conditional around it, no second registration anywhere), Handlebars type resolution of the verb and path operands (same IR fields, same controller-then-route order as the spec emitters), dispatch target (controller type/import alias and method name), existence of the spelled verb method on the engine's type (checked against the type-checked engine packages), and a slash-collapse idiom rule on every to<Engine>Url helper so the served path equals the documented one. Decides what the templates emit, not how five HTTP frameworks match requests.", checkC02)
}

var engineImport = map[string]string{
	"gin": "github.com/gin-gonic/gin", "echo": "github.com/labstack/echo/v4", "chi": "github.com/go-chi/chi/v5", "fiber": "github.com/gofiber/fiber/v2", "mux": "github.com/gorilla/mux",
}

// loadEngineTypes type-checks (from export data) the five engine packages.
func loadEngineTypes(repoDir string) (map[string]*types.Package, error) {
	var pats []string
	for _, p := range engineImport {
		pats = append(pats, p)
	}
	cfg := &packages.Config{Mode: packages.NeedName | packages.NeedTypes | packages.NeedImports | packages.NeedDeps, Dir: repoDir, Env: os.Environ()}
	pkgs, err := packages.Load(cfg, pats...)
	if err != nil {
		return nil, err
	}
	out := map[string]*types.Package{}
	for _, p := range pkgs {
		if len(p.Errors) > 0 {
			return nil, fmt.Errorf("engine package %s: %v", p.PkgPath, p.Errors[0])
		}
		out[p.PkgPath] = p.Types
	}
	return out, nil
}

func checkC02(c *Ctx, r *Report) {
	defer func() { ruleRegexInventory(c, r, "C02.f", "core/annotations", "common", "core/validators") }()
	defer checkProcessWideState(c, r, "C02.g")
	// a verb that validation lets through in another spelling has no registration method / no arm in some engines
	defer checkExactMembership(c, r, "C02.d")
	defer checkVerbTestedAsWritten(c, r, "C02.d")
	// the router that is served is the file just generated: it replaces the previous one entirely
	// (a stale tail behind a shorter regeneration registers routes nobody annotated, or does not compile)
	defer checkArtifactWrites(c, r, "C02.g", "generator/routes.GenerateRoutes")
	// every file the globs match contributes its controllers (shared with C18.a, C19.d, C20.d)
	defer func() {
		if fi, matched := findMatchedSet(c.W); fi != nil && matched != nil {
			checkGlobSources(c, r, "C02.g", fi, matched)
		}
	}()
	w := c.W
	r.NotDecided = append(r.NotDecided, "the routers' own matching semantics at run time (trailing slashes, precedence, path cleaning): 'a request reaches that method and no other'", "user template overrides")
	r.Assume = append(r.Assume, "Handlebars document order = output order; `{{#each}}` emits its program once per element")

	engTypes, err := loadEngineTypes(w.RepoDir)
	if err != nil {
		r.undecided("C02.d", "setagree", "engine-packages", "", "cannot type-check engine packages: "+err.Error())
	}
	supported, _ := w.globalMapKeys("definitions", "routeSupportedHttpVerbs")

	for _, en := range c.T.Order {
		eng := c.T.Engines[en]
		ctl, routes := routesProgram(eng)
		key := en + ":routes.hbs"
		if ctl == nil || routes == nil {
			r.add("C02.a", "tpl-order", key+":registration", "", nil, []string{eng.Routes.File + ":1"}, "{{#each Controllers}}{{#each Routes}} not found as direct nesting at the top level of routes.hbs")
			continue
		}
		// C02.a: Controllers each is a direct child of the root program, Routes each a direct child of it
		viol := ""
		var sites []string
		sites = append(sites, tplSite(eng.Routes, eng, ctl.Line), tplSite(eng.Routes, eng, routes.Line))
		body := routes.Program.Body
		// registration: the first content of the route program starts with `engine . <verb|HandleFunc> (`
		var src strings.Builder
		idx := 0
		for ; idx < len(body); idx++ {
			stop := false
			switch n := body[idx].(type) {
			case *hast.ContentStatement:
				src.WriteString(n.Value)
			case *hast.MustacheStatement:
				src.WriteString(mustachePlaceholder(n))
			default:
				stop = true
			}
			if stop {
				break
			}
		}
		toks := goToks(src.String())
		verbTok := ""
		if len(toks) < 4 || toks[0].Lit != "engine" || toks[1].Tok != token.PERIOD {
			viol = fmt.Sprintf("%s:%d: the route program does not start with the registration `engine.<verb>(`", eng.Routes.File, routes.Line)
		} else {
			verbTok = toks[2].Lit
			if toks[3].Tok != token.LPAREN {
				viol = fmt.Sprintf("%s:%d: malformed registration call", eng.Routes.File, routes.Line)
			}
		}
		// no other `engine.` call in any template text of the engine
		nReg := 0
		countIn := func(t *Tpl) {
			var walk func(p *hast.Program)
			walk = func(p *hast.Program) {
				if p == nil {
					return
				}
				for _, st := range p.Body {
					switch n := st.(type) {
					case *hast.ContentStatement:
						ts := goToks(n.Value)
						for i := 0; i+1 < len(ts); i++ {
							if ts[i].Lit == "engine" && ts[i+1].Tok == token.PERIOD {
								nReg++
								sites = append(sites, tplSite(t, eng, n.Line))
							}
						}
					case *hast.BlockStatement:
						walk(n.Program)
						walk(n.Inverse)
					}
				}
			}
			walk(t.Prog)
		}
		countIn(eng.Routes)
		for _, t := range eng.Partials {
			countIn(t)
		}
		if nReg != 1 {
			viol = fmt.Sprintf("%s: expected exactly one `engine.` registration in the %s templates, found %d", eng.Routes.File, en, nReg)
		}
		// nothing in the templates looks at Hiding
		for _, rd := range eng.Reads {
			for _, f := range rd.Fields {
				if strings.HasPrefix(f, "definitions.RouteMetadata.Hiding") || strings.HasPrefix(f, "definitions.MethodHideOptions") {
					viol = fmt.Sprintf("%s template %s reads %s: hidden routes must still be served", en, rd.Tpl, f)
				}
			}
		}
		// the each blocks are not wrapped: ctl is in root body, routes in ctl body (by construction of routesProgram)
		o := r.add("C02.a", "tpl-order", key+":one-registration-per-route", en+": every element of Controllers×Routes emits exactly one unconditional `engine.<verb>(...)` registration; nothing reads Hiding", []string{eng.Routes.File}, sites, viol)
		o.NonTrivial = true

		// the registrations run whenever RegisterRoutes(engine) is called: the controllers loop sits
		// directly in its body (or in a function its body calls unconditionally), not in a closure,
		// a branch, or behind a once-only gate
		{
			var src strings.Builder
			for _, st := range eng.Routes.Prog.Body {
				switch n := st.(type) {
				case *hast.ContentStatement:
					src.WriteString(n.Value)
				case *hast.MustacheStatement:
					src.WriteString(" " + mustachePlaceholder(n) + " ")
				case *hast.BlockStatement:
					if n == ctl {
						src.WriteString("\n__CONTROLLERS_LOOP__()\n")
					} else {
						src.WriteString("\n")
					}
				default:
					src.WriteString("\n")
				}
			}
			v := registrationReachability(goToksStmts(src.String()))
			o := r.add("C02.a", "tpl-order", key+":registered-on-every-call", en+": every call of RegisterRoutes(engine) registers the routes on that engine (the loop is not in a closure, a branch or behind a once-only gate)", []string{eng.Routes.File}, []string{tplSite(eng.Routes, eng, ctl.Line)}, v)
			o.NonTrivial = true
		}

		// C02.b verb and path operands
		viol = ""
		sites = nil
		verbOK := false
		var pathReads []TplRead
		for _, rd := range eng.Reads {
			if rd.Tpl != "routes.hbs" {
				continue
			}
			switch strings.Join(rd.Fields, ">") {
			case "definitions.RouteMetadata.HttpVerb":
				verbOK = true
				sites = append(sites, tplSite(eng.Routes, eng, rd.Line))
			case "definitions.ControllerMetadata.RestMetadata>definitions.RestMetadata.Path", "definitions.RouteMetadata.RestMetadata>definitions.RestMetadata.Path":
				pathReads = append(pathReads, rd)
				sites = append(sites, tplSite(eng.Routes, eng, rd.Line))
			}
		}
		if !verbOK {
			viol = en + ": the registration's verb does not resolve to RouteMetadata.HttpVerb"
		}
		// verb spelling: direct mustache, ToUpperCamel helper, or .Methods("{{{HttpVerb}}}") for HandleFunc
		switch {
		case verbTok == "M_HttpVerb", verbTok == "M_ToUpperCamel_HttpVerb":
		case verbTok == "HandleFunc":
			// mux: the verb must appear in .Methods("«HttpVerb»") after the closure
			full := ""
			for _, st := range body {
				switch n := st.(type) {
				case *hast.ContentStatement:
					full += n.Value
				case *hast.MustacheStatement:
					full += mustachePlaceholder(n)
				default:
					full += "\n"
				}
			}
			if tokSeqIndex(goToks(full), ")", ".", "Methods", "(", `"M_HttpVerb"`, ")") < 0 {
				viol = en + ": HandleFunc registration is not restricted with .Methods(\"{{{HttpVerb}}}\")"
			}
		default:
			viol = fmt.Sprintf("%s: registration method %q is not derived from HttpVerb", en, verbTok)
		}
		// path operand: toXUrl("«../RestMetadata.Path»«RestMetadata.Path»")
		want := fmt.Sprintf(`"M____RestMetadata_PathM_RestMetadata_Path"`)
		urlFn := ""
		okPath := false
		for i := 0; i+3 < len(toks); i++ {
			if strings.HasPrefix(toks[i].Lit, "to") && strings.HasSuffix(toks[i].Lit, "Url") && toks[i+1].Tok == token.LPAREN {
				urlFn = toks[i].Lit
				if toks[i+2].Lit == want && toks[i+3].Tok == token.RPAREN {
					okPath = true
				}
			}
		}
		if !okPath {
			viol = fmt.Sprintf("%s: the registered path is not to<Engine>Url(\"{{{../RestMetadata.Path}}}{{{RestMetadata.Path}}}\") (controller prefix first, then route path)", en)
		}
		if len(pathReads) != 2 || pathReads[0].Path != "../RestMetadata.Path" || pathReads[1].Path != "RestMetadata.Path" {
			viol = fmt.Sprintf("%s: path operands do not resolve to ControllerMetadata.RestMetadata.Path followed by RouteMetadata.RestMetadata.Path", en)
		}
		o = r.add("C02.b", "tpl-types", key+":verb+path-operands", en+": the route is registered under RouteMetadata.HttpVerb and controller path + route path, the same operands in the same order as the spec emitters (C01.c)", []string{eng.Routes.File}, sites, viol)
		o.NonTrivial = true

		// C02.c dispatch target
		viol = ""
		sites = nil
		full := ""
		for _, st := range body {
			switch n := st.(type) {
			case *hast.ContentStatement:
				full += n.Value
			case *hast.MustacheStatement:
				full += mustachePlaceholder(n)
			default:
				full += "\n;\n"
			}
		}
		// (`Name` inside the routes loop falls back to the controller's Name, `../Name` names it
		// directly: both spellings are checked below to resolve to ControllerMetadata.Name)
		ft := goToks(strings.ReplaceAll(full, "M____Name", "M_Name"))
		if tokSeqIndex(ft, "controller", ":=", "M_Name", ".", "M_Name", "{", "}") < 0 {
			viol = en + ": the handler does not instantiate `{{{Name}}}.{{../Name}}{}`"
		}
		nCall := 0
		for i := 0; i+3 < len(ft); i++ {
			if ft[i].Lit == "controller" && ft[i+1].Tok == token.PERIOD && ft[i+2].Lit == "M_OperationId" && ft[i+3].Tok == token.LPAREN {
				nCall++
			}
		}
		if nCall != 1 {
			viol = fmt.Sprintf("%s: expected exactly one `controller.{{{OperationId}}}(` call per handler, found %d", en, nCall)
		}
		nameReads := 0
		for _, rd := range eng.Reads {
			if rd.Tpl == "routes.hbs" && (rd.Path == "Name" || rd.Path == "../Name") && strings.Join(rd.Fields, ">") == "definitions.ControllerMetadata.Name" {
				nameReads++
				sites = append(sites, tplSite(eng.Routes, eng, rd.Line))
			}
			if rd.Tpl == "routes.hbs" && rd.Path == "OperationId" && strings.Join(rd.Fields, ">") != "definitions.RouteMetadata.OperationId" {
				viol = en + ": OperationId does not resolve to RouteMetadata.OperationId"
			}
		}
		if nameReads < 2 {
			viol = en + ": import alias / type name do not both resolve to ControllerMetadata.Name"
		}
		o = r.add("C02.c", "tpl-types", key+":dispatch-target", en+": the handler instantiates the route's own controller (alias and type = ControllerMetadata.Name) and calls its method RouteMetadata.OperationId exactly once", []string{eng.Routes.File}, sites, viol)
		o.NonTrivial = true

		// C02.d the verb method exists on the engine type
		if engTypes != nil {
			viol = ""
			sites = []string{tplSite(eng.Routes, eng, routes.Line)}
			// parameter type of RegisterRoutes
			recvName := ""
			rootSrc := ""
			for _, st := range eng.Routes.Prog.Body {
				if cs, ok := st.(*hast.ContentStatement); ok {
					rootSrc += cs.Value
				} else {
					rootSrc += "\n"
				}
			}
			rt := goToks(rootSrc)
			if i := tokSeqIndex(rt, "func", "RegisterRoutes", "(", "engine", "*"); i >= 0 && i+7 < len(rt) {
				recvName = rt[i+5].Lit + "." + rt[i+7].Lit
			}
			pkg := engTypes[engineImport[en]]
			var recvT types.Type
			if pkg != nil && strings.Contains(recvName, ".") {
				if obj := pkg.Scope().Lookup(strings.SplitN(recvName, ".", 2)[1]); obj != nil {
					recvT = types.NewPointer(obj.Type())
				}
			}
			if recvT == nil {
				viol = fmt.Sprintf("%s: cannot resolve the engine parameter type %q of RegisterRoutes", en, recvName)
			} else {
				for _, v := range supported {
					var method string
					switch verbTok {
					case "M_HttpVerb":
						method = v
					case "M_ToUpperCamel_HttpVerb":
						method = strings.ToUpper(v[:1]) + strings.ToLower(v[1:]) // strcase.ToCamel of an all-caps word
					case "HandleFunc":
						method = "HandleFunc"
					}
					obj, _, _ := types.LookupFieldOrMethod(recvT, true, pkg, method)
					if _, ok := obj.(*types.Func); !ok {
						viol = fmt.Sprintf("%s: %s has no method %s (verb %s is accepted by validation; the generated file would not compile)", en, recvName, method, v)
					}
				}
			}
			o = r.add("C02.d", "setagree", key+":verb-methods-exist", en+": for every verb validation accepts, the engine type has the method the template spells", []string{eng.Routes.File, engineImport[en]}, sites, viol)
			o.NonTrivial = true
		}

		// C02.e the URL helper collapses duplicate slashes like the spec's normaliser
		if fd := eng.Partials["FunctionDeclarations"]; fd != nil && urlFn != "" {
			gp, err := parseGoPartial(fd)
			if err != nil {
				r.undecided("C02.e", "slash-collapse", en+":"+urlFn, "", err.Error())
			} else if fn := gp.fn(urlFn); fn == nil {
				r.add("C02.e", "slash-collapse", en+":"+urlFn, "", nil, []string{fd.File + ":1"}, "func "+urlFn+" not found in function.declarations")
			} else {
				v := slashCollapse(fn.Body, func(cl *ast.CallExpr) string { return exprString(cl.Fun) }, nil)
				viol := ""
				pos := fn.Pos()
				if v.Pos.IsValid() {
					pos = v.Pos
				}
				switch {
				case v.Collapses:
				case v.SinglePass:
					viol = fmt.Sprintf("%s: %s: %s; the spec documents the fully collapsed path (common.RemoveDuplicateSlash), so controller `/x/` + route `//y` is documented as /x/y but registered as /x//y", gp.site(pos), urlFn, v.Why)
				default:
					viol = fmt.Sprintf("%s: %s does not collapse duplicate slashes at all: controller route `/users/` + method route `/list` is documented as /users/list but registered as /users//list", gp.site(pos), urlFn)
				}
				r.add("C02.e", "slash-collapse", en+":"+urlFn, en+": the registered path is normalised like the documented one (slash runs of any length collapse)", []string{fd.File + "#" + urlFn}, []string{gp.site(pos)}, viol)
				// nothing else is done to the path: the documented path (RemoveDuplicateSlash of
				// controller+route) keeps e.g. a trailing slash, so the registered one must too
				v2 := ""
				okCalls := map[string]bool{"urlParamRegex.ReplaceAllString": true, "strings.Contains": true, "strings.ReplaceAll": true, "strings.HasPrefix": true}
				ast.Inspect(fn.Body, func(n ast.Node) bool {
					if cl, ok := n.(*ast.CallExpr); ok {
						if nm := exprString(cl.Fun); !okCalls[nm] {
							v2 = fmt.Sprintf("%s: %s applies %s to the path: beyond translating {x} and collapsing `//` the registered path must be the documented one (a trimmed or cleaned path loses its trailing slash: the documented `/items/` then answers 404 or a redirect)", gp.site(cl.Pos()), urlFn, nm)
						}
					}
					return true
				})
				r.add("C02.e", "vocabulary", en+":"+urlFn+":nothing-else", en+": the URL helper only translates parameters, collapses slashes and roots the path", []string{fd.File + "#" + urlFn}, []string{gp.site(fn.Pos())}, v2)
			}
		}
	}
	// C02.f every URL-safe {name} the annotation grammar admits is rewritten by the engines
	checkUrlParamRegex(c, r, "C02.f")
	// C02.g the routes generator sees the route list validation accepted
	ruleNoIRMutation(c, r, "C02.g")
	checkContextPassThrough(c, r, "C02.g")
	// served minus documented = the @Hidden routes: what counts as hidden is decided in one place
	checkHiddenSemantics(c, r, "C02.g")
	// the routes the routers are generated from are collected by the visitors: same inventories as C01
	ruleSkipInventory(c, r, "C02.g", loadSkipTable(c.VerifDir), 6, "core/visitors", "core/metadata", "core/pipeline")
	ruleEarlyExitInventory(c, r, "C02.g", 10, "core/visitors", "core/metadata")

	// the spec side normaliser (shared with C01.c)
	ruleSlashCollapse(c, r, "C02.e", "common.RemoveDuplicateSlash", "the documented path collapses slash runs of any length")

	if tierThorough {
		witnessSameRegistrations(c, r, "C02.a")
	}
}

// checkContextPassThrough: the template context hands the flattened metadata to the
// templates as it is: no re-ordering, filtering or copying of controllers and routes
// (mux and fiber dispatch to the first matching registration, so registration order is
// behaviour; the spec generators iterate the same list).
func checkContextPassThrough(c *Ctx, r *Report, clause string) {
	w := c.W
	const gtc = "generator/routes.GetTemplateContext"
	fi := need(c, r, clause, gtc)
	if fi == nil {
		return
	}
	ctxT := w.lookupType("generator/routes", "RoutesContext")
	viol := ""
	var sites []string
	for _, f := range []struct{ field, src string }{{"Controllers", "core/pipeline.GleeceFlattenedMetadata.Flat"}, {"Models", "core/pipeline.GleeceFlattenedMetadata.Models"}, {"Imports", "core/pipeline.GleeceFlattenedMetadata.Imports"}} {
		sk := w.fieldSinks(fi, ctxT, f.field)
		if len(sk) != 1 {
			viol = fmt.Sprintf("expected one assignment of RoutesContext.%s, found %d", f.field, len(sk))
			continue
		}
		sites = append(sites, w.pos(sk[0].Pos))
		a := w.exprAtoms(fi, sk[0].Expr)
		if !a.Fields[f.src] || len(a.Calls) > 0 {
			viol = fmt.Sprintf("%s: RoutesContext.%s is not the pipeline's %s itself (%s): the routers would be generated from a re-ordered/filtered/copied list while the spec is generated from the original (route registration order decides dispatch on first-match routers)", w.pos(sk[0].Pos), f.field, f.src, a)
		}
	}
	r.add(clause, "fieldflow", gtc+":pass-through", "the routes templates see exactly the controllers, models and imports the pipeline produced, in its order", []string{gtc}, sites, viol)
}

// checkUrlParamRegex (shared by C02.f and C05.g): engines that translate {x} to :x accept
// every URL-safe parameter name inside the braces.
func checkUrlParamRegex(c *Ctx, r *Report, clause string) {
	// that need rewriting (gin/echo/fiber translate {x} to :x with urlParamRegex)
	for _, en := range c.T.Order {
		eng := c.T.Engines[en]
		fd := eng.Partials["FunctionDeclarations"]
		if fd == nil || !strings.Contains(fd.Src, "urlParamRegex.ReplaceAllString") {
			continue
		}
		src := eng.Routes.Src
		viol := ""
		site := eng.Routes.File + ":1"
		idx := strings.Index(src, "urlParamRegex = regexp.MustCompile(")
		if idx < 0 {
			viol = en + ": urlParamRegex is used by the URL helper but never compiled in routes.hbs"
		} else {
			site = fmt.Sprintf("%s:%d", eng.Routes.File, 1+strings.Count(src[:idx], "\n"))
			rest := src[idx+len("urlParamRegex = regexp.MustCompile("):]
			pat := ""
			if len(rest) > 0 && (rest[0] == '`' || rest[0] == '"') {
				if end := strings.IndexByte(rest[1:], rest[0]); end >= 0 {
					pat = rest[1 : 1+end]
				}
			}
			cls, ok := braceNameClass(pat)
			if !ok {
				viol = fmt.Sprintf("%s: cannot determine the {name} class of urlParamRegex %q", en, pat)
			} else {
				for _, ch := range []rune{'a', 'Z', '0', '_', '-'} {
					if !cls(ch) {
						viol = fmt.Sprintf("%s: urlParamRegex %q does not accept %q inside {…}: a route parameter such as {account-id} (admitted by the annotation grammar and by the link validator) is not rewritten to the engine's :param syntax, so the route is registered as a literal and never matches", site, pat, string(ch))
					}
				}
			}
		}
		o := r.add(clause, "setagree", en+":urlParamRegex⊇url-safe-names", en+": every URL-safe parameter name ([A-Za-z0-9_-]) is translated to the engine's parameter syntax", []string{eng.Routes.File + "#urlParamRegex"}, []string{site}, viol)
		o.NonTrivial = true
	}
}

// registrationReachability reads the Go skeleton of routes.hbs (the controllers loop replaced by
// a marker call) and answers "" when the marker is a top-level statement of RegisterRoutes' body,
// or of a function that RegisterRoutes' body calls as a top-level statement (transitively).
func registrationReachability(ts []gtok) string {
	type fnInfo struct {
		name     string
		topCalls map[string]bool // functions called as top-level statements of the body (no enclosing block/closure)
	}
	fns := map[string]*fnInfo{}
	var cur *fnInfo
	depth, bodyDepth := 0, -1
	paren := 0
	markerIn, markerDepth := "", -1
	returnsBefore := map[string]bool{}
	stmtStart := true
	for i := 0; i < len(ts); i++ {
		t := ts[i]
		switch t.Tok {
		case token.LBRACE:
			depth++
			stmtStart = true
			continue
		case token.RBRACE:
			depth--
			if cur != nil && depth < bodyDepth {
				cur, bodyDepth = nil, -1
			}
			stmtStart = true
			continue
		case token.LPAREN:
			paren++
		case token.RPAREN:
			paren--
		case token.SEMICOLON:
			stmtStart = true
			continue
		}
		if depth == 0 && t.Tok == token.FUNC && i+2 < len(ts) && ts[i+1].Tok == token.IDENT && ts[i+2].Tok == token.LPAREN {
			cur = &fnInfo{name: ts[i+1].Lit, topCalls: map[string]bool{}}
			fns[cur.name] = cur
			bodyDepth = 1
		}
		if t.Tok == token.RETURN && cur != nil && markerIn == "" {
			returnsBefore[cur.name] = true
		}
		if t.Tok == token.IDENT && i+1 < len(ts) && ts[i+1].Tok == token.LPAREN && cur != nil {
			if t.Lit == "__CONTROLLERS_LOOP__" {
				markerIn, markerDepth = cur.name, depth-bodyDepth
				if paren > 0 {
					markerDepth = 99
				}
			} else if depth == bodyDepth && paren == 0 && stmtStart {
				cur.topCalls[t.Lit] = true
			}
		}
		stmtStart = false
	}
	if markerIn == "" {
		return "the controllers loop is not inside any function of routes.hbs"
	}
	if returnsBefore[markerIn] {
		return markerIn + " can return before it reaches the controllers loop: the routes are registered only on some calls"
	}
	if markerDepth != 0 {
		return "the controllers loop is nested inside a block or closure of " + markerIn + ": the routes are registered only when that block runs"
	}
	// reach markerIn from RegisterRoutes through top-level calls
	seen := map[string]bool{}
	work := []string{"RegisterRoutes"}
	for len(work) > 0 {
		n := work[len(work)-1]
		work = work[:len(work)-1]
		if seen[n] {
			continue
		}
		seen[n] = true
		if n == markerIn {
			return ""
		}
		if f := fns[n]; f != nil {
			for c := range f.topCalls {
				work = append(work, c)
			}
		}
	}
	return "the controllers loop is in " + markerIn + ", which RegisterRoutes(engine) does not call as an unconditional statement of its body: a call of RegisterRoutes may register nothing on the engine it is given"
}

// goToksStmts tokenises like goToks but keeps the statement separators Go inserts at line ends.
func goToksStmts(src string) []gtok {
	var sc scanner.Scanner
	fset := token.NewFileSet()
	f := fset.AddFile("", fset.Base(), len(src))
	sc.Init(f, []byte(src), func(token.Position, string) {}, 0)
	var out []gtok
	for {
		_, tok, lit := sc.Scan()
		if tok == token.EOF {
			break
		}
		out = append(out, gtok{tok, lit})
	}
	return out
}
